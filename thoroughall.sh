#!/bin/bash
# thoroughall.sh: run every registered check once in the thorough tier (development aid; hours)
cd /verif
for p in $(python3 -c "from props import PROPS; print(' '.join(sorted(PROPS)))"); do
  /usr/bin/time -f "%es" ./check.py $p --tier thorough 2>&1 | grep -v "^KNOWN-FINDING" | tail -3 | sed "s/^/[thorough] /"
done
