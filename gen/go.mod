module vgen

go 1.23
