// vgen — translator for C11: reads the Go source of movio/bramble and regenerates coq/Gen/RefreshFacts.v, the facts about
// the locking protocol of ExecutableSchema that Model/Refresh.v assumes: which statements write and read the four published
// tables and the service map, and whether they sit inside mutex.Lock / mutex.RLock.  Standard library only.
package main

import (
	"flag"
	"fmt"
	"go/ast"
	"go/parser"
	"go/token"
	"os"
	"path/filepath"
	"sort"
	"strings"
)

var tables = map[string]bool{"Locations": true, "IsBoundary": true, "MergedSchema": true, "BoundaryQueries": true}

type mcall struct {
	fn, site, callee, lock string
}

type access struct {
	fn, site, field string
	write           bool
	lock            string // "", "R", "W"
	section         string // where the enclosing Lock()/RLock() call is ("" outside the lock)
}

func main() {
	repo := flag.String("repo", "/repo", "repository root")
	out := flag.String("out", "", "output .v file")
	flag.Parse()
	fset := token.NewFileSet()
	files, _ := filepath.Glob(filepath.Join(*repo, "*.go"))
	sort.Strings(files)
	var accs []access
	var leaks []string
	var calls []mcall              // calls of a method of the receiver, with the lock state at the call
	takesLock := map[string]bool{} // methods that call mutex.Lock / mutex.RLock themselves
	for _, f := range files {
		base := filepath.Base(f)
		if strings.HasSuffix(base, "_test.go") || strings.HasPrefix(base, "verif_") {
			continue
		}
		af, err := parser.ParseFile(fset, f, nil, 0)
		if err != nil {
			fmt.Fprintln(os.Stderr, err)
			os.Exit(1)
		}
		for _, d := range af.Decls {
			fd, ok := d.(*ast.FuncDecl)
			if !ok || fd.Body == nil || fd.Recv == nil || len(fd.Recv.List) == 0 {
				continue
			}
			// methods of *ExecutableSchema only
			rt := fd.Recv.List[0].Type
			if st, ok := rt.(*ast.StarExpr); ok {
				rt = st.X
			}
			if id, ok := rt.(*ast.Ident); !ok || id.Name != "ExecutableSchema" {
				continue
			}
			recv := ""
			if len(fd.Recv.List[0].Names) > 0 {
				recv = fd.Recv.List[0].Names[0].Name
			}
			lock := ""
			section := ""
			deferred := false // a deferred Unlock/RUnlock is pending: every return path releases
			lhs := map[ast.Expr]bool{}
			ast.Inspect(fd.Body, func(n ast.Node) bool {
				switch x := n.(type) {
				case *ast.DeferStmt:
					if sel, ok := x.Call.Fun.(*ast.SelectorExpr); ok && (sel.Sel.Name == "Unlock" || sel.Sel.Name == "RUnlock") {
						if inner, ok := sel.X.(*ast.SelectorExpr); ok && inner.Sel.Name == "mutex" {
							deferred = true
						}
					}
					return false // a deferred unlock runs at function exit
				case *ast.FuncLit:
					return false // a closure's returns are not the method's
				case *ast.ReturnStmt:
					if lock != "" && !deferred {
						p := fset.Position(x.Pos())
						leaks = append(leaks, "\""+fmt.Sprintf("%s:%d", filepath.Base(p.Filename), p.Line)+" "+fd.Name.Name+" returns holding the lock\"")
					}
				case *ast.CallExpr:
					if sel, ok := x.Fun.(*ast.SelectorExpr); ok {
						if inner, ok := sel.X.(*ast.SelectorExpr); ok && inner.Sel.Name == "mutex" {
							if id, ok := inner.X.(*ast.Ident); ok && id.Name == recv {
								switch sel.Sel.Name {
								case "Lock":
									lock = "W"
									takesLock[fd.Name.Name] = true
									lp := fset.Position(x.Pos())
									section = fmt.Sprintf("%s:%d %s", filepath.Base(lp.Filename), lp.Line, fd.Name.Name)
								case "RLock":
									lock = "R"
									takesLock[fd.Name.Name] = true
									lp := fset.Position(x.Pos())
									section = fmt.Sprintf("%s:%d %s", filepath.Base(lp.Filename), lp.Line, fd.Name.Name)
								case "Unlock", "RUnlock":
									lock = ""
									section = ""
								}
							}
						}
					}
					if sel, ok := x.Fun.(*ast.SelectorExpr); ok {
						if id, ok := sel.X.(*ast.Ident); ok && id.Name == recv && recv != "" {
							p := fset.Position(x.Pos())
							calls = append(calls, mcall{fn: fd.Name.Name, site: fmt.Sprintf("%s:%d", filepath.Base(p.Filename), p.Line), callee: sel.Sel.Name, lock: lock})
						}
					}
				case *ast.AssignStmt:
					for _, l := range x.Lhs {
						lhs[l] = true
					}
				case *ast.SelectorExpr:
					if id, ok := x.X.(*ast.Ident); ok && id.Name == recv && (tables[x.Sel.Name] || x.Sel.Name == "Services") {
						p := fset.Position(x.Pos())
						accs = append(accs, access{fn: fd.Name.Name, site: fmt.Sprintf("%s:%d", filepath.Base(p.Filename), p.Line), field: x.Sel.Name, write: lhs[x], lock: lock, section: section})
					}
				}
				return true
			})
		}
	}
	// a method takes the lock if it does so itself or calls one that does (sync.RWMutex is not reentrant: taking the read
	// lock again while holding it deadlocks as soon as a writer is queued in between)
	for changed := true; changed; {
		changed = false
		for _, c := range calls {
			if takesLock[c.callee] && !takesLock[c.fn] {
				takesLock[c.fn], changed = true, true
			}
		}
	}
	var relock []string
	for _, c := range calls {
		if c.lock != "" && takesLock[c.callee] {
			relock = append(relock, "\""+c.site+" "+c.fn+" calls "+c.callee+" holding the "+map[string]string{"R": "read", "W": "write"}[c.lock]+" lock\"")
		}
	}
	q := func(s string) string { return "\"" + s + "\"" }
	b := func(v bool) string {
		if v {
			return "true"
		}
		return "false"
	}
	var tw, tre, tro, sw, sr, tws []string
	for _, a := range accs {
		switch {
		case tables[a.field] && a.write:
			tws = append(tws, q(a.section))
			tw = append(tw, fmt.Sprintf("(%s, %s)", q(a.site+" "+a.fn+" "+a.field), b(a.lock == "W")))
		case tables[a.field] && a.fn == "ExecuteQuery":
			tre = append(tre, fmt.Sprintf("(%s, %s)", q(a.site+" "+a.field), b(a.lock == "R" || a.lock == "W")))
		case tables[a.field]:
			tro = append(tro, fmt.Sprintf("(%s, %s)", q(a.site+" "+a.fn+" "+a.field), b(a.lock != "")))
		case a.write:
			sw = append(sw, fmt.Sprintf("(%s, %s)", q(a.site+" "+a.fn), b(a.lock == "W")))
		default:
			sr = append(sr, fmt.Sprintf("(%s, %s)", q(a.site+" "+a.fn), b(a.lock != "")))
		}
	}
	l := func(xs []string) string { return "[" + strings.Join(xs, ";\n   ") + "]" }
	text := "(* Gen/RefreshFacts.v — GENERATED by /verif/gen (vgen) from /repo's Go source on every run; do not edit.\n" +
		"   Every access of a method of *ExecutableSchema to the four published tables and to the service map, with whether it\n" +
		"   sits inside s.mutex.Lock (writes) or s.mutex.RLock/Lock (reads), in source order. *)\n" +
		"From Coq Require Import List String Bool.\nImport ListNotations.\nOpen Scope string_scope.\n\n" +
		"Definition table_writes : list (string * bool) :=\n  " + l(tw) + ".\n" +
		"(* the critical section (position of its Lock call) each of these writes sits in *)\n" +
		"Definition table_write_sections : list string :=\n  " + l(tws) + ".\n" +
		"Definition table_reads_in_execute : list (string * bool) :=\n  " + l(tre) + ".\n" +
		"Definition table_reads_elsewhere : list (string * bool) :=\n  " + l(tro) + ".\n" +
		"Definition service_map_writes : list (string * bool) :=\n  " + l(sw) + ".\n" +
		"Definition service_map_reads : list (string * bool) :=\n  " + l(sr) + ".\n" +
		"(* calls, made while the mutex is held, of methods that take the mutex themselves (directly or through other methods) *)\n" +
		"Definition reentrant_lock_sites : list string :=\n  " + l(relock) + ".\n" +
		"(* return statements reached with the mutex held and no deferred unlock pending *)\n" +
		"Definition returns_holding_lock : list string :=\n  " + l(leaks) + ".\n"
	if *out == "" {
		fmt.Print(text)
		return
	}
	if old, err := os.ReadFile(*out); err == nil && string(old) == text {
		return
	}
	if err := os.WriteFile(*out, []byte(text), 0o644); err != nil {
		fmt.Fprintln(os.Stderr, err)
		os.Exit(1)
	}
}
