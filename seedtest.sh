#!/bin/bash
# seedtest.sh <seeded-dir> <prop>...: apply a seeded change to /repo, run the named checks, undo it.
d=$1; shift
cd /verif
git -C /repo status --short | grep -v '^??' && { echo "repo dirty"; exit 2; }
git -C /repo apply $(realpath $d)/patch.diff || { echo "patch does not apply"; exit 2; }
for p in "$@"; do
  ./check.py $p --tier quick 2>&1 | grep -v "^KNOWN-FINDING" | sed "s/^/[seeded $(basename $d)] /"
done
git -C /repo checkout -- .
git -C /repo status --short | grep -v '^??'
