#!/bin/bash
# seedall.sh: re-run every seeded change against the checks that are recorded to detect it (regression of detection power)
cd /verif
for d in seeded/*/; do
  id=$(basename $d)
  [ -f $d/meta.json ] || { echo "$id: no meta.json"; continue; }
  props=$(python3 -c "
import json,sys
m=json.load(open('$d/meta.json'))
ks=[k for k,v in m.get('detected_by',{}).items() if 'VIOLATION' in v or 'violation' in v.lower() or 'detected' in v.lower()]
print(' '.join(ks) if ks else m.get('breaks_property',''))")
  out=$(./seedtest.sh $d $props 2>&1)
  if echo "$out" | grep -q "VIOLATION"; then echo "$id: detected ($(echo "$out" | grep -c VIOLATION) violation lines; $props)"; else echo "$id: NOT DETECTED by $props"; echo "$out" | grep "quick:" ; fi
done
git -C /repo status --short | grep -v '^??'
