#!/usr/bin/env python3
"""Writes MANIFEST.json from props.py (single source of truth for what is claimed)."""
import json, os, sys
sys.path.insert(0, os.path.dirname(os.path.abspath(__file__)))
from props import PROPS, NOT_APPLICABLE, META

checks = []
for pid in sorted(PROPS):
    m = META[pid]
    checks.append({
        "property_id": pid,
        "quick_cmd": "./check.py %s --tier quick" % pid,
        "thorough_cmd": "./check.py %s --tier thorough" % pid,
        "evidence_file": "evidence/%s.json" % pid,
        "replay_cmd_template": "./check.py replay {path}",
        "engine": "coq-model+correspondence",
        "level_claimed": {"category": "proof", "text": m["text"], "design_ref": m.get("design_ref", "DESIGN.md §6 " + pid)},
        "level_note": m["note"],
        "technique": m["technique"],
    })
manifest = {
    "version": 1,
    "setup_cmd": "./check.py setup",
    "hooks": {
        "guard": "verif",
        "enable": "go build -tags verif (the harness module replaces github.com/movio/bramble by /repo)",
        "baseline_off_cmd": "cd /repo && go test -vet=off -count=1 -timeout 25m ./...",
        "source_commits": META.get("_hook_commits", []),
        "add_only": True,
    },
    "engines": [{
        "name": "coq-model+correspondence", "path": "check.py",
        "serves_properties": sorted(PROPS),
        "kind_free_text": "Rocq/Coq 8.16.1 theorems over a hand-written executable Gallina model (coq/), tied to /repo on every run by a Go harness (harness/) that runs the real code and a coqc pass that evaluates the model on the same inputs; translator gen.py regenerates coq/Gen/*.v from /repo",
    }],
    "checks": checks,
    "not_applicable": NOT_APPLICABLE,
    "notes": "All checks rebuild the harness from /repo's working tree. known_findings.json lists genuine defects recorded rather than repaired. See DESIGN.md.",
}
json.dump(manifest, open(os.path.join(os.path.dirname(os.path.abspath(__file__)), "MANIFEST.json"), "w"), indent=1)
print("wrote MANIFEST.json with", len(checks), "checks;", len(NOT_APPLICABLE), "not applicable")
