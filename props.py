"""Per-property configuration for check.py (what to run, how many cases, what is partial)."""

PROPS = {
    "C18": {
        "harness": [{"name": "c18"}, {"name": "c18view", "share": 0.5}],
        "n_quick": 400, "n_thorough": 20000,
        "known_for": ["C18"],
        "partial": "third clause: only the direction view -> selectable is a theorem (C18_view_sound_partial); the converse is refuted by C18_view_complete_refuted (known finding KF-view-fragment-only-type) and checked case by case outside that finding's guard",
        "assumptions": [
            "the gateway's merged schema names its roots Query/Mutation/Subscription (merge.go; validate.go rejects renamed roots)",
            "encoding/json drives AllowedFields.UnmarshalJSON as modelled (decode over the existing value; fresh zero value per map element)",
            "a Go map value satisfies wf (unique keys); the harness hands trees to Coq with keys sorted",
        ],
    },
    "C01": {
        "harness": [{"name": "c01"}],
        "n_quick": 240, "n_thorough": 6000,
        "known_for": ["C01", "C04", "C06", "C15", "C14", "C03", "C05"],
        "scope_guards": ["C01_transparency composition theorem not yet proved for any fragment of the language; proved for every input: plan_sub (no field invented); refuted: 5 witnesses"],
        "assumptions": ["downstream services are spec-conformant executors over their own schema (simulators, checked against Gql/RefExec.v per request)",
                        "gqlparser's validation of client queries is taken as given (only validated operations are emitted)"],
    },
    "C04": {
        "harness": [{"name": "c04"}],
        "n_quick": 240, "n_thorough": 6000,
        "known_for": ["C01", "C04", "C06", "C15", "C14", "C03", "C05"],
        "assumptions": ["validity of a received document is judged by gqlparser's validator at the simulator (direct oracle) and by valid_doc in the model"],
    },
    "C02": {
        "harness": [{"name": "c02"}],
        "n_quick": 240, "n_thorough": 6000, "known_for": ["C01", "C04", "C06", "C15", "C14", "C03", "C05"],
        "assumptions": ["downstream services are spec-conformant executors over their own schema (simulators, checked against Gql/RefExec.v per request)",
                        "gqlparser's validation of client queries is taken as given (only validated operations are emitted)"],
        "partial": "panic recovery at the HTTP layer is gqlgen's; real timeouts are simulated by a transport returning a net.Error with Timeout()=true",
    },
    "C03": {
        "harness": [{"name": "c03"}],
        "n_quick": 240, "n_thorough": 6000, "known_for": ["C01", "C04", "C06", "C15", "C14", "C03", "C05"],
        "assumptions": ["downstream services are spec-conformant executors over their own schema (simulators, checked against Gql/RefExec.v per request)",
                        "gqlparser's validation of client queries is taken as given (only validated operations are emitted)"],
    },
    "C05": {
        "harness": [{"name": "c05"}],
        "n_quick": 240, "n_thorough": 6000, "known_for": ["C01", "C04", "C06", "C15", "C14", "C03", "C05"],
        "assumptions": ["downstream services are spec-conformant executors over their own schema (simulators, checked against Gql/RefExec.v per request)",
                        "gqlparser's validation of client queries is taken as given (only validated operations are emitted)"],
    },
    "C15": {
        "harness": [{"name": "c15"}],
        "n_quick": 240, "n_thorough": 6000, "known_for": ["C01", "C04", "C06", "C15", "C14", "C03", "C05"],
        "assumptions": ["downstream services are spec-conformant executors over their own schema (simulators, checked against Gql/RefExec.v per request)",
                        "gqlparser's validation of client queries is taken as given (only validated operations are emitted)"],
    },
    "C16": {
        "harness": [{"name": "c16"}],
        "n_quick": 240, "n_thorough": 6000, "known_for": ["C01", "C04", "C06", "C15", "C14", "C03", "C05"],
        "assumptions": ["downstream services are spec-conformant executors over their own schema (simulators, checked against Gql/RefExec.v per request)",
                        "gqlparser's validation of client queries is taken as given (only validated operations are emitted)"] + ["the simulators count a mutation's side effects when (and only when) the request is executed"],
    },
    "C06": {
        "harness": [{"name": "c06"}],
        "n_quick": 140, "n_thorough": 1500, "known_for": ["C01", "C04", "C06", "C15", "C14", "C03", "C05"],
        "assumptions": ["downstream services are spec-conformant executors over their own schema (simulators, checked against Gql/RefExec.v per request)",
                        "gqlparser's validation of client queries is taken as given (only validated operations are emitted)"] + ["the Go scheduler between 'response read' and 'result sent' is not controlled by the harness; the transition system covers those interleavings"],
        "partial": "only response-completion order is forced by the harness (gating transport with a settle window); the merge-order theorems take the independence of causally unrelated results as a hypothesis about the planner, which the recorded finding KF-key-clash-across-types refutes for one query shape; the ghost ids of the transition system and the result records of the merge model are related by convention, not by a theorem",
    },
    "C13": {
        "harness": [{"name": "c13"}],
        "n_quick": 150, "n_thorough": 3000, "known_for": ["C01", "C04", "C06", "C15", "C14", "C03", "C05"],
        "assumptions": ["downstream services are spec-conformant executors over their own schema (simulators, checked against Gql/RefExec.v per request)",
                        "gqlparser's validation of client queries is taken as given (only validated operations are emitted)"] + ["goroutines are identified by a github.com/movio/bramble frame on their stack; net/http connection and body lifetimes are not observed"],
        "partial": "client cancellation is exercised by the harness only (the transition system has no cancel label); termination and deadlock freedom are theorems about the transition system, whose tie to execution.go is the acceptance of observed schedules and the goroutine census",
    },
    "C10": {
        "harness": [{"name": "c10"}],
        "n_quick": 200, "n_thorough": 4000,
        "assumptions": ["the harness's schema texts are classified by construction (valid / syntax error / rule violation / conflicting); MergeSchemas is abstracted as 'fails on no schema and on two conflicting versions' in the correspondence, and is an arbitrary parameter in the theorem",
                        "which (service, version) is published is read from marker fields of MergedSchema and cross-checked against Locations, IsBoundary and BoundaryQueries"],
    },
    "C19": {
        "harness": [{"name": "c19"}],
        "n_quick": 300, "n_thorough": 6000,
        "assumptions": ["golang-jwt's parser, base64/JSON decoding, RSA verification and the clock are oracles of the model (the harness states what they report for each constructed token); jwt.TimeFunc is pinned"],
        "partial": "the cryptographic validity of a token is an oracle, not modelled",
    },
    "C20": {
        "harness": [{"name": "c20"}],
        "n_quick": 150, "n_thorough": 3000,
        "assumptions": ["reloads are triggered synchronously through the build-tagged VerifReload wrapper; fsnotify delivery is not modelled",
                        "a fresh start is GetConfig on the same file with a new JWT plugin instance in the same process"],
        "partial": "only the service list, the JWT role table and key ids, and the poll interval are modelled among the reloadable settings",
    },
    "C14": {
        "harness": [{"name": "c14"}],
        "n_quick": 240, "n_thorough": 6000, "known_for": ["C01", "C04", "C06", "C15", "C14", "C03", "C05"],
        "assumptions": ["downstream services are spec-conformant executors over their own schema (simulators, checked against Gql/RefExec.v per request)",
                        "gqlparser's validation of client queries is taken as given (only validated operations are emitted)"] + ["strconv.IsPrint is an oracle: bytes >= 0x80 are assumed to belong to printable runes (the harness only uses such runes)"],
    },
    "C07": {
        "harness": [{"name": "c07"}],
        "n_quick": 150, "n_thorough": 3000,
        "assumptions": ["the federation generator's output is checked with ValidateSchema/LoadSchema before use; a rejected draw is counted, never reported",
                        "built-in types and the standard scalars are left out of the model's schemas"],
        "partial": "Implements/PossibleTypes recomputation is compared through the order-free schema signature on the Go side, not modelled in Coq",
    },
    "C09": {
        "harness": [{"name": "c09"}],
        "n_quick": 240, "n_thorough": 6000,
        "known_for": ["C09"],
        "assumptions": ["gqlparser's LoadSchema decides which mutated schemas are GraphQL at all (others are skipped and counted)",
                        "'stays valid once the plumbing is removed' is an oracle flag recomputed by the harness with MergeSchemas + formatter + LoadSchema, independently of ValidateSchema",
                        "built-in types and the standard scalars are left out of the model's schemas"],
        "partial": "'conforming => accepted' is decided per generated case (no formal grammar of the documented syntax); 'accepted => no planning or lookup error' is a theorem only up to the lookup table (C09_accepted_has_lookup_entries) and is otherwise exercised by serving accepted federations with random valid queries",
    },
    "C11": {
        "harness": [{"name": "c11"}],
        "n_quick": 60, "n_thorough": 1500, "known_for": ["C11"],
        "race": True,
        "assumptions": ["sync.RWMutex behaves as the model's lock (a writer excludes readers and waits for them; readers share)",
                        "the translator gen/main.go reads lock scopes lexically (Lock ... Unlock within one function body, defers run at exit)",
                        "'old' and 'new' answers are those of fresh gateway instances of either generation over the same data"],
        "partial": "data-race freedom is decided only in the thorough tier, by running this harness under the race detector (not a theorem); absence of deadlock is observed (timeouts), not proved; the Go scheduler is not controlled beyond slowed polls and requests parked in InterceptRequest",
    },
    "C12": {
        "harness": [{"name": "c12"}],
        "n_quick": 120, "n_thorough": 3000, "known_for": ["C01", "C04", "C06", "C15", "C14", "C03", "C05"],
        "race": True,
        "assumptions": ["downstream services are spec-conformant executors over their own schema (simulators, checked against Gql/RefExec.v per request)",
                        "'alone' means: served by a fresh gateway instance over the same schema and data",
                        "downstream calls are attributed to client requests by a forwarded header unique to each request; the order of plumbing fragments, lookup aliases and ids within a lookup (Go map iteration) is not compared"],
        "partial": "the frame theorem assumes that each request's in-place rewrites stay inside its own deep copy; that bramble's rewrites do is not proved (Go pointer aliasing is not modelled) but exercised: sequential and concurrent batches on one instance, with and without a parsed-query cache, thorough tier under the race detector. The Go scheduler's interleavings inside one request are not controlled.",
    },
    "C17": {
        "harness": [{"name": "c17"}],
        "n_quick": 60, "n_thorough": 1500,
        "known_for": ["C17"],
        "assumptions": ["the standard introspection query of graphql-js (FullType/InputValue/TypeRef, seven levels of ofType, includeDeprecated: true) stands for 'the schema a client reconstructs'",
                        "lists whose order comes from Go map iteration (types, directives, possibleTypes) are sorted by name on both sides before comparison",
                        "'accepts exactly the queries the gateway accepts' is decided through equality of the reconstructed schema with the permitted part of the merged schema (C18's Selectable), not by enumerating queries"],
        "partial": "equality of the reconstructed schema with the permitted part under permissions is decided per case (theorem: fields listed are selectable; the converse is refuted by the view findings); other query shapes (__type by name, aliases, includeDeprecated by literal and variable) are compared with projections of the standard answer by the harness, not modelled",
    },
    "C08": {
        "harness": [{"name": "c08"}],
        "n_quick": 150, "n_thorough": 3000,
        "assumptions": ["poll completion order is forced with per-service delays in the scripted transport (two orders per case)"],
        "partial": "permutation invariance of the left fold is established per case by enumerating all n! orders (n <= 4), not by a theorem",
    },
}

# ---- manifest texts ------------------------------------------------------------------------------------
META = {
    "_hook_commits": ["f6c346a"],
    "C18": {
        "text": "Theorems C18_roundtrip and C18_union (all permission trees with unique keys, all finite families, all paths; structural induction, no bound) over the Gallina model of auth.go's MarshalJSON/UnmarshalJSON/MergeAllowedFields, and C18_view_sound_partial (every field of every type in the view FilterSchema builds is selectable by a query that filtering leaves intact; all schemas, permission sets and fuel; induction on fuel over an open-recursion model of filterDefinition with its shared types map and per-subtree visited set); the converse is refuted by a vm_compute witness (C18_view_complete_refuted); the model is tied to /repo on every run by evaluating it on random trees, JSON inputs (incl. malformed) and families and comparing with what the real exported API returned; the property is also evaluated directly on the observed outputs.",
        "note": "Trusted: Coq kernel + vm_compute; the hand model's reading of encoding/json's decode-over-existing-value; the Go harness and driver. No axioms. Third clause: Model/View.v is tied to auth.go by running FilterSchema on merged schemas x random permission trees (corr.view) and the observed view is judged against the computed Selectable set in both directions.",
        "technique": "Coq proof (nested induction on permission trees) + differential correspondence check model vs exported Go API",
    },
    "C01": {
        "text": "Gallina model of the whole request path (skip/include rewrite, permission filter, planner, step execution, result merge, null propagation, response writer: coq/Model/*.v) composed as Model/Gateway.v and compared with a reference executor written from the GraphQL spec (Gql/RefExec.v). Proved for every schema/table/selection: plan_sub (the planner invents no field). The full transparency statement is refuted by five vm_compute witnesses (kept in Properties/C01.v), each a recorded known finding. On every run the model is tied to /repo: random federated queries run through the real gateway over simulated services; the model must reproduce every downstream request and the response bytes, the simulators must equal RefExec, and the gateway's data must equal RefExec on the merged schema outside the recorded defect guards.",
        "note": "Trusted: Coq kernel+vm_compute, the hand model, RefExec as the reading of the GraphQL spec, harness/driver. Services assumed spec-conformant; gqlparser validation taken as given. Composition theorem (transparency under guards) not yet proved: the universally quantified part is plan_sub; the rest of the claim rests on the checked correspondence + direct oracle.",
        "technique": "Coq model + stage theorem (structural induction) + refutation witnesses; differential correspondence model vs real gateway; RefExec oracle",
    },
    "C04": {
        "text": "Theorems C04_only_client_fields (every field of every step at any depth is a client field or helper-aliased plumbing; all schemas, tables, selections) and two refutations of validity against the receiving schema on published federations (C04_refuted_shared_remote_abstract, C04_refuted_foreign_abstract_condition; known findings). Tie: every downstream document observed from the real gateway is validated with gqlparser against the receiving service's own schema, operation type and keyword are checked, ids are checked duplicate-free and to have been named, for that type, by an earlier reply, every requested field name must be one the client selected and @skip/@include left in, and the multiset of requests must equal the model's. C04_ids_never_repeated: every request of the whole gateway model carries duplicate-free ids (batches included), for every world and operation.",
        "note": "valid_doc is my subset of GraphQL validation (field existence, leaf/composite shape, fragment conditions); the simulator's verdict comes from gqlparser itself. Ownership (plan_owned) not yet a theorem.",
        "technique": "Coq stage theorem + refutation witness; correspondence of request multisets; gqlparser validation at the simulators",
    },
    "C02": {
        "text": "Model of result merging, null propagation (as repaired by fix commits 17e5b21, 694d7a8, c3464ca) and the response writer (Model/MergeRes.v, Shape.v) inside the gateway model; proved for all inputs so far: step failures always become error entries naming the service, and the planner fabricates no field. Tie + direct oracle on every run: random queries under injected faults (status, transport, timeout, oversize, bad JSON, errors with null/partial data, on single requests, lookup types, whole services, everything at once) and non-conforming data; the response must be reproduced exactly by the model, and a schema- and query-directed validator written from the GraphQL spec (valid_obj: exactly the requested keys, once, in order; no helper keys; no null at a non-null position) must accept the observed data. Also proved at the level of the whole gateway model: C02_always_answers (for every generation, world, fault assignment, operation and permission set a response is produced) and C02_no_data_means_error.",
        "note": "S-bubble (no non-null null for every input) is not yet a theorem; it is decided per case by valid_obj on observed data and by the correspondence with the model. Known findings of the response shaper (duplicate keys, emptied selections) are attributed by their guards.",
        "technique": "Coq model + invariant proofs on the execution skeleton; differential correspondence under fault injection; spec-derived response validator evaluated in Coq on observed responses",
    },
    "C03": {
        "text": "Theorems C03_filter_sound (every field surviving filterFields lies on an allowed path; all trees, all selections), C03_walk_is_spec (the walk equals the documented allows relation) and plan_sub (nothing but surviving fields is requested downstream). Tie + oracles: the permission-filtered schema the code built for each request is compared with the model of FilterSchema (Model/View.v) on the merged schema (corr.view); directed two-path trees (one type on a narrow direct path and on a wide abstract path); random permission trees (allow-all, list, nested, documented empty-leaf forms, abstract types) x random queries through the real gateway; the model must reproduce requests/response/errors; the observed response must be valid for the independently filtered query, every (type, field) requested downstream must occur in the filtered query (or be id/__typename plumbing), the number of 'access disallowed' errors must equal the number of removed fields, and the data must equal the reference executor on the filtered query. C03_filter_is_the_specification: the model of filterFields returns exactly the selection and exactly the reported paths of Model/PermSpec.v, a specification written from the documentation with path membership alone (which the oracle of this check also uses).",
        "note": "FilterSchema is taken from the real code (the filtered schema is an input of the model); its agreement with filterFields is C18/C17 territory. Completeness of the filter (allowed implies kept) not yet a theorem.",
        "technique": "Coq stage theorems (structural induction over selection and permission trees) + differential correspondence + independent spec filter as oracle",
    },
    "C05": {
        "text": "Theorems C05_named_root / C05_named_lookup (every recorded step failure names its service; invariant over the execution skeleton for all plans, worlds, fault assignments). Tie + oracles: every faulty run is paired with the fault-free run of the same request: the faulty data must be the fault-free data with subtrees replaced by null, a difference must be accompanied by an error, every service-failure error must carry the service identity, and when every request to a service fails hard the data must equal the reference executor with that service's fields raising errors. C05_every_downstream_error_names_its_service lifts the per-step theorems to the whole gateway model. Merge theorems (Proofs/MergeConfine.v): C05_one_result_writes_only_its_keys (a lookup result merged into any tree at any insertion point changes it only under the response keys its items carry) and C05_lost_lookups_only_remove_their_fields_partial (an execution in which some lookup results are missing merges successfully whenever the fault-free one does, and its merged data differs only under the keys the lost results carry; independence hypothesis of C06; before null propagation and shaping).",
        "note": "Containment of the nulled positions to fields owned by the failing service is decided through the whole-service oracle and the model correspondence, not by a separate theorem yet.",
        "technique": "Coq invariant proof + paired fault-free/faulty differential runs + reference executor with failing owners",
    },
    "C15": {
        "text": "Theorems C15_node_kept_iff_enabled (a node is kept iff no true @skip and no false @include; kept nodes are unchanged except for the two directives), C15_directives_stripped (no such directive remains at any depth) and C15_not_requested (plan_sub). Tie + oracles: random placements and conditions (literal, variable, both on one node, on fragments and spreads) through the real gateway; data must equal the reference executor, which evaluates the directives by the spec; no downstream document may carry a directive; each sub-request must declare and send exactly the variables it uses.",
        "note": "The 'everything below a field skipped yields {}' clause is false of the code (known finding KF-emptied-selection).",
        "technique": "Coq stage theorems + differential correspondence + reference executor",
    },
    "C16": {
        "text": "Theorems C16_root_field_once (a root field with an owner is routed to exactly one service, its owner, for every set of distinct services) and C16_no_invented_field. Tie + oracles: random mutation documents (several root fields over several services, namespaced mutations, fragments on Mutation, results extended by other services) with faults on the mutation and on follow-ups; the simulators count side effects: per service the effects must be exactly the client's fields in the client's order (at most once under faults), mutation requests carry operationType=mutation, every other request is a query lookup, no service receives an effect it does not own; model correspondence on requests and response. C16_operation_types: in the whole gateway model every entity lookup is a query and a root request is a mutation exactly when its parent type is Mutation.",
        "note": "No-retry is argued from the model's exec skeleton visiting each step once and confirmed by effect counts under faults; causality (lookups after the mutation's reply) is by construction of executeRootStep and observed via request order.",
        "technique": "Coq routing theorem + side-effect counting simulators + differential correspondence",
    },
    "C06": {
        "text": "Theorems: C06_results_causally_ordered (in the transition system of Execute — main, collector, one goroutine per step, unbuffered channel, error group, atomic counter — EVERY interleaving yields a results list in which a step's result comes after its spawner's); C06_response_independent_of_arrival_order (the model of mergeExecutionResults followed by null propagation and the response writer, for ANY plan: results of root steps and of lookups in one list, any two arrival orders that begin with a root result and whose inverted pairs are independent: both merges succeed together, give the same Go value, the same null-propagation errors and the same response; by commutation of two lookups, of two root results (mergeMaps, no hypothesis beyond well-formedness) and of a root result with a lookup, for every destination tree; congruence of the merge w.r.t. equality of Go values; an induction showing any two such orders are related by adjacent swaps; the null pass and the writer read maps by lookup and json.Marshal writes keys in byte order) with C06_shaped_is_the_gateways_response; C06_inverted_pairs_are_causally_unrelated (for any two schedules of one plan, a pair of results they order differently has neither step an ancestor of the other); C06_key_clash_across_types_refuted (the hypothesis fails on a real plan: known finding, reproduced on the real gateway). Tie + direct oracle: under a gating transport each generated request is run under up to 6 (thorough: 24) different causal release orders of its downstream responses, with faults and with a request limit; data bytes and error multisets (verbatim) must be identical across orders; one order per case is checked against the sequential gateway model (which merges in depth-first order — a further order).",
        "note": "The independence of causally unrelated results is a property of the planner that is assumed by the theorem and observed by the harness (byte-identical answers under forced orders); the one-root-step forms of the theorems are kept as C06_*_partial.",
        "technique": "Coq: invariant over all interleavings of a transition system; commutation/congruence proofs over the merge, null-propagation and writer models for all trees and orders; + schedule enumeration under a gating transport + model correspondence",
    },
    "C13": {
        "text": "Theorems C13_terminates (every schedule is at most mu(init) steps long for an explicit measure every step decreases, and every reachable state in which main has not returned has an enabled step: every maximal schedule is finite and ends with main returned), C13_released (every terminal state of every schedule has main returned, no step goroutine, collector exited — for all plans, outcome oracles, limits), C13_limit (lookup rounds sent <= max in every reachable state) and C13_released_refuted_before_fix (the error path at d802d19 leaked the collector; repaired by fix d3a4cc6). Tie + direct oracles: random queries under limits 0..6 and 50, faults, and client cancellation at a random gate: the request terminates, <= 1 root request per service, lookups <= limit, a limit-exceeded response has no data, and no goroutine with a bramble frame survives; the sequential model reproduces the response including the limit outcome.",
        "note": "Termination is observed (20 s watchdog), not yet proved; the selection-growth finding (KF-selection-growth) bounds 'bounded work' from below and is recorded.",
        "technique": "Coq invariants over a transition system (all schedules) + goroutine-stack inspection + request counting under a gating transport",
    },
    "C10": {
        "text": "Theorem C10_published: for EVERY finite history of poll outcomes and service-list replacements, and for arbitrary parse/validate/merge parameters (only: the empty source is invalid, nothing merges from nothing), the published generation equals the specification recomputed after each event — merge of the latest schemas of the listed services whose most recent poll succeeded, else the previous generation. Proof by an invariant relating each cached service's source, schema and status. C10_gauge characterises the indicator; its stronger reading is refuted. Tie: random histories through the real UpdateSchema/UpdateServiceList with a scripted transport; after every event the published version set, the consistency of the four tables, the service map with statuses and the invalid-schema gauge are compared with the model and with the specification.",
        "note": "Merging itself is a parameter here (C07/C08 are about it). The Go map iteration / goroutine completion order of a poll is abstracted: the model keeps list order, comparisons are as sets.",
        "technique": "Coq invariant proof over all histories of a state machine + differential correspondence on scripted histories",
    },
    "C19": {
        "text": "Theorems C19_fails_closed (a request is let through only with no token and exactly the public role's permissions, or with a well-formed RSA-signed token whose kid is configured, whose signature verifies under that key, whose time claims hold and whose role is configured — then exactly that role's permissions and claim headers) and C19_any_defect_rejects, by exhaustive case analysis of the decision tree. Tie: random role tables and key sets x tokens built from a valid one by each single defect (tampered, other key, unconfigured key, unknown/missing kid, none, HS256 with the public PEM, PS256, expired, not yet valid, malformed, Basic, empty bearer, unknown/empty role), via header and cookie, through the real gateway: HTTP status, zero downstream requests on 401, the permission set in force (probe query) and the claim headers on every downstream call must match the model.",
        "note": "Token parsing and RSA verification are oracles (golang-jwt).",
        "technique": "Coq case analysis of a decision-tree model + single-defect token enumeration against the real middleware",
    },
    "C20": {
        "text": "Theorems C20_reload_equals_restart_partial (for any state left by any history, an accepted reload federates, as a set and without duplicates, exactly the services a fresh start computes from the same files and environment - configured services, BRAMBLE_SERVICE_LIST and the services contributed by the plugins the files enable - with the same roles and key ids, under the guard of the recorded stale-scalar finding), C20_failed_edit_keeps_config, C20_accepted_reload_forgets_history_partial (a refused edit does not stop a later valid one), C20_refuted_stale_scalar (full statement false on the current code: witness), and refutations of the d802d19 behaviour repaired by fix commits 90f22df, f91d55c and 1ea31d2. Tie: random edit histories (services added/removed/reordered/duplicated/omitted, roles and keys added/removed/omitted, two service-contributing plugins enabled or not, invalid JSON, wrong types, invalid durations, BRAMBLE_SERVICE_LIST) with a synchronous reload after each edit; Config.Services, ExecutableSchema.Services, Config.plugins, the JWT role table and key ids are compared with the model and with a fresh start (GetConfig + Init) on the same file.",
        "note": "Found by this check and recorded: an invalid poll-interval from a rejected edit poisons later valid edits (KF-stale-config-scalar). Found by this check and repaired: reload federated the services of the previous load's plugins (fix 1ea31d2).",
        "technique": "Coq state-machine model with proofs and refutation witnesses + differential correspondence on scripted edit histories",
    },
    "C14": {
        "text": "Theorem C14_string_roundtrip_partial: for EVERY byte string free of the bytes whose Go escape is not a GraphQL escape, the GraphQL string lexer reads back from strconv.Quote's output exactly the string (proved by induction over the string with a 256-way case analysis per byte); C14_refuted_go_escapes shows each excluded byte alone breaks it; C14_literal_arrives_partial / C14_refuted_space_runs cover the whitespace collapse inside lookups. These transformations are part of the gateway model (every outgoing document is 'printed and lexed'), so the correspondence checks them on every run: hostile strings (whitespace runs, quotes, backslashes, control bytes, non-ASCII) as literals, variables and entity ids, through echo resolvers at the simulators; the values coming back must equal the reference executor's. C14_string_arrives_exactly_or_not_at_all: whenever the printed document lexes, the service reads exactly the client's string (wire_string s = Some s' implies s' = s and s is GraphQL-safe).",
        "note": "Two recorded findings (Go escapes, space runs) with their guards. Variable declaration/forwarding is checked by prop.c15.vars_exact on every stream.",
        "technique": "Coq codec theorem (induction + exhaustive byte analysis) + refutations; echo resolvers; differential correspondence",
    },
    "C07": {
        "text": "Model of merge.go (MergeSchemas, mergeTypes, namespace and boundary object merging, and the three table builders) in Model/Merge.v. Theorems: the fields of a merged shared type are exactly the union of both sides' fields minus the key (C07_shared_type_fields_are_the_union); nothing enters by silent resolution of a conflict (C07_nothing_enters_by_silent_resolution). Tie + oracle on every run: random federations generated from an annotated monolith and split by the documented rules; the model's merged schema and Locations/IsBoundary/BoundaryQueries must equal what the real code published after polling; the published schema must equal the monolith the services were split from (types, kinds, fields, arguments with defaults, nullability, interfaces, members, enum values), contain no plumbing, and every field must have exactly one declaring service to which Locations routes it. C07_merged_types_are_the_union: for two or more services the merged schema has exactly the types the services define minus the plumbing (fold invariant over any number of services).",
        "note": "Validity of the merged schema is established by comparison with the (gqlparser-loaded) monolith. Full completeness/soundness of the fold over n schemas is not yet a theorem.",
        "technique": "Coq model + fold-invariant proofs; generated federations; monolith oracle; differential correspondence of merged schema and routing tables",
    },
    "C09": {
        "text": "Model of validate.go (every rule function, ValidateSchema's order, the visited-set recursion over namespace links) in Model/Validate.v. Theorems, for every schema: C09_accepted_obeys_rules (whatever is accepted satisfies each listed rule: root names, the exact shape of Query.service and Service, id: ID! on every boundary object, every marked lookup well typed in single or array form and exactly one per boundary object, namespace types only inside namespaces or roots, every namespace link reachable from a root non-null at any depth incl. cyclic namespaces - a DFS closure proof, validity after merge), C09_accepted_has_lookup_entries (the executor's lookup table then has an entry for every boundary type the service declares), C09_legacy_syntax_refuted (the former Node syntax is accepted and yields an empty lookup table: known finding). Tie on every run: service schemas of random federations x 41 single-rule mutations at random positions (AST level, reprinted and reloaded), verdict and failing stage of the real ValidateSchema vs the model; oracles: every rule-breaking mutant rejected with an error (never a panic), every conforming variant accepted, accepted federations polled and served with random valid queries without planning/lookup errors.",
        "note": "Three genuine defects found while modelling and repaired (fix: commits): nil Query dereference, unbounded recursion on cyclic namespaces, lookups unchecked when no boundary type is declared (then Arguments[0] panics in buildBoundaryFieldsMap). 'Follows the documented syntax' has no formal definition: the generator's conforming schemas stand for it.",
        "technique": "Coq model + proofs (case analysis per rule, counting lemma for 'exactly one', DFS-closure induction on fuel) + refutation witness; differential correspondence on mutated schemas; serve-and-query oracle",
    },
    "C11": {
        "text": "Model/Refresh.v: the locking protocol of ExecutableSchema as a transition system (queries take the read lock, read the four published tables at arbitrary later steps, release; the refresher replaces the service map without a lock and writes the four tables inside the write lock). Theorem C11_tables_from_one_generation: for every schedule the lock admits, all table generations one query reads are equal (invariant over steps, induction over the schedule). Theorem C11_source_follows_protocol is about facts REGENERATED from /repo's source on every run by the translator gen/main.go (go/ast): every write of a published table lies inside mutex.Lock and every read of one in ExecuteQuery inside mutex.RLock; moving one out breaks the theorem. C11_service_map_outside_lock_refuted: the service map write and the Schema() read are outside the lock (from the same regenerated facts), and a schedule mixes table generation 0 with service map generation 1. Behavioural tie on every run: 4-5 requests run against one gateway while a service's schema changes and is re-polled, while the service list is replaced with slowed polls, and with the whole swap placed between validation and execution of half the requests (blocking InterceptRequest); each response must be the old generation's answer, the new one's, or an error-only response; no internal error, no hang; requests that take the read lock after the swap must not answer from the old generation (the model's prediction).",
        "note": "Two known findings (both make a root field silently null): the service-list window and the validate/execute gap. Thorough tier runs under -race.",
        "technique": "Coq transition-system invariant proof + source-to-Coq translator for the lock scopes + behavioural correspondence around refreshes; race detector (thorough)",
    },
    "C12": {
        "text": "Theorem C12_isolation_frame_partial: if requests work on pairwise disjoint copies and every in-place rewrite of a request lands in its own copy, then for every interleaving of all requests' rewrites each request reads - in its copy, in the parsed-query cache, in the merged schema - exactly what it reads alone, and shared cells never change (a frame argument over an abstract heap; C12_without_copy_refuted shows the copy is necessary). The code's side of the assumption is decided behaviourally on every run: batches of 3-6 requests (same document with other variables incl. @skip/@include conditions, same document under other permission sets, other documents, duplicates; each with its own forwarded headers) are served alone by fresh instances, then twice in sequence and twice concurrently by ONE instance, with and without an LRU parsed-query cache; every response (data bytes, error multiset) and every set of downstream calls must equal the request's alone, every downstream call must carry exactly its request's forwarded headers, the merged schema's SDL must not change; the concurrent observations also go through the whole-gateway model correspondence (check_e2e_case).",
        "note": "Partial: confinement of bramble's in-place rewrites to the per-request copy is not a theorem. Thorough tier builds the harness with -race.",
        "technique": "Coq frame theorem over an abstract heap + refutation; differential correspondence under sequential and concurrent sharing; solo-vs-batch oracle; race detector (thorough)",
    },
    "C17": {
        "text": "Model of the hand-written introspection resolvers (executable_schema.go:340-620) specialised to the standard introspection query, reading either the merged schema or the permission-filtered view of Model/View.v, and of the inverse a client applies (answer -> schema) in Model/Introspect.v. Theorems: C17_reconstruction_roundtrip (for every schema whose references resolve and nest at most seven wrappers, reconstruct (introspect S) = normalize S: types, kinds, descriptions, fields, arguments with defaults, type references with list/non-null wrapping, deprecations, interfaces, possible types, enum values, input fields, directives) and C17_fields_confined_partial (with permissions, every field of every type the answer lists is selectable by a query that permission filtering leaves intact; composition with the C18 view theorem). Tie on every run: the standard query through the real gateway on merged schemas of fixtures and generated federations, with and without random permission trees; the model's JSON must equal the gateway's data exactly. Oracles: the reconstructed schema equals the permitted part, every type and field name revealed is permitted, no null among interfaces/possibleTypes/types, the round-trip hypothesis holds of the schema; __type by name (in view, outside, unknown), aliases and includeDeprecated (false, absent, variable) agree with projections of the standard answer; with introspection disabled no schema name is revealed.",
        "note": "One defect repaired (fix: 74a57db directive argument types missing from the view). Known findings: the view lacks interfaces/unions reachable only through membership, so interfaces/possibleTypes contain null and the answer cannot be reconstructed (same root cause as KF-view-drops-types).",
        "technique": "Coq codec model + round-trip proof (induction on type references and lists) + composition with the view soundness theorem; differential correspondence of the full JSON answer; projection oracles for other query shapes",
    },
    "C08": {
        "text": "Theorem C08_conflict_fails: for ALL pairs of schemas, if the accumulated schema and the new one define the same name and the pair is a conflict (different kinds; a non-shared object/interface/union/enum/input defined twice; boundary vs plain; namespace vs boundary; non-object federation type) the pairwise merge fails, wherever the definition sits and whatever else the schemas contain (induction over the fold with an invariant on the accumulator); C08_overlapping_boundary_field_fails for the field-level conflict. Order independence is decided per case: all n! merge orders (n <= 4) through the real MergeSchemas must give the same outcome and the same order-free schema signature; the routing tables after polling must not depend on the poll completion order (two forced orders); about 40% of the cases carry one injected conflict of 17 kinds (taken in turn), which every order must reject; a third of the federations have services in the former Node syntax.",
        "note": "Permutation invariance is exhaustively enumerated per case, not proved for all n.",
        "technique": "Coq fold-invariant proof of conflict rejection + exhaustive enumeration of merge orders on generated federations + model correspondence",
    },
}

_ALL = ["C%02d" % i for i in range(1, 21)]
NOT_APPLICABLE = [{"property_id": p, "reason": "check not built yet in this revision (work in progress; see DESIGN.md §9 build order) — not a judgement that the technique cannot apply"}
                  for p in _ALL if p not in PROPS]
