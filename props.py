"""Per-property configuration for check.py (what to run, how many cases, what is partial)."""

PROPS = {
    "C18": {
        "harness": [{"name": "c18"}],
        "n_quick": 400, "n_thorough": 20000,
        "assumptions": [
            "encoding/json drives AllowedFields.UnmarshalJSON as modelled (decode over the existing value; fresh zero value per map element)",
            "a Go map value satisfies wf (unique keys); the harness hands trees to Coq with keys sorted",
        ],
    },
    "C01": {
        "harness": [{"name": "c01"}],
        "n_quick": 240, "n_thorough": 6000,
        "known_for": ["C01"],
        "scope_guards": ["C01_transparency composition theorem not yet proved for any fragment of the language; proved for every input: plan_sub (no field invented); refuted: 5 witnesses"],
        "assumptions": ["downstream services are spec-conformant executors over their own schema (simulators, checked against Gql/RefExec.v per request)",
                        "gqlparser's validation of client queries is taken as given (only validated operations are emitted)"],
    },
    "C04": {
        "harness": [{"name": "c01"}],
        "n_quick": 240, "n_thorough": 6000,
        "known_for": ["C01"],
        "assumptions": ["validity of a received document is judged by gqlparser's validator at the simulator (direct oracle) and by valid_doc in the model"],
    },
}

# ---- manifest texts ------------------------------------------------------------------------------------
META = {
    "_hook_commits": [],
    "C18": {
        "text": "Theorems C18_roundtrip and C18_union (all permission trees with unique keys, all finite families, all paths; structural induction, no bound) over the Gallina model of auth.go's MarshalJSON/UnmarshalJSON/MergeAllowedFields; the model is tied to /repo on every run by evaluating it on random trees, JSON inputs (incl. malformed) and families and comparing with what the real exported API returned; the property is also evaluated directly on the observed outputs.",
        "note": "Trusted: Coq kernel + vm_compute; the hand model's reading of encoding/json's decode-over-existing-value; the Go harness and driver. No axioms. FilterSchema/filterFields agreement (third clause) is checked in C03/C17's schema-level checks, theorem pending.",
        "technique": "Coq proof (nested induction on permission trees) + differential correspondence check model vs exported Go API",
    },
    "C01": {
        "text": "Gallina model of the whole request path (skip/include rewrite, permission filter, planner, step execution, result merge, null propagation, response writer: coq/Model/*.v) composed as Model/Gateway.v and compared with a reference executor written from the GraphQL spec (Gql/RefExec.v). Proved for every schema/table/selection: plan_sub (the planner invents no field). The full transparency statement is refuted by five vm_compute witnesses (kept in Properties/C01.v), each a recorded known finding. On every run the model is tied to /repo: random federated queries run through the real gateway over simulated services; the model must reproduce every downstream request and the response bytes, the simulators must equal RefExec, and the gateway's data must equal RefExec on the merged schema outside the recorded defect guards.",
        "note": "Trusted: Coq kernel+vm_compute, the hand model, RefExec as the reading of the GraphQL spec, harness/driver. Services assumed spec-conformant; gqlparser validation taken as given. Composition theorem (transparency under guards) not yet proved: the universally quantified part is plan_sub; the rest of the claim rests on the checked correspondence + direct oracle.",
        "technique": "Coq model + stage theorem (structural induction) + refutation witnesses; differential correspondence model vs real gateway; RefExec oracle",
    },
    "C04": {
        "text": "Theorems C04_only_client_fields (every field of every step at any depth is a client field or helper-aliased plumbing; all schemas, tables, selections) and C04_refuted_shared_remote_abstract (validity against the receiving schema is false on a published federation; known finding). Tie: every downstream document observed from the real gateway is validated with gqlparser against the receiving service's own schema, operation type and keyword are checked, ids are checked duplicate-free, and the multiset of requests must equal the model's.",
        "note": "valid_doc is my subset of GraphQL validation (field existence, leaf/composite shape, fragment conditions); the simulator's verdict comes from gqlparser itself. Ownership (plan_owned) not yet a theorem.",
        "technique": "Coq stage theorem + refutation witness; correspondence of request multisets; gqlparser validation at the simulators",
    },
}

_ALL = ["C%02d" % i for i in range(1, 21)]
NOT_APPLICABLE = [{"property_id": p, "reason": "check not built yet in this revision (work in progress; see DESIGN.md §9 build order) — not a judgement that the technique cannot apply"}
                  for p in _ALL if p not in PROPS]
