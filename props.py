"""Per-property configuration for check.py (what to run, how many cases, what is partial)."""

PROPS = {
    "C18": {
        "harness": [{"name": "c18"}],
        "n_quick": 400, "n_thorough": 20000,
        "assumptions": [
            "encoding/json drives AllowedFields.UnmarshalJSON as modelled (decode over the existing value; fresh zero value per map element)",
            "a Go map value satisfies wf (unique keys); the harness hands trees to Coq with keys sorted",
        ],
    },
}

# ---- manifest texts ------------------------------------------------------------------------------------
META = {
    "_hook_commits": [],
    "C18": {
        "text": "Theorems C18_roundtrip and C18_union (all permission trees with unique keys, all finite families, all paths; structural induction, no bound) over the Gallina model of auth.go's MarshalJSON/UnmarshalJSON/MergeAllowedFields; the model is tied to /repo on every run by evaluating it on random trees, JSON inputs (incl. malformed) and families and comparing with what the real exported API returned; the property is also evaluated directly on the observed outputs.",
        "note": "Trusted: Coq kernel + vm_compute; the hand model's reading of encoding/json's decode-over-existing-value; the Go harness and driver. No axioms. FilterSchema/filterFields agreement (third clause) is checked in C03/C17's schema-level checks, theorem pending.",
        "technique": "Coq proof (nested induction on permission trees) + differential correspondence check model vs exported Go API",
    },
}

_ALL = ["C%02d" % i for i in range(1, 21)]
NOT_APPLICABLE = [{"property_id": p, "reason": "check not built yet in this revision (work in progress; see DESIGN.md §9 build order) — not a judgement that the technique cannot apply"}
                  for p in _ALL if p not in PROPS]
