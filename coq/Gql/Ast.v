(* Gql/Ast.v — JSON values, GraphQL types, schemas and validated operations as bramble receives them
   from gqlparser (DESIGN.md Appendix A).  Definitions only. *)
From V Require Import Base.Util.

(* client-visible values are ordered *)
Inductive json := JNull | JBool (b : bool) | JNum (lexeme : string) | JStr (s : string)
                | JArr (l : list json) | JObj (kvs : list (string * json)).
(* Go's decoded interface{} trees: maps with unique keys; order is not observable *)
Inductive raw := RNil | RBool (b : bool) | RNum (lexeme : string) | RStr (s : string)
               | RArr (l : list raw) | RMap (m : list (string * raw)).

Fixpoint json_eqb (a b : json) {struct a} : bool :=
  match a, b with
  | JNull, JNull => true
  | JBool x, JBool y => Bool.eqb x y
  | JNum x, JNum y => String.eqb x y
  | JStr x, JStr y => String.eqb x y
  | JArr x, JArr y =>
      (fix go (x y : list json) : bool :=
         match x, y with [], [] => true | p :: x', q :: y' => json_eqb p q && go x' y' | _, _ => false end) x y
  | JObj x, JObj y =>
      (fix go (x y : list (string * json)) : bool :=
         match x, y with
         | [], [] => true
         | (k, p) :: x', (k', q) :: y' => String.eqb k k' && json_eqb p q && go x' y'
         | _, _ => false
         end) x y
  | _, _ => false
  end.

(* debugging aid: JSON-ish text (strings are not escaped) *)
Fixpoint json_show (j : json) : string :=
  match j with
  | JNull => "null" | JBool true => "true" | JBool false => "false" | JNum l => l
  | JStr s => """" +++ s +++ """"
  | JArr l => "[" +++ sconcat "," (map json_show l) +++ "]"
  | JObj kvs => "{" +++ sconcat "," (map (fun kv => """" +++ fst kv +++ """:" +++ json_show (snd kv)) kvs) +++ "}"
  end.

Fixpoint raw_json (v : raw) : json :=
  match v with
  | RNil => JNull | RBool b => JBool b | RNum l => JNum l | RStr s => JStr s
  | RArr l => JArr (map raw_json l)
  | RMap m => JObj (sort_keys (map (fun kv => (fst kv, raw_json (snd kv))) m))     (* json.Marshal sorts map keys *)
  end.
Fixpoint json_raw (v : json) : raw :=
  match v with
  | JNull => RNil | JBool b => RBool b | JNum l => RNum l | JStr s => RStr s
  | JArr l => RArr (map json_raw l)
  | JObj m => RMap (map (fun kv => (fst kv, json_raw (snd kv))) m)
  end.

(* ---------- types and schemas ---------- *)
Inductive ty := TNamed (n : string) (nonnull : bool) | TList (elem : ty) (nonnull : bool).
Fixpoint ty_name (t : ty) : string := match t with TNamed n _ => n | TList t _ => ty_name t end.
Definition ty_nn (t : ty) : bool := match t with TNamed _ b => b | TList _ b => b end.
Definition ty_elem (t : ty) : option ty := match t with TList e _ => Some e | _ => None end.
Definition ty_nullable (t : ty) : ty := match t with TNamed n _ => TNamed n false | TList e _ => TList e false end.
Fixpoint ty_eqb (a b : ty) : bool :=
  match a, b with
  | TNamed n x, TNamed m y => String.eqb n m && Bool.eqb x y
  | TList e x, TList f y => ty_eqb e f && Bool.eqb x y
  | _, _ => false
  end.

Inductive kind := KScalar | KObject | KInterface | KUnion | KEnum | KInput.
Definition kind_eqb (a b : kind) : bool :=
  match a, b with
  | KScalar, KScalar | KObject, KObject | KInterface, KInterface | KUnion, KUnion | KEnum, KEnum | KInput, KInput => true
  | _, _ => false
  end.
Definition kind_composite (k : kind) := match k with KObject | KInterface | KUnion => true | _ => false end.
Definition kind_abstract (k : kind) := match k with KInterface | KUnion => true | _ => false end.

(* what the pipeline reads from an *ast.Schema *)
Record schema := {
  s_kinds : list (string * kind);
  s_fields : list (string * list (string * ty));     (* type -> field -> declared type *)
  s_implements : list (string * list string);        (* Schema.Implements: object -> interfaces and unions it belongs to *)
  s_possible : list (string * list string)           (* Schema.PossibleTypes *)
}.
Definition kind_of (S : schema) (t : string) : option kind := lookup t (s_kinds S).
Definition is_abstract (S : schema) (t : string) : bool :=
  match kind_of S t with Some k => kind_abstract k | None => false end.
Definition implements_of (S : schema) (t : string) : list string :=
  match lookup t (s_implements S) with Some l => l | None => [] end.
Definition possible_of (S : schema) (t : string) : list string :=
  match lookup t (s_possible S) with Some l => l | None => [] end.
Definition field_ty (S : schema) (t f : string) : option ty :=
  match lookup t (s_fields S) with Some fs => lookup f fs | None => None end.

(* ---------- operations ---------- *)
Inductive value := VVar (n : string) | VInt (lx : string) | VFloat (lx : string) | VStr (s : string) | VBlock (s : string)
                 | VBool (b : bool) | VNull | VEnum (n : string) | VList (l : list value) | VObj (l : list (string * value)).
Record dir := { d_name : string; d_args : list (string * value) }.

Inductive sel :=
 | SField  (alias name : string) (args : list (string * value)) (dirs : list dir)
           (fty : ty)                       (* Definition.Type, from validation against the FULL merged schema *)
           (ss : option (list sel))         (* None = nil, Some [] = empty non-nil: the code distinguishes them *)
 | SInline (tc : string) (dirs : list dir) (encl : string (* ObjectDefinition.Name *)) (ss : list sel)
 | SSpread (fname : string) (dirs : list dir) (encl tc : string) (ss : list sel).

Inductive opkind := OQuery | OMutation | OSubscription.
Definition opkind_eqb (a b : opkind) := match a, b with OQuery, OQuery | OMutation, OMutation | OSubscription, OSubscription => true | _, _ => false end.
Record vardef := { vd_name : string; vd_type : ty; vd_default : option value }.
Record operation := { o_kind : opkind; o_name : string; o_vardefs : list vardef; o_sel : list sel }.
Definition env := list (string * json).          (* coerced variable values *)

(* nested induction principle for selections *)
Section SelInd.
  Variable P : sel -> Prop.
  Hypothesis HF0 : forall a n args ds t, P (SField a n args ds t None).
  Hypothesis HF1 : forall a n args ds t ss, Forall P ss -> P (SField a n args ds t (Some ss)).
  Hypothesis HI : forall tc ds e ss, Forall P ss -> P (SInline tc ds e ss).
  Hypothesis HS : forall f ds e tc ss, Forall P ss -> P (SSpread f ds e tc ss).
  Fixpoint sel_ind' (s : sel) : P s :=
    let go := fix go (l : list sel) : Forall P l :=
      match l with [] => Forall_nil _ | x :: t => Forall_cons _ (sel_ind' x) (go t) end in
    match s with
    | SField a n args ds t None => HF0 a n args ds t
    | SField a n args ds t (Some ss) => HF1 a n args ds t ss (go ss)
    | SInline tc ds e ss => HI tc ds e ss (go ss)
    | SSpread f ds e tc ss => HS f ds e tc ss (go ss)
    end.
End SelInd.

Definition sel_children (s : sel) : list sel :=
  match s with
  | SField _ _ _ _ _ (Some ss) => ss
  | SField _ _ _ _ _ None => []
  | SInline _ _ _ ss => ss
  | SSpread _ _ _ _ ss => ss
  end.

(* value equality *)
Fixpoint value_eqb (a b : value) {struct a} : bool :=
  match a, b with
  | VVar x, VVar y | VInt x, VInt y | VFloat x, VFloat y | VStr x, VStr y | VBlock x, VBlock y | VEnum x, VEnum y => String.eqb x y
  | VBool x, VBool y => Bool.eqb x y
  | VNull, VNull => true
  | VList x, VList y =>
      (fix go (x y : list value) : bool :=
         match x, y with [], [] => true | p :: x', q :: y' => value_eqb p q && go x' y' | _, _ => false end) x y
  | VObj x, VObj y =>
      (fix go (x y : list (string * value)) : bool :=
         match x, y with
         | [], [] => true
         | (k, p) :: x', (k', q) :: y' => String.eqb k k' && value_eqb p q && go x' y'
         | _, _ => false
         end) x y
  | _, _ => false
  end.
Definition args_eqb (a b : list (string * value)) : bool :=
  list_eqb (fun x y => String.eqb (fst x) (fst y) && value_eqb (snd x) (snd y)) a b.
Definition dir_eqb (a b : dir) : bool := String.eqb (d_name a) (d_name b) && args_eqb (d_args a) (d_args b).

(* structural equality of selections (fragment spreads compared with their expansion) *)
Fixpoint sel_eqb (a b : sel) {struct a} : bool :=
  let go := fix go (x y : list sel) : bool :=
    match x, y with [], [] => true | p :: x', q :: y' => sel_eqb p q && go x' y' | _, _ => false end in
  match a, b with
  | SField al n ar ds t oss, SField al' n' ar' ds' t' oss' =>
      String.eqb al al' && String.eqb n n' && args_eqb ar ar' && list_eqb dir_eqb ds ds' &&
      match oss, oss' with None, None => true | Some x, Some y => go x y | _, _ => false end
  | SInline tc ds _ ss, SInline tc' ds' _ ss' => String.eqb tc tc' && list_eqb dir_eqb ds ds' && go ss ss'
  | SSpread f ds _ tc ss, SSpread f' ds' _ tc' ss' => String.eqb f f' && String.eqb tc tc' && list_eqb dir_eqb ds ds' && go ss ss'
  | _, _ => false
  end.
