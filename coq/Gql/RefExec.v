(* Gql/RefExec.v — a reference GraphQL executor for ONE server, written from the GraphQL specification
   (CollectFields, ExecuteSelectionSet, CompleteValue with non-null propagation), not from bramble.
   It is the oracle the gateway is compared with (C01) and the semantics of the downstream simulators. *)
From V Require Import Base.Util Gql.Ast.

(* ---------- one object graph, seen by the monolith and by every service ---------- *)
Inductive rv := RvNull | RvLeaf (j : json) | RvRef (tname oid : string) | RvList (l : list rv) | RvErr.
Record entity := { e_type : string; e_id : string; e_fields : list (string * rv) }.

Record lookup_def := { lk_field : string; lk_arg : string; lk_array : bool; lk_type : string }.
Record server := {
  sv_name : string;                                   (* "" for the monolith *)
  sv_schema : schema;
  sv_argdefs : list (string * list (string * option value));  (* "Type.field" -> declared arguments with defaults *)
  sv_lookups : list lookup_def;                       (* entity lookups on Query (services only) *)
  sv_owner : list (string * string);                  (* monolith only: "Type.field" -> owning service *)
  sv_unknown : list string;                           (* "svc|Type|id": that service does not know the entity *)
  sv_failing : list string                            (* monolith only: services all of whose fields raise an error *)
}.

Fixpoint find_entity (D : list entity) (t id : string) : option entity :=
  match D with
  | [] => None
  | e :: r => if String.eqb (e_type e) t && String.eqb (e_id e) id then Some e else find_entity r t id
  end.

(* ---------- input coercion: literal/variable -> JSON as the resolver sees it ---------- *)
Fixpoint coerce (vars : env) (v : value) : option json :=     (* None: variable without a value (argument omitted) *)
  match v with
  | VVar n => lookup n vars
  | VInt lx | VFloat lx => Some (JNum lx)
  | VStr s | VBlock s | VEnum s => Some (JStr s)
  | VBool b => Some (JBool b)
  | VNull => Some JNull
  | VList l => Some (JArr (map (fun x => match coerce vars x with Some j => j | None => JNull end) l))
  | VObj kvs => Some (JObj (sort_keys (map (fun kv => (fst kv, match coerce vars (snd kv) with Some j => j | None => JNull end)) kvs)))
  end.

(* ArgumentMap: supplied arguments, then declared defaults for the ones not supplied; keys sorted *)
Definition arg_map (vars : env) (defs : list (string * option value)) (args : list (string * value)) : list (string * json) :=
  sort_keys (flat_map (fun d =>
    match lookup (fst d) args with
    | Some v => match coerce vars v with
                | Some j => [(fst d, j)]
                | None => match snd d with Some dv => match coerce [] dv with Some j => [(fst d, j)] | None => [] end | None => [] end
                end
    | None => match snd d with Some dv => match coerce [] dv with Some j => [(fst d, j)] | None => [] end | None => [] end
    end) defs).

(* ---------- @skip/@include by the spec ---------- *)
Definition cond_value (vars : env) (d : dir) : option bool :=
  match lookup "if" (d_args d) with
  | Some (VBool b) => Some b
  | Some (VVar n) => match lookup n vars with Some (JBool b) => Some b | _ => None end
  | _ => None
  end.
Definition dirs_allow (vars : env) (ds : list dir) : bool :=
  forallb (fun d => if String.eqb (d_name d) "skip" then match cond_value vars d with Some true => false | _ => true end
                    else if String.eqb (d_name d) "include" then match cond_value vars d with Some false => false | _ => true end
                    else true) ds.

(* does a fragment with condition [tc] apply to an object of runtime type [t] *)
Definition type_applies (S : schema) (t tc : string) : bool :=
  String.eqb tc "" || String.eqb tc t || mem t (possible_of S tc).

(* CollectFields: response key -> fields, in first-occurrence order *)
Definition cf := list (string * list sel).
Fixpoint cf_add (k : string) (f : sel) (acc : cf) : cf :=
  match acc with
  | [] => [(k, [f])]
  | (k', fs) :: t => if String.eqb k k' then (k', fs ++ [f]) :: t else (k', fs) :: cf_add k f t
  end.
Fixpoint collect_sel (S : schema) (vars : env) (t : string) (s : sel) (st : cf * list string) {struct s} : cf * list string :=
  let '(acc, visited) := st in
  let go := fix go (l : list sel) (st : cf * list string) : cf * list string :=
    match l with [] => st | x :: r => go r (collect_sel S vars t x st) end in
  match s with
  | SField al _ _ ds _ _ => if dirs_allow vars ds then (cf_add al s acc, visited) else st
  | SInline tc ds _ sub => if dirs_allow vars ds && type_applies S t tc then go sub st else st
  | SSpread f ds _ tc sub =>
      if dirs_allow vars ds && negb (mem f visited) then
        if type_applies S t tc then go sub (acc, f :: visited) else (acc, f :: visited)
      else st
  end.
Definition collect (S : schema) (vars : env) (t : string) (visited : list string) (ss : list sel) (acc : cf) : cf * list string :=
  fold_left (fun st x => collect_sel S vars t x st) ss (acc, visited).

(* ---------- document validity against the receiving schema (the subset of GraphQL validation the gateway can break):
   every field exists on its parent type, leaves carry no selection, composites carry a non-empty one,
   fragment conditions name types of the schema ---------- *)
Fixpoint valid_sel (S : schema) (parent : string) (s : sel) {struct s} : bool :=
  match s with
  | SField _ name _ _ _ oss =>
      if String.eqb name "__typename" then match oss with None => true | Some _ => false end else
      match field_ty S parent name with
      | None => false
      | Some t =>
          match kind_of S (ty_name t) with
          | None => false
          | Some k => if kind_composite k
                      then match oss with Some ((_ :: _) as ss) => forallb (valid_sel S (ty_name t)) ss | _ => false end
                      else match oss with None => true | Some _ => false end
          end
      end
  | SInline tc _ _ ss => match kind_of S tc with Some k => kind_composite k | None => false end &&
                         match ss with [] => false | _ => forallb (valid_sel S tc) ss end
  | SSpread _ _ _ tc ss => match kind_of S tc with Some k => kind_composite k | None => false end &&
                           match ss with [] => false | _ => forallb (valid_sel S tc) ss end
  end.
Definition valid_doc (S : schema) (root : string) (ss : list sel) : bool :=
  match ss with [] => false | _ => forallb (valid_sel S root) ss end.

Inductive pe := PName (s : string) | PIdx (n : nat).
Definition pe_eqb (a b : pe) := match a, b with PName x, PName y => String.eqb x y | PIdx x, PIdx y => Nat.eqb x y | _, _ => false end.
Record xerr := { xe_msg : string; xe_path : list pe }.
(* a completed value: [None] = the position is null AND that null must propagate to the parent (non-null violated) *)
Definition xres := (option json * list xerr)%type.

Definition sub_selection (fs : list sel) : list sel :=
  flat_map (fun f => match f with SField _ _ _ _ _ (Some ss) => ss | _ => [] end) fs.

Section Exec.
  Variable sv : server.
  Variable D : list entity.
  Variable vars : env.
  Let Sc := sv_schema sv.

  Definition resolve (objT : string) (e : option entity) (f : sel) : res rv :=
    match f with
    | SField _ name args _ _ _ =>
      let key := objT +++ "." +++ name in
      let am := arg_map vars (match lookup key (sv_argdefs sv) with Some d => d | None => [] end) args in
      let lk := if String.eqb objT "Query" then find (fun l => String.eqb (lk_field l) name) (sv_lookups sv) else None in
      match lk with
      | Some l =>
          let known := fun id => match find_entity D (lk_type l) id with
                                 | Some _ => if mem (sv_name sv +++ "|" +++ lk_type l +++ "|" +++ id) (sv_unknown sv) then RvNull else RvRef (lk_type l) id
                                 | None => RvNull end in
          match lookup (lk_arg l) am with
          | Some (JArr ids) => Ok (RvList (map (fun j => match j with JStr id => known id | _ => RvNull end) ids))
          | Some (JStr id) => Ok (known id)
          | _ => Ok RvNull
          end
      | None =>
        let owner := lookup key (sv_owner sv) in
        match owner with
        | Some o => if mem o (sv_failing sv) then Err ("service " +++ o +++ " failed") else
                    match e with
                    | Some en => if mem (o +++ "|" +++ e_type en +++ "|" +++ e_id en) (sv_unknown sv) then Ok RvNull
                                 else if String.eqb (substring 0 4 name) "echo" then Ok (RvLeaf (JObj am))
                                 else Ok (match lookup name (e_fields en) with Some v => v | None => RvNull end)
                    | None => Ok RvNull
                    end
        | None =>
          if match e with
             | Some en => negb (String.eqb name "id") && mem (sv_name sv +++ "|" +++ e_type en +++ "|" +++ e_id en) (sv_unknown sv)
             | None => false end then Ok RvNull else
          if String.eqb (substring 0 4 name) "echo" then Ok (RvLeaf (JObj am)) else
          match e with
          | Some en => Ok (match lookup name (e_fields en) with Some v => v | None => RvNull end)
          | None => Ok RvNull
          end
        end
      end
    | _ => Err "not a field"
    end.

  (* CompleteValue and ExecuteSelectionSet, mutually, on fuel (the data graph may be cyclic; the query is finite) *)
  Fixpoint complete (fuel : nat) (t : ty) (fs : list sel) (v : rv) (path : list pe) {struct fuel} : xres :=
    match fuel with O => (Some JNull, [{| xe_msg := "out of fuel"; xe_path := path |}]) | S fuel =>
    if ty_nn t then
      match complete fuel (ty_nullable t) fs v path with
      | (Some JNull, errs) => (None, match errs with [] => [{| xe_msg := "null for non-null position"; xe_path := path |}] | _ => errs end)
      | r => r
      end
    else
    match v with
    | RvNull => (Some JNull, [])
    | RvErr => (Some JNull, [{| xe_msg := "resolver error"; xe_path := path |}])
    | _ =>
      match t with
      | TList et _ =>
        match v with
        | RvList l =>
          let '(items, errs, broken, _) :=
            fold_left (fun (st : list json * list xerr * bool * nat) x => let '(items, errs, broken, i) := st in
                         match complete fuel et fs x (path ++ [PIdx i]) with
                         | (Some j, es) => (items ++ [j], errs ++ es, broken, S i)
                         | (None, es) => (items, errs ++ es, true, S i)
                         end) l ([], [], false, 0) in
          if broken then (Some JNull, errs) else (Some (JArr items), errs)
        | _ => (Some JNull, [{| xe_msg := "expected a list"; xe_path := path |}])
        end
      | TNamed n _ =>
        match kind_of Sc n with
        | Some KScalar | Some KEnum =>
            match v with RvLeaf j => (Some j, []) | _ => (Some JNull, [{| xe_msg := "expected a leaf"; xe_path := path |}]) end
        | Some k =>
            match v with
            | RvRef rt rid =>
                if kind_abstract k && negb (mem rt (possible_of Sc n))
                then (Some JNull, [{| xe_msg := "runtime type is not a possible type"; xe_path := path |}])
                else match exec_ss fuel rt (find_entity D rt rid) (sub_selection fs) path with
                     | (Some j, es) => (Some j, es)
                     | (None, es) => (Some JNull, es)
                     end
            | _ => (Some JNull, [{| xe_msg := "expected an object"; xe_path := path |}])
            end
        | None => (Some JNull, [{| xe_msg := "unknown type"; xe_path := path |}])
        end
      end
    end end
  with exec_ss (fuel : nat) (objT : string) (e : option entity) (ss : list sel) (path : list pe) {struct fuel} : xres :=
    match fuel with O => (Some JNull, [{| xe_msg := "out of fuel"; xe_path := path |}]) | S fuel =>
    let groups := fst (collect Sc vars objT [] ss []) in
    let '(members, errs, broken) :=
      fold_left (fun (st : list (string * json) * list xerr * bool) (g : string * list sel) => let '(members, errs, broken) := st in
        if broken then (members, errs, broken) else
        match snd g with
        | (SField _ name _ _ _ _ as f) :: _ =>
            let p := path ++ [PName (fst g)] in
            if String.eqb name "__typename" then (members ++ [(fst g, JStr objT)], errs, false) else
            match field_ty Sc objT name with
            | None => (members ++ [(fst g, JNull)], errs ++ [{| xe_msg := "unknown field"; xe_path := p |}], false)
            | Some ft =>
              match resolve objT e f with
              | Err m => if ty_nn ft then (members, errs ++ [{| xe_msg := m; xe_path := p |}], true)
                         else (members ++ [(fst g, JNull)], errs ++ [{| xe_msg := m; xe_path := p |}], false)
              | Ok v => match complete fuel ft (snd g) v p with
                        | (Some j, es) => (members ++ [(fst g, j)], errs ++ es, false)
                        | (None, es) => (members, errs ++ es, true)
                        end
              end
            end
        | _ => (members, errs, broken)
        end) groups ([], [], false) in
    if broken then (None, errs) else (Some (JObj members), errs)
    end.

  Definition exec_op (fuel : nat) (root : string) (ss : list sel) : json * list xerr :=
    match exec_ss fuel root (find_entity D root "") ss [] with
    | (Some j, es) => (j, es)
    | (None, es) => (JNull, es)
    end.
End Exec.
