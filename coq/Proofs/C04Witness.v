(* Proofs/C04Witness.v — the gateway MODEL on the "shared" federation (tables as published by the real code for
   harness/fixtures.go:fixtureShared): Gizmo implements Tool of service A and is a member of B's union Found.  A fragment
   whose type condition is an abstract type of ANOTHER service is forwarded verbatim (plan.go extractSelectionSet). *)
From V Require Import Base.Util Gql.Ast Gql.RefExec Model.Perm Model.Plan Model.Gateway Corr.E2ECheck Proofs.SharedWorld Proofs.C01Witness.

Definition data_s : list entity := [
  {| e_type := "Query"; e_id := ""; e_fields := [("tools", RvList [RvRef "Gizmo" "1"; RvRef "Hammer" "h"]); ("tool", RvRef "Gizmo" "1");
       ("priced", RvList [RvRef "Gizmo" "1"]); ("found", RvList [RvRef "Gizmo" "1"]); ("gizmo", RvRef "Gizmo" "1")] |};
  {| e_type := "Gizmo"; e_id := "1"; e_fields := [("id", RvLeaf (JStr "1")); ("label", RvLeaf (JStr "g")); ("weight", RvLeaf (JNum "3"));
       ("price", RvLeaf (JNum "7")); ("stock", RvLeaf (JNum "2")); ("twin", RvNull)] |};
  {| e_type := "Hammer"; e_id := "h"; e_fields := [("label", RvLeaf (JStr "h")); ("heft", RvLeaf (JNum "5"))] |} ].
Definition world_s : world :=
  {| w_services := [("http://a.svc/query", srv_shared_A []); ("http://b.svc/query", srv_shared_B [])]; w_data := data_s; w_fault := fun _ => None |}.
Definition gw_s (ss : list sel) := gateway gen_shared (g_schema gen_shared) world_s (qop ss) [] None 50 40.
Definition tTools := TList (TNamed "Tool" true) true.
Definition tTn := TNamed "String" true.

(* { tools { label ... on Found { __typename } } } : valid against the merged schema (Gizmo is a Tool and a Found);
   service A, which owns Query.tools, does not define Found *)
Definition q_foreign_cond := [ob "tools" "tools" tTools [lf "label" tS; SInline "Found" [] "Tool" [lf "__typename" tTn]]].
Lemma foreign_cond_valid_in_merged : valid_doc (g_schema gen_shared) "Query" q_foreign_cond = true.
Proof. vm_compute. reflexivity. Qed.
Lemma refuted_foreign_cond_valid : exists o, gw_s q_foreign_cond = Ok o /\ requests_valid world_s (oc_requests o) = false.
Proof. eexists; split; vm_compute; reflexivity. Qed.
(* control: with the member type as the condition every sub-query is valid *)
Definition q_member_cond := [ob "tools" "tools" tTools [lf "label" tS; SInline "Gizmo" [] "Tool" [lf "__typename" tTn]]].
Lemma control_member_cond_valid : exists o, gw_s q_member_cond = Ok o /\ requests_valid world_s (oc_requests o) = true.
Proof. eexists; split; vm_compute; reflexivity. Qed.
