(* Proofs/MergeRoots.v — C06: results of ROOT steps (maps merged by mergeMaps, executable_schema.go:663) in the merge-order
   argument: mergeMaps in lookup form, its commutation with itself and with lookup results. *)
From V Require Import Base.Util Gql.Ast Model.MergeRes Proofs.MergeOrder Proofs.ShapeOrder.

(* ---------- mergeMaps, entry by entry ---------- *)
Definition mm_val (n : nat) (v : raw) (os : option raw) : res raw :=
  match os with
  | None => Ok v
  | Some sv => match v, sv with
               | RMap a, RMap b => do r <- merge_maps n a b ;; Ok (RMap r)
               | _, _ => Err "PANIC mergeMaps: value is not a map[string]interface{}"
               end
  end.
Definition mm_entry (n : nat) (src : list (string * raw)) (kv : string * raw) : res (string * raw) :=
  do v <- mm_val n (snd kv) (lookup (fst kv) src) ;; Ok (fst kv, v).
Definition fresh_of (dst src : list (string * raw)) := filter (fun kv => negb (has_key (fst kv) dst)) src.

Lemma merge_maps_S n dst src :
  merge_maps (S n) dst src = do l <- all_res (mm_entry n src) dst ;; Ok (l ++ fresh_of dst src).
Proof.
  cbn [merge_maps]. unfold fresh_of.
  match goal with |- (do d <- fold_left ?F dst (Ok []) ;; _) = _ =>
    assert (HF : forall l acc0, fold_left F l (Ok acc0) = do r <- all_res (mm_entry n src) l ;; Ok (acc0 ++ r));
    [|rewrite HF; destruct (all_res (mm_entry n src) dst); reflexivity] end.
  assert (HE : forall l e, fold_left
     (fun (acc : res (list (string * raw))) (kv : string * raw) =>
      do d <- acc;;
      match lookup (fst kv) src with
      | Some sv =>
          match snd kv with
          | RMap a => match sv with
                      | RMap b => do r <- merge_maps n a b;; Ok (d ++ [(fst kv, RMap r)])
                      | _ => Err "PANIC mergeMaps: value is not a map[string]interface{}"
                      end
          | _ => Err "PANIC mergeMaps: value is not a map[string]interface{}"
          end
      | None => Ok (d ++ [kv])
      end) l (Err e) = Err e) by (induction l; intros; cbn; auto).
  induction l as [|kv t IH]; intros acc0; [cbn; rewrite app_nil_r; reflexivity|].
  cbn [fold_left all_res]. unfold mm_entry at 1, mm_val. cbn [rbind].
  destruct (lookup (fst kv) src) as [sv|].
  - destruct (snd kv); try (cbn; apply HE). destruct sv; try (cbn; apply HE).
    destruct (merge_maps n m m0); cbn; [|apply HE]. rewrite IH.
    destruct (all_res (mm_entry n src) t); cbn; [rewrite <- app_assoc; reflexivity|reflexivity].
  - cbn. rewrite IH. destruct kv. destruct (all_res (mm_entry n src) t); cbn; [rewrite <- app_assoc; reflexivity|reflexivity].
Qed.

(* ---------- mergeMaps, key by key ---------- *)
Definition mmk (n : nat) (od os : option raw) : res (option raw) :=
  match od with
  | None => Ok os
  | Some v => do v' <- mm_val n v os ;; Ok (Some v')
  end.

Lemma all_entries_keys n src dst l : all_res (mm_entry n src) dst = Ok l -> map fst l = map fst dst.
Proof.
  revert l. induction dst as [|kv t IH]; intros l H; [cbn in H; inv H; reflexivity|].
  apply all_res_cons in H. destruct H as [y [r' [Hy [Hr' ->]]]]. cbn. f_equal; [|apply IH; assumption].
  unfold mm_entry in Hy. apply rbind_ok in Hy. destruct Hy as [v [_ E]]. inv E. reflexivity.
Qed.
Lemma all_entries_lookup n src dst l : all_res (mm_entry n src) dst = Ok l -> forall k,
  match lookup k dst with
  | None => lookup k l = None
  | Some v => exists v', mm_val n v (lookup k src) = Ok v' /\ lookup k l = Some v'
  end.
Proof.
  revert l. induction dst as [|[k0 v0] t IH]; intros l H k; [cbn in H; inv H; reflexivity|].
  apply all_res_cons in H. destruct H as [y [r' [Hy [Hr' ->]]]].
  unfold mm_entry in Hy. cbn [fst snd] in Hy. apply rbind_ok in Hy. destruct Hy as [v [Hv E]]. inv E.
  cbn [lookup]. destruct (String.eqb k k0) eqn:E.
  - apply String.eqb_eq in E. subst. eauto.
  - apply IH. assumption.
Qed.
Lemma lookup_fresh_of dst src k : lookup k (fresh_of dst src) = if has_key k dst then None else lookup k src.
Proof.
  unfold fresh_of. induction src as [|[k0 v0] t IH]; cbn; [destruct (has_key k dst); reflexivity|].
  destruct (has_key k0 dst) eqn:Eh; cbn.
  - rewrite IH. destruct (String.eqb k k0) eqn:E; [|reflexivity]. apply String.eqb_eq in E. subst. rewrite Eh. reflexivity.
  - destruct (String.eqb k k0) eqn:E; [|exact IH]. apply String.eqb_eq in E. subst. rewrite Eh. reflexivity.
Qed.

Lemma mm_spec n dst src r : merge_maps (S n) dst src = Ok r -> forall k, mmk n (lookup k dst) (lookup k src) = Ok (lookup k r).
Proof.
  rewrite merge_maps_S. intros H k. apply rbind_ok in H. destruct H as [l [Hl E]]. inv E.
  rewrite lookup_app, lookup_fresh_of. pose proof (all_entries_lookup _ _ _ _ Hl k) as Hk. unfold mmk, has_key.
  destruct (lookup k dst) as [v|].
  - destruct Hk as [v' [Hv' Hlk]]. rewrite Hv', Hlk. reflexivity.
  - rewrite Hk. reflexivity.
Qed.
Lemma lookup_some_in {A} k (l : list (string * A)) v : lookup k l = Some v -> In k (map fst l).
Proof.
  induction l as [|[k1 v1] t IH]; cbn; intros H; [discriminate H|].
  destruct (String.eqb k k1) eqn:E; [left; apply String.eqb_eq in E; auto|right; auto].
Qed.
Lemma mm_exists n dst src : (forall k v, lookup k dst = Some v -> exists v', mm_val n v (lookup k src) = Ok v') -> NoDup (map fst dst) ->
  exists r, merge_maps (S n) dst src = Ok r.
Proof.
  intros H Hnd. rewrite merge_maps_S.
  assert (HL : exists l, all_res (mm_entry n src) dst = Ok l).
  { induction dst as [|[k0 v0] t IH]; [exists []; reflexivity|]. inv Hnd.
    destruct (H k0 v0) as [v' Hv']; [cbn; rewrite String.eqb_refl; reflexivity|].
    destruct IH as [l Hl]; [|assumption|].
    - intros k v Hk. apply (H k v). cbn. destruct (String.eqb k k0) eqn:E; [|assumption].
      apply String.eqb_eq in E. subst. exfalso. match goal with HN : ~ In k0 _ |- _ => apply HN end.
      eapply lookup_some_in. eassumption.
    - exists ((k0, v') :: l). apply all_res_cons_ok; [|assumption]. unfold mm_entry. cbn [fst snd]. rewrite Hv'. reflexivity. }
  destruct HL as [l Hl]. rewrite Hl. eexists. reflexivity.
Qed.
Lemma merge_maps_keys n dst src r : NoDup (map fst dst) -> NoDup (map fst src) -> merge_maps (S n) dst src = Ok r -> NoDup (map fst r).
Proof.
  rewrite merge_maps_S. intros Hd Hs H. apply rbind_ok in H. destruct H as [l [Hl E]]. inv E.
  rewrite map_app, (all_entries_keys _ _ _ _ Hl).
  assert (Hf : NoDup (map fst (fresh_of dst src)) /\ forall x, In x (map fst (fresh_of dst src)) -> ~ In x (map fst dst)).
  { unfold fresh_of. clear - Hs. induction src as [|[k0 v0] t IH]; cbn; [split; [constructor|intros ? []]|]. inv Hs.
    destruct IH as [IH1 IH2]; [assumption|]. destruct (has_key k0 dst) eqn:E; cbn; [split; assumption|].
    split.
    - constructor; [|assumption]. intros Hin. apply in_map_iff in Hin. destruct Hin as [[k v] [Ek Hin]]. cbn in Ek. subst. apply filter_In in Hin.
      match goal with HN : ~ In k0 _ |- _ => apply HN end. apply in_map_iff. exists (k0, v). tauto.
    - intros x [<-|Hx]; [|apply IH2; assumption]. intros Hin. unfold has_key in E.
      destruct (lookup k0 dst) eqn:El; [discriminate E|]. clear - Hin El.
      induction dst as [|[k1 v1] t IH]; cbn in *; [tauto|].
      destruct (String.eqb k0 k1) eqn:E1; [discriminate El|]. destruct Hin as [->|Hin]; [rewrite String.eqb_refl in E1; discriminate E1|auto]. }
  destruct Hf as [Hf1 Hf2].
  clear - Hd Hf1 Hf2. induction (map fst dst) as [|x t IH]; cbn; [assumption|]. inv Hd. constructor.
  - intros Hin. apply in_app_or in Hin. destruct Hin as [Hin|Hin]; [contradiction|]. apply (Hf2 _ Hin). left. reflexivity.
  - apply IH; [assumption|]. intros y Hy Hy2. apply (Hf2 _ Hy). right. assumption.
Qed.

Lemma wf_lookup m k v : wf (RMap m) -> lookup k m = Some v -> wf v.
Proof. intros H Hl. apply wf_map in H. destruct H as [_ Hf]. exact (lookup_in_snd wf _ _ _ Hf Hl). Qed.
Lemma in_lookup_nodup (m : list (string * raw)) k v : NoDup (map fst m) -> In (k, v) m -> lookup k m = Some v.
Proof. apply nodup_lookup. Qed.

Lemma merge_maps_wf : forall n dst src r, wf (RMap dst) -> wf (RMap src) -> merge_maps n dst src = Ok r -> wf (RMap r).
Proof.
  induction n as [|n IH]; intros dst src r Hd Hs H; [discriminate H|].
  apply wf_map. split.
  - apply wf_map in Hd. apply wf_map in Hs. eapply merge_maps_keys; [apply Hd|apply Hs|exact H].
  - pose proof H as H0. rewrite merge_maps_S in H0. apply rbind_ok in H0. destruct H0 as [l [Hl E]]. inv E.
    apply Forall_app. split.
    + assert (Hall : forall dd l0, (forall kv, In kv dd -> wf (snd kv)) -> all_res (mm_entry n src) dd = Ok l0 -> Forall (fun kv => wf (snd kv)) l0).
      { induction dd as [|kv t IHd]; intros l0 Hw Hl0; [cbn in Hl0; inv Hl0; constructor|].
        apply all_res_cons in Hl0. destruct Hl0 as [y [r' [Hy [Hr' ->]]]]. constructor; [|apply IHd; [intros; apply Hw; right; assumption|assumption]].
        unfold mm_entry in Hy. apply rbind_ok in Hy. destruct Hy as [v [Hv E]]. inv E. cbn [snd].
        unfold mm_val in Hv. destruct (lookup (fst kv) src) as [sv|] eqn:Es; [|inv Hv; apply Hw; left; reflexivity].
        pose proof (Hw kv (or_introl eq_refl)) as Hwk.
        destruct (snd kv); try discriminate Hv. destruct sv; try discriminate Hv.
        apply rbind_ok in Hv. destruct Hv as [rr [Hrr E]]. inv E. exact (IH _ _ _ Hwk (wf_lookup _ _ _ Hs Es) Hrr). }
      apply (Hall dst l); [|assumption]. apply wf_map in Hd. destruct Hd as [_ Hf]. rewrite Forall_forall in Hf. exact Hf.
    + apply wf_map in Hs. destruct Hs as [_ Hf]. unfold fresh_of. apply Forall_forall. intros kv Hin. apply filter_In in Hin.
      rewrite Forall_forall in Hf. apply Hf. tauto.
Qed.

Lemma fresh_nil src : fresh_of [] src = src.
Proof. unfold fresh_of. induction src as [|kv t IH]; [reflexivity|]. cbn [filter]. change (has_key (fst kv) (@nil (string * raw))) with false. cbn [negb]. f_equal. exact IH. Qed.
Lemma merge_maps_nil n src : merge_maps (S n) [] src = Ok src.
Proof. rewrite merge_maps_S. cbn. rewrite fresh_nil. reflexivity. Qed.

Definition owf (o : option raw) : Prop := match o with Some v => wf v | None => True end.
Definition RRn (n : nat) : Prop := forall d s1 s2 d1 d12, wf (RMap d) -> wf (RMap s1) -> wf (RMap s2) ->
  merge_maps n d s1 = Ok d1 -> merge_maps n d1 s2 = Ok d12 ->
  exists d2 d21, merge_maps n d s2 = Ok d2 /\ merge_maps n d2 s1 = Ok d21 /\ mrel d12 d21.

Lemma comm_of_RR n : RRn n -> forall a b r, wf (RMap a) -> wf (RMap b) -> merge_maps n a b = Ok r ->
  exists r', merge_maps n b a = Ok r' /\ mrel r r'.
Proof.
  intros HR a b r Ha Hb H. destruct n as [|m]; [discriminate H|].
  destruct (HR [] a b a r) as [d2 [d21 [A [B C]]]]; try assumption.
  - cbn. split; [constructor|exact I].
  - apply merge_maps_nil.
  - rewrite merge_maps_nil in A. inv A. eauto.
Qed.

Lemma key_commute n : RRn n -> forall od o1 o2 v1 v12, owf od -> owf o1 -> owf o2 ->
  mmk n od o1 = Ok v1 -> mmk n v1 o2 = Ok v12 ->
  exists v2 v21, mmk n od o2 = Ok v2 /\ mmk n v2 o1 = Ok v21 /\ orel req v12 v21.
Proof.
  intros HR od o1 o2 v1 v12 Wd W1 W2 H1 H2.
  destruct od as [xd|]; cbn in H1.
  - apply rbind_ok in H1. destruct H1 as [xd' [Hx E]]. inv E. cbn in H2. apply rbind_ok in H2. destruct H2 as [w [Hw E]]. inv E.
    destruct o1 as [x1|]; cbn in Hx.
    + destruct xd as [| | | | |a]; try discriminate Hx. destruct x1 as [| | | | |b1]; try discriminate Hx.
      apply rbind_ok in Hx. destruct Hx as [c1 [Hc1 E]]. inv E.
      destruct o2 as [x2|]; cbn in Hw.
      * destruct x2 as [| | | | |b2]; try discriminate Hw. apply rbind_ok in Hw. destruct Hw as [c12 [Hc12 E]]. inv E.
        destruct (HR a b1 b2 c1 c12 Wd W1 W2 Hc1 Hc12) as [c2 [c21 [A [B C]]]].
        exists (Some (RMap c2)), (Some (RMap c21)). cbn. rewrite A. cbn. rewrite B. cbn. repeat split. constructor. constructor. exact C.
      * inv Hw. exists (Some (RMap a)), (Some (RMap c1)). cbn. rewrite Hc1. cbn. repeat split. apply orel_refl_eq. reflexivity.
    + inv Hx. exists (Some w), (Some w). cbn. rewrite Hw. cbn. repeat split. apply orel_refl_eq. reflexivity.
  - inv H1. destruct v1 as [x1|]; cbn in H2.
    + apply rbind_ok in H2. destruct H2 as [w [Hw E]]. inv E. destruct o2 as [x2|]; cbn in Hw.
      * destruct x1 as [| | | | |a1]; try discriminate Hw. destruct x2 as [| | | | |a2]; try discriminate Hw.
        apply rbind_ok in Hw. destruct Hw as [r [Hr E]]. inv E.
        destruct (comm_of_RR n HR a1 a2 r W1 W2 Hr) as [r' [Hr' Hm]].
        exists (Some (RMap a2)), (Some (RMap r')). cbn. rewrite Hr'. cbn. repeat split. constructor. constructor. exact Hm.
      * inv Hw. exists None, (Some w). cbn. repeat split. apply orel_refl_eq. reflexivity.
    + inv H2. exists v12, v12. cbn. split; [reflexivity|]. split; [|apply orel_refl_eq; reflexivity].
      destruct v12; reflexivity.
Qed.

Lemma owf_lookup m k : wf (RMap m) -> owf (lookup k m).
Proof. intros H. unfold owf. destruct (lookup k m) eqn:E; [eapply wf_lookup; eassumption|exact I]. Qed.
Lemma wf_nodup m : wf (RMap m) -> NoDup (map fst m).
Proof. intros H. apply wf_map in H. tauto. Qed.

(* two root results merged into the same tree, in either order: both succeed or both fail, and the trees are equal Go values *)
Theorem rr_commute : forall n, RRn n.
Proof.
  induction n as [|n IH]; intros d s1 s2 d1 d12 Wd W1 W2 H1 H2; [discriminate H1|].
  pose proof (mm_spec _ _ _ _ H1) as S1. pose proof (mm_spec _ _ _ _ H2) as S2.
  pose proof (merge_maps_wf _ _ _ _ Wd W1 H1) as Wd1.
  assert (HK : forall k, exists v2 v21, mmk n (lookup k d) (lookup k s2) = Ok v2 /\ mmk n v2 (lookup k s1) = Ok v21 /\ orel req (lookup k d12) v21).
  { intros k. apply (key_commute n IH (lookup k d) (lookup k s1) (lookup k s2) (lookup k d1) (lookup k d12));
      try (apply owf_lookup; assumption); [apply S1|apply S2]. }
  destruct (mm_exists n d s2) as [d2 Hd2].
  { intros k v Hk. destruct (HK k) as [v2 [v21 [A _]]]. rewrite Hk in A. cbn in A. apply rbind_ok in A. destruct A as [v' [Hv' _]]. eauto. }
  { apply wf_nodup. assumption. }
  pose proof (mm_spec _ _ _ _ Hd2) as S3. pose proof (merge_maps_wf _ _ _ _ Wd W2 Hd2) as Wd2.
  destruct (mm_exists n d2 s1) as [d21 Hd21].
  { intros k v Hk. destruct (HK k) as [v2 [v21 [A [B _]]]]. rewrite (S3 k) in A. inv A. rewrite Hk in B. cbn in B.
    apply rbind_ok in B. destruct B as [v' [Hv' _]]. eauto. }
  { apply wf_nodup. assumption. }
  exists d2, d21. split; [exact Hd2|]. split; [exact Hd21|].
  intros k. destruct (HK k) as [v2 [v21 [A [B C]]]]. rewrite (S3 k) in A. inv A.
  rewrite (mm_spec _ _ _ _ Hd21 k) in B. inv B. exact C.
Qed.
Corollary merge_maps_comm n a b r : wf (RMap a) -> wf (RMap b) -> merge_maps n a b = Ok r ->
  exists r', merge_maps n b a = Ok r' /\ mrel r r'.
Proof. apply comm_of_RR. apply rr_commute. Qed.

(* ---------- merging a root result respects equality of Go values ---------- *)
Definition MCn (n : nat) : Prop := forall m m' sm r, wf (RMap m') -> mrel m m' -> merge_maps n m sm = Ok r ->
  exists r', merge_maps n m' sm = Ok r' /\ mrel r r'.
Lemma mm_val_congr n (IH : MCn n) x x' o v : wf x' -> req x x' -> mm_val n x o = Ok v -> exists v', mm_val n x' o = Ok v' /\ req v v'.
Proof.
  intros Wx Hq H. destruct o as [sv|]; cbn in *; [|inv H; eauto].
  destruct x as [| | | | |a]; try discriminate H. destruct sv as [| | | | |b]; try discriminate H.
  apply rbind_ok in H. destruct H as [c [Hc E]]. inv E. inv Hq.
  match goal with HM : forall k, orel req (lookup k a) (lookup k ?a2) |- _ => destruct (IH a a2 b c Wx HM Hc) as [c' [Hc' Hm]] end.
  cbn. rewrite Hc'. cbn. eexists. split; [reflexivity|]. constructor. exact Hm.
Qed.
Theorem merge_maps_congr : forall n, MCn n.
Proof.
  induction n as [|n IH]; intros m m' sm r Wm' Hm H; [discriminate H|].
  pose proof (mm_spec _ _ _ _ H) as S1.
  assert (HK : forall k, exists v', mmk n (lookup k m') (lookup k sm) = Ok v' /\ orel req (lookup k r) v').
  { intros k. specialize (S1 k). pose proof (Hm k) as Hk.
    destruct (lookup k m) as [x|] eqn:Ex; destruct (lookup k m') as [x'|] eqn:Ex'; inv Hk.
    - cbn in S1. apply rbind_ok in S1. destruct S1 as [v [Hv E]]. injection E as E. rewrite <- E.
      destruct (mm_val_congr n IH x x' (lookup k sm) v) as [v' [Hv' Hq']]; try assumption; [eapply wf_lookup; eassumption|].
      exists (Some v'). cbn. rewrite Hv'. cbn. split; [reflexivity|constructor; exact Hq'].
    - cbn in S1. injection S1 as S1. rewrite <- S1.
      exists (lookup k sm). cbn. split; [reflexivity|apply orel_refl_eq; reflexivity]. }
  destruct (mm_exists n m' sm) as [r' Hr'].
  { intros k v Hk. destruct (HK k) as [v' [A _]]. rewrite Hk in A. cbn in A. apply rbind_ok in A. destruct A as [w [Hw _]]. eauto. }
  { apply wf_nodup. assumption. }
  exists r'. split; [exact Hr'|]. intros k. destruct (HK k) as [v' [A B]]. rewrite (mm_spec _ _ _ _ Hr' k) in A. inv A. exact B.
Qed.

(* ---------- a root result and a lookup result ---------- *)
(* the lookup's insertion point leaves the root result's tree before it ends: the lookup does not work on anything that
   only this root result brings *)
Fixpoint untouched (sm : list (string * raw)) (ip : list string) : Prop :=
  match ip with
  | [] => False
  | k :: rest => match lookup k sm with None => True | Some (RMap b) => untouched b rest | Some _ => False end
  end.

Lemma M_map_result s ip m e : M s ip (RMap m) = Ok e -> exists m', e = RMap m'.
Proof.
  destruct ip as [|k rest]; [rewrite M_top|rewrite M_desc]; intros H; apply rbind_ok in H; destruct H as [r [_ E]]; inv E; eauto.
Qed.
Lemma noop s : forall ip b, untouched b ip -> exists e, M s ip (RMap b) = Ok (RMap e) /\ mrel e b.
Proof.
  induction ip as [|k rest IH]; intros b H; [destruct H|]. cbn in H. rewrite M_desc.
  destruct (lookup k b) as [v|] eqn:E.
  - destruct v as [| | | | |b']; try destruct H. destruct (IH b' H) as [e' [He' Hm']].
    destruct (desc_some (M s rest) k b (RMap b') (RMap e') E He') as [m' [Hd Hl]]. rewrite Hd. cbn.
    exists m'. split; [reflexivity|]. intros k'. rewrite Hl. destruct (String.eqb k' k) eqn:Ek.
    + apply String.eqb_eq in Ek. subst. rewrite E. constructor. constructor. exact Hm'.
    + apply orel_refl_eq. reflexivity.
  - rewrite (desc_none _ _ _ E). cbn. exists b. split; [reflexivity|]. intros k'. apply orel_refl_eq. reflexivity.
Qed.

Definition RCn (n : nat) : Prop := forall sm m m1 s ip d12, wf (RMap m) -> Forall wf s -> untouched sm ip ->
  merge_maps n m sm = Ok m1 -> M s ip (RMap m1) = Ok d12 ->
  exists m2 m21, M s ip (RMap m) = Ok (RMap m2) /\ merge_maps n m2 sm = Ok m21 /\ req d12 (RMap m21).

(* helper: after a change below key k only, the other keys merge as before *)
Lemma mm_exists_frame n m m2 sm k v' : NoDup (map fst m2) ->
  (forall k', lookup k' m2 = if String.eqb k' k then Some v' else lookup k' m) ->
  (forall k' x, lookup k' m = Some x -> k' <> k -> exists w, mm_val n x (lookup k' sm) = Ok w) ->
  (exists w, mm_val n v' (lookup k sm) = Ok w) ->
  exists r, merge_maps (S n) m2 sm = Ok r.
Proof.
  intros Hnd Hl Hother Hk. apply mm_exists; [|assumption].
  intros k' x Hx. rewrite Hl in Hx. destruct (String.eqb k' k) eqn:E.
  - apply String.eqb_eq in E. subst. inv Hx. exact Hk.
  - apply (Hother k' x Hx). apply String.eqb_neq. assumption.
Qed.

Theorem rc_commute : forall n, RCn n.
Proof.
  induction n as [|n IH]; intros sm m m1 s ip d12 Wm Ws Hu H1 H2; [discriminate H1|].
  destruct ip as [|k rest]; [destruct Hu|]. cbn in Hu.
  pose proof (mm_spec _ _ _ _ H1) as S1.
  rewrite M_desc in H2. apply rbind_ok in H2. destruct H2 as [m12 [Hd E]]. inv E.
  assert (Hother : forall k' x, lookup k' m = Some x -> k' <> k -> exists w, mm_val n x (lookup k' sm) = Ok w).
  { intros k' x Hx _. specialize (S1 k'). rewrite Hx in S1. cbn in S1. apply rbind_ok in S1. destruct S1 as [w [Hw _]]. eauto. }
  destruct (lookup k sm) as [sv|] eqn:Es.
  - destruct sv as [| | | | |b]; try destruct Hu.
    destruct (lookup k m) as [xd|] eqn:Em.
    + (* the key is in both: the lookup works inside the merged value *)
      pose proof (S1 k) as Sk. rewrite Em, Es in Sk. cbn in Sk.
      destruct xd as [| | | | |a]; try discriminate Sk. cbn in Sk.
      destruct (merge_maps n a b) as [c|] eqn:Ec; [|discriminate Sk]. cbn in Sk. injection Sk as Sk. symmetry in Sk.
      destruct (desc_inv _ _ _ _ Hd) as [[Hn _]|[v [v' [Hv [Hf Hl]]]]]; [congruence|].
      rewrite Sk in Hv. inv Hv.
      destruct (IH b a c s rest v' (wf_lookup _ _ _ Wm Em) Ws Hu Ec Hf) as [a2 [c21 [A [B C]]]].
      destruct (desc_some (M s rest) k m (RMap a) (RMap a2) Em A) as [m2 [Hd2 Hl2]].
      assert (HM2 : M s (k :: rest) (RMap m) = Ok (RMap m2)) by (rewrite M_desc, Hd2; reflexivity).
      pose proof (M_wf s Ws _ _ _ Wm HM2) as Wm2.
      destruct (mm_exists_frame n m m2 sm k (RMap a2) (wf_nodup _ Wm2) Hl2 Hother) as [m21 Hm21].
      { rewrite Es. cbn. rewrite B. cbn. eauto. }
      exists m2, m21. split; [exact HM2|]. split; [exact Hm21|].
      constructor. intros k'. pose proof (mm_spec _ _ _ _ Hm21 k') as S2. rewrite Hl2 in S2. rewrite Hl.
      destruct (String.eqb k' k) eqn:Ek.
      * apply String.eqb_eq in Ek. subst. rewrite Es in S2. cbn in S2. rewrite B in S2. cbn in S2. injection S2 as S2. rewrite <- S2. constructor. exact C.
      * apply orel_refl_eq. pose proof (S1 k') as S1k. rewrite S1k in S2. injection S2 as S2. exact S2.
    + (* only the root result has the key: the lookup finds nothing to work on *)
      pose proof (S1 k) as Sk. rewrite Em, Es in Sk. cbn in Sk. injection Sk as Sk. symmetry in Sk.
      destruct (desc_inv _ _ _ _ Hd) as [[Hn _]|[v [v' [Hv [Hf Hl]]]]]; [congruence|].
      rewrite Sk in Hv. inv Hv. destruct (noop s rest b Hu) as [e [He Hme]]. rewrite He in Hf. inv Hf.
      exists m, m1. split; [rewrite M_desc, (desc_none _ _ _ Em); reflexivity|]. split; [exact H1|].
      constructor. intros k'. rewrite Hl. destruct (String.eqb k' k) eqn:Ek; [|apply orel_refl_eq; reflexivity].
      apply String.eqb_eq in Ek. subst. rewrite Sk. constructor. constructor. exact Hme.
  - (* the root result does not have the key *)
    assert (Hk1 : lookup k m1 = lookup k m).
    { pose proof (S1 k) as Sk. rewrite Es in Sk. destruct (lookup k m); cbn in Sk; injection Sk as Sk; auto. }
    destruct (desc_inv _ _ _ _ Hd) as [[Hn ->]|[v [v' [Hv [Hf Hl]]]]].
    + rewrite Hk1 in Hn. exists m, m1. split; [rewrite M_desc, (desc_none _ _ _ Hn); reflexivity|]. split; [exact H1|apply req_refl].
    + rewrite Hk1 in Hv.
      destruct (desc_some (M s rest) k m v v' Hv Hf) as [m2 [Hd2 Hl2]].
      assert (HM2 : M s (k :: rest) (RMap m) = Ok (RMap m2)) by (rewrite M_desc, Hd2; reflexivity).
      pose proof (M_wf s Ws _ _ _ Wm HM2) as Wm2.
      destruct (mm_exists_frame n m m2 sm k v' (wf_nodup _ Wm2) Hl2 Hother) as [m21 Hm21].
      { rewrite Es. cbn. eauto. }
      exists m2, m21. split; [exact HM2|]. split; [exact Hm21|].
      constructor. intros k'. pose proof (mm_spec _ _ _ _ Hm21 k') as S2. rewrite Hl2 in S2. rewrite Hl.
      destruct (String.eqb k' k) eqn:Ek.
      * apply String.eqb_eq in Ek. subst. rewrite Es in S2. cbn in S2. injection S2 as S2. rewrite <- S2. apply orel_refl_eq. reflexivity.
      * apply orel_refl_eq. pose proof (S1 k') as S1k. rewrite S1k in S2. injection S2 as S2. exact S2.
Qed.

Lemma M_result_map s ip v a1 : M s ip v = Ok (RMap a1) -> exists a, v = RMap a.
Proof.
  destruct v; intros H; eauto.
  - rewrite M_rnil in H. discriminate H.
  - destruct (M_leaf s ip (RBool b) I) as [e He]. congruence.
  - destruct (M_leaf s ip (RNum lexeme) I) as [e He]. congruence.
  - destruct (M_leaf s ip (RStr s0) I) as [e He]. congruence.
  - rewrite M_arr in H. apply rbind_ok in H. destruct H as [r [_ E]]. discriminate E.
Qed.

Definition CRn (n : nat) : Prop := forall sm m m1 s ip m12, wf (RMap m) -> Forall wf s -> untouched sm ip ->
  M s ip (RMap m) = Ok (RMap m1) -> merge_maps n m1 sm = Ok m12 ->
  exists m2 d21, merge_maps n m sm = Ok m2 /\ M s ip (RMap m2) = Ok d21 /\ req (RMap m12) d21.

Theorem cr_commute : forall n, CRn n.
Proof.
  induction n as [|n IH]; intros sm m m1 s ip m12 Wm Ws Hu H1 H2; [discriminate H2|].
  destruct ip as [|k rest]; [destruct Hu|]. cbn in Hu.
  pose proof (mm_spec _ _ _ _ H2) as S2.
  rewrite M_desc in H1. apply rbind_ok in H1. destruct H1 as [m1' [Hd E]]. inv E.
  destruct (desc_inv _ _ _ _ Hd) as [[Hn ->]|[v [v' [Hv [Hf Hl]]]]].
  - (* the lookup found nothing at its key *)
    exists m12. pose proof (S2 k) as Sk. rewrite Hn in Sk. cbn in Sk. injection Sk as Sk. symmetry in Sk.
    destruct (lookup k sm) as [sv|] eqn:Es.
    + destruct sv as [| | | | |b]; try destruct Hu. destruct (noop s rest b Hu) as [e [He Hme]].
      destruct (desc_some (M s rest) k m12 (RMap b) (RMap e) Sk He) as [m' [Hd' Hl']].
      exists (RMap m'). split; [exact H2|]. split; [rewrite M_desc, Hd'; reflexivity|].
      constructor. intros k'. rewrite Hl'. destruct (String.eqb k' k) eqn:Ek; [|apply orel_refl_eq; reflexivity].
      apply String.eqb_eq in Ek. subst. rewrite Sk. constructor. constructor. intros k''. specialize (Hme k''). inv Hme; constructor. apply req_sym. assumption.
    + exists (RMap m12). split; [exact H2|]. split; [rewrite M_desc, (desc_none _ _ _ Sk); reflexivity|apply req_refl].
  - assert (Hother : forall k' x, lookup k' m = Some x -> k' <> k -> exists w, mm_val n x (lookup k' sm) = Ok w).
    { intros k' x Hx Hne. specialize (S2 k'). rewrite Hl in S2. apply String.eqb_neq in Hne. rewrite Hne, Hx in S2. cbn in S2.
      apply rbind_ok in S2. destruct S2 as [w [Hw _]]. eauto. }
    pose proof (S2 k) as Sk. rewrite Hl, String.eqb_refl in Sk. cbn in Sk.
    destruct (lookup k sm) as [sv|] eqn:Es.
    + destruct sv as [| | | | |b]; try destruct Hu. cbn in Sk.
      destruct v' as [| | | | |a1]; try discriminate Sk. cbn in Sk.
      destruct (merge_maps n a1 b) as [c12|] eqn:Ec; [|discriminate Sk]. cbn in Sk. injection Sk as Sk. symmetry in Sk.
      destruct (M_result_map _ _ _ _ Hf) as [a ->].
      destruct (IH b a a1 s rest c12 (wf_lookup _ _ _ Wm Hv) Ws Hu Hf Ec) as [c2 [d21' [A [B C]]]].
      destruct (mm_exists n m sm) as [m2 Hm2].
      { intros k' x Hx. destruct (String.eqb k' k) eqn:Ek.
        - apply String.eqb_eq in Ek. subst. rewrite Hv in Hx. inv Hx. rewrite Es. cbn. rewrite A. cbn. eauto.
        - apply (Hother k' x Hx). apply String.eqb_neq. assumption. }
      { apply wf_nodup. assumption. }
      pose proof (mm_spec _ _ _ _ Hm2) as S3.
      assert (Hk2 : lookup k m2 = Some (RMap c2)).
      { pose proof (S3 k) as S3k. rewrite Hv, Es in S3k. cbn in S3k. rewrite A in S3k. cbn in S3k. injection S3k as S3k. auto. }
      destruct (desc_some (M s rest) k m2 (RMap c2) d21' Hk2 B) as [m' [Hd' Hl']].
      exists m2, (RMap m'). split; [exact Hm2|]. split; [rewrite M_desc, Hd'; reflexivity|].
      constructor. intros k'. rewrite Hl'. destruct (String.eqb k' k) eqn:Ek.
      * apply String.eqb_eq in Ek. subst. rewrite Sk. constructor. exact C.
      * apply orel_refl_eq. pose proof (S2 k') as S2k. rewrite Hl, Ek in S2k. rewrite (S3 k') in S2k. injection S2k as S2k. auto.
    + cbn in Sk. injection Sk as Sk. symmetry in Sk.
      destruct (mm_exists n m sm) as [m2 Hm2].
      { intros k' x Hx. destruct (String.eqb k' k) eqn:Ek.
        - apply String.eqb_eq in Ek. subst. rewrite Es. cbn. eauto.
        - apply (Hother k' x Hx). apply String.eqb_neq. assumption. }
      { apply wf_nodup. assumption. }
      pose proof (mm_spec _ _ _ _ Hm2) as S3.
      assert (Hk2 : lookup k m2 = Some v).
      { pose proof (S3 k) as S3k. rewrite Hv, Es in S3k. cbn in S3k. injection S3k as S3k. auto. }
      destruct (desc_some (M s rest) k m2 v v' Hk2 Hf) as [m' [Hd' Hl']].
      exists m2, (RMap m'). split; [exact Hm2|]. split; [rewrite M_desc, Hd'; reflexivity|].
      constructor. intros k'. rewrite Hl'. destruct (String.eqb k' k) eqn:Ek.
      * apply String.eqb_eq in Ek. subst. rewrite Sk. apply orel_refl_eq. reflexivity.
      * apply orel_refl_eq. pose proof (S2 k') as S2k. rewrite Hl, Ek in S2k. rewrite (S3 k') in S2k. injection S2k as S2k. auto.
Qed.

(* ---------- lists of results of both kinds ---------- *)
From Coq Require Import Permutation.
Definition is_root (r : exres) : Prop := er_ip r = [] /\ match er_data r with RMap _ | RNil => True | _ => False end.
Definition ok_res (r : exres) : Prop := (is_child r \/ is_root r) /\ wf (er_data r).
(* independence of two results of either kind *)
Definition indep2 (x y : exres) : Prop :=
  match er_data x, er_data y with
  | RArr _, RArr _ => indep_res x y
  | RMap sm, RArr _ => untouched sm (er_ip y)
  | RArr _, RMap sm => untouched sm (er_ip x)
  | _, _ => True
  end.

Lemma step_root_map r sm m : er_ip r = [] -> er_data r = RMap sm ->
  merge_rec (er_data r) (RMap m) (er_ip r) = do x <- merge_maps 64 m sm ;; Ok (RMap x).
Proof. intros -> ->. reflexivity. Qed.
Lemma step_root_nil r m : er_ip r = [] -> er_data r = RNil -> merge_rec (er_data r) (RMap m) (er_ip r) = Ok (RMap m).
Proof. intros -> ->. reflexivity. Qed.

(* one step keeps the tree a well-formed map *)
Lemma step_map r m e : ok_res r -> wf (RMap m) -> merge_rec (er_data r) (RMap m) (er_ip r) = Ok e -> exists m', e = RMap m' /\ wf (RMap m').
Proof.
  intros [[Hc|[Hip Hk]] Hw] Wm H.
  - rewrite (child_M _ _ Hc) in H. destruct (M_map_result _ _ _ _ H) as [m' ->]. exists m'. split; [reflexivity|].
    refine (M_wf (items_of r) _ _ _ _ Wm H). unfold is_child in Hc. unfold items_of. destruct (er_data r); try contradiction. exact (proj1 (wf_arr l) Hw).
  - destruct (er_data r) eqn:E; try contradiction.
    + rewrite <- E in H. rewrite (step_root_nil r m Hip E) in H. inv H. eauto.
    + rewrite <- E in H. rewrite (step_root_map r m0 m Hip E) in H. apply rbind_ok in H. destruct H as [x [Hx E2]]. inv E2.
      exists x. split; [reflexivity|]. eapply merge_maps_wf; [exact Wm|exact Hw|exact Hx].
Qed.

Lemma step_congr r m m' e : ok_res r -> wf (RMap m') -> mrel m m' -> merge_rec (er_data r) (RMap m) (er_ip r) = Ok e ->
  exists e', merge_rec (er_data r) (RMap m') (er_ip r) = Ok e' /\ req e e'.
Proof.
  intros [[Hc|[Hip Hk]] Hw] Wm' Hm H.
  - rewrite (child_M r (RMap m) Hc) in H. rewrite (child_M r (RMap m') Hc). apply (M_congr _ (RMap m) (RMap m') (Q_map _ _ Hm) _ _ H).
  - destruct (er_data r) eqn:E; try contradiction.
    + rewrite <- E in *. rewrite (step_root_nil r m Hip E) in H. inv H. rewrite (step_root_nil r m' Hip E). eexists. split; [reflexivity|constructor; exact Hm].
    + rewrite <- E in *. rewrite (step_root_map r m0 m Hip E) in H. apply rbind_ok in H. destruct H as [x [Hx E2]]. inv E2.
      destruct (merge_maps_congr 64 m m' m0 x Wm' Hm Hx) as [x' [Hx' Hm']].
      rewrite (step_root_map r m0 m' Hip E), Hx'. cbn. eexists. split; [reflexivity|constructor; exact Hm'].
Qed.

Lemma merge_from_congr2 rs : Forall ok_res rs -> forall m m' e, wf (RMap m) -> wf (RMap m') -> mrel m m' -> merge_from (RMap m) rs = Ok e ->
  exists e', merge_from (RMap m') rs = Ok e' /\ req e e'.
Proof.
  induction 1 as [|r t Hr Ht IH]; intros m m' e Wm Wm' Hm He.
  - cbn in He. inv He. eexists. split; [reflexivity|constructor; exact Hm].
  - rewrite merge_from_cons in He. apply rbind_ok in He. destruct He as [d1 [H1 H2]].
    destruct (step_map _ _ _ Hr Wm H1) as [m1 [-> Wm1]].
    destruct (step_congr _ _ _ _ Hr Wm' Hm H1) as [d1' [H1' Hq1]].
    destruct (step_map _ _ _ Hr Wm' H1') as [m1' [-> Wm1']]. inv Hq1.
    match goal with HM : forall k, orel req (lookup k m1) (lookup k m1') |- _ => destruct (IH m1 m1' e Wm1 Wm1' HM H2) as [e' [He' Hqe]] end.
    exists e'. split; [|assumption]. rewrite merge_from_cons, H1'. exact He'.
Qed.
Lemma merge_from_map rs : Forall ok_res rs -> forall m e, wf (RMap m) -> merge_from (RMap m) rs = Ok e -> exists m', e = RMap m' /\ wf (RMap m').
Proof.
  induction 1 as [|r t Hr Ht IH]; intros m e Wm He; [cbn in He; inv He; eauto|].
  rewrite merge_from_cons in He. apply rbind_ok in He. destruct He as [d1 [H1 H2]].
  destruct (step_map _ _ _ Hr Wm H1) as [m1 [-> Wm1]]. eapply IH; eassumption.
Qed.

(* two adjacent results of any kinds *)
Lemma pair_commute x y m d1 d12 : ok_res x -> ok_res y -> indep2 x y -> wf (RMap m) ->
  merge_rec (er_data x) (RMap m) (er_ip x) = Ok d1 -> merge_rec (er_data y) d1 (er_ip y) = Ok d12 ->
  exists d2 d21, merge_rec (er_data y) (RMap m) (er_ip y) = Ok d2 /\ merge_rec (er_data x) d2 (er_ip x) = Ok d21 /\ req d12 d21.
Proof.
  intros Hx Hy Hi Wm H1 H2.
  destruct (step_map _ _ _ Hx Wm H1) as [m1 [-> Wm1]].
  destruct (step_map _ _ _ Hy Wm1 H2) as [m12 [-> Wm12]].
  destruct Hx as [Kx Hwx]; destruct Hy as [Ky Hwy]. unfold indep2 in Hi. unfold is_child, is_root in Kx, Ky.
  destruct (er_data x) as [| | | |lx|sx] eqn:Ex; destruct (er_data y) as [| | | |ly|sy] eqn:Ey;
    try (exfalso; destruct Kx as [Kx|[_ Kx]]; exact Kx); try (exfalso; destruct Ky as [Ky|[_ Ky]]; exact Ky).
  - (* failed root, failed root *)
    destruct Kx as [[]|[Hipx _]]. destruct Ky as [[]|[Hipy _]]. rewrite Hipx, Hipy in *. cbn in H1, H2. inv H1. inv H2.
    exists (RMap m12), (RMap m12). repeat split. apply req_refl.
  - (* failed root, lookup *)
    destruct Kx as [[]|[Hipx _]]. rewrite Hipx in *. cbn in H1. inv H1.
    exists (RMap m12), (RMap m12). split; [exact H2|]. split; [reflexivity|apply req_refl].
  - (* failed root, root *)
    destruct Kx as [[]|[Hipx _]]. rewrite Hipx in *. cbn in H1. inv H1.
    exists (RMap m12), (RMap m12). split; [exact H2|]. split; [reflexivity|apply req_refl].
  - (* lookup, failed root *)
    destruct Ky as [[]|[Hipy _]]. rewrite Hipy in *. cbn in H2. inv H2.
    exists (RMap m), (RMap m12). split; [reflexivity|]. split; [exact H1|apply req_refl].
  - (* two lookups *)
    unfold indep_res, items_of in Hi. rewrite Ex, Ey in Hi. destruct Hi as [Wx [Wy Hind]].
    change (M lx (er_ip x) (RMap m) = Ok (RMap m1)) in H1. change (M ly (er_ip y) (RMap m1) = Ok (RMap m12)) in H2.
    destruct (cc_commute _ _ Wx Wy _ _ _ _ _ Hind H1 H2) as [d2 [d21 [A [B C]]]].
    exists d2, d21. split; [exact A|]. split; [exact B|exact C].
  - (* lookup, root *)
    destruct Ky as [[]|[Hipy _]]. rewrite Hipy in *. cbn [merge_rec] in H2. apply rbind_ok in H2. destruct H2 as [mm [H2 E]]. inv E.
    change (M lx (er_ip x) (RMap m) = Ok (RMap m1)) in H1.
    destruct (cr_commute 64 sy m m1 lx (er_ip x) m12 Wm (proj1 (wf_arr lx) Hwx) Hi H1 H2) as [m2 [d21 [A [B C]]]].
    exists (RMap m2), d21. split; [cbn [merge_rec]; rewrite A; reflexivity|]. split; [exact B|exact C].
  - (* root, failed root *)
    destruct Ky as [[]|[Hipy _]]. rewrite Hipy in *. cbn in H2. inv H2.
    exists (RMap m), (RMap m12). split; [reflexivity|]. split; [exact H1|apply req_refl].
  - (* root, lookup *)
    destruct Kx as [[]|[Hipx _]]. rewrite Hipx in *. cbn [merge_rec] in H1. apply rbind_ok in H1. destruct H1 as [mm [H1 E]]. inv E.
    change (M ly (er_ip y) (RMap m1) = Ok (RMap m12)) in H2.
    destruct (rc_commute 64 sx m m1 ly (er_ip y) (RMap m12) Wm (proj1 (wf_arr ly) Hwy) Hi H1 H2) as [m2 [m21 [A [B C]]]].
    exists (RMap m2), (RMap m21). split; [exact A|]. split; [cbn [merge_rec]; rewrite B; reflexivity|exact C].
  - (* two roots *)
    destruct Kx as [[]|[Hipx _]]. destruct Ky as [[]|[Hipy _]]. rewrite Hipx, Hipy in *. cbn [merge_rec] in H1, H2.
    apply rbind_ok in H1. destruct H1 as [mm [H1 E]]. inv E. apply rbind_ok in H2. destruct H2 as [mm [H2 E]]. inv E.
    destruct (rr_commute 64 m sx sy m1 m12 Wm Hwx Hwy H1 H2) as [d2 [d21 [A [B C]]]].
    exists (RMap d2), (RMap d21). split; [cbn [merge_rec]; rewrite A; reflexivity|]. split; [cbn [merge_rec]; rewrite B; reflexivity|constructor; exact C].
Qed.

(* ---------- any sequence of swaps of adjacent independent results, of either kind ---------- *)
Inductive reorder2 : list exres -> list exres -> Prop :=
| ro2_refl l : reorder2 l l
| ro2_swap l1 x y l2 l' : indep2 x y -> reorder2 (l1 ++ y :: x :: l2) l' -> reorder2 (l1 ++ x :: y :: l2) l'.

Lemma merge_from_ok_prefix l1 l2 m e : Forall ok_res l1 -> wf (RMap m) -> merge_from (RMap m) (l1 ++ l2) = Ok e ->
  exists m0, merge_from (RMap m) l1 = Ok (RMap m0) /\ wf (RMap m0) /\ merge_from (RMap m0) l2 = Ok e.
Proof.
  intros Hl1 Wm H. rewrite merge_from_app in H. apply rbind_ok in H. destruct H as [d0 [H0 H]].
  destruct (merge_from_map _ Hl1 _ _ Wm H0) as [m0 [-> Wm0]]. eauto.
Qed.

Theorem swap_adjacent2 m l1 x y l2 d : Forall ok_res (l1 ++ x :: y :: l2) -> wf (RMap m) -> indep2 x y ->
  merge_from (RMap m) (l1 ++ x :: y :: l2) = Ok d ->
  exists d', merge_from (RMap m) (l1 ++ y :: x :: l2) = Ok d' /\ req d d'.
Proof.
  intros Hall Wm Hi H. apply Forall_app in Hall. destruct Hall as [Hl1 Hr]. inv Hr.
  match goal with HH : Forall ok_res (y :: l2) |- _ => inv HH end.
  destruct (merge_from_ok_prefix _ _ _ _ Hl1 Wm H) as [m0 [H0 [Wm0 Hrest]]].
  rewrite merge_from_cons in Hrest. apply rbind_ok in Hrest. destruct Hrest as [dx [Hs1 Hrest]].
  rewrite merge_from_cons in Hrest. apply rbind_ok in Hrest. destruct Hrest as [dxy [Hs2 Hs3]].
  destruct (pair_commute x y m0 dx dxy) as [dy [dyx [A [B C]]]]; try assumption.
  match goal with Hx : ok_res x, Hy : ok_res y |- _ =>
    destruct (step_map _ _ _ Hx Wm0 Hs1) as [mx [-> Wmx]]; destruct (step_map _ _ _ Hy Wmx Hs2) as [mxy [-> Wmxy]];
    destruct (step_map _ _ _ Hy Wm0 A) as [my [-> Wmy]]; destruct (step_map _ _ _ Hx Wmy B) as [myx [-> Wmyx]] end.
  inv C.
  match goal with HM : forall k, orel req (lookup k mxy) (lookup k myx), HL : Forall ok_res l2 |- _ =>
    destruct (merge_from_congr2 _ HL _ _ _ Wmxy Wmyx HM Hs3) as [d' [Hd' Hq]] end.
  exists d'. split; [|assumption].
  rewrite merge_from_app, H0. cbn [rbind]. rewrite merge_from_cons, A. cbn [rbind]. rewrite merge_from_cons, B. exact Hd'.
Qed.

Theorem merge_reorder2 m rs rs' : reorder2 rs rs' -> Forall ok_res rs -> wf (RMap m) -> forall d, merge_from (RMap m) rs = Ok d ->
  exists d', merge_from (RMap m) rs' = Ok d' /\ req d d'.
Proof.
  induction 1 as [l|l1 x y l2 l' Hind Hr IH]; intros Hok Wm d Hd.
  - exists d. split; [assumption|apply req_refl].
  - destruct (swap_adjacent2 m l1 x y l2 d Hok Wm Hind Hd) as [d1 [Hd1 Hq1]].
    destruct (IH (Forall_swap _ _ _ _ _ Hok) Wm d1 Hd1) as [d' [Hd' Hq']].
    exists d'. split; [assumption|eapply req_trans; eassumption].
Qed.

Lemma reorder2_trans a b c : reorder2 a b -> reorder2 b c -> reorder2 a c.
Proof. induction 1 as [|l1 x y l2 l' Hi _ IH]; intros Hbc; [assumption|]. apply ro2_swap; [assumption|apply IH; assumption]. Qed.
Lemma reorder2_cons z l l' : reorder2 l l' -> reorder2 (z :: l) (z :: l').
Proof.
  induction 1 as [|l1 x y l2 l' Hi _ IH]; [apply ro2_refl|].
  change (reorder2 ((z :: l1) ++ x :: y :: l2) (z :: l')). apply ro2_swap; [assumption|exact IH].
Qed.
Lemma bubble_front2 z b a : (forall u, In u a -> indep2 u z) -> reorder2 (a ++ z :: b) (z :: a ++ b).
Proof.
  induction a as [|u a' IH]; intros H; [apply ro2_refl|].
  eapply reorder2_trans.
  - cbn [app]. apply reorder2_cons. apply IH. intros v Hv. apply H. right. assumption.
  - change (reorder2 ([] ++ u :: z :: a' ++ b) (z :: (u :: a') ++ b)). apply ro2_swap; [apply H; left; reflexivity|apply ro2_refl].
Qed.
Theorem perm_reorder2 : forall rs' rs, Permutation rs rs' ->
  (forall x y, before x y rs -> before y x rs' -> indep2 x y) -> reorder2 rs rs'.
Proof.
  induction rs' as [|z t IH]; intros rs Hp Hinv.
  - apply Permutation_sym, Permutation_nil in Hp. subst. apply ro2_refl.
  - assert (Hz : In z rs) by (eapply Permutation_in; [apply Permutation_sym; eassumption|left; reflexivity]).
    apply in_split in Hz. destruct Hz as [a [b ->]].
    assert (Hp' : Permutation (a ++ b) t) by (apply Permutation_sym; eapply Permutation_cons_app_inv; apply Permutation_sym; eassumption).
    eapply reorder2_trans.
    + apply bubble_front2. intros u Hu. apply Hinv; [apply before_mid; assumption|].
      apply bf_here. eapply Permutation_in; [eassumption|]. apply in_or_app. left. assumption.
    + apply reorder2_cons. apply IH; [assumption|].
      intros x y Hb1 Hb2. apply Hinv; [apply before_insert; assumption|apply bf_skip; assumption].
Qed.

(* the whole merge for ANY plan: mergeExecutionResults takes the first result as the base, which for a root step's result
   is the same as merging it into an empty map *)
Lemma merge_results_as_fold r0 r1 rest : is_root r0 -> wf (er_data r0) ->
  merge_results (r0 :: r1 :: rest) =
  do d <- merge_from (RMap []) (r0 :: r1 :: rest) ;;
  match d with RMap _ => Ok d | _ => Err "merged execution results should be map[string]interface{}" end.
Proof.
  intros [Hip Hk] Hw. rewrite merge_results_unfold. rewrite (merge_from_cons (RMap []) r0). rewrite Hip.
  destruct (er_data r0) as [| | | | |s0]; try contradiction; cbn [merge_rec rbind].
  - reflexivity.
  - change (merge_maps 64 [] s0) with (merge_maps (S 63) [] s0). rewrite merge_maps_nil. reflexivity.
Qed.

Theorem merge_results_any_plan r0 rs r0' rs' d : is_root r0 -> is_root r0' -> Forall ok_res (r0 :: rs) ->
  Permutation (r0 :: rs) (r0' :: rs') ->
  (forall x y, before x y (r0 :: rs) -> before y x (r0' :: rs') -> indep2 x y) ->
  merge_results (r0 :: rs) = Ok d -> exists d', merge_results (r0' :: rs') = Ok d' /\ req d d'.
Proof.
  intros Hr0 Hr0' Hok Hp Hinv H.
  assert (Hok' : Forall ok_res (r0' :: rs')) by (eapply Permutation_Forall; eassumption).
  pose proof (Permutation_length Hp) as Hlen.
  destruct rs as [|r1 rest]; destruct rs' as [|r1' rest']; try discriminate Hlen.
  - apply Permutation_length_1 in Hp. subst. exists d. split; [assumption|apply req_refl].
  - assert (W0 : wf (er_data r0)) by (inv Hok; match goal with HO : ok_res r0 |- _ => destruct HO; assumption end).
    assert (W0' : wf (er_data r0')) by (inv Hok'; match goal with HO : ok_res r0' |- _ => destruct HO; assumption end).
    rewrite (merge_results_as_fold _ _ _ Hr0 W0) in H. apply rbind_ok in H. destruct H as [e [He Hm]].
    assert (Wnil : wf (RMap [])) by (cbn; split; [constructor|exact I]).
    destruct (merge_reorder2 [] _ _ (perm_reorder2 _ _ Hp Hinv) Hok Wnil e He) as [e' [He' Hq]].
    rewrite (merge_results_as_fold _ _ _ Hr0' W0'), He'. cbn [rbind].
    destruct e; try discriminate Hm. inv Hm. inv Hq. eexists. split; [reflexivity|]. constructor. assumption.
Qed.

(* and the response *)
Theorem response_any_plan r0 rs r0' rs' d : is_root r0 -> is_root r0' -> Forall ok_res (r0 :: rs) ->
  Permutation (r0 :: rs) (r0' :: rs') ->
  (forall x y, before x y (r0 :: rs) -> before y x (r0' :: rs') -> indep2 x y) ->
  merge_results (r0 :: rs) = Ok d ->
  exists d', merge_results (r0' :: rs') = Ok d' /\ forall fuel c ss, shaped fuel c ss d = shaped fuel c ss d'.
Proof.
  intros Hr0 Hr0' Hok Hp Hinv H.
  destruct (merge_results_any_plan _ _ _ _ _ Hr0 Hr0' Hok Hp Hinv H) as [d' [H' Hq]].
  exists d'. split; [exact H'|]. intros fuel c ss.
  assert (Hwf : forall q0 qs e, is_root q0 -> Forall ok_res (q0 :: qs) -> merge_results (q0 :: qs) = Ok e -> wf e).
  { intros q0 qs e Hq0 Hqok He. pose proof (Forall_inv Hqok) as [_ W0].
    destruct qs as [|q1 qrest].
    - cbn in He. destruct (er_data q0); inv He; assumption.
    - rewrite (merge_results_as_fold _ _ _ Hq0 W0) in He. apply rbind_ok in He. destruct He as [x [Hx Hm]].
      assert (Wnil : wf (RMap [])) by (cbn; split; [constructor|exact I]).
      destruct (merge_from_map _ Hqok _ _ Wnil Hx) as [mx [-> Wx]]. inv Hm. exact Wx. }
  apply shaped_congr; [eapply Hwf; [exact Hr0|exact Hok|exact H] | eapply Hwf; [exact Hr0'| |exact H'] | exact Hq].
  eapply Permutation_Forall; eassumption.
Qed.
