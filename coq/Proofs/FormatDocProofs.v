(* Proofs/FormatDocProofs.v — C14 codec theorem: a string printed by strconv.Quote is read back unchanged by the GraphQL
   lexer, for EVERY byte string without the bytes whose Go escape is not a GraphQL escape. *)
From V Require Import Base.Util Gql.Ast Model.FormatDoc.

Lemma quote_unquote_char (c : ascii) (rest : string) :
  gql_safe_char c = true ->
  gql_unquote_body (go_quote_char c +++ rest) = option_map (String c) (gql_unquote_body rest).
Proof.
  destruct c as [b0 b1 b2 b3 b4 b5 b6 b7].
  destruct b0, b1, b2, b3, b4, b5, b6, b7; intros H; vm_compute in H; try discriminate H; reflexivity.
Qed.

Lemma append_assoc_s (a b c : string) : (a +++ b) +++ c = a +++ (b +++ c).
Proof. induction a; simpl; [reflexivity | rewrite IHa; reflexivity]. Qed.

Theorem quote_unquote (s : string) : gql_safe s = true -> wire_string s = Some s.
Proof.
  unfold wire_string. induction s as [|c r IH]; simpl; intros H; [reflexivity|].
  apply andb_prop in H. destruct H as [Hc Hr].
  rewrite (quote_unquote_char c (go_quote_body r) Hc), (IH Hr). reflexivity.
Qed.

(* and the converse direction of the finding: each unsafe byte alone already breaks the round trip *)
Lemma unsafe_char_breaks (c : ascii) : gql_safe_char c = false -> wire_string (String c EmptyString) <> Some (String c EmptyString).
Proof.
  destruct c as [b0 b1 b2 b3 b4 b5 b6 b7].
  destruct b0, b1, b2, b3, b4, b5, b6, b7; intros H; vm_compute in H; try discriminate H; vm_compute; discriminate.
Qed.

(* the whitespace collapse is the identity exactly on strings without a run of two spaces *)
Lemma collapse_cons2 c c' r' :
  collapse_spaces (String c (String c' r')) =
  if Ascii.eqb c " "%char then (if Ascii.eqb c' " "%char then collapse_spaces (String c' r') else String c (collapse_spaces (String c' r')))
  else String c (collapse_spaces (String c' r')).
Proof. reflexivity. Qed.
Lemma run_cons2 c c' r' :
  has_space_run (String c (String c' r')) = (Ascii.eqb c " "%char && Ascii.eqb c' " "%char) || has_space_run (String c' r').
Proof. reflexivity. Qed.

Lemma collapse_id (s : string) : has_space_run s = false -> collapse_spaces s = s.
Proof.
  induction s as [|c r IH]; [reflexivity|]. destruct r as [|c' r'].
  - intros _. simpl. destruct (Ascii.eqb c " "%char); reflexivity.
  - rewrite run_cons2, collapse_cons2. intros H. apply orb_false_iff in H. destruct H as [H1 H2].
    rewrite (IH H2). destruct (Ascii.eqb c " "%char); simpl in H1; [rewrite H1|]; reflexivity.
Qed.

Theorem wire_value_str collapse s :
  gql_safe s = true -> (collapse = true -> has_space_run s = false) -> wire_value collapse (VStr s) = Some (VStr s).
Proof.
  intros Hs Hc. cbn [wire_value]. destruct collapse.
  - rewrite (collapse_id s (Hc eq_refl)), (quote_unquote s Hs). reflexivity.
  - rewrite (quote_unquote s Hs). reflexivity.
Qed.
