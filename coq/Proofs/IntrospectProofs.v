(* Proofs/IntrospectProofs.v — C17: what a client reconstructs from the answer to the standard introspection query is the
   schema the resolvers read (codec round trip), for every schema whose type references resolve and nest at most seven
   wrappers (the depth of the standard query's TypeRef fragment). *)
From V Require Import Base.Util Base.Assoc Gql.Ast Model.Perm Model.View Model.Introspect.
From Coq Require Import Lia.

(* what survives the trip: "__" fields are never listed, defaults exist on input fields only, arguments and deprecation on
   output fields only, possible types on abstract types only *)
Definition norm_field (k : kind) (f : ifield) : ifield :=
  match k with
  | KInput => {| if_name := if_name f; if_desc := if_desc f; if_args := []; if_type := if_type f; if_dep := None; if_default := if_default f |}
  | _ => {| if_name := if_name f; if_desc := if_desc f; if_args := if_args f; if_type := if_type f; if_dep := if_dep f; if_default := None |}
  end.
Definition norm_type (t : itype) : itype :=
  {| it_kind := it_kind t; it_name := it_name t; it_desc := it_desc t;
     it_fields := map (norm_field (it_kind t))
                      (match it_kind t with KInput => it_fields t | _ => filter (fun f => negb (starts_uu (if_name f))) (it_fields t) end);
     it_ifaces := it_ifaces t; it_possible := if kind_abstract (it_kind t) then it_possible t else []; it_enum := it_enum t |}.
Definition normalize (S : isch) : isch := {| is_types := map norm_type (is_types S); is_dirs := is_dirs S |}.

Lemma omap_map {A B C} (f : B -> option C) (g : A -> B) (h : A -> C) (l : list A) :
  (forall x, In x l -> f (g x) = Some (h x)) -> omap f (map g l) = Some (map h l).
Proof.
  induction l as [|x t IH]; intros H; simpl; [reflexivity|].
  rewrite (H x (or_introl eq_refl)). rewrite IH; [reflexivity|]. intros y Hy. apply H. right. exact Hy.
Qed.
Lemma omap_id {A B} (f : B -> option A) (g : A -> B) (l : list A) :
  (forall x, In x l -> f (g x) = Some x) -> omap f (map g l) = Some l.
Proof. intros H. rewrite (omap_map f g (fun x => x)); [rewrite map_id; reflexivity | exact H]. Qed.

Lemma kind_str_plain k : String.eqb (kind_str k) "NON_NULL" = false /\ String.eqb (kind_str k) "LIST" = false.
Proof. destruct k; split; reflexivity. Qed.
Lemma kind_roundtrip k : kind_of_str (kind_str k) = Some k.
Proof. destruct k; reflexivity. Qed.

Section Types.
  Variable types : list itype.

  Lemma untyref_named fuel d n : found types n = true -> untyref_f (S fuel) (tyref types d (TNamed n false)) = Some (TNamed n false).
  Proof.
    unfold found. intros Hf. assert (Hk : String.eqb "name" "kind" = false) by reflexivity.
    destruct d as [|d]; cbn [tyref]; (destruct (seen_find types n) as [nt|]; [|discriminate]);
      destruct (kind_str_plain (it_kind nt)) as [H1 H2];
      cbn [untyref_f app lookup]; rewrite String.eqb_refl; rewrite H1, H2; rewrite Hk; rewrite String.eqb_refl; reflexivity.
  Qed.

  Lemma untyref_nonnull fuel inner :
    untyref_f (S fuel) (JObj [("kind", JStr "NON_NULL"); ("name", JNull); ("ofType", inner)]) =
    match untyref_f fuel inner with Some (TNamed n false) => Some (TNamed n true) | Some (TList e false) => Some (TList e true) | _ => None end.
  Proof. reflexivity. Qed.
  Lemma untyref_list fuel inner :
    untyref_f (S fuel) (JObj [("kind", JStr "LIST"); ("name", JNull); ("ofType", inner)]) =
    match untyref_f fuel inner with Some e => Some (TList e false) | None => None end.
  Proof. reflexivity. Qed.
  Lemma tyref_nn_named d n : tyref types (S d) (TNamed n true) = JObj [("kind", JStr "NON_NULL"); ("name", JNull); ("ofType", tyref types d (TNamed n false))].
  Proof. reflexivity. Qed.
  Lemma tyref_nn_list d e : tyref types (S d) (TList e true) = JObj [("kind", JStr "NON_NULL"); ("name", JNull); ("ofType", tyref types d (TList e false))].
  Proof. reflexivity. Qed.
  Lemma tyref_list d e : tyref types (S d) (TList e false) = JObj [("kind", JStr "LIST"); ("name", JNull); ("ofType", tyref types d e)].
  Proof. reflexivity. Qed.

  Lemma untyref_roundtrip t : forall fuel d, wraps t <= d -> wraps t < fuel -> found types (ty_name t) = true ->
    untyref_f fuel (tyref types d t) = Some t.
  Proof.
    induction t as [n b|e IH b]; intros fuel d Hd Hf Hfound.
    - destruct b.
      + simpl in Hd, Hf. destruct d as [|d]; [lia|]. destruct fuel as [|[|fuel]]; try lia.
        rewrite tyref_nn_named, untyref_nonnull, (untyref_named fuel d n Hfound). reflexivity.
      + destruct fuel as [|fuel]; [simpl in Hf; lia|]. apply untyref_named. exact Hfound.
    - destruct b.
      + simpl in Hd, Hf. destruct d as [|[|d]]; try lia. destruct fuel as [|[|fuel]]; try lia.
        rewrite tyref_nn_list, untyref_nonnull, tyref_list, untyref_list. rewrite (IH fuel d); [reflexivity | lia | lia | exact Hfound].
      + simpl in Hd, Hf. destruct d as [|d]; [lia|]. destruct fuel as [|fuel]; [lia|].
        rewrite tyref_list, untyref_list. rewrite (IH fuel d); [reflexivity | lia | lia | exact Hfound].
  Qed.

  Lemma untyref_ok t : ty_ok types t = true -> untyref (tyref types std_depth t) = Some t.
  Proof.
    unfold ty_ok, untyref. intros H. apply andb_true_iff in H. destruct H as [H1 H2]. apply Nat.leb_le in H1.
    apply untyref_roundtrip; [exact H1 | unfold std_depth in H1; lia | exact H2].
  Qed.
  Lemma named_ref_ok n : found types n = true -> named_ref (tyref types std_depth (TNamed n false)) = Some n.
  Proof. intros H. unfold named_ref, untyref. rewrite (untyref_named 9 std_depth n H). reflexivity. Qed.

  Lemma jstr_or_null_jopt o : jstr_or_null (jopt o) = Some o.
  Proof. destruct o; reflexivity. Qed.

  Lemma un_input_value_ok a : ival_ok types a = true -> un_input_value (input_value types a) = Some a.
  Proof.
    unfold ival_ok. intros H. unfold un_input_value, input_value. cbn [jget lookup String.eqb Ascii.eqb Bool.eqb jstr].
    rewrite (untyref_ok _ H). rewrite jstr_or_null_jopt. destruct a; reflexivity.
  Qed.

  Lemma un_field_ok f : ty_ok types (if_type f) = true -> forallb (ival_ok types) (if_args f) = true ->
    un_field (field_json types f) = Some (norm_field KObject f).
  Proof.
    intros Ht Ha. unfold un_field, field_json. cbn [jget lookup String.eqb Ascii.eqb Bool.eqb jstr jarr].
    rewrite (omap_id un_input_value (input_value types) (if_args f)).
    2:{ intros a Hin. apply un_input_value_ok. rewrite forallb_forall in Ha. apply Ha. exact Hin. }
    rewrite (untyref_ok _ Ht). rewrite jstr_or_null_jopt. reflexivity.
  Qed.
  Lemma un_input_field_ok f : ty_ok types (if_type f) = true -> un_input_field (input_field_json types f) = Some (norm_field KInput f).
  Proof.
    intros Ht. unfold un_input_field, input_field_json, un_input_value. cbn [jget lookup String.eqb Ascii.eqb Bool.eqb jstr].
    rewrite (untyref_ok _ Ht). rewrite jstr_or_null_jopt. reflexivity.
  Qed.
  Lemma un_enum_ok e : un_enum (enum_json e) = Some e.
  Proof. unfold un_enum, enum_json. cbn [jget lookup String.eqb Ascii.eqb Bool.eqb jstr]. rewrite jstr_or_null_jopt. destruct e; reflexivity. Qed.

  Lemma norm_field_not_input k f : k <> KInput -> norm_field k f = norm_field KObject f.
  Proof. destruct k; intros H; try reflexivity. congruence. Qed.

  Lemma un_type_ok t :
    forallb (fun f => ty_ok types (if_type f) && forallb (ival_ok types) (if_args f)) (it_fields t) = true ->
    forallb (found types) (it_ifaces t) = true -> forallb (found types) (it_possible t) = true ->
    un_type (full_type types t) = Some (norm_type t).
  Proof.
    intros Hf Hi Hp. unfold un_type, full_type. cbn [jget lookup String.eqb Ascii.eqb Bool.eqb jstr jarr].
    rewrite kind_roundtrip.
    rewrite (omap_id named_ref (fun i => tyref types std_depth (TNamed i false)) (it_ifaces t)).
    2:{ intros i Hin. apply named_ref_ok. rewrite forallb_forall in Hi. apply Hi. exact Hin. }
    rewrite (omap_id un_enum enum_json (it_enum t)); [|intros e _; apply un_enum_ok].
    rewrite forallb_forall in Hf.
    assert (Hposs : match (if kind_abstract (it_kind t) then JArr (map (fun n => tyref types std_depth (TNamed n false)) (it_possible t)) else JNull) with
                    | JNull => Some [] | JArr l => omap named_ref l | _ => None end
                    = Some (if kind_abstract (it_kind t) then it_possible t else [])).
    { destruct (kind_abstract (it_kind t)); [|reflexivity].
      apply omap_id. intros n Hin. apply named_ref_ok. rewrite forallb_forall in Hp. apply Hp. exact Hin. }
    unfold norm_type. destruct (it_kind t) eqn:Ek; cbn [kind_abstract] in *;
      try (rewrite (omap_map un_field (field_json types) (norm_field KObject));
           [ try rewrite Hposs; reflexivity
           | intros f Hin; apply filter_In in Hin; destruct Hin as [Hin _]; specialize (Hf f Hin); apply andb_true_iff in Hf; destruct Hf; apply un_field_ok; assumption ]).
    cbn [jget lookup String.eqb Ascii.eqb Bool.eqb jarr].
    rewrite (omap_map un_input_field (input_field_json types) (norm_field KInput)).
    - try rewrite Hposs. reflexivity.
    - intros f Hin. specialize (Hf f Hin). apply andb_true_iff in Hf. destruct Hf. apply un_input_field_ok. assumption.
  Qed.

  Lemma un_dir_ok d : forallb (ival_ok types) (id_args d) = true -> un_dir (dir_json types d) = Some d.
  Proof.
    intros Ha. unfold un_dir, dir_json. cbn [jget lookup String.eqb Ascii.eqb Bool.eqb jstr jarr].
    rewrite (omap_id jstr JStr (id_locs d)); [|intros; reflexivity].
    rewrite (omap_id un_input_value (input_value types) (id_args d)).
    2:{ intros a Hin. apply un_input_value_ok. rewrite forallb_forall in Ha. apply Ha. exact Hin. }
    destruct d; reflexivity.
  Qed.
End Types.

Theorem introspection_roundtrip S : wfb S = true -> reconstruct (introspect S None) = Some (normalize S).
Proof.
  unfold wfb. intros H. apply andb_true_iff in H. destruct H as [Ht Hd].
  unfold reconstruct, introspect, seen_types. cbn [jget lookup String.eqb Ascii.eqb Bool.eqb jarr].
  rewrite (omap_map un_type (full_type (is_types S)) norm_type).
  2:{ intros t Hin. rewrite forallb_forall in Ht. specialize (Ht t Hin).
      apply andb_true_iff in Ht. destruct Ht as [Ht Hp]. apply andb_true_iff in Ht. destruct Ht as [Hf Hi]. apply un_type_ok; assumption. }
  rewrite (omap_id un_dir (dir_json (is_types S)) (is_dirs S)).
  2:{ intros d Hin. rewrite forallb_forall in Hd. apply un_dir_ok. apply Hd. exact Hin. }
  reflexivity.
Qed.

(* ---------- under permissions: every field the answer lists is selectable by a query that filtering leaves intact ---------- *)
From V Require Import Proofs.ViewProofs.

Lemma std_roots_vsrc S : std_roots (vsrc_of S).
Proof.
  unfold std_roots, vsrc_of; cbn [v_query v_mutation v_subscription]. repeat split; intros n E.
  - destruct (ifind S "Query"); inversion E; reflexivity.
  - destruct (ifind S "Mutation"); inversion E; reflexivity.
  - destruct (ifind S "Subscription"); inversion E; reflexivity.
Qed.

Theorem introspect_fields_confined S p fuel t f :
  In t (seen_types S (Some (filter_schema fuel (vsrc_of S) p))) -> In f (it_fields t) ->
  Selectable (vsrc_of S) p (it_name t) (if_name f).
Proof.
  intros Ht Hf. unfold seen_types in Ht. apply in_flat_map in Ht. destruct Ht as [t0 [Hin0 Ht]].
  destruct (lookup (it_name t0) (filter_schema fuel (vsrc_of S) p)) as [fs|] eqn:El; [|destruct Ht].
  destruct Ht as [Ht|[]]. subst t. cbn [it_name it_fields] in *. apply in_flat_map in Hf. destruct Hf as [n [Hn Hf]].
  destruct (find (fun f0 => String.eqb (if_name f0) n) (it_fields t0)) as [f1|] eqn:Efind; [|destruct Hf].
  destruct Hf as [Hf|[]]. subst f1. apply find_some in Efind. destruct Efind as [_ Heq]. apply String.eqb_eq in Heq.
  apply (view_sound (vsrc_of S) p fuel (std_roots_vsrc S)). unfold view_visible. rewrite El. rewrite Heq. apply mem_in. exact Hn.
Qed.
