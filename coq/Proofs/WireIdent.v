From V Require Import Base.Util Gql.Ast Model.FormatDoc Proofs.FormatDocProofs.

Lemma unsafe_unquote_char (c : ascii) (rest : string) :
  gql_safe_char c = false -> gql_unquote_body (go_quote_char c +++ rest) = None.
Proof.
  destruct c as [b0 b1 b2 b3 b4 b5 b6 b7].
  destruct b0, b1, b2, b3, b4, b5, b6, b7; intros H; vm_compute in H; try discriminate H; reflexivity.
Qed.

(* what the service reads is either nothing (the document does not lex) or exactly the string that was printed *)
Theorem wire_string_identity s s' : wire_string s = Some s' -> s' = s /\ gql_safe s = true.
Proof.
  unfold wire_string. revert s'. induction s as [|c r IH]; intros s' H; simpl in H.
  - inversion H. split; reflexivity.
  - destruct (gql_safe_char c) eqn:Ec.
    + rewrite (quote_unquote_char c (go_quote_body r) Ec) in H.
      destruct (gql_unquote_body (go_quote_body r)) as [r'|] eqn:Er; simpl in H; [|discriminate].
      inversion H; subst. destruct (IH r' eq_refl) as [H1 H2]. subst. split; [reflexivity|]. simpl. rewrite Ec, H2. reflexivity.
    + rewrite (unsafe_unquote_char c (go_quote_body r) Ec) in H. discriminate.
Qed.

Lemma wire_ids_identity ids ids' : wire_ids ids = Some ids' -> ids' = ids.
Proof.
  unfold wire_ids. revert ids'. induction ids as [|x t IH]; intros ids' H.
  - inversion H. reflexivity.
  - destruct (wire_string x) as [x'|] eqn:Ex; [|discriminate].
    match type of H with match ?G with _ => _ end = _ => destruct G as [t'|] eqn:Et end; [|discriminate].
    inversion H; subst. destruct (wire_string_identity _ _ Ex) as [Hx _]. subst. rewrite (IH t' eq_refl). reflexivity.
Qed.
