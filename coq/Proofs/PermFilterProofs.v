(* Proofs/PermFilterProofs.v — stage theorem S-filter for auth.go:259 filterFields: whatever survives is allowed. *)
From V Require Import Base.Util Gql.Ast Model.Perm Model.PermFilter Proofs.PermProofs.

(* field-name paths of a selection, relative to the object it is applied to (fragments do not add a segment) *)
Fixpoint rel_paths (s : sel) : list (list string) :=
  match s with
  | SField _ n _ _ _ None => [[n]]
  | SField _ n _ _ _ (Some ss) => [n] :: map (cons n) (flat_map rel_paths ss)
  | SInline _ _ _ ss => flat_map rel_paths ss
  | SSpread _ _ _ _ ss => flat_map rel_paths ss
  end.

Lemma walk_all a p : af_all a = true -> walk_allowed a p = true.
Proof. destruct p; simpl; intros H; [reflexivity | rewrite H; reflexivity]. Qed.

Lemma go_sound (ss : list sel) :
  Forall (fun s => forall a path k e, filter_sel path a s = (k, e) -> af_all a = false ->
                   Forall (fun p => walk_allowed a p = true) (flat_map rel_paths k)) ss ->
  forall a path k e,
    (fix go (l : list sel) : list sel * list string :=
       match l with
       | [] => ([], [])
       | x :: r => let '(k1, e1) := filter_sel path a x in let '(k2, e2) := go r in (k1 ++ k2, e1 ++ e2)
       end) ss = (k, e) ->
    af_all a = false -> Forall (fun p => walk_allowed a p = true) (flat_map rel_paths k).
Proof.
  induction ss as [|s0 t IH]; intros HF a path k e H Ha.
  - inversion H; subst. constructor.
  - inversion HF as [|? ? H0 HF']; subst.
    destruct (filter_sel path a s0) as [k1 e1] eqn:E1.
    match type of H with (let '(k2, e2) := ?G in _) = _ => destruct G as [k2 e2] eqn:E2 end.
    inversion H; subst. rewrite flat_map_app. apply Forall_app. split.
    + eapply H0; eauto.
    + eapply IH; eauto.
Qed.

Theorem filter_sel_sound s : forall a path k e,
  filter_sel path a s = (k, e) -> af_all a = false ->
  Forall (fun p => walk_allowed a p = true) (flat_map rel_paths k).
Proof.
  induction s as [al n args ds t|al n args ds t ss IH|tc ds en ss IH|f ds en tc ss IH] using sel_ind'; intros a path k e H Ha; cbn [filter_sel] in H.
  - destruct (is_allowed a n) as [ok sub] eqn:Ei. destruct ok.
    + destruct (af_all sub) eqn:Es; inversion H; subst; cbn [flat_map rel_paths app];
        (constructor; [simpl; rewrite Ha, Ei; reflexivity | constructor]).
    + inversion H; subst. constructor.
  - destruct (is_allowed a n) as [ok sub] eqn:Ei. destruct ok.
    + destruct (af_all sub) eqn:Es.
      * inversion H; subst. cbn [flat_map rel_paths]. rewrite app_nil_r. constructor.
        -- simpl. rewrite Ha, Ei. reflexivity.
        -- apply Forall_forall. intros p Hp. apply in_map_iff in Hp. destruct Hp as [q [<- _]].
           simpl. rewrite Ha, Ei. apply walk_all. exact Es.
      * match type of H with (let '(k0, e0) := ?G in _) = _ => destruct G as [kk ee] eqn:E0 end.
        inversion H; subst. cbn [flat_map rel_paths]. rewrite app_nil_r. constructor.
        -- simpl. rewrite Ha, Ei. reflexivity.
        -- assert (Hk : Forall (fun p => walk_allowed sub p = true) (flat_map rel_paths kk)) by (eapply go_sound; eauto).
           apply Forall_forall. intros p Hp. apply in_map_iff in Hp. destruct Hp as [q [<- Hq]].
           simpl. rewrite Ha, Ei. rewrite Forall_forall in Hk. apply Hk. exact Hq.
    + inversion H; subst. constructor.
  - match type of H with (let '(k0, e0) := ?G in _) = _ => destruct G as [kk ee] eqn:E0 end.
    inversion H; subst. cbn [flat_map rel_paths]. rewrite app_nil_r. eapply go_sound; eauto.
  - match type of H with (let '(k0, e0) := ?G in _) = _ => destruct G as [kk ee] eqn:E0 end.
    inversion H; subst. cbn [flat_map rel_paths]. rewrite app_nil_r. eapply go_sound; eauto.
Qed.

Theorem filter_fields_sound path a ss k e :
  filter_fields path a ss = (k, e) ->
  (af_all a = true /\ k = ss /\ e = []) \/
  (af_all a = false /\ Forall (fun p => walk_allowed a p = true) (flat_map rel_paths k)).
Proof.
  unfold filter_fields. destruct (af_all a) eqn:Ha; intros H.
  - left. inversion H; auto.
  - right. split; [reflexivity|]. apply (go_sound ss) with (path := path) (e := e); [|exact H|exact Ha].
    clear. induction ss; constructor; auto. intros a0 path0 k0 e0. apply filter_sel_sound.
Qed.

(* walking by IsAllowed is path membership by the documented specification, away from the introspection names *)
Lemma walk_is_allows a : forall p, existsb starts_uu p = false -> walk_allowed a p = allows a p.
Proof.
  induction a as [all subs IH] using af_ind'.
  intros p. destruct p as [|f p]; intros Hp; [reflexivity|]. simpl in Hp. apply orb_false_iff in Hp. destruct Hp as [Hf Hp].
  cbn [walk_allowed allows af_all]. destruct all; [reflexivity|].
  unfold is_allowed.
  assert (String.eqb f "__schema" = false /\ String.eqb f "__type" = false /\ String.eqb f "__typename" = false) as [E1 [E2 E3]].
  { repeat split; destruct (String.eqb f _) eqn:E; auto; apply String.eqb_eq in E; subst; discriminate. }
  rewrite E1, E2, E3. cbn [orb af_subs].
  destruct (lookup f subs) as [sub|] eqn:El; [|reflexivity].
  rewrite Forall_forall in IH. apply (IH (f, sub)); [|exact Hp].
  clear -El. induction subs as [|[k v] t IHt]; simpl in El; [discriminate|].
  destruct (String.eqb f k) eqn:E; [apply String.eqb_eq in E; inversion El; subst; left; reflexivity | right; auto].
Qed.
