(* Proofs/SkipIncludeProofs.v — stage theorem S-rewrite for executable_schema.go:710-814. *)
From V Require Import Base.Util Gql.Ast Model.SkipInclude.

Definition sel_dirs (s : sel) : list dir :=
  match s with SField _ _ _ ds _ _ => ds | SInline _ ds _ _ => ds | SSpread _ ds _ _ _ => ds end.
Definition is_cond (d : dir) : bool := String.eqb (d_name d) "include" || String.eqb (d_name d) "skip".

(* no @skip/@include anywhere in a selection *)
Fixpoint clean (s : sel) : bool :=
  match s with
  | SField _ _ _ ds _ None => negb (existsb is_cond ds)
  | SField _ _ _ ds _ (Some ss) => negb (existsb is_cond ds) && forallb clean ss
  | SInline _ ds _ ss => negb (existsb is_cond ds) && forallb clean ss
  | SSpread _ ds _ _ ss => negb (existsb is_cond ds) && forallb clean ss
  end.

Lemma strip_clean ds : existsb is_cond (strip_dirs ds) = false.
Proof.
  unfold strip_dirs. induction ds as [|d t IH]; simpl; [reflexivity|].
  destruct (negb (String.eqb (d_name d) "include" || String.eqb (d_name d) "skip")) eqn:E; simpl; [|exact IH].
  unfold is_cond. apply negb_true_iff in E. rewrite E. exact IH.
Qed.

Lemma go_clean vars (ss : list sel) :
  Forall (fun s => forall l, skip_include_sel vars s = Ok l -> forallb clean l = true) ss ->
  forall l, (fix go (l : list sel) : res (list sel) :=
               match l with
               | [] => Ok []
               | x :: r => do a <- skip_include_sel vars x ;; do b <- go r ;; Ok (a ++ b)
               end) ss = Ok l -> forallb clean l = true.
Proof.
  induction ss as [|s0 t IH]; intros HF l H.
  - inversion H; reflexivity.
  - inversion HF as [|? ? H0 HF']; subst.
    destruct (skip_include_sel vars s0) as [a|] eqn:Ea; simpl in H; [|discriminate].
    match type of H with (do b <- ?G ;; _) = _ => destruct G as [b|] eqn:Eb; simpl in H; [|discriminate] end.
    inversion H; subst. rewrite forallb_app, (H0 _ eq_refl), (IH HF' _ eq_refl). reflexivity.
Qed.

(* the two directives are stripped everywhere *)
Theorem skip_include_sel_clean vars s : forall l, skip_include_sel vars s = Ok l -> forallb clean l = true.
Proof.
  induction s as [a n args ds t|a n args ds t ss IH|tc ds e ss IH|f ds e tc ss IH] using sel_ind'; intros l H; cbn [skip_include_sel] in H.
  - destruct (keep_node vars ds) as [[|]|]; simpl in H; inversion H; subst; [|reflexivity].
    simpl. rewrite strip_clean. reflexivity.
  - destruct (keep_node vars ds) as [[|]|]; simpl in H; [|inversion H; reflexivity|discriminate].
    match type of H with (do x <- ?G ;; _) = _ => destruct G as [ss'|] eqn:Es; simpl in H; [|discriminate] end.
    inversion H; subst. simpl. rewrite strip_clean, (go_clean vars ss IH _ Es). reflexivity.
  - destruct (keep_node vars ds) as [[|]|]; simpl in H; [|inversion H; reflexivity|discriminate].
    match type of H with (do x <- ?G ;; _) = _ => destruct G as [ss'|] eqn:Es; simpl in H; [|discriminate] end.
    inversion H; subst. simpl. rewrite strip_clean, (go_clean vars ss IH _ Es). reflexivity.
  - destruct (keep_node vars ds) as [[|]|]; simpl in H; [|inversion H; reflexivity|discriminate].
    match type of H with (do x <- ?G ;; _) = _ => destruct G as [ss'|] eqn:Es; simpl in H; [|discriminate] end.
    inversion H; subst. simpl. rewrite strip_clean, (go_clean vars ss IH _ Es). reflexivity.
Qed.

Theorem skip_include_clean vars ss l : skip_include vars ss = Ok l -> forallb clean l = true.
Proof.
  unfold skip_include. apply go_clean. induction ss; constructor; auto. intros l0. apply skip_include_sel_clean.
Qed.

(* THE SPECIFICATION of the directives (GraphQL spec 3.13.1/3.13.2), stated independently of the rewrite:
   a node is part of the executed query iff it has no @skip(if: true) and no @include(if: false). *)
Definition spec_enabled (vars : env) (ds : list dir) : option bool :=
  match (match dir_named "skip" ds with Some d => match resolve_if vars d with Ok b => Some b | Err _ => None end | None => Some false end),
        (match dir_named "include" ds with Some d => match resolve_if vars d with Ok b => Some b | Err _ => None end | None => Some true end) with
  | Some sk, Some inc => Some (negb sk && inc)
  | _, _ => None
  end.

(* a node is kept iff it is enabled; a kept node keeps its response key, field name, arguments, type and type condition,
   loses exactly the two directives, and its children are the rewritten children *)
Theorem skip_include_node vars s l :
  skip_include_sel vars s = Ok l ->
  match spec_enabled vars (sel_dirs s) with
  | Some false => l = []
  | Some true => exists s', l = [s'] /\ sel_dirs s' = strip_dirs (sel_dirs s) /\
                  match s, s' with
                  | SField a n ar _ t oss, SField a' n' ar' _ t' oss' =>
                      a = a' /\ n = n' /\ ar = ar' /\ t = t' /\ (oss = None <-> oss' = None)
                  | SInline tc _ e _, SInline tc' _ e' _ => tc = tc' /\ e = e'
                  | SSpread f _ e tc _, SSpread f' _ e' tc' _ => f = f' /\ e = e' /\ tc = tc'
                  | _, _ => False
                  end
  | None => False
  end.
Proof.
  unfold spec_enabled. destruct s as [a n ar ds t oss|tc ds e ss|f ds e tc ss]; cbn [skip_include_sel sel_dirs]; unfold keep_node;
    destruct (dir_named "skip" ds) as [dsk|]; try destruct (resolve_if vars dsk) as [sk|]; simpl; try discriminate;
    destruct (dir_named "include" ds) as [din|]; try destruct (resolve_if vars din) as [inc|]; simpl; try discriminate;
    try (destruct sk); try (destruct inc); simpl; intros H; try (inversion H; reflexivity);
    try (destruct oss as [ss|]);
    try (match type of H with (do x <- ?G ;; _) = _ => destruct G as [ss'|] eqn:Es; simpl in H; [|discriminate] end);
    inversion H; subst; eexists; (split; [reflexivity|]); (split; [reflexivity|]); repeat split; intros; try discriminate; auto.
Qed.
