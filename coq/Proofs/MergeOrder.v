(* Proofs/MergeOrder.v — C06, mechanism 3: "merge is by insertion point and id, not by position".
   Two lookup results that are independent (they write different response keys into the objects they share, and
   neither descends through a key the other writes) can be merged in either order: the merged trees are equal as Go
   maps (same keys, same values; the order of an association list is not observable).  Merging respects that
   equivalence, so any sequence of such swaps leaves the merged data unchanged. *)
From V Require Import Base.Util Gql.Ast Model.MergeRes.
From Coq Require Import Lia.

(* ---------- induction over raw trees ---------- *)
Section RawInd.
  Variable P : raw -> Prop.
  Hypothesis Hnil : P RNil.
  Hypothesis Hbool : forall b, P (RBool b).
  Hypothesis Hnum : forall s, P (RNum s).
  Hypothesis Hstr : forall s, P (RStr s).
  Hypothesis Harr : forall l, Forall P l -> P (RArr l).
  Hypothesis Hmap : forall m, Forall (fun kv => P (snd kv)) m -> P (RMap m).
  Fixpoint raw_ind2 (r : raw) : P r :=
    match r with
    | RNil => Hnil | RBool b => Hbool b | RNum s => Hnum s | RStr s => Hstr s
    | RArr l => Harr l ((fix go (l : list raw) : Forall P l :=
                           match l with [] => Forall_nil _ | x :: t => Forall_cons _ (raw_ind2 x) (go t) end) l)
    | RMap m => Hmap m ((fix go (m : list (string * raw)) : Forall (fun kv => P (snd kv)) m :=
                           match m with [] => Forall_nil _ | (k, v) :: t => Forall_cons (k, v) (raw_ind2 v) (go t) end) m)
    end.
End RawInd.

(* ---------- equality of decoded trees as Go values ---------- *)
Inductive orel {A} (R : A -> A -> Prop) : option A -> option A -> Prop :=
| orel_none : orel R None None
| orel_some a b : R a b -> orel R (Some a) (Some b).
Inductive req : raw -> raw -> Prop :=
| Q_nil : req RNil RNil
| Q_bool b : req (RBool b) (RBool b)
| Q_num s : req (RNum s) (RNum s)
| Q_str s : req (RStr s) (RStr s)
| Q_arr l1 l2 : Forall2 req l1 l2 -> req (RArr l1) (RArr l2)
| Q_map m1 m2 : (forall k, orel req (lookup k m1) (lookup k m2)) -> req (RMap m1) (RMap m2).

Lemma lookup_in_snd {A} (P : A -> Prop) k (m : list (string * A)) v :
  Forall (fun kv => P (snd kv)) m -> lookup k m = Some v -> P v.
Proof.
  induction m as [|[k' v'] t IH]; simpl; intros HF H; [discriminate|].
  inversion HF; subst. destruct (String.eqb k k'); [inversion H; subst; assumption | auto].
Qed.

Lemma req_refl : forall a, req a a.
Proof.
  induction a using raw_ind2; try constructor.
  - induction H; constructor; auto.
  - intros k. destruct (lookup k m) eqn:E; constructor. eapply (lookup_in_snd (fun v => req v v)); eauto.
Qed.

Ltac inv H := inversion H; subst; clear H.

Lemma req_sym : forall a b, req a b -> req b a.
Proof.
  induction a using raw_ind2; intros b' Hq; inv Hq; try constructor.
  - match goal with HF : Forall2 req _ ?l2 |- _ => revert l2 HF end.
    induction H; intros l2 HF; inv HF; constructor; auto.
  - intros k. match goal with HM : forall k, orel req _ _ |- _ => specialize (HM k); rename HM into Hk end.
    destruct (lookup k m) eqn:E; inv Hk; constructor.
    eapply (lookup_in_snd (fun v => forall b, req v b -> req b v)); eauto.
Qed.

Lemma req_trans : forall a b c, req a b -> req b c -> req a c.
Proof.
  induction a using raw_ind2; intros b' c' H1 H2; inv H1; inv H2; try constructor.
  - match goal with HA : Forall2 req l ?l2, HB : Forall2 req ?l2 ?l3 |- _ => revert l2 l3 HA HB end.
    induction H; intros l2 l3 HA HB; inv HA; inv HB; constructor; eauto.
  - intros k.
    match goal with HA : forall k, orel req (lookup k m) _, HB : forall k, orel req _ (lookup k ?m3) |- _ =>
      specialize (HA k); specialize (HB k); rename HA into Ha; rename HB into Hb end.
    destruct (lookup k m) eqn:E; inv Ha.
    + match goal with HE : Some _ = lookup k _ |- _ => rewrite <- HE in Hb end. inv Hb. constructor.
      eapply (lookup_in_snd (fun v => forall b c, req v b -> req b c -> req v c)); eauto.
    + match goal with HE : None = lookup k _ |- _ => rewrite <- HE in Hb end. inv Hb. constructor.
Qed.

(* ---------- association lists ---------- *)
Lemma eqb_sym_s a b : String.eqb a b = String.eqb b a.
Proof. destruct (String.eqb_spec a b), (String.eqb_spec b a); congruence. Qed.

Lemma lookup_upsert {A} k (f : option A -> A) m k' :
  lookup k' (upsert k f m) = if String.eqb k' k then Some (f (lookup k m)) else lookup k' m.
Proof.
  induction m as [|[k0 v0] t IH]; simpl.
  - destruct (String.eqb k' k); reflexivity.
  - destruct (String.eqb k k0) eqn:E; simpl.
    + apply String.eqb_eq in E; subst k0. destruct (String.eqb k' k); reflexivity.
    + rewrite IH. destruct (String.eqb k' k) eqn:E1; [|reflexivity].
      apply String.eqb_eq in E1; subst k'. rewrite E. reflexivity.
Qed.
Lemma lookup_set_key {A} k (v : A) m k' :
  lookup k' (set_key k v m) = if String.eqb k' k then Some v else lookup k' m.
Proof. unfold set_key. rewrite lookup_upsert. reflexivity. Qed.

(* ---------- the result monad ---------- *)
Lemma rbind_ok {A B} (r : res A) (f : A -> res B) b : rbind r f = Ok b -> exists a, r = Ok a /\ f a = Ok b.
Proof. destruct r; simpl; intros H; [eauto|discriminate]. Qed.
Lemma all_res_cons {A B} (f : A -> res B) x t r :
  all_res f (x :: t) = Ok r -> exists y r', f x = Ok y /\ all_res f t = Ok r' /\ r = y :: r'.
Proof.
  simpl. destruct (f x) eqn:E; [|discriminate]. destruct (all_res f t) eqn:E2; [|discriminate].
  intros H; inv H. eauto.
Qed.
Lemma all_res_cons_ok {A B} (f : A -> res B) x t y r' : f x = Ok y -> all_res f t = Ok r' -> all_res f (x :: t) = Ok (y :: r').
Proof. intros H1 H2. simpl. rewrite H1. change (match all_res f t with Ok r => Ok (y :: r) | Err m => Err m end = Ok (y :: r')). rewrite H2. reflexivity. Qed.

(* ---------- descent into one key (execution_result.go:129-150) ---------- *)
Fixpoint desc (f : raw -> res raw) (k : string) (m : list (string * raw)) : res (list (string * raw)) :=
  match m with
  | [] => Ok []
  | (k', v) :: t => if String.eqb k k' then do v' <- f v ;; Ok ((k', v') :: t)
                    else do r <- desc f k t ;; Ok ((k', v) :: r)
  end.

Lemma merge_rec_arr src l ip : merge_rec src (RArr l) ip = do r <- all_res (fun e => merge_rec src e ip) l ;; Ok (RArr r).
Proof. destruct ip; reflexivity. Qed.
Lemma merge_rec_rnil src ip : merge_rec src RNil ip = Ok RNil.
Proof. destruct ip; reflexivity. Qed.
Lemma merge_rec_desc src m k rest :
  merge_rec src (RMap m) (k :: rest) = do m' <- desc (fun v => merge_rec src v rest) k m ;; Ok (RMap m').
Proof.
  cbn [merge_rec]. f_equal.
  induction m as [|[k' v] t IH]; [reflexivity|].
  cbn [desc]. destruct (String.eqb k k').
  - destruct v; try reflexivity. rewrite merge_rec_arr. reflexivity.
  - rewrite <- IH. reflexivity.
Qed.

Lemma desc_none f k m : lookup k m = None -> desc f k m = Ok m.
Proof.
  induction m as [|[k' v] t IH]; simpl; intros H; [reflexivity|].
  destruct (String.eqb k k'); [discriminate|]. rewrite (IH H). reflexivity.
Qed.
Lemma desc_some f k m v v' : lookup k m = Some v -> f v = Ok v' ->
  exists m', desc f k m = Ok m' /\ forall k', lookup k' m' = if String.eqb k' k then Some v' else lookup k' m.
Proof.
  induction m as [|[k0 v0] t IH]; simpl; intros H Hf; [discriminate|].
  destruct (String.eqb k k0) eqn:E.
  - inv H. rewrite Hf. simpl. eexists; split; [reflexivity|]. intros k'. simpl.
    apply String.eqb_eq in E; subst k0. destruct (String.eqb k' k); reflexivity.
  - destruct (IH H Hf) as [m' [Hd Hl]]. rewrite Hd. simpl. eexists; split; [reflexivity|]. intros k'. simpl.
    rewrite Hl. destruct (String.eqb k' k0) eqn:E0; [|reflexivity].
    apply String.eqb_eq in E0; subst k'. rewrite eqb_sym_s, E. reflexivity.
Qed.
Lemma desc_inv f k m m' : desc f k m = Ok m' ->
  (lookup k m = None /\ m' = m) \/
  (exists v v', lookup k m = Some v /\ f v = Ok v' /\ forall k', lookup k' m' = if String.eqb k' k then Some v' else lookup k' m).
Proof.
  intros H. destruct (lookup k m) eqn:E.
  - right. destruct (f r) eqn:Ef.
    + destruct (desc_some f k m r a E Ef) as [m2 [Hd Hl]]. rewrite Hd in H. inv H. eauto.
    + exfalso. revert m' H E. induction m as [|[k0 v0] t IH]; simpl; intros m' H E; [discriminate|].
      destruct (String.eqb k k0).
      * inv E. rewrite Ef in H. discriminate.
      * apply rbind_ok in H. destruct H as [r' [Hr _]]. eapply IH; eauto.
  - left. rewrite (desc_none f k m E) in H. inv H. auto.
Qed.

(* ---------- one boundary result applied to one object (execution_result.go:71-109) in normal form ---------- *)
Definition tn := "_bramble__typename".
Definition idk := "_bramble_id".
(* the writes a list of items performs on an object of type [dt] with id [di] *)
Fixpoint writes (dt : string) (di : option string) (items : list raw) : res (list (string * raw)) :=
  match items with
  | [] => Ok []
  | RMap r :: rest =>
      match str_key tn r with
      | None => Err "boundaryTypeFromMap: _bramble__typename not found"
      | Some st =>
          if negb (String.eqb st dt) then writes dt di rest else
          match di with
          | None => Err "boundaryIDFromMap: _bramble_id not found"
          | Some d => match str_key idk r with
                      | None => Err "boundaryIDFromMap: _bramble_id not found"
                      | Some si => if String.eqb d si
                                   then do w <- writes dt di rest ;; Ok (filter (fun kv => negb (String.eqb (fst kv) idk)) r ++ w)
                                   else writes dt di rest
                      end
          end
      end
  | _ :: rest => writes dt di rest
  end.
Definition apply_writes (w : list (string * raw)) (m : list (string * raw)) : list (string * raw) :=
  fold_left (fun m kv => set_key (fst kv) (snd kv) m) w m.

Lemma fold_skip_id (r m : list (string * raw)) :
  fold_left (fun m kv => if String.eqb (fst kv) idk then m else set_key (fst kv) (snd kv) m) r m =
  apply_writes (filter (fun kv => negb (String.eqb (fst kv) idk)) r) m.
Proof.
  revert m. induction r as [|[k v] t IH]; intros m; [reflexivity|].
  simpl. destruct (String.eqb k idk); simpl; apply IH.
Qed.
Lemma apply_writes_app w1 w2 m : apply_writes (w1 ++ w2) m = apply_writes w2 (apply_writes w1 m).
Proof. unfold apply_writes. apply fold_left_app. Qed.

(* the value the last write to [k] leaves, if any *)
Definition wlook (k : string) (w : list (string * raw)) : option raw := lookup k (rev w).
Lemma lookup_app {A} k (a b : list (string * A)) : lookup k (a ++ b) = match lookup k a with Some v => Some v | None => lookup k b end.
Proof. induction a as [|[k' v] t IH]; simpl; [reflexivity|]. destruct (String.eqb k k'); auto. Qed.
Lemma lookup_apply_writes k w m : lookup k (apply_writes w m) = match wlook k w with Some v => Some v | None => lookup k m end.
Proof.
  revert m. induction w as [|[k0 v0] t IH]; intros m; [reflexivity|].
  unfold wlook in *. simpl. change (lookup k (apply_writes t (set_key k0 v0 m)) = match lookup k (rev t ++ [(k0, v0)]) with Some v => Some v | None => lookup k m end).
  rewrite IH, lookup_app, lookup_set_key. simpl.
  destruct (lookup k (rev t)); [reflexivity|]. destruct (String.eqb k k0); reflexivity.
Qed.
Lemma wlook_in k w v : wlook k w = Some v -> In (k, v) w.
Proof.
  unfold wlook. intros H. apply in_rev. revert H. generalize (rev w). intros l.
  induction l as [|[k' v'] t IH]; simpl; [discriminate|].
  destruct (String.eqb k k') eqn:E; intros H.
  - inv H. apply String.eqb_eq in E. subst. auto.
  - auto.
Qed.
Lemma wlook_none k w : wlook k w = None <-> ~ In k (map fst w).
Proof.
  unfold wlook. rewrite (in_rev (map fst w)), <- map_rev. generalize (rev w). intros l.
  induction l as [|[k' v'] t IH]; simpl; [tauto|].
  destruct (String.eqb k k') eqn:E.
  - apply String.eqb_eq in E. subst. split; [discriminate|]. intros H. exfalso. auto.
  - rewrite IH. apply String.eqb_neq in E. split; [intros H [H1|H1]; [congruence|auto] | tauto].
Qed.

Definition bstep (dt : string) (acc : res (list (string * raw))) (it : raw) : res (list (string * raw)) :=
  do m <- acc ;;
  match it with
  | RMap r =>
    match str_key "_bramble__typename" r with
    | None => Err "boundaryTypeFromMap: _bramble__typename not found"
    | Some st => if negb (String.eqb st dt) then Ok m else
        match str_key "_bramble_id" m with
        | None => Err "boundaryIDFromMap: _bramble_id not found"
        | Some di => match str_key "_bramble_id" r with
                     | None => Err "boundaryIDFromMap: _bramble_id not found"
                     | Some si => if String.eqb di si
                                  then Ok (fold_left (fun m kv => if String.eqb (fst kv) "_bramble_id" then m else set_key (fst kv) (snd kv) m) r m)
                                  else Ok m
                     end
        end
    end
  | _ => Ok m
  end.
Definition items_ok (items : list raw) : res (list unit) :=
  all_res (fun it => match it with RNil | RMap _ => Ok tt | _ => Err "getBoundaryFieldResults: expected a map" end) items.
Lemma boundary_apply_unfold m items :
  boundary_apply m items = do _ <- items_ok items ;;
    match str_key tn m with
    | None => Err "boundaryTypeFromMap: _bramble__typename not found"
    | Some dt => fold_left (bstep dt) items (Ok m)
    end.
Proof. reflexivity. Qed.

Lemma fold_bstep_err dt items e : fold_left (bstep dt) items (Err e) = Err e.
Proof. induction items; simpl; auto. Qed.
Lemma str_key_apply_writes_id w m : ~ In idk (map fst w) -> str_key idk (apply_writes w m) = str_key idk m.
Proof. intros H. unfold str_key. rewrite lookup_apply_writes. apply wlook_none in H. rewrite H. reflexivity. Qed.
Lemma filter_no_id (r : list (string * raw)) : ~ In idk (map fst (filter (fun kv => negb (String.eqb (fst kv) idk)) r)).
Proof.
  induction r as [|[k v] t IH]; simpl; [tauto|].
  destruct (String.eqb k idk) eqn:E; simpl; [assumption|].
  intros [H|H]; [subst; rewrite String.eqb_refl in E; discriminate | auto].
Qed.

Lemma fold_bstep_nf dt items : forall m0,
  fold_left (bstep dt) items (Ok m0) = do w <- writes dt (str_key idk m0) items ;; Ok (apply_writes w m0).
Proof.
  induction items as [|it rest IH]; intros m0; [reflexivity|].
  cbn [fold_left writes].
  destruct it; try (unfold bstep at 2; cbn [rbind]; apply IH).
  unfold bstep at 2. cbn [rbind]. fold tn. fold idk.
  destruct (str_key tn m) eqn:Et; [|apply fold_bstep_err].
  destruct (negb (String.eqb s dt)); [apply IH|].
  destruct (str_key idk m0) eqn:Ei; [|apply fold_bstep_err].
  destruct (str_key idk m) eqn:Es; [|apply fold_bstep_err].
  destruct (String.eqb s0 s1); [|rewrite IH, Ei; reflexivity].
  rewrite fold_skip_id, IH.
  rewrite str_key_apply_writes_id by apply filter_no_id. rewrite Ei.
  destruct (writes dt (Some s0) rest); simpl; [|reflexivity].
  rewrite apply_writes_app. reflexivity.
Qed.

Lemma boundary_apply_nf m items :
  boundary_apply m items = do _ <- items_ok items ;;
    match str_key tn m with
    | None => Err "boundaryTypeFromMap: _bramble__typename not found"
    | Some dt => do w <- writes dt (str_key idk m) items ;; Ok (apply_writes w m)
    end.
Proof. rewrite boundary_apply_unfold. destruct (items_ok items); simpl; [|reflexivity]. destruct (str_key tn m); [apply fold_bstep_nf|reflexivity]. Qed.

(* ---------- what a boundary result can write ---------- *)
Definition item_keys (it : raw) : list string := match it with RMap r => map fst r | _ => [] end.
Definition allkeys (s : list raw) : list string := flat_map item_keys s.
Definition wf_items (s : list raw) : Prop := Forall (fun it => match it with RMap r => NoDup (map fst r) | _ => True end) s.

Lemma in_filter_keys (r : list (string * raw)) k v f : In (k, v) (filter f r) -> In (k, v) r.
Proof. intros H. apply filter_In in H. tauto. Qed.
Lemma nodup_lookup (r : list (string * raw)) k v : NoDup (map fst r) -> In (k, v) r -> lookup k r = Some v.
Proof.
  induction r as [|[k0 v0] t IH]; simpl; intros Hnd Hin; [tauto|]. inv Hnd.
  destruct Hin as [Heq|Hin].
  - inv Heq. rewrite String.eqb_refl. reflexivity.
  - destruct (String.eqb k k0) eqn:E; [|auto].
    apply String.eqb_eq in E; subst k0. exfalso. match goal with HN : ~ In k _ |- _ => apply HN end.
    apply in_map_iff. exists (k, v). auto.
Qed.

Lemma writes_spec dt di s w : wf_items s -> writes dt di s = Ok w ->
  (forall k v, In (k, v) w -> In k (allkeys s) /\ k <> idk /\ (k = tn -> v = RStr dt)).
Proof.
  revert w. induction s as [|it rest IH]; intros w Hwf H k v Hin.
  - inv H. destruct Hin.
  - inv Hwf. cbn [writes] in H. unfold allkeys. cbn [flat_map]. fold (allkeys rest).
    assert (Hrest : forall w', writes dt di rest = Ok w' -> In (k, v) w' -> In k (item_keys it ++ allkeys rest) /\ k <> idk /\ (k = tn -> v = RStr dt)).
    { intros w' Hw' Hin'. destruct (IH w' ltac:(assumption) Hw' k v Hin') as [Ha Hb]. split; [apply in_or_app; right; assumption|assumption]. }
    destruct it; try (eapply Hrest; eassumption).
    destruct (str_key tn m) eqn:Et; [|discriminate].
    destruct (negb (String.eqb s dt)) eqn:En; [eapply Hrest; eassumption|].
    destruct di as [d|]; [|discriminate].
    destruct (str_key idk m) eqn:Ei; [|discriminate].
    destruct (String.eqb d s0); [|eapply Hrest; eassumption].
    apply rbind_ok in H. destruct H as [w' [Hw' Heq]]. inv Heq.
    apply in_app_or in Hin. destruct Hin as [Hin|Hin]; [|eapply Hrest; eassumption].
    pose proof (in_filter_keys _ _ _ _ Hin) as Hin2.
    apply filter_In in Hin. destruct Hin as [_ Hf]. cbn [fst] in Hf.
    split; [|split].
    + apply in_or_app; left. cbn [item_keys]. apply in_map_iff. exists (k, v). auto.
    + intros ->. rewrite String.eqb_refl in Hf. discriminate.
    + intros ->. match goal with HN : NoDup _ |- _ => pose proof (nodup_lookup _ _ _ HN Hin2) as Hl end.
      unfold str_key in Et. rewrite Hl in Et. destruct v; try discriminate. inv Et.
      apply negb_false_iff in En. apply String.eqb_eq in En. subst. reflexivity.
Qed.

Lemma ba_spec m s r : boundary_apply m s = Ok r <->
  exists u dt w, items_ok s = Ok u /\ str_key tn m = Some dt /\ writes dt (str_key idk m) s = Ok w /\ r = apply_writes w m.
Proof.
  rewrite boundary_apply_nf. split.
  - intros H. apply rbind_ok in H. destruct H as [u [Hu H]].
    destruct (str_key tn m) eqn:Et; [|discriminate].
    apply rbind_ok in H. destruct H as [w [Hw H]]. inv H. eauto 8.
  - intros [u [dt [w [Hu [Ht [Hw Hr]]]]]]. rewrite Hu. cbn [rbind]. rewrite Ht, Hw. cbn [rbind]. subst. reflexivity.
Qed.

(* after the writes of a result the object still has its type name and its id *)
Lemma writes_keep_plumbing dt di s w m : wf_items s -> writes dt di s = Ok w -> str_key tn m = Some dt ->
  str_key tn (apply_writes w m) = Some dt /\ str_key idk (apply_writes w m) = str_key idk m.
Proof.
  intros Hwf Hw Ht. split.
  - unfold str_key. rewrite lookup_apply_writes. destruct (wlook tn w) eqn:E.
    + apply wlook_in in E. destruct (writes_spec _ _ _ _ Hwf Hw _ _ E) as [_ [_ Hv]]. rewrite (Hv eq_refl). reflexivity.
    + exact Ht.
  - apply str_key_apply_writes_id. intros Hin. apply in_map_iff in Hin. destruct Hin as [[k v] [Hk Hin]]. cbn [fst] in Hk. subst k.
    destruct (writes_spec _ _ _ _ Hwf Hw _ _ Hin) as [_ [Hn _]]. congruence.
Qed.
Lemma writes_keys dt di s w k : wf_items s -> writes dt di s = Ok w -> ~ In k (allkeys s) -> wlook k w = None.
Proof.
  intros Hwf Hw Hn. apply wlook_none. intros Hin. apply in_map_iff in Hin. destruct Hin as [[k' v] [Hk Hin]]. cbn [fst] in Hk. subst k'.
  destruct (writes_spec _ _ _ _ Hwf Hw _ _ Hin) as [Ha _]. contradiction.
Qed.

(* ---------- two results on the same object ---------- *)
Definition plumbing (k : string) : Prop := k = tn \/ k = idk.
Definition disjoint_items (s1 s2 : list raw) : Prop := forall k, In k (allkeys s1) -> In k (allkeys s2) -> plumbing k.

Lemma orel_refl_eq (a b : option raw) : a = b -> orel req a b.
Proof. intros ->. destruct b; constructor. apply req_refl. Qed.

Lemma ba_commute m s1 s2 m1 m12 : wf_items s1 -> wf_items s2 -> disjoint_items s1 s2 ->
  boundary_apply m s1 = Ok m1 -> boundary_apply m1 s2 = Ok m12 ->
  exists m2 m21, boundary_apply m s2 = Ok m2 /\ boundary_apply m2 s1 = Ok m21 /\ forall k, lookup k m12 = lookup k m21.
Proof.
  intros Hwf1 Hwf2 Hdis H1 H2.
  apply ba_spec in H1. destruct H1 as [u1 [dt [w1 [Hu1 [Ht [Hw1 ->]]]]]].
  apply ba_spec in H2. destruct H2 as [u2 [dt2 [w2 [Hu2 [Ht2 [Hw2 ->]]]]]].
  destruct (writes_keep_plumbing _ _ _ _ m Hwf1 Hw1 Ht) as [Ht1 Hi1].
  rewrite Ht1 in Ht2. inv Ht2. rewrite Hi1 in Hw2.
  destruct (writes_keep_plumbing _ _ _ _ m Hwf2 Hw2 Ht) as [Ht2' Hi2].
  exists (apply_writes w2 m), (apply_writes w1 (apply_writes w2 m)). split; [|split].
  - apply ba_spec. eauto 8.
  - apply ba_spec. exists u1, dt2, w1. rewrite Hi2. auto.
  - intros k. rewrite !lookup_apply_writes.
    destruct (wlook k w2) eqn:E2, (wlook k w1) eqn:E1; try reflexivity.
    apply wlook_in in E1, E2.
    destruct (writes_spec _ _ _ _ Hwf1 Hw1 _ _ E1) as [Ha1 [Hn1 Hv1]].
    destruct (writes_spec _ _ _ _ Hwf2 Hw2 _ _ E2) as [Ha2 [Hn2 Hv2]].
    destruct (Hdis k Ha1 Ha2) as [->| ->]; [|congruence].
    rewrite (Hv1 eq_refl), (Hv2 eq_refl). reflexivity.
Qed.

(* a result applied to an object commutes with a change below a key it does not write *)
Lemma ba_frame m m' s r k : wf_items s -> ~ In k (allkeys s) -> k <> tn -> k <> idk ->
  (forall k', lookup k' m' = if String.eqb k' k then lookup k m' else lookup k' m) ->
  boundary_apply m s = Ok r ->
  exists r', boundary_apply m' s = Ok r' /\ forall k', lookup k' r' = if String.eqb k' k then lookup k m' else lookup k' r.
Proof.
  intros Hwf Hk Hnt Hni Hl H. apply ba_spec in H. destruct H as [u [dt [w [Hu [Ht [Hw ->]]]]]].
  assert (Hsk : forall k0, k0 <> k -> str_key k0 m' = str_key k0 m).
  { intros k0 Hne. unfold str_key. rewrite Hl. apply String.eqb_neq in Hne. rewrite Hne. reflexivity. }
  exists (apply_writes w m'). split.
  - apply ba_spec. exists u, dt, w. rewrite !Hsk by congruence. auto.
  - intros k'. rewrite !lookup_apply_writes. destruct (String.eqb k' k) eqn:E.
    + apply String.eqb_eq in E. subst k'. rewrite (writes_keys _ _ _ _ _ Hwf Hw Hk). reflexivity.
    + rewrite Hl, E. reflexivity.
Qed.

(* ---------- child results: independence and commutation ---------- *)
Definition M (s : list raw) (ip : list string) (d : raw) : res raw := merge_rec (RArr s) d ip.

Fixpoint indep (s1 : list raw) (ip1 : list string) (s2 : list raw) (ip2 : list string) : Prop :=
  match ip1, ip2 with
  | [], [] => disjoint_items s1 s2
  | [], k :: _ => ~ In k (allkeys s1) /\ k <> tn /\ k <> idk
  | k :: _, [] => ~ In k (allkeys s2) /\ k <> tn /\ k <> idk
  | k1 :: r1, k2 :: r2 => if String.eqb k1 k2 then indep s1 r1 s2 r2 else True
  end.

Lemma M_top s m : M s [] (RMap m) = do r <- boundary_apply m s ;; Ok (RMap r).
Proof. reflexivity. Qed.
Lemma M_desc s k rest m : M s (k :: rest) (RMap m) = do m' <- desc (M s rest) k m ;; Ok (RMap m').
Proof. unfold M. apply merge_rec_desc. Qed.
Lemma M_arr s ip l : M s ip (RArr l) = do r <- all_res (M s ip) l ;; Ok (RArr r).
Proof. unfold M. apply merge_rec_arr. Qed.
Lemma M_rnil s ip : M s ip RNil = Ok RNil.
Proof. apply merge_rec_rnil. Qed.
Lemma M_leaf s ip d : match d with RBool _ | RNum _ | RStr _ => True | _ => False end -> exists e, M s ip d = Err e.
Proof. destruct d; try tauto; intros _; destruct ip; cbn; eauto. Qed.

Lemma desc_comm f g k1 k2 m m1 m12 : k1 <> k2 -> desc f k1 m = Ok m1 -> desc g k2 m1 = Ok m12 ->
  exists m2 m21, desc g k2 m = Ok m2 /\ desc f k1 m2 = Ok m21 /\ forall k, lookup k m12 = lookup k m21.
Proof.
  intros Hne Hd1 Hd2.
  assert (E12 : String.eqb k1 k2 = false) by (apply String.eqb_neq; assumption).
  assert (E21 : String.eqb k2 k1 = false) by (apply String.eqb_neq; congruence).
  destruct (desc_inv _ _ _ _ Hd1) as [[Hn1 ->]|[v [v' [Hv [Hf Hl1]]]]].
  - exists m12, m12. split; [exact Hd2|]. split; [|reflexivity]. apply desc_none.
    destruct (desc_inv _ _ _ _ Hd2) as [[_ ->]|[u [u' [_ [_ Hl2]]]]]; [exact Hn1|]. rewrite Hl2, E12. exact Hn1.
  - destruct (desc_inv _ _ _ _ Hd2) as [[Hn2 ->]|[u [u' [Hu [Hg Hl2]]]]].
    + rewrite Hl1, E21 in Hn2. exists m, m1. split; [apply desc_none; exact Hn2|]. split; [exact Hd1|reflexivity].
    + rewrite Hl1, E21 in Hu.
      destruct (desc_some g k2 m u u' Hu Hg) as [m2 [Hd Hl]].
      assert (Hv2 : lookup k1 m2 = Some v) by (rewrite Hl, E12; exact Hv).
      destruct (desc_some f k1 m2 v v' Hv2 Hf) as [m21 [Hd' Hl']].
      exists m2, m21. split; [exact Hd|]. split; [exact Hd'|].
      intros k. rewrite Hl2, Hl'. destruct (String.eqb k k2) eqn:Ek2.
      * apply String.eqb_eq in Ek2. subst k. rewrite E21, Hl, String.eqb_refl. reflexivity.
      * rewrite Hl1, Hl, Ek2. reflexivity.
Qed.

Theorem cc_commute s1 s2 : wf_items s1 -> wf_items s2 -> forall d ip1 ip2 d1 d12,
  indep s1 ip1 s2 ip2 -> M s1 ip1 d = Ok d1 -> M s2 ip2 d1 = Ok d12 ->
  exists d2 d21, M s2 ip2 d = Ok d2 /\ M s1 ip1 d2 = Ok d21 /\ req d12 d21.
Proof.
  intros Hwf1 Hwf2. induction d using raw_ind2; intros ip1 ip2 d1 d12 Hind H1 H2.
  - rewrite M_rnil in H1. inv H1. rewrite M_rnil in H2. inv H2. exists RNil, RNil. rewrite !M_rnil. repeat split. constructor.
  - destruct (M_leaf s1 ip1 (RBool b) I) as [e He]. congruence.
  - destruct (M_leaf s1 ip1 (RNum s) I) as [e He]. congruence.
  - destruct (M_leaf s1 ip1 (RStr s) I) as [e He]. congruence.
  - rewrite M_arr in H1. apply rbind_ok in H1. destruct H1 as [l1 [Hl1 E]]. inv E.
    rewrite M_arr in H2. apply rbind_ok in H2. destruct H2 as [l12 [Hl12 E]]. inv E.
    assert (HL : exists l2 l21, all_res (M s2 ip2) l = Ok l2 /\ all_res (M s1 ip1) l2 = Ok l21 /\ Forall2 req l12 l21).
    { revert l1 l12 Hl1 Hl12. induction H as [|x t Hx Ht IHt]; intros l1 l12 Hl1 Hl12.
      - cbn in Hl1. inv Hl1. cbn in Hl12. inv Hl12. exists [], []. repeat split. constructor.
      - apply all_res_cons in Hl1. destruct Hl1 as [y [r' [Hy [Hr' ->]]]].
        apply all_res_cons in Hl12. destruct Hl12 as [y2 [r2' [Hy2 [Hr2' ->]]]].
        destruct (Hx ip1 ip2 y y2 Hind Hy Hy2) as [a [b [Ha [Hb Hab]]]].
        destruct (IHt r' r2' Hr' Hr2') as [l2 [l21 [A [B C]]]].
        exists (a :: l2), (b :: l21). split; [apply all_res_cons_ok; assumption|].
        split; [apply all_res_cons_ok; assumption|]. constructor; assumption. }
    destruct HL as [l2 [l21 [A [B C]]]]. exists (RArr l2), (RArr l21).
    split; [rewrite M_arr, A; reflexivity|]. split; [rewrite M_arr, B; reflexivity|]. constructor. exact C.
  - destruct ip1 as [|k1 r1], ip2 as [|k2 r2]; cbn [indep] in Hind.
    + rewrite M_top in H1. apply rbind_ok in H1. destruct H1 as [m1 [Hm1 E]]. inv E.
      rewrite M_top in H2. apply rbind_ok in H2. destruct H2 as [m12 [Hm12 E]]. inv E.
      destruct (ba_commute _ _ _ _ _ Hwf1 Hwf2 Hind Hm1 Hm12) as [m2 [m21 [A [B C]]]].
      exists (RMap m2), (RMap m21).
      split; [rewrite M_top, A; reflexivity|]. split; [rewrite M_top, B; reflexivity|].
      constructor. intros k. apply orel_refl_eq. apply C.
    + destruct Hind as [Hk [Hnt Hni]].
      rewrite M_top in H1. apply rbind_ok in H1. destruct H1 as [m1 [Hm1 E]]. inv E.
      rewrite M_desc in H2. apply rbind_ok in H2. destruct H2 as [m12 [Hd E]]. inv E.
      pose proof Hm1 as Hba.
      apply ba_spec in Hm1. destruct Hm1 as [u [dt [w [Hu [Ht [Hw ->]]]]]].
      assert (Hlk : lookup k2 (apply_writes w m) = lookup k2 m).
      { rewrite lookup_apply_writes, (writes_keys _ _ _ _ _ Hwf1 Hw Hk). reflexivity. }
      destruct (desc_inv _ _ _ _ Hd) as [[Hn ->] | [v [v' [Hv [Hf Hl]]]]].
      * rewrite Hlk in Hn. exists (RMap m), (RMap (apply_writes w m)).
        split; [rewrite M_desc, (desc_none _ _ _ Hn); reflexivity|].
        split; [rewrite M_top, Hba; reflexivity|apply req_refl].
      * rewrite Hlk in Hv. destruct (desc_some (M s2 r2) k2 m v v' Hv Hf) as [m2 [Hd2 Hl2]].
        assert (Hfr : forall k', lookup k' m2 = if String.eqb k' k2 then lookup k2 m2 else lookup k' m).
        { intros k'. destruct (String.eqb k' k2) eqn:E.
          - apply String.eqb_eq in E. subst k'. reflexivity.
          - rewrite Hl2, E. reflexivity. }
        destruct (ba_frame m m2 s1 _ k2 Hwf1 Hk Hnt Hni Hfr Hba) as [r' [Hr' Hlr']].
        exists (RMap m2), (RMap r').
        split; [rewrite M_desc, Hd2; reflexivity|]. split; [rewrite M_top, Hr'; reflexivity|].
        constructor. intros k'. apply orel_refl_eq. rewrite Hl, Hlr'.
        destruct (String.eqb k' k2); [rewrite Hl2, String.eqb_refl; reflexivity|reflexivity].
    + destruct Hind as [Hk [Hnt Hni]].
      rewrite M_desc in H1. apply rbind_ok in H1. destruct H1 as [m1 [Hd E]]. inv E.
      rewrite M_top in H2. apply rbind_ok in H2. destruct H2 as [m12 [Hb E]]. inv E.
      pose proof Hb as Hb0.
      apply ba_spec in Hb0. destruct Hb0 as [u [dt [w [Hu [Ht [Hw Hm12]]]]]].
      assert (Hlk : lookup k1 m12 = lookup k1 m1).
      { subst m12. rewrite lookup_apply_writes, (writes_keys _ _ _ _ _ Hwf2 Hw Hk). reflexivity. }
      destruct (desc_inv _ _ _ _ Hd) as [[Hn ->] | [v [v' [Hv [Hf Hl]]]]].
      * exists (RMap m12), (RMap m12).
        split; [rewrite M_top, Hb; reflexivity|].
        split; [rewrite M_desc, desc_none; [reflexivity|rewrite Hlk; exact Hn]|apply req_refl].
      * assert (Hfr : forall k', lookup k' m = if String.eqb k' k1 then lookup k1 m else lookup k' m1).
        { intros k'. destruct (String.eqb k' k1) eqn:E.
          - apply String.eqb_eq in E. subst k'. reflexivity.
          - rewrite Hl, E. reflexivity. }
        destruct (ba_frame m1 m s2 _ k1 Hwf2 Hk Hnt Hni Hfr Hb) as [r' [Hr' Hlr']].
        assert (Hv2 : lookup k1 r' = Some v) by (rewrite Hlr', String.eqb_refl; exact Hv).
        destruct (desc_some (M s1 r1) k1 r' v v' Hv2 Hf) as [m21 [Hd21 Hl21]].
        exists (RMap r'), (RMap m21).
        split; [rewrite M_top, Hr'; reflexivity|]. split; [rewrite M_desc, Hd21; reflexivity|].
        constructor. intros k'. apply orel_refl_eq. rewrite Hl21.
        destruct (String.eqb k' k1) eqn:E.
        -- apply String.eqb_eq in E. subst k'. rewrite Hlk, Hl, String.eqb_refl. reflexivity.
        -- rewrite Hlr', E. reflexivity.
    + rewrite M_desc in H1. apply rbind_ok in H1. destruct H1 as [m1 [Hd1 E]]. inv E.
      rewrite M_desc in H2. apply rbind_ok in H2. destruct H2 as [m12 [Hd2 E]]. inv E.
      destruct (String.eqb k1 k2) eqn:E.
      * apply String.eqb_eq in E. subst k2.
        destruct (desc_inv _ _ _ _ Hd1) as [[Hn ->]|[v [v1 [Hv [Hf1 Hl1]]]]].
        -- rewrite (desc_none _ _ _ Hn) in Hd2. inv Hd2. exists (RMap m12), (RMap m12).
           split; [rewrite M_desc, (desc_none _ _ _ Hn); reflexivity|].
           split; [rewrite M_desc, (desc_none _ _ _ Hn); reflexivity|apply req_refl].
        -- destruct (desc_inv _ _ _ _ Hd2) as [[Hn2 ->]|[v1' [v12 [Hv1 [Hf2 Hl12]]]]].
           ++ rewrite Hl1, String.eqb_refl in Hn2. discriminate.
           ++ rewrite Hl1, String.eqb_refl in Hv1. inv Hv1.
              pose proof (lookup_in_snd (fun d => forall ip1 ip2 d1 d12, indep s1 ip1 s2 ip2 -> M s1 ip1 d = Ok d1 -> M s2 ip2 d1 = Ok d12 ->
                            exists d2 d21, M s2 ip2 d = Ok d2 /\ M s1 ip1 d2 = Ok d21 /\ req d12 d21) _ _ _ H Hv) as IHv. cbv beta in IHv.
              destruct (IHv r1 r2 v1' v12 Hind Hf1 Hf2) as [v2 [v21 [A [B C]]]].
              destruct (desc_some (M s2 r2) k1 m v v2 Hv A) as [m2 [Hdm2 Hlm2]].
              assert (Hv2 : lookup k1 m2 = Some v2) by (rewrite Hlm2, String.eqb_refl; reflexivity).
              destruct (desc_some (M s1 r1) k1 m2 v2 v21 Hv2 B) as [m21 [Hdm21 Hlm21]].
              exists (RMap m2), (RMap m21).
              split; [rewrite M_desc, Hdm2; reflexivity|]. split; [rewrite M_desc, Hdm21; reflexivity|].
              constructor. intros k'. rewrite Hl12, Hlm21. destruct (String.eqb k' k1) eqn:E.
              ** constructor. exact C.
              ** apply orel_refl_eq. rewrite Hl1, Hlm2, E. reflexivity.
      * apply String.eqb_neq in E.
        destruct (desc_comm _ _ _ _ _ _ _ E Hd1 Hd2) as [m2 [m21 [A [B C]]]].
        exists (RMap m2), (RMap m21).
        split; [rewrite M_desc, A; reflexivity|]. split; [rewrite M_desc, B; reflexivity|].
        constructor. intros k. apply orel_refl_eq. apply C.
Qed.

(* ---------- merging respects equality of Go values ---------- *)
Definition mrel (m m' : list (string * raw)) : Prop := forall k, orel req (lookup k m) (lookup k m').
Lemma str_key_mrel m m' k : mrel m m' -> str_key k m = str_key k m'.
Proof.
  intros H. unfold str_key. specialize (H k). inv H; [reflexivity|].
  match goal with HR : req _ _ |- _ => inv HR; reflexivity end.
Qed.
Lemma apply_writes_mrel w m m' : mrel m m' -> mrel (apply_writes w m) (apply_writes w m').
Proof. intros H k. rewrite !lookup_apply_writes. destruct (wlook k w); [constructor; apply req_refl|apply H]. Qed.

Theorem M_congr s : forall d d', req d d' -> forall ip e, M s ip d = Ok e -> exists e', M s ip d' = Ok e' /\ req e e'.
Proof.
  induction d using raw_ind2; intros d' Hq ip e He; inv Hq.
  - rewrite M_rnil in *. inv He. exists RNil. split; [reflexivity|constructor].
  - destruct (M_leaf s ip (RBool b) I) as [x Hx]. congruence.
  - destruct (M_leaf s ip (RNum s0) I) as [x Hx]. congruence.
  - destruct (M_leaf s ip (RStr s0) I) as [x Hx]. congruence.
  - rewrite M_arr in He. apply rbind_ok in He. destruct He as [r [Hr E]]. inv E.
    match goal with HF : Forall2 req l ?l2 |- _ => rename HF into HF2; rename l2 into l' end.
    assert (HL : exists r', all_res (M s ip) l' = Ok r' /\ Forall2 req r r').
    { revert l' HF2 r Hr. induction H as [|x t Hx Ht IHt]; intros l' HF2 r Hr.
      - inv HF2. cbn in Hr. inv Hr. exists []. split; [reflexivity|constructor].
      - inv HF2. apply all_res_cons in Hr. destruct Hr as [z [r0 [Hy [Hr0 ->]]]].
        match goal with HQ : req x ?y' |- _ => destruct (Hx _ HQ ip z Hy) as [y2 [Hy2 Hq2]] end.
        match goal with HQ : Forall2 req t ?t' |- _ => destruct (IHt _ HQ r0 Hr0) as [r2 [Hr2 Hq3]] end.
        exists (y2 :: r2). split; [apply all_res_cons_ok; assumption|constructor; assumption]. }
    destruct HL as [r' [A B]]. exists (RArr r'). split; [rewrite M_arr, A; reflexivity|constructor; exact B].
  - match goal with HM : forall k, orel req (lookup k m) (lookup k ?m2) |- _ => rename HM into Hm; rename m2 into m' end.
    destruct ip as [|k rest].
    + rewrite M_top in He. apply rbind_ok in He. destruct He as [r [Hr E]]. inv E.
      apply ba_spec in Hr. destruct Hr as [u [dt [w [Hu [Ht [Hw ->]]]]]].
      exists (RMap (apply_writes w m')). split.
      * rewrite M_top. assert (Hb : boundary_apply m' s = Ok (apply_writes w m')).
        { apply ba_spec. exists u, dt, w. rewrite <- !(str_key_mrel m m') by exact Hm. auto. }
        rewrite Hb. reflexivity.
      * constructor. apply apply_writes_mrel. exact Hm.
    + rewrite M_desc in He. apply rbind_ok in He. destruct He as [r [Hr E]]. inv E.
      destruct (desc_inv _ _ _ _ Hr) as [[Hn ->]|[v [v' [Hv [Hf Hl]]]]].
      * exists (RMap m'). split; [|constructor; exact Hm].
        rewrite M_desc, desc_none; [reflexivity|]. specialize (Hm k). rewrite Hn in Hm. inv Hm. reflexivity.
      * pose proof (Hm k) as Hk. rewrite Hv in Hk. inv Hk.
        match goal with HQ : req v ?b, HE : Some ?b = lookup k m' |- _ => rename b into vb; rename HQ into Hqv; symmetry in HE; rename HE into Hvb end.
        pose proof (lookup_in_snd (fun d => forall d', req d d' -> forall ip e, M s ip d = Ok e -> exists e', M s ip d' = Ok e' /\ req e e') _ _ _ H Hv) as IHv.
        cbv beta in IHv. destruct (IHv vb Hqv rest v' Hf) as [vb' [Hfb Hqb]].
        destruct (desc_some (M s rest) k m' vb vb' Hvb Hfb) as [r' [Hd' Hl']].
        exists (RMap r'). split; [rewrite M_desc, Hd'; reflexivity|].
        constructor. intros k'. rewrite Hl, Hl'. destruct (String.eqb k' k); [constructor; exact Hqb|apply Hm].
Qed.

(* ---------- lists of results (execution_result.go:15-56) ---------- *)
Definition is_child (r : exres) : Prop := match er_data r with RArr _ => True | _ => False end.
Definition items_of (r : exres) : list raw := match er_data r with RArr s => s | _ => [] end.
Definition indep_res (x y : exres) : Prop :=
  wf_items (items_of x) /\ wf_items (items_of y) /\ indep (items_of x) (er_ip x) (items_of y) (er_ip y).
Definition mstep (acc : res raw) (r : exres) : res raw := do d <- acc ;; merge_rec (er_data r) d (er_ip r).
Definition merge_from (base : raw) (rs : list exres) : res raw := fold_left mstep rs (Ok base).

Lemma merge_results_unfold r0 r1 rest :
  merge_results (r0 :: r1 :: rest) =
  do d <- merge_from (match er_data r0 with RNil => RMap [] | d => d end) (r1 :: rest) ;;
  match d with RMap _ => Ok d | _ => Err "merged execution results should be map[string]interface{}" end.
Proof. reflexivity. Qed.

Lemma fold_mstep_err rs e : fold_left mstep rs (Err e) = Err e.
Proof. induction rs; simpl; auto. Qed.
Lemma merge_from_cons base r rs : merge_from base (r :: rs) = do d <- merge_rec (er_data r) base (er_ip r) ;; merge_from d rs.
Proof.
  unfold merge_from. cbn [fold_left]. unfold mstep at 2. cbn [rbind].
  destruct (merge_rec (er_data r) base (er_ip r)); [reflexivity|apply fold_mstep_err].
Qed.
Lemma merge_from_app base l1 l2 : merge_from base (l1 ++ l2) = do d <- merge_from base l1 ;; merge_from d l2.
Proof.
  revert base. induction l1 as [|r t IH]; intros base; [reflexivity|].
  rewrite <- app_comm_cons, !merge_from_cons. destruct (merge_rec (er_data r) base (er_ip r)); cbn [rbind]; [apply IH|reflexivity].
Qed.
Lemma child_M r d : is_child r -> merge_rec (er_data r) d (er_ip r) = M (items_of r) (er_ip r) d.
Proof. unfold is_child, items_of, M. destruct (er_data r); tauto. Qed.

Lemma merge_from_congr rs : Forall is_child rs -> forall d d' e, req d d' -> merge_from d rs = Ok e ->
  exists e', merge_from d' rs = Ok e' /\ req e e'.
Proof.
  induction 1 as [|r t Hr Ht IH]; intros d d' e Hq He.
  - cbn in He. inv He. exists d'. split; [reflexivity|assumption].
  - rewrite merge_from_cons in He. apply rbind_ok in He. destruct He as [d1 [H1 H2]].
    rewrite (child_M _ _ Hr) in H1. destruct (M_congr _ _ _ Hq _ _ H1) as [d1' [H1' Hq1]].
    destruct (IH _ _ _ Hq1 H2) as [e' [He' Hqe]].
    exists e'. split; [|assumption]. rewrite merge_from_cons, (child_M _ _ Hr), H1'. exact He'.
Qed.

Theorem swap_adjacent base l1 x y l2 d : is_child x -> is_child y -> Forall is_child l2 -> indep_res x y ->
  merge_from base (l1 ++ x :: y :: l2) = Ok d ->
  exists d', merge_from base (l1 ++ y :: x :: l2) = Ok d' /\ req d d'.
Proof.
  intros Hx Hy Hl2 [Hwx [Hwy Hind]] H.
  rewrite merge_from_app in H. apply rbind_ok in H. destruct H as [d0 [H0 H]].
  rewrite merge_from_cons in H. apply rbind_ok in H. destruct H as [dx [H1 H]].
  rewrite merge_from_cons in H. apply rbind_ok in H. destruct H as [dxy [H2 H3]].
  rewrite (child_M _ _ Hx) in H1. rewrite (child_M _ _ Hy) in H2.
  destruct (cc_commute _ _ Hwx Hwy _ _ _ _ _ Hind H1 H2) as [dy [dyx [A [B C]]]].
  destruct (merge_from_congr _ Hl2 _ _ _ C H3) as [d' [Hd' Hq]].
  exists d'. split; [|assumption].
  rewrite merge_from_app, H0. cbn [rbind]. rewrite merge_from_cons, (child_M _ _ Hy), A. cbn [rbind].
  rewrite merge_from_cons, (child_M _ _ Hx), B. exact Hd'.
Qed.

(* any sequence of swaps of adjacent independent results *)
Inductive reorder : list exres -> list exres -> Prop :=
| ro_refl l : reorder l l
| ro_swap l1 x y l2 l' : indep_res x y -> reorder (l1 ++ y :: x :: l2) l' -> reorder (l1 ++ x :: y :: l2) l'.

Lemma Forall_swap {A} (P : A -> Prop) l1 x y l2 : Forall P (l1 ++ x :: y :: l2) -> Forall P (l1 ++ y :: x :: l2).
Proof.
  intros H. apply Forall_app in H. destruct H as [H1 H2]. inv H2. match goal with HH : Forall P (y :: l2) |- _ => inv HH end.
  apply Forall_app. split; [assumption|]. repeat constructor; assumption.
Qed.
Lemma Forall_app_r {A} (P : A -> Prop) l1 l2 : Forall P (l1 ++ l2) -> Forall P l2.
Proof. intros H. apply Forall_app in H. tauto. Qed.

Theorem merge_reorder base rs rs' : reorder rs rs' -> Forall is_child rs -> forall d, merge_from base rs = Ok d ->
  exists d', merge_from base rs' = Ok d' /\ req d d'.
Proof.
  induction 1 as [l|l1 x y l2 l' Hind Hr IH]; intros Hch d Hd.
  - exists d. split; [assumption|apply req_refl].
  - pose proof (Forall_app_r _ _ _ Hch) as Hxy. inv Hxy. match goal with HH : Forall is_child (y :: l2) |- _ => inv HH end.
    destruct (swap_adjacent base l1 x y l2 d) as [d1 [Hd1 Hq1]]; try assumption.
    destruct (IH (Forall_swap _ _ _ _ _ Hch) d1 Hd1) as [d' [Hd' Hq']].
    exists d'. split; [assumption|eapply req_trans; eassumption].
Qed.

Lemma reorder_length rs rs' : reorder rs rs' -> List.length rs = List.length rs'.
Proof. induction 1 as [|l1 x y l2 l' _ _ IH]; [reflexivity|]. rewrite <- IH, !app_length. reflexivity. Qed.

(* the whole merge: the first result (a root step's) is the base, the others are lookup results in any two orders related
   by swaps of independent neighbours *)
Theorem merge_results_reorder r0 rs rs' d : Forall is_child rs -> reorder rs rs' ->
  merge_results (r0 :: rs) = Ok d -> exists d', merge_results (r0 :: rs') = Ok d' /\ req d d'.
Proof.
  intros Hch Hro H. pose proof (reorder_length _ _ Hro) as Hlen.
  destruct rs as [|r1 rest]; destruct rs' as [|r1' rest']; try discriminate.
  - exists d. split; [assumption|apply req_refl].
  - rewrite merge_results_unfold in H. apply rbind_ok in H. destruct H as [e [He Hm]].
    destruct (merge_reorder _ _ _ Hro Hch _ He) as [e' [He' Hq]].
    rewrite merge_results_unfold, He'. cbn [rbind].
    destruct e; try discriminate. inv Hm. inv Hq. eexists. split; [reflexivity|]. constructor. assumption.
Qed.

(* ---------- any two orders whose inverted pairs are independent are related by such swaps ---------- *)
From Coq Require Import Permutation.

Lemma reorder_trans a b c : reorder a b -> reorder b c -> reorder a c.
Proof. induction 1 as [|l1 x y l2 l' Hi _ IH]; intros Hbc; [assumption|]. apply ro_swap; [assumption|apply IH; assumption]. Qed.
Lemma reorder_cons z l l' : reorder l l' -> reorder (z :: l) (z :: l').
Proof.
  induction 1 as [|l1 x y l2 l' Hi _ IH]; [apply ro_refl|].
  change (reorder ((z :: l1) ++ x :: y :: l2) (z :: l')). apply ro_swap; [assumption|exact IH].
Qed.
Lemma bubble_front z b a : (forall u, In u a -> indep_res u z) -> reorder (a ++ z :: b) (z :: a ++ b).
Proof.
  induction a as [|u a' IH]; intros H; [apply ro_refl|].
  eapply reorder_trans.
  - cbn [app]. apply reorder_cons. apply IH. intros v Hv. apply H. right. assumption.
  - change (reorder ([] ++ u :: z :: a' ++ b) (z :: (u :: a') ++ b)). apply ro_swap; [apply H; left; reflexivity|apply ro_refl].
Qed.

Inductive before (x y : exres) : list exres -> Prop :=
| bf_here l : In y l -> before x y (x :: l)
| bf_skip u l : before x y l -> before x y (u :: l).
Lemma before_insert x y z a b : before x y (a ++ b) -> before x y (a ++ z :: b).
Proof.
  induction a as [|u a' IH]; cbn [app]; intros H; [apply bf_skip; assumption|].
  inv H.
  - apply bf_here. apply in_app_or in H1. apply in_or_app. destruct H1; [left|right; right]; assumption.
  - apply bf_skip. apply IH. assumption.
Qed.
Lemma before_mid u z a b : In u a -> before u z (a ++ z :: b).
Proof.
  induction a as [|v a' IH]; intros H; [destruct H|]. cbn [app]. destruct H as [->|H].
  - apply bf_here. apply in_or_app. right. left. reflexivity.
  - apply bf_skip. apply IH. assumption.
Qed.

Theorem perm_reorder : forall rs' rs, Permutation rs rs' ->
  (forall x y, before x y rs -> before y x rs' -> indep_res x y) -> reorder rs rs'.
Proof.
  induction rs' as [|z t IH]; intros rs Hp Hinv.
  - apply Permutation_sym, Permutation_nil in Hp. subst. apply ro_refl.
  - assert (Hz : In z rs) by (eapply Permutation_in; [apply Permutation_sym; eassumption|left; reflexivity]).
    apply in_split in Hz. destruct Hz as [a [b ->]].
    assert (Hp' : Permutation (a ++ b) t) by (apply Permutation_sym; eapply Permutation_cons_app_inv; apply Permutation_sym; eassumption).
    eapply reorder_trans.
    + apply bubble_front. intros u Hu. apply Hinv; [apply before_mid; assumption|].
      apply bf_here. eapply Permutation_in; [eassumption|]. apply in_or_app. left. assumption.
    + apply reorder_cons. apply IH; [assumption|].
      intros x y Hb1 Hb2. apply Hinv; [apply before_insert; assumption|apply bf_skip; assumption].
Qed.

(* C06, the merge: the root step's result first, then the lookup results in ANY two orders whose inverted pairs are
   independent (in particular any two causal orders of one execution, when causally unrelated results are independent):
   both merges succeed together and give the same Go value. *)
Theorem merge_results_order_irrelevant r0 rs rs' d : Forall is_child rs -> Permutation rs rs' ->
  (forall x y, before x y rs -> before y x rs' -> indep_res x y) ->
  merge_results (r0 :: rs) = Ok d -> exists d', merge_results (r0 :: rs') = Ok d' /\ req d d'.
Proof. intros Hch Hp Hinv. apply merge_results_reorder; [assumption|]. apply perm_reorder; assumption. Qed.

(* ---------- non-vacuity: two services extending the same Movie objects ---------- *)
Definition ex_base : exres := {| er_url := "A"; er_ip := [];
  er_data := RMap [("movies", RArr [RMap [("_bramble_id", RStr "1"); ("_bramble__typename", RStr "Movie"); ("title", RStr "t1")];
                                    RMap [("_bramble_id", RStr "2"); ("_bramble__typename", RStr "Movie"); ("title", RStr "t2")]])] |}.
Definition ex_b : exres := {| er_url := "B"; er_ip := ["movies"];
  er_data := RArr [RMap [("_bramble_id", RStr "2"); ("_bramble__typename", RStr "Movie"); ("lead", RStr "p")];
                   RMap [("_bramble_id", RStr "1"); ("_bramble__typename", RStr "Movie"); ("lead", RNil)]] |}.
Definition ex_c : exres := {| er_url := "C"; er_ip := ["movies"];
  er_data := RArr [RMap [("_bramble_id", RStr "1"); ("_bramble__typename", RStr "Movie"); ("rating", RNum "4.5")]] |}.
Lemma ex_indep : indep_res ex_b ex_c.
Proof.
  unfold indep_res, wf_items. cbn. split; [|split].
  - repeat constructor; cbn; intuition discriminate.
  - repeat constructor; cbn; intuition discriminate.
  - intros k H1 H2. unfold plumbing, tn, idk. cbn in H1, H2. intuition (subst; try discriminate; auto).
Qed.
Example ex_orders :
  exists d1 d2, merge_results [ex_base; ex_b; ex_c] = Ok d1 /\ merge_results [ex_base; ex_c; ex_b] = Ok d2 /\ d1 <> d2 /\ req d1 d2.
Proof.
  destruct (merge_results [ex_base; ex_b; ex_c]) as [d1|] eqn:E1; [|vm_compute in E1; discriminate].
  destruct (merge_results_order_irrelevant ex_base [ex_b; ex_c] [ex_c; ex_b] d1) as [d2 [E2 Hq]].
  - repeat constructor.
  - apply perm_swap.
  - intros x y Hb1 Hb2. inv Hb1.
    + match goal with HI : In _ [ex_c] |- _ => destruct HI as [<-|[]] end. apply ex_indep.
    + match goal with HB : before _ _ [ex_c] |- _ => inv HB end.
      * match goal with HI : In _ [] |- _ => destruct HI end.
      * match goal with HB : before _ _ [] |- _ => inv HB end.
  - exact E1.
  - exists d1, d2. repeat split; try assumption. vm_compute in E1, E2. inv E1. inv E2. discriminate.
Qed.
(* independence is needed: a lookup result cannot be merged before the result that brings the objects it extends *)
Definition ex_d : exres := {| er_url := "C"; er_ip := ["movies"; "lead"];
  er_data := RArr [RMap [("_bramble_id", RStr "9"); ("_bramble__typename", RStr "Person"); ("nick", RStr "n")]] |}.
Definition ex_b2 : exres := {| er_url := "B"; er_ip := ["movies"];
  er_data := RArr [RMap [("_bramble_id", RStr "1"); ("_bramble__typename", RStr "Movie");
                         ("lead", RMap [("_bramble_id", RStr "9"); ("_bramble__typename", RStr "Person")])]] |}.
Example ex_dependent_results_do_not_commute :
  exists d1 d2, merge_results [ex_base; ex_b2; ex_d] = Ok d1 /\ merge_results [ex_base; ex_d; ex_b2] = Ok d2 /\ ~ req d1 d2.
Proof.
  eexists. eexists. split; [vm_compute; reflexivity|]. split; [vm_compute; reflexivity|].
  intros H. inv H. match goal with HM : forall k, orel req _ _ |- _ => specialize (HM "movies"); cbn in HM; inv HM end.
  match goal with HR : req (RArr _) (RArr _) |- _ => inv HR end.
  match goal with HF : Forall2 req _ _ |- _ => inv HF end.
  match goal with HR : req (RMap _) (RMap _) |- _ => inv HR end.
  match goal with HM : forall k, orel req _ _ |- _ => specialize (HM "lead"); cbn in HM; inv HM end.
  match goal with HR : req (RMap _) (RMap _) |- _ => inv HR end.
  match goal with HM : forall k, orel req _ _ |- _ => specialize (HM "nick"); cbn in HM; inv HM end.
Qed.

(* The hypothesis is not always met by bramble's plans (known finding KF-key-clash-across-types): for
   { animals { ... on Cat { friend { z: nick } } ... on Dog { friend { z: age } } } } with nick and age owned by two
   services, both lookups have the insertion point [animals; friend], both look up the friends of ALL animals (ids are
   collected without regard to the enclosing fragment) and both write the response key z: the last arrival wins. *)
Definition ex_animals : exres := {| er_url := "A"; er_ip := [];
  er_data := RMap [("animals", RArr [RMap [("_bramble__typename", RStr "Cat"); ("friend", RMap [("_bramble_id", RStr "9"); ("_bramble__typename", RStr "Person")])];
                                     RMap [("_bramble__typename", RStr "Dog"); ("friend", RMap [("_bramble_id", RStr "8"); ("_bramble__typename", RStr "Person")])]])] |}.
Definition ex_nick : exres := {| er_url := "B"; er_ip := ["animals"; "friend"];
  er_data := RArr [RMap [("_bramble_id", RStr "9"); ("_bramble__typename", RStr "Person"); ("z", RStr "nick9")];
                   RMap [("_bramble_id", RStr "8"); ("_bramble__typename", RStr "Person"); ("z", RStr "nick8")]] |}.
Definition ex_age : exres := {| er_url := "C"; er_ip := ["animals"; "friend"];
  er_data := RArr [RMap [("_bramble_id", RStr "9"); ("_bramble__typename", RStr "Person"); ("z", RStr "age9")];
                   RMap [("_bramble_id", RStr "8"); ("_bramble__typename", RStr "Person"); ("z", RStr "age8")]] |}.
Lemma ex_key_clash_not_independent : ~ indep_res ex_nick ex_age.
Proof.
  intros [_ [_ H]]. cbn in H. specialize (H "z"). cbn in H.
  destruct H as [H|H]; [tauto|tauto|discriminate H|discriminate H].
Qed.
Example ex_key_clash_order_dependent :
  exists d1 d2, merge_results [ex_animals; ex_nick; ex_age] = Ok d1 /\ merge_results [ex_animals; ex_age; ex_nick] = Ok d2 /\ ~ req d1 d2.
Proof.
  eexists. eexists. split; [vm_compute; reflexivity|]. split; [vm_compute; reflexivity|].
  intros H. inv H. match goal with HM : forall k, orel req _ _ |- _ => specialize (HM "animals"); cbn in HM; inv HM end.
  match goal with HR : req (RArr _) (RArr _) |- _ => inv HR end.
  match goal with HF : Forall2 req _ _ |- _ => inv HF end.
  match goal with HR : req (RMap _) (RMap _) |- _ => inv HR end.
  match goal with HM : forall k, orel req _ _ |- _ => specialize (HM "friend"); cbn in HM; inv HM end.
  match goal with HR : req (RMap _) (RMap _) |- _ => inv HR end.
  match goal with HM : forall k, orel req _ _ |- _ => specialize (HM "z"); cbn in HM; inv HM end.
  match goal with HR : req (RStr _) (RStr _) |- _ => inv HR end.
Qed.
