(* Proofs/BubbleAccount.v — C02: whenever the null-propagation pass (Model/Shape.v bubble, execution_result.go:187-309)
   tells its caller to null the enclosing position, it has reported at least one error: a null that propagation produces
   is always accounted for.  Every schema, selection, tree, path and fuel. *)
From V Require Import Base.Util Gql.Ast Gql.RefExec Model.Shape.

Definition bres_acc (b : bres) : Prop := match b with BOk _ _ errs up => up = true -> errs <> [] | BErr _ => True end.
Lemma app_not_nil_l {A} (a b : list A) : a <> [] -> a ++ b <> [].
Proof. destruct a; [congruence|discriminate]. Qed.
Lemma app_not_nil_r {A} (a b : list A) : b <> [] -> a ++ b <> [].
Proof. destruct a; [auto|discriminate]. Qed.

Theorem bubble_accounted : forall fuel c cur ss v path, bres_acc (bubble fuel c cur ss v path).
Proof.
  induction fuel as [|fuel IH]; intros c cur ss v path; [exact I|].
  destruct v; try exact I.
  - cbn [bubble]. destruct cur as [t|]; [|exact I]. destruct (ty_elem t) as [e|]; [|exact I]. destruct (ty_nn e); [exact I|cbn; discriminate].
  - cbn [bubble].
    match goal with |- bres_acc (?E l ?i0 ?s0 ?a0 ?e0 ?u0) =>
      cut (forall la i s a e u, (u = true -> e <> []) -> bres_acc (E la i s a e u)); [intros HE; apply HE; discriminate|] end.
    induction la as [|x ta IHa]; intros i s a e u Hinv.
    + cbn. exact Hinv.
    + simpl.
      match goal with |- context [bubble fuel c ?cu s x (path ++ [PIdx i])] => pose proof (IH c cu s x (path ++ [PIdx i])) as HR end.
      match type of HR with bres_acc ?b => destruct b as [x' ss' lerrs lup|]; [|exact I] end.
      cbn in HR. destruct lup.
      * match goal with |- context [if ?b then _ else _] => destruct b end; apply IHa; intros _; apply app_not_nil_r; apply HR; reflexivity.
      * apply IHa. intros Hu. apply app_not_nil_l. apply Hinv. exact Hu.
  - cbn [bubble].
    match goal with |- bres_acc (?W ?td0 ?dn0 m ?er0 ?u0) =>
      cut (forall td dn ma er u, (u = true -> er <> []) -> bres_acc (W td dn ma er u)); [intros HW; apply HW; discriminate|] end.
    induction td as [|[x inview] rest IHtd]; intros dn ma er u Hinv.
    + cbn. exact Hinv.
    + destruct x as [al n ar ds t oss | tc ds e0 body | f ds e0 tc body]; (destruct inview; [|simpl; apply IHtd; assumption]).
      * simpl. destruct (starts_uu n); [apply IHtd; assumption|].
        destruct (lookup al ma) as [ca|] eqn:Ea.
        -- destruct ca; try (destruct (ty_nn t); apply IHtd; [intros _; apply app_not_nil_r; discriminate|assumption]);
           (destruct oss as [css|]; [|apply IHtd; assumption]);
           (match goal with |- context [bubble fuel c (Some t) css ?xx (path ++ [PName al])] =>
              pose proof (IH c (Some t) css xx (path ++ [PName al])) as HR end);
           (match type of HR with bres_acc ?b => destruct b as [x' ss' lerrs lup|]; [|exact I] end);
           cbn in HR; (destruct lup; [destruct (ty_nn t)|]); apply IHtd;
           first [intros _; apply app_not_nil_r; apply HR; reflexivity | intros Hu; apply app_not_nil_l; apply Hinv; exact Hu].
        -- destruct (ty_nn t); apply IHtd; [intros _; apply app_not_nil_r; discriminate|assumption].
      * simpl. pose proof (IH c None body (RMap ma) path) as HR.
        match type of HR with bres_acc ?b => destruct b as [v' ss' lerrs lup|]; [|exact I] end.
        cbn in HR. apply IHtd. intros Hu. apply Bool.orb_true_iff in Hu. destruct Hu as [Hu|Hu];
          [apply app_not_nil_l; apply Hinv; exact Hu|apply app_not_nil_r; apply HR; exact Hu].
      * simpl. pose proof (IH c None body (RMap ma) path) as HR.
        match type of HR with bres_acc ?b => destruct b as [v' ss' lerrs lup|]; [|exact I] end.
        cbn in HR. apply IHtd. intros Hu. apply Bool.orb_true_iff in Hu. destruct Hu as [Hu|Hu];
          [apply app_not_nil_l; apply Hinv; exact Hu|apply app_not_nil_r; apply HR; exact Hu].
Qed.

Corollary bubble_up_reported fuel c cur ss v path v' ss' errs :
  bubble fuel c cur ss v path = BOk v' ss' errs true -> errs <> [].
Proof. intros H. pose proof (bubble_accounted fuel c cur ss v path) as H0. rewrite H in H0. apply H0. reflexivity. Qed.

(* at the level of the whole gateway model: a response whose data was nulled by propagation carries a null-propagation error *)
From V Require Import Model.MergeRes Model.Plan Model.FormatDoc Model.Gateway Model.Perm Model.SkipInclude Model.PermFilter.
Lemma gateway_propagated_null_reported G fschema W op vars P max fuel oc merged v ss' berrs :
  gateway G fschema W op vars P max fuel = Ok oc -> oc_merged oc = Some merged ->
  bubble fuel fschema None (oc_op oc) merged [] = BOk v ss' berrs true ->
  r_data (oc_response oc) = Some JNull /\ exists e, In e (r_errors (oc_response oc)) /\ ge_kind e = ENullBubble.
Proof.
  unfold gateway. destruct (skip_include vars (o_sel op)) as [ss0|]; cbn [rbind]; [|discriminate].
  destruct (match P with
            | Some p => let '(o', e) := filter_operation p {| o_kind := o_kind op; o_name := o_name op; o_vardefs := o_vardefs op; o_sel := ss0 |} in (o_sel o', e)
            | None => (ss0, []) end) as [ss perm_errs].
  match goal with |- context [plan ?pc ?root ss] => destruct (plan pc root ss) as [steps|] end.
  2:{ intros H Hm; inversion H; subst; cbn in Hm; discriminate. }
  match goal with |- context [fold_left ?F steps ?I] => destruct (fold_left F steps I) as [a|] end.
  2:{ intros H Hm; inversion H; subst; cbn in Hm; discriminate. }
  destruct (Nat.ltb max (a_count a)); [intros H Hm; inversion H; subst; cbn in Hm; discriminate|].
  match goal with |- context [merge_results ?R] => destruct (merge_results R) as [mg|] end.
  2:{ intros H Hm; inversion H; subst; cbn in Hm; discriminate. }
  destruct mg; cbn [oc_merged];
  (match goal with |- context [bubble ?f ?c ?cur ?s ?m ?p] => destruct (bubble f c cur s m p) eqn:EB end;
   intros H Hm HB; inversion H; subst; cbn in Hm; inversion Hm; subst; cbn [oc_op oc_response r_data r_errors] in *;
   rewrite EB in HB; inversion HB; subst;
   (split; [reflexivity|]);
   pose proof (bubble_up_reported _ _ _ _ _ _ _ _ _ EB) as Hne;
   destruct berrs as [|b0 bt]; [congruence|];
   eexists; split; [apply in_or_app; right; left; reflexivity|reflexivity]).
Qed.

(* non-vacuity: a non-null field that is null makes the pass tell its caller to null the object, with one error *)
Definition ex_schema : schema := {| s_kinds := [("T", KObject); ("String", KScalar)]; s_fields := [("T", [("must", TNamed "String" true)])];
                                    s_implements := []; s_possible := [("T", ["T"])] |}.
Example bubble_up_example :
  exists v ss' errs, bubble 5 ex_schema None [SField "must" "must" [] [] (TNamed "String" true) None] (RMap [("must", RNil)]) [] = BOk v ss' errs true /\ List.length errs = 1.
Proof. eexists. eexists. eexists. split; vm_compute; reflexivity. Qed.
