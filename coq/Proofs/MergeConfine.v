(* Proofs/MergeConfine.v — C05, the merge: a lookup step whose result is missing (the step failed, or was never run because
   the step above it failed) takes nothing away but what it would have written.  [same_but K a b]: the decoded trees a and b
   are equal as Go values except under object keys of K — every value that is not below such a key is the same in both.
   Merging one lookup result changes a tree only under the response keys its items carry (for any destination tree and
   insertion point); so the merged data of a run in which some lookup results are missing differs from the fault-free merged
   data only under the keys those results carry, provided the missing results are independent of the results they are moved
   past (the planner hypothesis of Proofs/MergeOrder.v). *)
From V Require Import Base.Util Gql.Ast Model.MergeRes Proofs.MergeOrder.
From Coq Require Import Permutation.

Inductive same_but (K : list string) : raw -> raw -> Prop :=
| SB_nil : same_but K RNil RNil
| SB_bool b : same_but K (RBool b) (RBool b)
| SB_num s : same_but K (RNum s) (RNum s)
| SB_str s : same_but K (RStr s) (RStr s)
| SB_arr l1 l2 : Forall2 (same_but K) l1 l2 -> same_but K (RArr l1) (RArr l2)
| SB_map m1 m2 : (forall k, ~ In k K -> orel (same_but K) (lookup k m1) (lookup k m2)) -> same_but K (RMap m1) (RMap m2).

Lemma req_same_but K : forall a b, req a b -> same_but K a b.
Proof.
  induction a using raw_ind2; intros b' Hq; inv Hq; try constructor.
  - match goal with HF : Forall2 req l ?l2 |- _ => revert l2 HF end.
    induction H; intros l2 HF; inv HF; constructor; auto.
  - intros k _.
    match goal with HM : forall k, orel req (lookup k m) _ |- _ => specialize (HM k); rename HM into Hm end.
    destruct (lookup k m) eqn:E; inv Hm; constructor.
    eapply (lookup_in_snd (fun v => forall b, req v b -> same_but K v b)); eauto.
Qed.
Lemma same_but_refl K a : same_but K a a.
Proof. apply req_same_but, req_refl. Qed.

Lemma same_but_mono K K' : incl K K' -> forall a b, same_but K a b -> same_but K' a b.
Proof.
  intros Hi. induction a using raw_ind2; intros b' Hs; inv Hs; try constructor.
  - match goal with HF : Forall2 (same_but K) l ?l2 |- _ => revert l2 HF end.
    induction H; intros l2 HF; inv HF; constructor; auto.
  - intros k Hk.
    match goal with HM : forall k, ~ In k K -> orel (same_but K) (lookup k m) _ |- _ => specialize (HM k (fun h => Hk (Hi _ h))); rename HM into Hm end.
    destruct (lookup k m) eqn:E; inv Hm; constructor.
    eapply (lookup_in_snd (fun v => forall b, same_but K v b -> same_but K' v b)); eauto.
Qed.

Lemma same_but_trans K : forall a b c, same_but K a b -> same_but K b c -> same_but K a c.
Proof.
  induction a using raw_ind2; intros b' c' H1 H2; inv H1; inv H2; try constructor.
  - match goal with HA : Forall2 (same_but K) l ?l2, HB : Forall2 (same_but K) ?l2 ?l3 |- _ => revert l2 l3 HA HB end.
    induction H; intros l2 l3 HA HB; inv HA; inv HB; constructor; eauto.
  - intros k Hk.
    match goal with HA : forall k, ~ In k K -> orel (same_but K) (lookup k m) _, HB : forall k, ~ In k K -> orel (same_but K) _ (lookup k ?m3) |- _ =>
      specialize (HA k Hk); specialize (HB k Hk); rename HA into Ha; rename HB into Hb end.
    destruct (lookup k m) eqn:E; inv Ha.
    + match goal with HE : Some _ = lookup k _ |- _ => rewrite <- HE in Hb end. inv Hb. constructor.
      eapply (lookup_in_snd (fun v => forall b c, same_but K v b -> same_but K b c -> same_but K v c)); eauto.
    + match goal with HE : None = lookup k _ |- _ => rewrite <- HE in Hb end. inv Hb. constructor.
Qed.

(* one lookup result, any destination and insertion point: only the keys its items carry can change *)
Theorem M_confined s : wf_items s -> forall d ip e, M s ip d = Ok e -> same_but (allkeys s) d e.
Proof.
  intros Hwf. induction d using raw_ind2; intros ip e He.
  - rewrite M_rnil in He. inv He. constructor.
  - destruct (M_leaf s ip (RBool b) I) as [x Hx]. congruence.
  - destruct (M_leaf s ip (RNum s0) I) as [x Hx]. congruence.
  - destruct (M_leaf s ip (RStr s0) I) as [x Hx]. congruence.
  - rewrite M_arr in He. apply rbind_ok in He. destruct He as [r [Hr E]]. inv E. constructor.
    revert r Hr. induction H as [|x t Hx Ht IHt]; intros r Hr.
    + cbn in Hr. inv Hr. constructor.
    + apply all_res_cons in Hr. destruct Hr as [z [r0 [Hy [Hr0 ->]]]]. constructor; eauto.
  - destruct ip as [|k rest].
    + rewrite M_top in He. apply rbind_ok in He. destruct He as [r [Hr E]]. inv E.
      apply ba_spec in Hr. destruct Hr as [u [dt [w [Hu [Ht [Hw ->]]]]]].
      constructor. intros k Hk. rewrite lookup_apply_writes, (writes_keys _ _ _ _ _ Hwf Hw Hk).
      destruct (lookup k m); constructor. apply same_but_refl.
    + rewrite M_desc in He. apply rbind_ok in He. destruct He as [r [Hr E]]. inv E.
      destruct (desc_inv _ _ _ _ Hr) as [[Hn ->]|[v [v' [Hv [Hf Hl]]]]]; [apply same_but_refl|].
      constructor. intros k' Hk'. rewrite Hl. destruct (String.eqb k' k) eqn:Ek.
      * apply String.eqb_eq in Ek. subst k'. rewrite Hv. constructor.
        eapply (lookup_in_snd (fun d => forall ip e, M s ip d = Ok e -> same_but (allkeys s) d e)); eauto.
      * destruct (lookup k' m); constructor. apply same_but_refl.
Qed.

Definition keys_of (rs : list exres) : list string := flat_map (fun r => allkeys (items_of r)) rs.
Definition wf_res (r : exres) : Prop := wf_items (items_of r).

(* results merged last: what they add lies under their keys *)
Theorem merged_last_confined fs : Forall is_child fs -> Forall wf_res fs -> forall t t',
  merge_from t fs = Ok t' -> same_but (keys_of fs) t t'.
Proof.
  induction fs as [|r fs IH]; intros Hc Hw t t' H.
  - cbn in H. inv H. apply same_but_refl.
  - inv Hc. inv Hw. rewrite merge_from_cons in H. apply rbind_ok in H. destruct H as [d1 [Hm1 Hm2]].
    match goal with HC : is_child r |- _ => rewrite (child_M _ _ HC) in Hm1 end.
    eapply same_but_trans.
    + eapply same_but_mono; [|eapply M_confined; eassumption]. unfold keys_of. cbn [flat_map]. apply incl_appl, incl_refl.
    + eapply same_but_mono; [|eapply IH; eassumption]. unfold keys_of. cbn [flat_map]. apply incl_appr, incl_refl.
Qed.

(* The fault-free execution merges the lookup results [rs] (in their arrival order) into the root result [base] and obtains T.
   In another execution the results [lost] are missing and the others, [kept], arrive in some order; whenever a lost result
   preceded, in [rs], a kept result, or a kept result another kept one in the opposite order, the two are independent.  Then
   that execution's merge succeeds as well, and its data differs from T only under the response keys the lost results carry. *)
Theorem lost_lookups_confined base rs kept lost T :
  Forall is_child rs -> Forall wf_res lost -> Permutation rs (kept ++ lost) ->
  (forall x y, before x y rs -> before y x (kept ++ lost) -> indep_res x y) ->
  merge_from base rs = Ok T ->
  exists T', merge_from base kept = Ok T' /\ same_but (keys_of lost) T' T.
Proof.
  intros Hc Hw Hp Hinv HT.
  destruct (merge_reorder base rs (kept ++ lost) (perm_reorder _ _ Hp Hinv) Hc T HT) as [d' [Hd' Hq]].
  rewrite merge_from_app in Hd'. apply rbind_ok in Hd'. destruct Hd' as [T' [Hk Hl]].
  exists T'. split; [assumption|].
  assert (Hcl : Forall is_child lost).
  { apply Forall_forall. intros x Hx. eapply Forall_forall; [exact Hc|].
    eapply Permutation_in; [apply Permutation_sym; eassumption|]. apply in_or_app. right. assumption. }
  eapply same_but_trans; [eapply merged_last_confined; eassumption|]. apply req_same_but, req_sym. assumption.
Qed.

(* ---------- non-vacuity: service B's lookup result is lost, service C's arrives ---------- *)
Example ex_lost_b :
  exists T T', merge_from (er_data ex_base) [ex_b; ex_c] = Ok T /\ merge_from (er_data ex_base) [ex_c] = Ok T' /\
               same_but (keys_of [ex_b]) T' T /\ ~ req T' T /\ ~ In "rating" (keys_of [ex_b]) /\ ~ In "title" (keys_of [ex_b]).
Proof.
  destruct (merge_from (er_data ex_base) [ex_b; ex_c]) as [T|] eqn:E1; [|vm_compute in E1; discriminate].
  destruct (lost_lookups_confined (er_data ex_base) [ex_b; ex_c] [ex_c] [ex_b] T) as [T' [E2 Hs]].
  - repeat constructor.
  - constructor; [|constructor]. exact (proj1 ex_indep).
  - apply perm_swap.
  - intros x y Hb1 Hb2. inv Hb1.
    + match goal with HI : In _ [ex_c] |- _ => destruct HI as [<-|[]] end. apply ex_indep.
    + match goal with HB : before _ _ [ex_c] |- _ => inv HB end.
      * match goal with HI : In _ [] |- _ => destruct HI end.
      * match goal with HB : before _ _ [] |- _ => inv HB end.
  - exact E1.
  - exists T, T'. repeat split; try assumption.
    + vm_compute in E1, E2. inv E1. inv E2. intros Hq. inv Hq.
      match goal with HM : forall k, orel req _ _ |- _ => specialize (HM "movies"); vm_compute in HM; inv HM end.
      match goal with HR : req (RArr _) (RArr _) |- _ => inv HR end.
      match goal with HF : Forall2 req (_ :: _) (_ :: _) |- _ => inv HF end.
      match goal with HR : req (RMap _) (RMap _) |- _ => inv HR end.
      match goal with HM : forall k, orel req _ _ |- _ => specialize (HM "lead"); vm_compute in HM; inv HM end.
    + vm_compute. intuition discriminate.
    + vm_compute. intuition discriminate.
Qed.
