(* Proofs/ExecReqProofs.v — C16: the operation type of every downstream request of the execution skeleton.  An entity lookup
   is always a query; a root request is a mutation exactly when its parent type is Mutation. *)
From V Require Import Base.Util Gql.Ast Gql.RefExec Model.Plan Model.MergeRes Model.FormatDoc Model.Gateway.

Definition req_ok (rq : request) : Prop :=
  match rq_lookup rq with
  | Some _ => rq_optype rq = OQuery
  | None => rq_optype rq = opkind_of_root (rq_parent rq)
  end.

Lemma fold_left_inv {A B} (P : A -> Prop) (f : A -> B -> A) (l : list B) (a : A) :
  P a -> (forall a x, P a -> P (f a x)) -> P (fold_left f l a).
Proof. revert a. induction l as [|x t IH]; simpl; intros a Ha Hs; [exact Ha | apply IH; [apply Hs; exact Ha | exact Hs]]. Qed.

Section Inv.
  Variable G : generation.
  Variable W : world.
  Variable vars : env.
  Variable fuel : nat.

  Lemma exec_child_reqs : forall f st ids a a',
    exec_child G W vars fuel f st ids a = Ok a' -> Forall req_ok (a_requests a) -> Forall req_ok (a_requests a').
  Proof.
    induction f as [|f IH]; intros st ids a a' H Ha; [discriminate|].
    destruct st as [url sname parent ss ip thn]. cbn [exec_child] in H.
    destruct (lookup url (g_lookups G)) as [ls|]; [|discriminate].
    destruct (find (fun l => String.eqb (lk_type l) parent) ls) as [l|]; [|discriminate].
    cbn [rbind] in H.
    match type of H with context [fold_left ?F ?L ?I] =>
      assert (Hrqs : Forall req_ok (fst (fst (fold_left F L I))));
      [ apply (fold_left_inv (fun st => Forall req_ok (fst (fst st)))); [constructor|];
        intros [[rqs0 r0] b0] bids Hst; cbn [fst] in *;
        destruct r0 as [d0|es0 p0|k0]; [|exact Hst|exact Hst];
        destruct d0; try exact Hst;
        match goal with |- context [match ?X with RpData _ => _ | RpErrors _ _ => _ | RpFail _ => _ end] => destruct X end;
        cbn [fst]; apply Forall_app; (split; [exact Hst | constructor; [reflexivity | constructor]])
      | destruct (fold_left F L I) as [[rqs outcome] nb] ]
    end.
    cbn [fst] in Hrqs.
    assert (Ha1 : Forall req_ok (a_requests a ++ rqs)) by (apply Forall_app; split; assumption).
    destruct outcome as [d|es partial|k].
    - match type of H with match ?N with [] => _ | _ => _ end = _ => destruct N as [|x0 nn] eqn:En end.
      + inversion H; subst. exact Ha1.
      + revert H. generalize (x0 :: nn). intros nonnil.
        match goal with |- fold_left ?F thn (Ok ?A0) = Ok a' -> _ => set (F0 := F); set (a0 := A0) end.
        assert (Ha0 : Forall req_ok (a_requests a0)) by exact Ha1. clearbody a0. clear Ha Ha1.
        revert a0 Ha0. induction thn as [|ch t IHt]; intros a0 Ha0 H; cbn [fold_left] in H.
        * inversion H; subst. exact Ha0.
        * destruct (F0 (Ok a0) ch) as [a1|m] eqn:E1.
          -- apply (IHt a1); [|exact H]. unfold F0 in E1. cbn [rbind] in E1.
             destruct (trim_ip nonnil (step_ip ch)) as [ip'|]; cbn [rbind] in E1; [|discriminate].
             destruct (extract_ids (RArr nonnil) ip' (step_parent ch)) as [ids'|]; cbn [rbind] in E1; [|discriminate].
             destruct (dedupe_str ids') as [|i0 it]; [inversion E1; subst; exact Ha0|].
             eapply IH; eauto.
          -- exfalso. clear -H. induction t as [|c t IHt]; cbn [fold_left] in H; [discriminate|]. apply IHt. exact H.
    - inversion H; subst. exact Ha1.
    - inversion H; subst. exact Ha1.
  Qed.

  Lemma exec_root_reqs st a a' :
    exec_root G W vars fuel st a = Ok a' -> Forall req_ok (a_requests a) -> Forall req_ok (a_requests a').
  Proof.
    destruct st as [url sname parent ss ip thn]. cbn [exec_root]. destruct (String.eqb url internal_service).
    - intros H Ha. inversion H; subst. exact Ha.
    - match goal with |- match ?C with _ => _ end = _ -> _ => destruct C as [d|es partial|k] end; intros H Ha;
        (assert (Ha1 : Forall req_ok (a_requests a ++ [{| rq_url := url; rq_optype := opkind_of_root parent; rq_parent := parent;
                     rq_sel := match wire_ss false ss with Some w => w | None => [] end; rq_ids := []; rq_lookup := None; rq_batch := 0 |}]))
           by (apply Forall_app; split; [exact Ha | constructor; [reflexivity | constructor]])).
      + match type of H with fold_left ?F thn (Ok ?A0) = Ok a' => set (F0 := F) in H; set (a0 := A0) in H end.
        assert (Ha0 : Forall req_ok (a_requests a0)) by exact Ha1. clearbody a0. clear Ha Ha1.
        revert a0 Ha0 H. induction thn as [|ch t IHt]; intros a0 Ha0 H; cbn [fold_left] in H.
        * inversion H; subst. exact Ha0.
        * destruct (F0 (Ok a0) ch) as [a1|m] eqn:E1.
          -- apply (IHt a1); [|exact H]. unfold F0 in E1. cbn [rbind] in E1.
             destruct (extract_ids d (step_ip ch) (step_parent ch)) as [ids'|]; cbn [rbind] in E1; [|discriminate].
             destruct (dedupe_str ids') as [|i0 it]; [inversion E1; subst; exact Ha0|].
             eapply exec_child_reqs; eauto.
          -- exfalso. clear -H. induction t as [|c t IHt]; cbn [fold_left] in H; [discriminate|]. apply IHt. exact H.
      + inversion H; subst. exact Ha1.
      + inversion H; subst. exact Ha1.
  Qed.
End Inv.

From V Require Import Model.Perm Model.SkipInclude Model.PermFilter Model.Shape.

Lemma fold_exec_root_reqs G W vars fuel steps : forall I a,
  fold_left (fun racc st => do a <- racc ;; exec_root G W vars fuel st a) steps I = Ok a ->
  (forall a0, I = Ok a0 -> Forall req_ok (a_requests a0)) -> Forall req_ok (a_requests a).
Proof.
  induction steps as [|st t IH]; intros I a H HI; cbn [fold_left] in H; [apply HI; exact H|].
  apply (IH _ _ H). intros a1 E1. destruct I as [a0|m]; cbn [rbind] in E1; [|discriminate].
  eapply exec_root_reqs; [exact E1 | apply HI; reflexivity].
Qed.

Theorem gateway_reqs G fschema W op vars P max fuel oc :
  gateway G fschema W op vars P max fuel = Ok oc -> Forall req_ok (oc_requests oc).
Proof.
  unfold gateway. destruct (skip_include vars (o_sel op)) as [ss0|]; cbn [rbind]; [|discriminate].
  destruct (match P with
            | Some p => let '(o', e) := filter_operation p {| o_kind := o_kind op; o_name := o_name op; o_vardefs := o_vardefs op; o_sel := ss0 |} in (o_sel o', e)
            | None => (ss0, []) end) as [ss perm_errs].
  match goal with |- context [plan ?pc ?root ss] => destruct (plan pc root ss) as [steps|] end.
  2:{ intros H; inversion H; subst; constructor. }
  match goal with |- context [fold_left ?F steps ?I] => destruct (fold_left F steps I) as [a|] eqn:Ef end.
  2:{ intros H; inversion H; subst; constructor. }
  assert (Ha : Forall req_ok (a_requests a)).
  { eapply fold_exec_root_reqs; [exact Ef|]. intros a0 E0. inversion E0; subst. constructor. }
  destruct (Nat.ltb max (a_count a)); [intros H; inversion H; subst; exact Ha|].
  match goal with |- context [merge_results ?R] => destruct (merge_results R) as [merged|] end.
  2:{ intros H; inversion H; subst; exact Ha. }
  match goal with |- context [bubble ?f ?c ?cur ?s ?m ?p] => destruct (bubble f c cur s m p) end;
    intros H; inversion H; subst; exact Ha.
Qed.
