(* Proofs/ViewProofs.v — C18, third clause, the direction that matters for confinement: every field of every type in the
   schema view built by FilterSchema is a field that some query left intact by filtering can select (Selectable).
   For every source schema, every permission set and every amount of fuel; no well-formedness assumption. *)
From V Require Import Base.Util Base.Assoc Model.Perm Model.View.

Lemma fold_left_inv {A B} (P : A -> Prop) (f : A -> B -> A) (l : list B) (a : A) :
  P a -> (forall a x, In x l -> P a -> P (f a x)) -> P (fold_left f l a).
Proof.
  revert a. induction l as [|x t IH]; simpl; intros a Ha Hs; [exact Ha|].
  apply IH; [apply Hs; [left; reflexivity | exact Ha] | intros a' x' Hin; apply Hs; right; exact Hin].
Qed.

Lemma vfind_name S n t : vfind S n = Some t -> vt_name t = n.
Proof. unfold vfind. intros H. apply find_some in H. destruct H as [_ H]. apply String.eqb_eq in H. exact H. Qed.

Lemma add_fields_in a b f : In f (add_fields a b) -> In f a \/ In f b.
Proof.
  unfold add_fields. revert a. induction b as [|x t IH]; simpl; intros a H; [left; exact H|].
  apply IH in H. destruct H as [H|H]; [|right; right; exact H].
  destruct (mem x a); [left; exact H|]. apply in_app_or in H. destruct H as [H|[H|[]]]; [left; exact H | right; left; exact H].
Qed.

Section Sound.
  Variable S : vsrc.
  Variable p : operm.

  Definition TInv (t : tmap) : Prop := forall T fs f, lookup T t = Some fs -> In f fs -> Selectable S p T f.
  Definition Good (def : option vtype) (a : af) : Prop :=
    forall d, def = Some d -> Reach S p (vt_name d) a /\ vfind S (vt_name d) = Some d.
  Definition ResOk (def : option vtype) (a : af) (res : option (list string)) : Prop :=
    forall l, res = Some l -> exists d, def = Some d /\ forall f, In f l -> In f (all_fields d) /\ node_allows a f = true.
  Definition RecOk (rec : option (list string) -> tmap -> option vtype -> af -> fd_result) : Prop :=
    forall vis types def a, TInv types -> Good def a ->
      TInv (snd (rec vis types def a)) /\ ResOk def a (fst (fst (rec vis types def a))).

  Lemma TInv_nil : TInv [].
  Proof. intros T fs f H; discriminate. Qed.

  Lemma sel_all tn t : Reach S p tn (AF true []) -> vfind S tn = Some t -> forall f, In f (all_fields t) -> Selectable S p tn f.
  Proof. intros HR Hf f Hin. exists (AF true []), t. repeat split; auto. Qed.

  Lemma TInv_set_all t tn ty : TInv t -> Reach S p tn (AF true []) -> vfind S tn = Some ty -> TInv (set_key tn (all_fields ty) t).
  Proof.
    intros Ht HR Hf T fs f Hl Hin. rewrite lookup_set_key in Hl. destruct (String.eqb T tn) eqn:E.
    - apply String.eqb_eq in E; subst T. inversion Hl; subst fs. eapply sel_all; eauto.
    - eapply Ht; eauto.
  Qed.
  Lemma TInv_set_nil t tn : TInv t -> TInv (set_key tn [] t).
  Proof.
    intros Ht T fs f Hl Hin. rewrite lookup_set_key in Hl. destruct (String.eqb T tn).
    - inversion Hl; subst fs. destruct Hin.
    - eapply Ht; eauto.
  Qed.
  Lemma TInv_set_arg t an : TInv t -> Reach S p an (AF true []) -> TInv (set_key an (fields_or_nil (vfind S an)) t).
  Proof.
    intros Ht HR. destruct (vfind S an) as [ty|] eqn:E; simpl.
    - apply TInv_set_all; auto.
    - apply TInv_set_nil; auto.
  Qed.

  Lemma TInv_install t tn ty a l : TInv t -> Reach S p tn a -> vfind S tn = Some ty ->
    (forall f, In f l -> In f (all_fields ty) /\ node_allows a f = true) -> TInv (install_or_add tn l t).
  Proof.
    intros Ht HR Hf Hl T fs f Hlk Hin. unfold install_or_add in Hlk. rewrite lookup_upsert in Hlk.
    destruct (String.eqb T tn) eqn:E; [|eapply Ht; eauto].
    apply String.eqb_eq in E; subst T. inversion Hlk; subst fs; clear Hlk.
    assert (Hnew : In f l -> Selectable S p tn f).
    { intros Hi. destruct (Hl f Hi) as [H1 H2]. exists a, ty. repeat split; auto. }
    destruct (lookup tn t) as [old|] eqn:Eo; [|auto].
    apply add_fields_in in Hin. destruct Hin as [Hin|Hin]; [eapply Ht; eauto | auto].
  Qed.

  Lemma good_some d a : Reach S p (vt_name d) a -> vfind S (vt_name d) = Some d -> Good (Some d) a.
  Proof. intros H1 H2 d' E. inversion E; subst. split; assumption. Qed.
  Lemma good_vfind n a : Reach S p n a -> Good (vfind S n) a.
  Proof. intros HR d E. pose proof (vfind_name _ _ _ E) as Hn. rewrite Hn. split; [exact HR | exact E]. Qed.

  Section Body.
    Variable rec : option (list string) -> tmap -> option vtype -> af -> fd_result.
    Hypothesis Hrec : RecOk rec.

    Lemma rec_T vis types def a : TInv types -> Good def a -> TInv (snd (rec vis types def a)).
    Proof. intros H1 H2. apply Hrec; assumption. Qed.

    Lemma all_possible_inv tn st pn : Reach S p tn (AF true []) ->
      (exists t, vfind S tn = Some t /\ vt_abstract t = true /\ In pn (vt_possible t)) ->
      TInv (snd st) -> TInv (snd (all_possible S rec st pn)).
    Proof.
      intros HR [t [Hf [Ha Hin]]] Ht. unfold all_possible. destruct (vfind S pn) as [pt|] eqn:Ep; [|exact Ht].
      assert (HRp : Reach S p pn (AF true [])) by (eapply R_possible; eauto).
      pose proof (vfind_name _ _ _ Ep) as Hn.
      match goal with |- context [rec ?v ?ty ?d ?a] => pose proof (rec_T v ty d a) as HT; destruct (rec v ty d a) as [[r v'] t'] end.
      simpl in *. apply HT.
      - apply TInv_set_all; auto.
      - apply good_some; rewrite Hn; auto.
    Qed.

    Lemma all_arg_inv st an : Reach S p an (AF true []) -> TInv (snd st) -> TInv (snd (all_arg S rec st an)).
    Proof.
      intros HR Ht. unfold all_arg.
      match goal with |- context [rec ?v ?ty ?d ?a] => pose proof (rec_T v ty d a) as HT; destruct (rec v ty d a) as [[r v'] t'] end.
      simpl in *. apply HT; [apply TInv_set_arg; auto | apply good_vfind; auto].
    Qed.

    Lemma all_field_inv d a st f : Reach S p (vt_name d) a -> af_all a = true -> vfind S (vt_name d) = Some d ->
      In f (vt_fields d) -> TInv (snd st) -> TInv (snd (all_field S rec d st f)).
    Proof.
      intros HR Hall Hfd Hin Ht. unfold all_field.
      destruct (mem (vt_name d +++ vf_name f) (fst st)); [exact Ht|].
      destruct (vfind S (vf_type f)) as [typ|] eqn:Et; [|exact Ht].
      assert (HRt : Reach S p (vf_type f) (AF true [])) by (apply (R_field_all S p (vt_name d) a d f); assumption).
      pose proof (vfind_name _ _ _ Et) as Hn.
      set (st1 := if vt_abstract typ then _ else _).
      assert (H1 : TInv (snd st1)).
      { subst st1. destruct (vt_abstract typ) eqn:Eab; [|exact Ht].
        apply (fold_left_inv (fun st => TInv (snd st))); [exact Ht|].
        intros st' pn Hpn Hst'. eapply all_possible_inv; eauto. }
      set (st2 := (fst st1, set_key (vf_type f) (all_fields typ) (snd st1))).
      assert (H2 : TInv (snd st2)) by (subst st2; simpl; apply TInv_set_all; auto).
      set (st3 := fold_left (all_arg S rec) (vf_args f) st2).
      assert (H3 : TInv (snd st3)).
      { subst st3. apply (fold_left_inv (fun st => TInv (snd st))); [exact H2|].
        intros st' an Han Hst'. apply all_arg_inv; [|exact Hst']. apply (R_arg_all S p (vt_name d) a d f an); assumption. }
      match goal with |- context [rec ?v ?ty ?dd ?aa] => pose proof (rec_T v ty dd aa) as HT; destruct (rec v ty dd aa) as [[r v'] t'] end.
      simpl in *. apply HT; [exact H3 | apply good_some; rewrite Hn; auto].
    Qed.

    Lemma res_possible_inv vis sub tn t pn : Reach S p tn sub ->
      (exists ty, vfind S tn = Some ty /\ vt_abstract ty = true /\ In pn (vt_possible ty)) ->
      TInv t -> TInv (res_possible S rec vis sub t pn).
    Proof.
      intros HR [ty [Hf [Ha Hin]]] Ht. unfold res_possible. destruct (vfind S pn) as [pt|] eqn:Ep; [|exact Ht].
      assert (HRp : Reach S p pn sub) by (eapply R_possible; eauto).
      pose proof (vfind_name _ _ _ Ep) as Hn.
      assert (Hg : Good (Some pt) sub) by (apply good_some; rewrite Hn; auto).
      destruct (Hrec vis t (Some pt) sub Ht Hg) as [HT HRes].
      destruct (rec vis t (Some pt) sub) as [[nf v'] t']. simpl in *.
      eapply TInv_install; eauto.
      intros f Hf'. destruct nf as [l|]; [|destruct Hf']. destruct (HRes l eq_refl) as [d' [E Hd']]. inversion E; subst d'. auto.
    Qed.

    Lemma res_arg_inv vis t an : Reach S p an (AF true []) -> TInv t -> TInv (res_arg S rec vis t an).
    Proof.
      intros HR Ht. unfold res_arg.
      match goal with |- context [rec ?v ?ty ?d ?a] => pose proof (rec_T v ty d a) as HT; destruct (rec v ty d a) as [[r v'] t'] end.
      simpl in *. apply HT; [apply TInv_set_arg; auto | apply good_vfind; auto].
    Qed.

    Definition ResInv (d : vtype) (a : af) (st : list string * tmap) : Prop :=
      TInv (snd st) /\ forall f, In f (fst st) -> In f (all_fields d) /\ node_allows a f = true.

    Lemma res_field_inv vis d a st f : Reach S p (vt_name d) a -> af_all a = false -> vfind S (vt_name d) = Some d ->
      In f (vt_fields d) -> ResInv d a st -> ResInv d a (res_field S rec vis a st f).
    Proof.
      intros HR Hall Hfd Hin [Ht Hres]. unfold res_field.
      destruct (lookup (vf_name f) (af_subs a)) as [sub|] eqn:El; [|split; assumption].
      assert (Hres' : forall g, In g (fst st ++ [vf_name f]) -> In g (all_fields d) /\ node_allows a g = true).
      { intros g Hg. apply in_app_or in Hg. destruct Hg as [Hg|[Hg|[]]]; [auto|]. subst g. split.
        - unfold all_fields. apply in_map. exact Hin.
        - unfold node_allows, has_key. rewrite El. apply orb_true_r. }
      destruct (vfind S (vf_type f)) as [typ|] eqn:Et; [|split; simpl; assumption].
      assert (HRt : Reach S p (vf_type f) sub) by (apply (R_field S p (vt_name d) a d f sub); assumption).
      pose proof (vfind_name _ _ _ Et) as Hn.
      set (t1 := if vt_abstract typ then _ else _).
      assert (H1 : TInv t1).
      { subst t1. destruct (vt_abstract typ) eqn:Eab; [|exact Ht].
        apply (fold_left_inv TInv); [exact Ht|]. intros t' pn Hpn Ht'. eapply res_possible_inv; eauto. }
      assert (Hg : Good (Some typ) sub) by (apply good_some; rewrite Hn; auto).
      destruct (Hrec vis t1 (Some typ) sub H1 Hg) as [HT HRes].
      destruct (rec vis t1 (Some typ) sub) as [[nf v'] t2]. simpl in *.
      split; simpl; [|exact Hres'].
      apply (fold_left_inv TInv).
      - eapply TInv_install; eauto. intros g Hg'. destruct nf as [l|]; [|destruct Hg'].
        destruct (HRes l eq_refl) as [d' [E Hd']]. inversion E; subst d'. auto.
      - intros t' an Han Ht'. apply res_arg_inv; [|exact Ht']. apply (R_arg S p (vt_name d) a d f sub an); assumption.
    Qed.

    Lemma body_ok : RecOk (body S rec).
    Proof.
      intros vis types def a Ht Hg. unfold body. destruct def as [d|]; [|split; [exact Ht | intros l E; discriminate]].
      destruct (Hg d eq_refl) as [HR Hfd].
      destruct (af_all a) eqn:Hall; simpl.
      - split.
        + apply (fold_left_inv (fun st => TInv (snd st))); [exact Ht|].
          intros st f Hin Hst. eapply all_field_inv; eauto.
        + intros l E. inversion E; subst l. exists d. split; [reflexivity|]. intros f Hin. split; [exact Hin|].
          unfold node_allows. rewrite Hall. reflexivity.
      - assert (HI : ResInv d a (fold_left (res_field S rec vis a) (vt_fields d) ([], types))).
        { apply (fold_left_inv (ResInv d a)).
          - split; [exact Ht | intros f []].
          - intros st f Hin Hst. eapply res_field_inv; eauto. }
        destruct HI as [H1 H2]. split; [exact H1|].
        intros l E. inversion E; subst l. exists d. split; [reflexivity | exact H2].
    Qed.
  End Body.

  Lemma filter_def_ok fuel : RecOk (filter_def fuel S).
  Proof.
    induction fuel as [|n IH]; simpl.
    - intros vis types def a Ht Hg. split; [exact Ht | intros l E; discriminate].
    - apply body_ok. exact IH.
  Qed.

  Lemma root_step_inv fuel types r key a :
    TInv types -> (forall n, r = Some n -> Reach S p n a /\ key = n) ->
    TInv (let '(fs, _, t) := filter_def fuel S None types (root_def S r) a in
          match fs with Some l => set_key key l t | None => t end).
  Proof.
    intros Ht Hr.
    assert (Hg : Good (root_def S r) a).
    { intros d E. unfold root_def in E. destruct r as [n|]; [|discriminate]. destruct (Hr n eq_refl) as [HR _].
      pose proof (vfind_name _ _ _ E) as Hn. rewrite Hn. split; assumption. }
    destruct (filter_def_ok fuel None types (root_def S r) a Ht Hg) as [HT HRes].
    destruct (filter_def fuel S None types (root_def S r) a) as [[fs v] t]. simpl in *.
    destruct fs as [l|]; [|exact HT].
    destruct (HRes l eq_refl) as [d [Ed Hd]].
    intros T gs f Hl Hin. rewrite lookup_set_key in Hl. destruct (String.eqb T key) eqn:E; [|eapply HT; eauto].
    apply String.eqb_eq in E; subst T. inversion Hl; subst gs.
    unfold root_def in Ed. destruct r as [n|]; [|discriminate].
    destruct (Hr n eq_refl) as [HR Hk]. subst key.
    destruct (Hd f Hin) as [H1 H2]. exists a, d. repeat split; auto.
  Qed.

  (* roots named otherwise than Query/Mutation/Subscription are rejected by validation (C09); the gateway's merged schema
     always uses the three standard names (merge.go) *)
  Definition std_roots : Prop :=
    (forall n, v_query S = Some n -> n = "Query") /\ (forall n, v_mutation S = Some n -> n = "Mutation") /\
    (forall n, v_subscription S = Some n -> n = "Subscription").

  Theorem view_sound fuel : std_roots -> forall T f,
    view_visible (filter_schema fuel S p) T f = true -> Selectable S p T f.
  Proof.
    intros [Hq [Hm Hs]] T f Hv. unfold view_visible in Hv.
    destruct (lookup T (filter_schema fuel S p)) as [fs|] eqn:El; [|discriminate].
    apply mem_in in Hv.
    assert (HI : TInv (filter_schema fuel S p)).
    { unfold filter_schema.
      apply (fold_left_inv TInv).
      2:{ intros t n Hn Ht. destruct (vfind S n) as [ty|] eqn:Ev; [|exact Ht]. destruct (has_key n t) eqn:Ek; [exact Ht|].
          intros T0 gs g Hl Hin. destruct (String.eqb T0 n) eqn:E.
          - apply String.eqb_eq in E; subst T0. unfold has_key in Ek. destruct (lookup n t) as [old|] eqn:El0; [discriminate|].
            assert (Hl' : gs = all_fields ty).
            { clear -Hl El0. induction t as [|[k v] t IH]; simpl in *.
              - rewrite String.eqb_refl in Hl. inversion Hl; reflexivity.
              - destruct (String.eqb n k); [discriminate|]. apply IH; assumption. }
            subst gs. apply (sel_all n ty); [apply R_dirarg; exact Hn | exact Ev | exact Hin].
          - apply (Ht T0 gs g); [|exact Hin]. clear -Hl E. induction t as [|[k v] t IH]; simpl in *.
            + rewrite E in Hl. discriminate.
            + destruct (String.eqb T0 k); [exact Hl | apply IH; exact Hl]. }
      apply root_step_inv; [apply root_step_inv; [apply root_step_inv; [apply TInv_nil|]|]|].
      - intros n E. split; [apply R_query; exact E | symmetry; apply Hq; exact E].
      - intros n E. split; [apply R_mutation; exact E | symmetry; apply Hm; exact E].
      - intros n E. split; [apply R_subscription; exact E | symmetry; apply Hs; exact E]. }
    eapply HI; eauto.
  Qed.
End Sound.

(* ---------- the converse direction fails (KF-view-drops-types) ---------- *)
Definition S_refute : vsrc :=
  {| v_types := [ {| vt_name := "Query"; vt_abstract := false; vt_fields := [ {| vf_name := "pet"; vf_type := "Pet"; vf_args := [] |} ]; vt_possible := [] |};
                  {| vt_name := "Pet"; vt_abstract := true; vt_fields := []; vt_possible := ["Fish"] |};
                  {| vt_name := "Named"; vt_abstract := true; vt_fields := [ {| vf_name := "name"; vf_type := "String"; vf_args := [] |} ]; vt_possible := ["Fish"] |};
                  {| vt_name := "Fish"; vt_abstract := false; vt_fields := [ {| vf_name := "name"; vf_type := "String"; vf_args := [] |} ]; vt_possible := [] |};
                  {| vt_name := "String"; vt_abstract := false; vt_fields := []; vt_possible := [] |} ];
     v_query := Some "Query"; v_mutation := None; v_subscription := None; v_dirargs := ["String"] |}.
Definition p_refute : operm := {| p_query := AF false [("pet", AF true [])]; p_mutation := AF false []; p_subscription := AF false [] |}.
Lemma view_complete_refuted :
  std_roots S_refute /\ Selectable S_refute p_refute "Named" "name" /\
  view_visible (filter_schema 20 S_refute p_refute) "Named" "name" = false.
Proof.
  split; [repeat split; intros n E; inversion E; reflexivity|]. split; [|vm_compute; reflexivity].
  assert (Hq : Reach S_refute p_refute "Query" (p_query p_refute)) by (apply R_query; reflexivity).
  assert (Hp : Reach S_refute p_refute "Pet" (AF true [])).
  { eapply (R_field S_refute p_refute "Query" _ _ {| vf_name := "pet"; vf_type := "Pet"; vf_args := [] |} (AF true [])); [exact Hq | reflexivity | reflexivity | left; reflexivity | reflexivity]. }
  assert (Hf : Reach S_refute p_refute "Fish" (AF true [])).
  { eapply (R_possible S_refute p_refute "Pet"); [exact Hp | reflexivity | reflexivity | left; reflexivity]. }
  assert (Hn : Reach S_refute p_refute "Named" (AF true [])) by (eapply R_overlap; [exact Hf | reflexivity]).
  eexists (AF true []), _. split; [exact Hn|]. split; [reflexivity|]. split; [left; reflexivity | reflexivity].
Qed.
