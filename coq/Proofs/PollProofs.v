(* Proofs/PollProofs.v — C10: after every history the published generation is the specified one. *)
From V Require Import Base.Util Model.Poll.

Section P.
  Variable classify : string -> skind.
  Variable mergeable : generation -> bool.
  Hypothesis empty_not_valid : classify "" <> KValid.     (* the empty source has no Query type: it never validates *)

  (* per-service invariant: what the cache fields say about each other *)
  Definition J (c : cache) : Prop :=
    if c_ok c then c_schema c = Some (c_src c) /\ classify (c_src c) = KValid
    else classify (c_src c) <> KValid.

  Lemma J_fresh : J fresh.
  Proof. exact empty_not_valid. Qed.

  Lemma update_J c o : J (fst (fst (update classify c o))).
  Proof.
    unfold update, J. destruct o as [|text]; simpl; [exact empty_not_valid|].
    destruct (classify text) eqn:E; simpl; [split; auto | rewrite E; discriminate | rewrite E; discriminate].
  Qed.

  (* err = false exactly when the new cache is healthy *)
  Lemma update_err c o : snd (update classify c o) = negb (c_ok (fst (fst (update classify c o)))).
  Proof. unfold update. destruct o as [|text]; simpl; [reflexivity|]. destruct (classify text); reflexivity. Qed.

  Lemma update_ok_schema c o : c_ok (fst (fst (update classify c o))) = true ->
    exists s, c_schema (fst (fst (update classify c o))) = Some s.
  Proof. unfold update. destruct o as [|text]; simpl; [discriminate|]. destruct (classify text); simpl; try discriminate. eauto. Qed.

  (* a poll that neither fails nor reports an update leaves a cache that satisfies J unchanged as far as [healthy] sees it *)
  Lemma update_quiet c o : J c ->
    snd (update classify c o) = false -> snd (fst (update classify c o)) = false ->
    c_ok c = true /\ c_schema (fst (fst (update classify c o))) = c_schema c.
  Proof.
    unfold update, J. destruct o as [|text]; simpl; [discriminate|].
    destruct (classify text) eqn:E; simpl; try discriminate. intros HJ _ Hup.
    apply negb_false_iff, String.eqb_eq in Hup. subst text.
    destruct (c_ok c); [destruct HJ as [Hs _]; split; [reflexivity | symmetry; exact Hs] | contradiction].
  Qed.

  Definition polled (outs : string -> outcome) (svcs : list (string * cache)) :=
    map (fun uc => (fst uc, update classify (snd uc) (outs (fst uc)))) svcs.
  Definition after (outs : string -> outcome) (svcs : list (string * cache)) : list (string * cache) :=
    map (fun p : string * (cache * bool * bool) => (fst p, fst (fst (snd p)))) (polled outs svcs).

  Lemma schemas_healthy outs svcs :
    flat_map (fun p : string * (cache * bool * bool) =>
                if snd (snd p) then [] else match c_schema (fst (fst (snd p))) with Some s => [(fst p, s)] | None => [] end) (polled outs svcs)
    = healthy_of (after outs svcs).
  Proof.
    unfold healthy_of, after, polled. induction svcs as [|[u c] t IH]; simpl; [reflexivity|].
    rewrite IH. rewrite update_err. destruct (c_ok (fst (fst (update classify c (outs u))))); reflexivity.
  Qed.

  Lemma after_J outs svcs : Forall (fun uc => J (snd uc)) (after outs svcs).
  Proof. unfold after, polled. induction svcs as [|[u c] t IH]; simpl; constructor; auto. simpl. apply update_J. Qed.

  Lemma quiet_healthy outs svcs :
    Forall (fun uc => J (snd uc)) svcs ->
    existsb (fun p : string * (cache * bool * bool) => snd (snd p)) (polled outs svcs) = false ->
    existsb (fun p : string * (cache * bool * bool) => negb (snd (snd p)) && snd (fst (snd p))) (polled outs svcs) = false ->
    healthy_of (after outs svcs) = healthy_of svcs.
  Proof.
    unfold healthy_of, after, polled. induction svcs as [|[u c] t IH]; simpl; intros HJ He Hu; [reflexivity|].
    inversion HJ as [|? ? Hc HJ']; subst. simpl in Hc.
    apply orb_false_iff in He. destruct He as [He1 He2]. apply orb_false_iff in Hu. destruct Hu as [Hu1 Hu2].
    rewrite He1 in Hu1. simpl in Hu1.
    destruct (update_quiet c (outs u) Hc He1 Hu1) as [Hok Hs].
    rewrite (IH HJ' He2 Hu2). rewrite Hok, <- Hs.
    rewrite update_err in He1. apply negb_false_iff in He1. rewrite He1. reflexivity.
  Qed.

  (* the history invariant *)
  Definition Inv (st : pstate) : Prop :=
    Forall (fun uc => J (snd uc)) (ps_services st) /\
    (mergeable (healthy st) = true -> ps_published st = Some (healthy st)).

  Lemma refresh_spec force outs st :
    Forall (fun uc => J (snd uc)) (ps_services st) ->
    (force = false -> mergeable (healthy st) = true -> ps_published st = Some (healthy st)) ->
    let st' := refresh classify mergeable force outs st in
    ps_published st' = spec_published mergeable (ps_published st) st' /\ Inv st'.
  Proof.
    intros HJ HI0. unfold refresh. fold (polled outs (ps_services st)). fold (after outs (ps_services st)).
    set (any_err := existsb (fun p : string * (cache * bool * bool) => snd (snd p)) (polled outs (ps_services st))).
    set (any_upd := existsb (fun p : string * (cache * bool * bool) => negb (snd (snd p)) && snd (fst (snd p))) (polled outs (ps_services st))).
    destruct (any_upd || force || any_err) eqn:Ereb.
    - (* rebuild *)
      rewrite (schemas_healthy outs (ps_services st)).
      destruct (mergeable (healthy_of (after outs (ps_services st)))) eqn:Em; unfold spec_published, healthy; cbn [ps_published ps_services]; rewrite Em.
      + split; [reflexivity|]. split; [apply after_J|]. intros _. reflexivity.
      + split; [reflexivity|]. split; [apply after_J|]. unfold healthy. cbn [ps_services]. rewrite Em. discriminate.
    - (* nothing updated, nothing failed, not forced: the published generation is left alone *)
      apply orb_false_iff in Ereb. destruct Ereb as [Ereb Eerr]. apply orb_false_iff in Ereb. destruct Ereb as [Eupd Ef].
      specialize (HI0 Ef). rename HI0 into HI.
      pose proof (quiet_healthy outs (ps_services st) HJ Eerr Eupd) as Hq.
      unfold spec_published, healthy in *. cbn [ps_published ps_services]. rewrite Hq.
      split.
      + destruct (mergeable (healthy_of (ps_services st))) eqn:Em; [apply HI; reflexivity | reflexivity].
      + split; [apply after_J|]. unfold healthy. cbn [ps_services ps_published]. rewrite Hq. exact HI.
  Qed.

  Lemma step_spec st e : Inv st ->
    let st' := step classify mergeable st e in
    ps_published st' = spec_published mergeable (ps_published st) st' /\ Inv st'.
  Proof.
    intros Hinv. destruct e as [outs|urls outs]; cbn [step].
    - destruct Hinv as [HJ HI]. apply refresh_spec; [exact HJ | intros _; exact HI].
    - unfold set_services.
      set (st0 := {| ps_services := _; ps_published := ps_published st; ps_gauge := ps_gauge st |}).
      assert (H0 : Forall (fun uc => J (snd uc)) (ps_services st0)).
      { destruct Hinv as [HJ HI].
        subst st0. simpl. apply Forall_forall. intros uc Hin. apply in_map_iff in Hin. destruct Hin as [u0 [<- _]].
        simpl. destruct (lookup u0 (ps_services st)) as [c0|] eqn:El; [|apply J_fresh].
        rewrite Forall_forall in HJ. apply (HJ (u0, c0)).
        clear -El. induction (ps_services st) as [|[k v] t IH]; simpl in El; [discriminate|].
        destruct (String.eqb u0 k) eqn:E; [apply String.eqb_eq in E; inversion El; subst; left; reflexivity | right; auto]. }
      apply (refresh_spec true (outs_fun outs) st0 H0). intros Hf; discriminate.
  Qed.

  (* the specification run: the published generation is recomputed from the healthy set after every event *)
  Fixpoint run_spec (st : pstate) (pub : option generation) (es : list event) : option generation :=
    match es with
    | [] => pub
    | e :: t => let st' := step classify mergeable st e in run_spec st' (spec_published mergeable pub st') t
    end.

  Lemma run_published es : forall st, Inv st ->
    ps_published (fold_left (step classify mergeable) es st) = run_spec st (ps_published st) es.
  Proof.
    induction es as [|e t IH]; intros st Hinv; cbn [fold_left run_spec]; [reflexivity|].
    destruct (step_spec st e Hinv) as [Hp Hi]. rewrite (IH _ Hi). rewrite <- Hp. reflexivity.
  Qed.

  Lemma init_Inv urls : mergeable [] = false -> Inv (init urls).
  Proof.
    intros Hm. split.
    - unfold init. simpl. apply Forall_forall. intros uc Hin. apply in_map_iff in Hin. destruct Hin as [u0 [<- _]].
      apply J_fresh.
    - intros H. exfalso. assert (healthy (init urls) = []) as E.
      { unfold healthy, healthy_of, init. simpl. induction (dedupe_str urls); simpl; auto. }
      rewrite E, Hm in H. discriminate.
  Qed.

  Theorem published_is_spec urls es : mergeable [] = false ->
    ps_published (fold_left (step classify mergeable) es (init urls)) = run_spec (init urls) None es.
  Proof. intros Hm. apply (run_published es (init urls) (init_Inv urls Hm)). Qed.

  (* the health indicator after a refresh: set iff a poll failed or the attempted merge failed *)
  Lemma gauge_refresh force outs st :
    ps_gauge (refresh classify mergeable force outs st) =
    let pl := polled outs (ps_services st) in
    let any_err := existsb (fun p : string * (cache * bool * bool) => snd (snd p)) pl in
    let any_upd := existsb (fun p : string * (cache * bool * bool) => negb (snd (snd p)) && snd (fst (snd p))) pl in
    any_err || ((any_upd || force || any_err) &&
                negb (mergeable (healthy_of (after outs (ps_services st))))).
  Proof.
    unfold refresh. fold (polled outs (ps_services st)). cbv zeta.
    set (any_err := existsb (fun p : string * (cache * bool * bool) => snd (snd p)) (polled outs (ps_services st))).
    set (any_upd := existsb _ (polled outs (ps_services st))).
    rewrite (schemas_healthy outs (ps_services st)).
    destruct (any_upd || force || any_err) eqn:E.
    - destruct (mergeable _); simpl; [rewrite orb_false_r | rewrite orb_true_r]; reflexivity.
    - simpl. apply orb_false_iff in E. destruct E as [_ E]. rewrite E. reflexivity.
  Qed.
End P.
