(* Proofs/MergeProofs.v — C08: a conflicting definition is never resolved silently: whatever else the two schemas
   contain, and wherever in the second schema the definition sits, the pairwise merge fails. *)
From V Require Import Base.Util Gql.Ast Model.Merge.

(* the conflicts that mergeTypes detects before it tries to merge fields: same name and
   (a) different kinds, or, for non-scalars, (b) one side is not a federation (boundary/namespace) type and the name is
   not Query/Mutation, or (c) the boundary/namespace flags disagree, or (d) the kind is not OBJECT *)
Definition pair_conflict (k : string) (va nvb : tdef) : bool :=
  negb (kind_eqb (td_kind nvb) (td_kind va)) ||
  (negb (kind_eqb (td_kind nvb) KScalar) &&
   (((negb (fed nvb) || negb (fed va)) && negb (String.eqb k "Query" || String.eqb k "Mutation")) ||
    negb (Bool.eqb (td_boundary va) (td_boundary nvb)) || negb (Bool.eqb (td_namespace va) (td_namespace nvb)) ||
    negb (kind_eqb (td_kind va) KObject))).

Definition step (a b : sschema) (r : res sschema) (vb : tdef) : res sschema :=
  do result <- r ;;
  let k := td_name vb in
  if starts_uu k || String.eqb k "Node" || String.eqb k "Service" then Ok result else
  let nvb := clean vb in
  match find_type k result with
  | None => Ok (result ++ [nvb])
  | Some va =>
      if negb (kind_eqb (td_kind nvb) (td_kind va)) then Err ("name collision: " +++ k) else
      match td_kind nvb with
      | KScalar => Ok (replace_type nvb result)
      | _ =>
        if (negb (fed nvb) || negb (fed va)) && negb (String.eqb k "Query" || String.eqb k "Mutation") then
          Err (match td_kind nvb with KInterface => "conflicting interface: " | _ => "conflicting non boundary type: " end +++ k)
        else if negb (Bool.eqb (td_boundary va) (td_boundary nvb)) || negb (Bool.eqb (td_namespace va) (td_namespace nvb)) then
          Err ("conflicting object directives " +++ k)
        else if negb (kind_eqb (td_kind va) KObject) then Err "non object boundary type"
        else if td_namespace nvb || is_root k then
          do m <- merge_namespace a b nvb va ;; Ok (replace_type m result)
        else
          do m <- merge_boundary nvb va ;; Ok (replace_type m result)
      end
  end.

Lemma merge_types_fold a b :
  merge_types a b = fold_left (step a b) b
    (Ok (map clean (filter (fun t => negb (String.eqb (td_name t) "Node" || String.eqb (td_name t) "Service")) a))).
Proof. reflexivity. Qed.

Lemma fold_err a b l m : fold_left (step a b) l (Err m) = Err m.
Proof. induction l as [|x t IH]; simpl; auto. Qed.

Lemma step_conflict a b result vb va :
  starts_uu (td_name vb) || String.eqb (td_name vb) "Node" || String.eqb (td_name vb) "Service" = false ->
  find_type (td_name vb) result = Some va -> pair_conflict (td_name vb) va (clean vb) = true ->
  is_ok (step a b (Ok result) vb) = false.
Proof.
  intros Hn Hf Hc. unfold step. cbn [rbind]. rewrite Hn, Hf. unfold pair_conflict in Hc.
  set (nvb := clean vb) in *. clearbody nvb.
  destruct (negb (kind_eqb (td_kind nvb) (td_kind va))) eqn:E1; [reflexivity|]. cbn [orb] in Hc.
  destruct (td_kind nvb) eqn:Ek; cbn [kind_eqb negb andb] in Hc; try discriminate;
    (destruct ((negb (fed nvb) || negb (fed va)) && negb (String.eqb (td_name vb) "Query" || String.eqb (td_name vb) "Mutation")); [reflexivity|];
     cbn [orb] in Hc;
     destruct (negb (Bool.eqb (td_boundary va) (td_boundary nvb)) || negb (Bool.eqb (td_namespace va) (td_namespace nvb))) eqn:E3; [reflexivity|];
     cbn [orb] in Hc; rewrite Hc; reflexivity).
Qed.

(* processing a definition with another name leaves the entry for k alone *)
Lemma find_replace_other k m result : td_name m <> k -> find_type k (replace_type m result) = find_type k result.
Proof.
  intros Hne. unfold find_type. induction result as [|x r IH]; simpl.
  - destruct (String.eqb (td_name m) k) eqn:E; [apply String.eqb_eq in E; contradiction | reflexivity].
  - destruct (String.eqb (td_name x) (td_name m)) eqn:E1; simpl.
    + apply String.eqb_eq in E1. destruct (String.eqb (td_name m) k) eqn:E2; [apply String.eqb_eq in E2; contradiction|].
      rewrite E1, E2. reflexivity.
    + destruct (String.eqb (td_name x) k); [reflexivity | exact IH].
Qed.

Lemma find_app_other k x result va : find_type k result = Some va -> find_type k (result ++ [x]) = Some va.
Proof.
  unfold find_type. induction result as [|y r IH]; simpl; [discriminate|].
  destruct (String.eqb (td_name y) k); auto.
Qed.

Lemma merge_namespace_name acc nt a b m : merge_namespace acc nt a b = Ok m -> td_name m = td_name a.
Proof.
  unfold merge_namespace. destruct (fold_left _ _ _); simpl; [|discriminate]. intros H; inversion H; reflexivity.
Qed.
Lemma merge_boundary_name a b m : merge_boundary a b = Ok m -> td_name m = td_name a.
Proof.
  unfold merge_boundary. destruct (fold_left _ _ _); simpl; [|discriminate]. intros H; inversion H; reflexivity.
Qed.

Lemma step_other a b result x k va result' :
  td_name x <> k -> find_type k result = Some va -> step a b (Ok result) x = Ok result' -> find_type k result' = Some va.
Proof.
  intros Hne Hf. unfold step. cbn [rbind].
  destruct (starts_uu (td_name x) || String.eqb (td_name x) "Node" || String.eqb (td_name x) "Service"); [intros H; inversion H; subst; exact Hf|].
  assert (Hcn : td_name (clean x) = td_name x) by reflexivity.
  destruct (find_type (td_name x) result) as [vx|].
  - destruct (negb (kind_eqb (td_kind (clean x)) (td_kind vx))); [discriminate|].
    assert (Hrep : forall m, td_name m = td_name x -> find_type k (replace_type m result) = Some va).
    { intros m Hm. rewrite find_replace_other; [exact Hf | rewrite Hm; exact Hne]. }
    destruct (td_kind (clean x));
      try (intros H; inversion H; subst; apply Hrep; reflexivity);
      (destruct ((negb (fed (clean x)) || negb (fed vx)) && negb (String.eqb (td_name x) "Query" || String.eqb (td_name x) "Mutation")); [discriminate|];
       destruct (negb (Bool.eqb (td_boundary vx) (td_boundary (clean x))) || negb (Bool.eqb (td_namespace vx) (td_namespace (clean x)))); [discriminate|];
       destruct (negb (kind_eqb (td_kind vx) KObject)); [discriminate|];
       destruct (td_namespace (clean x) || is_root (td_name x));
       [ destruct (merge_namespace a b (clean x) vx) as [m|] eqn:Em; simpl; [|discriminate];
         intros H; inversion H; subst; apply Hrep; rewrite (merge_namespace_name _ _ _ _ _ Em); reflexivity
       | destruct (merge_boundary (clean x) vx) as [m|] eqn:Em; simpl; [|discriminate];
         intros H; inversion H; subst; apply Hrep; rewrite (merge_boundary_name _ _ _ Em); reflexivity ]).
  - intros H; inversion H; subst. apply find_app_other. exact Hf.
Qed.

(* THE CONFLICT THEOREM for the pairwise merge *)
Theorem merge_types_conflict a b vb va :
  NoDup (map td_name b) -> In vb b ->
  starts_uu (td_name vb) || String.eqb (td_name vb) "Node" || String.eqb (td_name vb) "Service" = false ->
  find_type (td_name vb) (map clean (filter (fun t => negb (String.eqb (td_name t) "Node" || String.eqb (td_name t) "Service")) a)) = Some va ->
  pair_conflict (td_name vb) va (clean vb) = true ->
  is_ok (merge_types a b) = false.
Proof.
  intros HN Hin Hn Hf Hc. rewrite merge_types_fold.
  generalize dependent (map clean (filter (fun t => negb (String.eqb (td_name t) "Node" || String.eqb (td_name t) "Service")) a)).
  (* the accumulator keeps [va] at the conflicting name until [vb] is reached *)
  assert (G : forall l result, NoDup (map td_name l) -> In vb l -> find_type (td_name vb) result = Some va ->
                               is_ok (fold_left (step a b) l (Ok result)) = false).
  { induction l as [|x t IH]; intros result HNl Hinl Hfr; [destruct Hinl|].
    inversion HNl as [|? ? Hnin HNt]; subst. cbn [fold_left]. destruct Hinl as [->|Hint].
    - destruct (step a b (Ok result) vb) as [r|m] eqn:Es.
      + pose proof (step_conflict a b result vb va Hn Hfr Hc) as Hs. rewrite Es in Hs. discriminate.
      + rewrite fold_err. reflexivity.
    - destruct (step a b (Ok result) x) as [r|m] eqn:Es; [|rewrite fold_err; reflexivity].
      apply IH; [exact HNt | exact Hint|].
      eapply step_other; [|exact Hfr|exact Es].
      intros Heq. apply Hnin. rewrite Heq. apply in_map. exact Hint. }
  intros s0 Hs0. apply G; assumption.
Qed.

(* instances: the conflicts listed by the property *)
Lemma conflict_same_kind_not_shared k va nvb :
  kind_eqb (td_kind nvb) KScalar = false -> (fed nvb = false \/ fed va = false) ->
  String.eqb k "Query" || String.eqb k "Mutation" = false -> pair_conflict k va nvb = true.
Proof.
  intros Hs Hfed Hk. unfold pair_conflict. rewrite Hs, Hk.
  destruct (kind_eqb (td_kind nvb) (td_kind va)), (Bool.eqb (td_boundary va) (td_boundary nvb)),
           (Bool.eqb (td_namespace va) (td_namespace nvb)), (kind_eqb (td_kind va) KObject);
    destruct Hfed as [H|H]; rewrite H; try reflexivity; destruct (fed va); try reflexivity; destruct (fed nvb); reflexivity.
Qed.
Lemma conflict_kind_collision k va nvb : kind_eqb (td_kind nvb) (td_kind va) = false -> pair_conflict k va nvb = true.
Proof. intros H. unfold pair_conflict. rewrite H. reflexivity. Qed.
Lemma conflict_flags k va nvb :
  kind_eqb (td_kind nvb) KScalar = false ->
  (Bool.eqb (td_boundary va) (td_boundary nvb) = false \/ Bool.eqb (td_namespace va) (td_namespace nvb) = false) ->
  pair_conflict k va nvb = true.
Proof.
  intros Hs H. unfold pair_conflict. rewrite Hs.
  destruct (kind_eqb (td_kind nvb) (td_kind va)), (fed nvb), (fed va), (String.eqb k "Query" || String.eqb k "Mutation"), (kind_eqb (td_kind va) KObject);
    destruct H as [H|H]; rewrite H; try reflexivity;
    destruct (Bool.eqb (td_boundary va) (td_boundary nvb)); try reflexivity; destruct (Bool.eqb (td_namespace va) (td_namespace nvb)); reflexivity.
Qed.

(* overlapping field of a shared (boundary) type, other than the key *)
Lemma merge_boundary_overlap a b f :
  In f (mergeable_fields b) -> is_id_field f = false ->
  existsb (fun rf => String.eqb (fd_name rf) (fd_name f)) (own_fields a) = true ->
  is_ok (merge_boundary a b) = false.
Proof.
  intros Hin Hid Hex. unfold merge_boundary.
  assert (G : forall l fs, In f l -> existsb (fun rf => String.eqb (fd_name rf) (fd_name f)) fs = true ->
    is_ok (fold_left (fun r f0 =>
      do fs0 <- r ;;
      if is_id_field f0 then Ok fs0 else
      match find (fun rf => String.eqb (fd_name rf) (fd_name f0)) fs0 with
      | Some _ => Err ("overlapping fields " +++ td_name a +++ " : " +++ fd_name f0)
      | None => Ok (fs0 ++ [f0])
      end) l (Ok fs)) = false).
  { induction l as [|x t IH]; intros fs Hl Hfs; [destruct Hl|]. cbn [fold_left rbind].
    assert (Herr : forall l0 m, is_ok (fold_left (fun r f0 =>
      do fs0 <- r ;;
      if is_id_field f0 then Ok fs0 else
      match find (fun rf => String.eqb (fd_name rf) (fd_name f0)) fs0 with
      | Some _ => Err ("overlapping fields " +++ td_name a +++ " : " +++ fd_name f0)
      | None => Ok (fs0 ++ [f0])
      end) l0 (Err m)) = false).
    { induction l0; simpl; auto. }
    destruct Hl as [->|Hl].
    - rewrite Hid. destruct (find (fun rf => String.eqb (fd_name rf) (fd_name f)) fs) eqn:Ef; [apply Herr|].
      exfalso. apply existsb_exists in Hfs. destruct Hfs as [rf [Hrf Heq]].
      pose proof (find_none _ _ Ef rf Hrf) as Hn. simpl in Hn. rewrite Heq in Hn. discriminate.
    - destruct (is_id_field x); [apply IH; assumption|].
      destruct (find (fun rf => String.eqb (fd_name rf) (fd_name x)) fs); [apply Herr|].
      apply IH; [exact Hl|]. rewrite existsb_app, Hfs. reflexivity. }
  destruct (fold_left _ (mergeable_fields b) (Ok (own_fields a))) eqn:E; [|reflexivity].
  pose proof (G (mergeable_fields b) (own_fields a) Hin Hex) as HG. rewrite E in HG. discriminate.
Qed.

(* ---- C07: the fields of a merged shared type are exactly the union: nothing lost, nothing else ---- *)
Lemma merge_boundary_fields a b m :
  merge_boundary a b = Ok m ->
  td_fields m = own_fields a ++ filter (fun f => negb (is_id_field f)) (mergeable_fields b).
Proof.
  unfold merge_boundary.
  assert (G : forall l fs fs', fold_left (fun r f0 =>
      do fs0 <- r ;;
      if is_id_field f0 then Ok fs0 else
      match find (fun rf => String.eqb (fd_name rf) (fd_name f0)) fs0 with
      | Some _ => Err ("overlapping fields " +++ td_name a +++ " : " +++ fd_name f0)
      | None => Ok (fs0 ++ [f0])
      end) l (Ok fs) = Ok fs' -> fs' = fs ++ filter (fun f => negb (is_id_field f)) l).
  { induction l as [|x t IH]; intros fs fs' H; cbn [fold_left rbind] in H.
    - inversion H; subst. simpl. rewrite app_nil_r. reflexivity.
    - cbn [filter]. destruct (is_id_field x); cbn [negb].
      + apply IH. exact H.
      + destruct (find (fun rf => String.eqb (fd_name rf) (fd_name x)) fs).
        * exfalso. clear -H. induction t as [|y t IHt]; cbn [fold_left] in H; [discriminate | apply IHt; exact H].
        * rewrite (IH _ _ H). rewrite <- app_assoc. reflexivity. }
  destruct (fold_left _ (mergeable_fields b) (Ok (own_fields a))) as [fs'|] eqn:E; cbn [rbind]; [|discriminate].
  intros H; inversion H; subst; cbn [td_fields]. apply G. exact E.
Qed.

(* ---------- C07: the merged schema has exactly the types of the services (minus plumbing) ---------- *)
Definition skipped (n : string) : bool := starts_uu n || String.eqb n "Node" || String.eqb n "Service".
Definition dropped_first (n : string) : bool := String.eqb n "Node" || String.eqb n "Service".

Lemma find_type_name k s t : find_type k s = Some t -> td_name t = k /\ In t s.
Proof. unfold find_type. intros H. apply find_some in H. destruct H as [Hin He]. apply String.eqb_eq in He. auto. Qed.
Lemma find_type_none k s : find_type k s = None -> ~ In k (map td_name s).
Proof.
  unfold find_type. intros H Hin. apply in_map_iff in Hin. destruct Hin as [t [Ht Hin]].
  pose proof (find_none _ _ H t Hin) as Hn. simpl in Hn. rewrite Ht, String.eqb_refl in Hn. discriminate.
Qed.

Lemma replace_names m result : In (td_name m) (map td_name result) ->
  forall n, In n (map td_name (replace_type m result)) <-> In n (map td_name result).
Proof.
  induction result as [|x r IH]; intros Hin n; [destruct Hin|]. simpl.
  destruct (String.eqb (td_name x) (td_name m)) eqn:E.
  - apply String.eqb_eq in E. simpl. rewrite E. tauto.
  - simpl. destruct Hin as [Hin|Hin]; [rewrite Hin, String.eqb_refl in E; discriminate|]. rewrite (IH Hin n). tauto.
Qed.

Lemma step_names a b result vb result' : step a b (Ok result) vb = Ok result' ->
  forall n, In n (map td_name result') <-> In n (map td_name result) \/ (skipped (td_name vb) = false /\ n = td_name vb).
Proof.
  unfold step, skipped. cbn [rbind].
  destruct (starts_uu (td_name vb) || String.eqb (td_name vb) "Node" || String.eqb (td_name vb) "Service") eqn:Es.
  { intros H n. inversion H; subst. split; [tauto | intros [H1|[H1 _]]; [exact H1 | discriminate]]. }
  assert (Hcn : td_name (clean vb) = td_name vb) by reflexivity.
  destruct (find_type (td_name vb) result) as [va|] eqn:Ef.
  - destruct (find_type_name _ _ _ Ef) as [Hna Hina].
    assert (Hk : In (td_name vb) (map td_name result)) by (rewrite <- Hna; apply in_map; exact Hina).
    assert (Hrep : forall m, td_name m = td_name vb -> forall n,
               In n (map td_name (replace_type m result)) <-> In n (map td_name result) \/ (false = false /\ n = td_name vb)).
    { intros m Hm n. rewrite (replace_names m result); [|rewrite Hm; exact Hk]. split; [tauto | intros [H1|[_ H1]]; [exact H1 | subst; exact Hk]]. }
    destruct (negb (kind_eqb (td_kind (clean vb)) (td_kind va))); [discriminate|].
    destruct (td_kind (clean vb));
      try (intros H; inversion H; subst; apply Hrep; reflexivity);
      (destruct ((negb (fed (clean vb)) || negb (fed va)) && negb (String.eqb (td_name vb) "Query" || String.eqb (td_name vb) "Mutation")); [discriminate|];
       destruct (negb (Bool.eqb (td_boundary va) (td_boundary (clean vb))) || negb (Bool.eqb (td_namespace va) (td_namespace (clean vb)))); [discriminate|];
       destruct (negb (kind_eqb (td_kind va) KObject)); [discriminate|];
       destruct (td_namespace (clean vb) || is_root (td_name vb));
       [ destruct (merge_namespace a b (clean vb) va) as [m|] eqn:Em; simpl; [|discriminate];
         intros H; inversion H; subst; apply Hrep; rewrite (merge_namespace_name _ _ _ _ _ Em); reflexivity
       | destruct (merge_boundary (clean vb) va) as [m|] eqn:Em; simpl; [|discriminate];
         intros H; inversion H; subst; apply Hrep; rewrite (merge_boundary_name _ _ _ Em); reflexivity ]).
  - intros H n. inversion H; subst. rewrite map_app, in_app_iff. cbn [map In]. change (td_name (clean vb)) with (td_name vb).
    split; [intros [H1|[H1|[]]]; [left; exact H1 | right; split; [reflexivity | symmetry; exact H1]]
           | intros [H1|[_ H1]]; [left; exact H1 | right; left; symmetry; exact H1]].
Qed.

Lemma fold_names a b l : forall result r, fold_left (step a b) l (Ok result) = Ok r ->
  forall n, In n (map td_name r) <-> In n (map td_name result) \/ exists vb, In vb l /\ skipped (td_name vb) = false /\ n = td_name vb.
Proof.
  induction l as [|x t IH]; intros result r H n; cbn [fold_left] in H.
  - inversion H; subst. split; [tauto | intros [H1|[vb [[] _]]]; exact H1].
  - destruct (step a b (Ok result) x) as [r1|m] eqn:E; [|rewrite fold_err in H; discriminate].
    rewrite (IH _ _ H n). rewrite (step_names _ _ _ _ _ E n). split.
    + intros [[H1|[H1 H2]]|[vb [H1 H2]]]; [left; exact H1 | right; exists x; split; [left; reflexivity | auto] | right; exists vb; split; [right; exact H1 | exact H2]].
    + intros [H1|[vb [[H1|H1] H2]]]; [left; left; exact H1 | subst vb; left; right; exact H2 | right; exists vb; auto].
Qed.

Theorem merge_types_names a b r : merge_types a b = Ok r ->
  forall n, In n (map td_name r) <->
            (In n (map td_name a) /\ dropped_first n = false) \/ (exists vb, In vb b /\ skipped (td_name vb) = false /\ n = td_name vb).
Proof.
  rewrite merge_types_fold. intros H n. rewrite (fold_names a b b _ r H n).
  assert (Ha : In n (map td_name (map clean (filter (fun t => negb (String.eqb (td_name t) "Node" || String.eqb (td_name t) "Service")) a)))
               <-> In n (map td_name a) /\ dropped_first n = false).
  { rewrite map_map. unfold dropped_first. split.
    - intros Hin. apply in_map_iff in Hin. destruct Hin as [t [Ht Hin]]. apply filter_In in Hin. destruct Hin as [Hin Hf].
      simpl in Ht. subst n. split; [apply in_map; exact Hin | apply negb_true_iff; exact Hf].
    - intros [Hin Hd]. apply in_map_iff in Hin. destruct Hin as [t [Ht Hin]]. apply in_map_iff. exists t. split; [exact Ht|].
      apply filter_In. split; [exact Hin | rewrite Ht; apply negb_true_iff; exact Hd]. }
  rewrite Ha. tauto.
Qed.

Lemma skipped_dropped n : skipped n = false -> dropped_first n = false.
Proof. unfold skipped, dropped_first. destruct (starts_uu n); simpl; [discriminate | auto]. Qed.

Definition contributes (b : sschema) (n : string) : Prop := exists vb, In vb b /\ skipped (td_name vb) = false /\ n = td_name vb.

Lemma fold_merge_err l m : fold_left (fun r b => do a <- r ;; merge_types a b) l (Err m) = Err m.
Proof. induction l as [|x t IH]; simpl; auto. Qed.

Definition NoPl (acc : sschema) : Prop := forall n, In n (map td_name acc) -> dropped_first n = false.

Lemma merge_types_nopl a b r : merge_types a b = Ok r -> NoPl r.
Proof.
  intros H n Hn. apply (merge_types_names _ _ _ H) in Hn. destruct Hn as [[_ Hd]|[vb [_ [Hs Hn]]]]; [exact Hd | subst; apply skipped_dropped; exact Hs].
Qed.

Lemma fold_merge_names rest : forall acc r, NoPl acc ->
  fold_left (fun r b => do a <- r ;; merge_types a b) rest (Ok acc) = Ok r ->
  forall n, In n (map td_name r) <-> In n (map td_name acc) \/ exists b, In b rest /\ contributes b n.
Proof.
  induction rest as [|b t IH]; intros acc r Hnp H n; cbn [fold_left] in H.
  - inversion H; subst. split; [tauto | intros [Hn|[b [[] _]]]; exact Hn].
  - cbn [rbind] in H. destruct (merge_types acc b) as [acc'|m] eqn:E; [|rewrite fold_merge_err in H; discriminate].
    rewrite (IH _ _ (merge_types_nopl _ _ _ E) H n). pose proof (merge_types_names _ _ _ E n) as Hm. unfold contributes in *. split.
    + intros [Hn|[b' [Hb' Hc]]].
      * apply Hm in Hn. destruct Hn as [[Hn _]|Hn]; [left; exact Hn | right; exists b; split; [left; reflexivity | exact Hn]].
      * right. exists b'. split; [right; exact Hb' | exact Hc].
    + intros [Hn|[b' [[Hb'|Hb'] Hc]]].
      * left. apply Hm. left. split; [exact Hn | apply Hnp; exact Hn].
      * subst b'. left. apply Hm. right. exact Hc.
      * right. exists b'. auto.
Qed.

(* the n-ary merge (two or more services): a type is in the merged schema iff some service defines it and it is not
   plumbing; the first schema contributes everything but Node and Service, every later one everything but Node, Service and
   the "__" meta types *)
Theorem merge_schemas_names s b1 rest r : merge_schemas (s :: b1 :: rest) = Ok r ->
  forall n, In n (map td_name r) <->
            (In n (map td_name s) /\ dropped_first n = false) \/ exists b, In b (b1 :: rest) /\ contributes b n.
Proof.
  unfold merge_schemas. cbn [fold_left rbind]. intros H n.
  destruct (merge_types s b1) as [acc|m] eqn:E; [|rewrite fold_merge_err in H; discriminate].
  rewrite (fold_merge_names rest acc r (merge_types_nopl _ _ _ E) H n). pose proof (merge_types_names _ _ _ E n) as Hm.
  unfold contributes in *. split.
  - intros [Hn|[b [Hb Hc]]].
    + apply Hm in Hn. destruct Hn as [Hn|Hn]; [left; exact Hn | right; exists b1; split; [left; reflexivity | exact Hn]].
    + right. exists b. split; [right; exact Hb | exact Hc].
  - intros [Hn|[b [[Hb|Hb] Hc]]].
    + left. apply Hm. left. exact Hn.
    + subst b. left. apply Hm. right. exact Hc.
    + right. exists b. auto.
Qed.
