(* Proofs/MergeAttach.v — C01, "no field is taken from the wrong object or attached to the wrong list element", for the
   step that attaches lookup results (execution_result.go:71-109, Model/MergeRes.v boundary_apply): whatever the merge adds
   to an object comes from a result item with that object's type name and that object's id. *)
From V Require Import Base.Util Gql.Ast Model.MergeRes Proofs.MergeOrder.

Lemma writes_origin dt di s w : writes dt di s = Ok w -> forall k v, In (k, v) w ->
  exists r d, In (RMap r) s /\ str_key tn r = Some dt /\ di = Some d /\ str_key idk r = Some d /\ In (k, v) r.
Proof.
  revert w. induction s as [|it rest IH]; intros w H k v Hin; [inv H; destruct Hin|].
  cbn [writes] in H.
  assert (Hrest : forall w', writes dt di rest = Ok w' -> In (k, v) w' ->
            exists r d, In (RMap r) (it :: rest) /\ str_key tn r = Some dt /\ di = Some d /\ str_key idk r = Some d /\ In (k, v) r).
  { intros w' Hw' Hin'. destruct (IH w' Hw' k v Hin') as [r [d [A B]]]. exists r, d. split; [right; exact A|exact B]. }
  destruct it; try (eapply Hrest; eassumption).
  destruct (str_key tn m) as [st|] eqn:Et; [|discriminate].
  destruct (negb (String.eqb st dt)) eqn:En; [eapply Hrest; eassumption|].
  destruct di as [d|]; [|discriminate].
  destruct (str_key idk m) as [si|] eqn:Ei; [|discriminate].
  destruct (String.eqb d si) eqn:Ed; [|eapply Hrest; eassumption].
  apply rbind_ok in H. destruct H as [w' [Hw' E]]. inv E.
  apply in_app_or in Hin. destruct Hin as [Hin|Hin]; [|eapply Hrest; eassumption].
  apply filter_In in Hin. destruct Hin as [Hin _].
  apply negb_false_iff in En. apply String.eqb_eq in En. apply String.eqb_eq in Ed. subst.
  exists m, si. repeat split; try assumption. left. reflexivity.
Qed.

Theorem attached_by_type_and_id m s m' : boundary_apply m s = Ok m' -> forall k v, lookup k m' = Some v ->
  lookup k m = Some v \/
  exists r t i, In (RMap r) s /\ str_key tn r = Some t /\ str_key tn m = Some t /\ str_key idk r = Some i /\ str_key idk m = Some i /\ In (k, v) r.
Proof.
  intros H k v Hl. apply ba_spec in H. destruct H as [u [dt [w [Hu [Ht [Hw ->]]]]]].
  rewrite lookup_apply_writes in Hl. destruct (wlook k w) eqn:E; [|left; exact Hl].
  inv Hl. right. apply wlook_in in E.
  destruct (writes_origin _ _ _ _ Hw _ _ E) as [r [d [A [B [C [D F]]]]]].
  exists r, dt, d. repeat split; try assumption.
Qed.
