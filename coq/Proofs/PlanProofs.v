(* Proofs/PlanProofs.v — stage theorem S-plan / plan_sub: the planner invents nothing.
   Every field (alias, name) that occurs in any step of the plan, at any depth, is a field of the client's selection,
   or is plumbing under one of the two reserved helper aliases. For every schema, ownership table and selection. *)
From V Require Import Base.Util Gql.Ast Model.Plan.

Definition helper (a : string) : bool := String.eqb a "_bramble_id" || String.eqb a "_bramble__typename".
Fixpoint ufields (s : sel) : list (string * string) :=
  match s with
  | SField a n _ _ _ oss => (if helper a then [] else [(a, n)]) ++ match oss with None => [] | Some ss => flat_map ufields ss end
  | SInline _ _ _ ss => flat_map ufields ss
  | SSpread _ _ _ _ ss => flat_map ufields ss
  end.
Fixpoint sfields (st : step) : list (string * string) :=
  match st with Step _ _ _ ss _ th => flat_map ufields ss ++ flat_map sfields th end.
Definition ofields (o : outcome) : list (string * string) :=
  match o with Keep s ch => ufields s ++ flat_map sfields ch | Remote _ s ch => ufields s ++ flat_map sfields ch end.

Lemma plumbing_ufields c p pl : plumbing c p = Ok pl -> flat_map ufields pl = [].
Proof.
  unfold plumbing. destruct (kind_of (pc_schema c) p) as [k|]; [|discriminate].
  destruct (kind_abstract k).
  - intros H; inversion H; subst; clear H. rewrite flat_map_app. simpl.
    match goal with |- flat_map ufields (flat_map ?f ?l) ++ [] = [] => induction l as [|kv t IH] end; simpl; [reflexivity|].
    rewrite flat_map_app. destruct (field_ty (pc_schema c) (fst kv) "id"); simpl; rewrite ?app_nil_r in *; exact IH.
  - destruct (boundary c p).
    + destruct (field_ty (pc_schema c) p "id"); intros H; inversion H; reflexivity.
    + intros H; inversion H; reflexivity.
Qed.

Lemma merge_into_fields s acc x :
  In x (flat_map sfields (merge_into s acc)) -> In x (sfields s) \/ In x (flat_map sfields acc).
Proof.
  induction acc as [|a t IH]; simpl.
  - rewrite app_nil_r. auto.
  - destruct (String.eqb (step_key a) (step_key s)).
    + destruct a as [u n p ss ip th], s as [u' n' p' ss' ip' th']. simpl.
      rewrite !flat_map_app, !in_app_iff. tauto.
    + simpl. rewrite !in_app_iff. intros [H|H]; [tauto|]. apply IH in H. tauto.
Qed.

Lemma merge_steps_fields l x : In x (flat_map sfields (merge_steps l)) -> In x (flat_map sfields l).
Proof.
  unfold merge_steps. destruct l as [|a [|b t]]; auto.
  generalize (a :: b :: t) as l0. intros l0.
  assert (G : forall l acc, In x (flat_map sfields (fold_left (fun acc s => merge_into s acc) l acc)) ->
                             In x (flat_map sfields acc) \/ In x (flat_map sfields l)).
  { induction l as [|s l IH]; simpl; intros acc H; auto.
    apply IH in H. rewrite in_app_iff. destruct H as [H|H]; [|tauto].
    apply merge_into_fields in H. tauto. }
  intros H. apply G in H. simpl in H. tauto.
Qed.

Lemma add_group_fields o s g x :
  In x (flat_map (fun kv => flat_map ufields (snd kv)) (add_group o s g)) ->
  In x (ufields s) \/ In x (flat_map (fun kv => flat_map ufields (snd kv)) g).
Proof.
  induction g as [|[o' ss] t IH]; simpl.
  - rewrite !app_nil_r. tauto.
  - destruct (String.eqb o o'); simpl; rewrite ?flat_map_app, ?in_app_iff; simpl; rewrite ?app_nil_r, ?in_app_iff.
    + tauto.
    + intros [H|H]; [tauto|]. apply IH in H. tauto.
Qed.

Lemma owners_fields outs x :
  In x (flat_map (fun kv : string * list sel => flat_map ufields (snd kv))
          (fold_left (fun g o => match o with Remote ow s _ => add_group ow s g | Keep _ _ => g end) outs [])) ->
  In x (flat_map ofields outs).
Proof.
  assert (G : forall l g, In x (flat_map (fun kv : string * list sel => flat_map ufields (snd kv))
                (fold_left (fun g o => match o with Remote ow s _ => add_group ow s g | Keep _ _ => g end) l g)) ->
              In x (flat_map (fun kv : string * list sel => flat_map ufields (snd kv)) g) \/ In x (flat_map ofields l)).
  { induction l as [|o l IH]; simpl; intros g H; auto.
    apply IH in H. rewrite in_app_iff. destruct H as [H|H]; [|tauto].
    destruct o as [s0 c0|ow s0 c0]; simpl; rewrite in_app_iff; [tauto|].
    apply add_group_fields in H. tauto. }
  intros H. apply G in H. simpl in H. tauto.
Qed.

Lemma group_children_fields ow outs x :
  In x (flat_map sfields (flat_map (fun o => match o with
                                             | Remote ow' _ ch' => if String.eqb ow ow' then ch' else []
                                             | Keep _ _ => [] end) outs)) ->
  In x (flat_map ofields outs).
Proof.
  induction outs as [|o t IH]; cbn [flat_map]; [auto|].
  rewrite flat_map_app, !in_app_iff. intros [H|H]; [|right; apply IH; exact H].
  left. destruct o as [s0 c0|ow' s0 c0]; cbn [ofields]; [destruct H|].
  rewrite in_app_iff. right. destruct (String.eqb ow ow'); [exact H | destruct H].
Qed.

Lemma assemble_fields c ip parent outs r x :
  assemble c ip parent outs = Ok r ->
  In x (flat_map ufields (fst r) ++ flat_map sfields (snd r)) -> In x (flat_map ofields outs).
Proof.
  unfold assemble. destruct (plumbing c parent) as [pl|] eqn:Epl; simpl; [|discriminate].
  intros H; inversion H; subst; clear H. simpl.
  pose proof (plumbing_ufields _ _ _ Epl) as Hpl.
  rewrite flat_map_app, Hpl, app_nil_r, in_app_iff.
  intros [H|H].
  - (* kept *) induction outs as [|o t IH]; simpl in *; auto.
    rewrite flat_map_app, !in_app_iff in *. destruct o; simpl in *; rewrite ?app_nil_r, ?in_app_iff in *; tauto.
  - apply merge_steps_fields in H. rewrite flat_map_app, in_app_iff in H. destruct H as [H|H].
    + induction outs as [|o t IH]; simpl in *; auto.
      rewrite flat_map_app, !in_app_iff in *. destruct o; simpl in *; rewrite ?in_app_iff in *; tauto.
    + (* the new steps: one per owner *)
      rewrite flat_map_concat_map, map_map, <- flat_map_concat_map in H.
      apply in_flat_map in H. destruct H as [[ow gss] [Hin Hx]]. simpl in Hx.
      rewrite flat_map_app, Hpl, app_nil_r, in_app_iff in Hx. destruct Hx as [Hx|Hx].
      * apply owners_fields. apply in_flat_map. exists (ow, gss). split; [exact Hin | exact Hx].
      * apply merge_steps_fields in Hx. eapply group_children_fields; exact Hx.
Qed.

(* plan_sub, one frame *)
Theorem extract_sel_sub c s : forall ip parent loc o,
  extract_sel c s ip parent loc = Ok o -> incl (ofields o) (ufields s).
Proof.
  induction s as [a n args ds t|a n args ds t ss IH|tc ds e ss IH|f ds e tc ss IH] using sel_ind'; intros ip parent loc o H; simpl in H.
  - destruct (reserved_misuse a n); [discriminate|]. destruct (_ && _).
    + inversion H; subst. simpl. rewrite app_nil_r. apply incl_refl.
    + destruct (url_for c parent loc n) as [ow|]; [destruct (negb (String.eqb ow loc))|];
        inversion H; subst; simpl; rewrite app_nil_r; apply incl_refl.
  - destruct (reserved_misuse a n); [discriminate|]. destruct (_ && _).
    + inversion H; subst. simpl. rewrite app_nil_r. apply incl_refl.
    + set (l' := match url_for c parent loc n with Some o0 => _ | None => loc end) in *.
      match type of H with (do outs <- ?G ;; _) = _ => destruct G as [outs|] eqn:Es; simpl in H; [|discriminate] end.
      destruct (assemble c (ip ++ [a]) (ty_name t) outs) as [r|] eqn:Ea; simpl in H; [|discriminate].
      assert (Houts : incl (flat_map ofields outs) (flat_map ufields ss)).
      { clear -IH Es. revert outs Es. induction ss as [|s0 ss0 IHl]; intros outs Es.
        - inversion Es; subst. apply incl_refl.
        - destruct (extract_sel c s0 (ip ++ [a]) (ty_name t) l') as [o0|] eqn:E0; simpl in Es; [|discriminate].
          match type of Es with (do os <- ?G ;; _) = _ => destruct G as [os|] eqn:Eos; simpl in Es; [|discriminate] end.
          inversion Es; subst; clear Es. inversion IH as [|? ? Hs0 HF']; subst.
          simpl. apply incl_app; [apply incl_appl; eapply Hs0; eauto | apply incl_appr; apply IHl; auto]. }
      assert (Hsub : incl (flat_map ufields (fst r) ++ flat_map sfields (snd r)) (flat_map ufields ss)).
      { intros x Hx. apply Houts. eapply assemble_fields; eauto. }
      assert (Hgoal : incl ((if helper a then [] else [(a, n)]) ++ flat_map ufields (fst r) ++ flat_map sfields (snd r))
                           ((if helper a then [] else [(a, n)]) ++ flat_map ufields ss)).
      { apply incl_app; [apply incl_appl, incl_refl | apply incl_appr, Hsub]. }
      destruct (match url_for c parent loc n with Some o0 => negb (String.eqb o0 loc) | None => false end);
        inversion H; subst; simpl; rewrite <- app_assoc; exact Hgoal.
  - match type of H with (do outs <- ?G ;; _) = _ => destruct G as [outs|] eqn:Es; simpl in H; [|discriminate] end.
    destruct (assemble c ip tc outs) as [r|] eqn:Ea; simpl in H; [|discriminate].
    inversion H; subst; simpl. intros x Hx. eapply assemble_fields in Hx; eauto.
    clear -IH Es Hx. revert outs Es Hx. induction ss as [|s0 ss0 IHl]; intros outs Es Hx.
    + inversion Es; subst. exact Hx.
    + destruct (extract_sel c s0 ip tc loc) as [o0|] eqn:E0; simpl in Es; [|discriminate].
      match type of Es with (do os <- ?G ;; _) = _ => destruct G as [os|] eqn:Eos; simpl in Es; [|discriminate] end.
      inversion Es; subst; clear Es. inversion IH as [|? ? Hs0 HF']; subst.
      simpl in *. rewrite in_app_iff in *. destruct Hx as [Hx|Hx]; [left; eapply Hs0; eauto | right; eapply IHl; eauto].
  - match type of H with (do outs <- ?G ;; _) = _ => destruct G as [outs|] eqn:Es; simpl in H; [|discriminate] end.
    destruct (assemble c ip tc outs) as [r|] eqn:Ea; simpl in H; [|discriminate].
    inversion H; subst; simpl. intros x Hx. eapply assemble_fields in Hx; eauto.
    clear -IH Es Hx. revert outs Es Hx. induction ss as [|s0 ss0 IHl]; intros outs Es Hx.
    + inversion Es; subst. exact Hx.
    + destruct (extract_sel c s0 ip tc loc) as [o0|] eqn:E0; simpl in Es; [|discriminate].
      match type of Es with (do os <- ?G ;; _) = _ => destruct G as [os|] eqn:Eos; simpl in Es; [|discriminate] end.
      inversion Es; subst; clear Es. inversion IH as [|? ? Hs0 HF']; subst.
      simpl in *. rewrite in_app_iff in *. destruct Hx as [Hx|Hx]; [left; eapply Hs0; eauto | right; eapply IHl; eauto].
Qed.

Lemma filter_loc_sub c s : forall loc parent, incl (flat_map ufields (filter_loc c s loc parent)) (ufields s).
Proof.
  induction s as [a n args ds t|a n args ds t ss IH|tc ds e ss IH|f ds e tc ss IH] using sel_ind'; intros loc parent; cbn [filter_loc].
  - destruct (url_for c parent "" n) as [fl|]; [|apply incl_nil_l].
    destruct (String.eqb fl loc); [cbn; rewrite app_nil_r; apply incl_refl|].
    destruct (_ && _); [cbn; rewrite app_nil_r; apply incl_refl | apply incl_nil_l].
  - assert (Hsub : forall p, incl (flat_map ufields (flat_map (fun x => filter_loc c x loc p) ss)) (flat_map ufields ss)).
    { intros p. clear -IH. induction ss as [|s0 ss0 IHl]; cbn [flat_map]; [apply incl_refl|].
      inversion IH as [|? ? H0 HF]; subst. rewrite flat_map_app.
      apply incl_app; [apply incl_appl, H0 | apply incl_appr, IHl, HF]. }
    destruct (url_for c parent "" n) as [fl|].
    + destruct (String.eqb fl loc); [cbn [flat_map]; rewrite app_nil_r; apply incl_refl|].
      destruct (_ && _); [cbn [flat_map]; rewrite app_nil_r; apply incl_refl | apply incl_nil_l].
    + specialize (Hsub (ty_name t)).
      destruct (flat_map (fun x => filter_loc c x loc (ty_name t)) ss) as [|s1 sub] eqn:E; [apply incl_nil_l|].
      cbn [flat_map ufields]. rewrite app_nil_r. apply incl_app; [apply incl_appl, incl_refl|].
      apply incl_appr. exact Hsub.
  - clear -IH. induction ss as [|s0 ss0 IHl]; cbn [flat_map ufields]; [apply incl_refl|].
    inversion IH as [|? ? H0 HF]; subst. rewrite flat_map_app.
    apply incl_app; [apply incl_appl, H0 | apply incl_appr, IHl, HF].
  - clear -IH. induction ss as [|s0 ss0 IHl]; cbn [flat_map ufields]; [apply incl_refl|].
    inversion IH as [|? ? H0 HF]; subst. rewrite flat_map_app.
    apply incl_app; [apply incl_appl, H0 | apply incl_appr, IHl, HF].
Qed.

Lemma extract_list_sub c fs ip parent loc r :
  extract_list c fs ip parent loc = Ok r ->
  incl (flat_map ufields (fst r) ++ flat_map sfields (snd r)) (flat_map ufields fs).
Proof.
  unfold extract_list.
  destruct (all_res (fun x => extract_sel c x ip parent loc) fs) as [outs|] eqn:Es; simpl; [|discriminate].
  intros Ha x Hx. eapply assemble_fields in Hx; eauto.
  clear Ha. revert outs Es Hx. induction fs as [|s0 fs0 IHl]; intros outs Es Hx; simpl in Es.
  - inversion Es; subst. exact Hx.
  - destruct (extract_sel c s0 ip parent loc) as [o0|] eqn:E0; [|discriminate].
    destruct (all_res _ fs0) as [os|] eqn:Eos; [|discriminate].
    inversion Es; subst; clear Es. cbn [flat_map] in *. rewrite in_app_iff in *.
    destruct Hx as [Hx|Hx]; [left; eapply extract_sel_sub; eauto | right; eapply IHl; eauto].
Qed.

Lemma seq_res_in {A} (l : list (res A)) r : seq_res l = Ok r -> forall y, In y r -> In (Ok y) l.
Proof.
  revert r; induction l as [|x t IH]; simpl; intros r H y Hy.
  - inversion H; subst. destruct Hy.
  - destruct x as [a|m]; [|discriminate]. destruct (seq_res t) eqn:E; [|discriminate].
    inversion H; subst. destruct Hy as [->|Hy]; [left; reflexivity | right; eapply IH; eauto].
Qed.

(* plan_sub: the whole plan *)
Theorem plan_sub c root ss steps :
  plan c root ss = Ok steps -> incl (flat_map sfields steps) (flat_map ufields ss).
Proof.
  unfold plan. intros H x Hx. apply in_flat_map in Hx. destruct Hx as [st [Hst Hx]].
  pose proof (seq_res_in _ _ H st Hst) as Hin. apply in_flat_map in Hin. destruct Hin as [loc [_ Hloc]].
  destruct (flat_map (fun x0 => filter_loc c x0 loc root) ss) as [|f0 fs0] eqn:Ef; [destruct Hloc|].
  destruct Hloc as [Hloc|[]].
  destruct (extract_list c (f0 :: fs0) [] root loc) as [r|] eqn:Er; simpl in Hloc; [|discriminate].
  inversion Hloc; subst; clear Hloc. cbn [sfields] in Hx.
  apply (extract_list_sub _ _ _ _ _ _ Er) in Hx. rewrite <- Ef in Hx.
  clear -Hx. induction ss as [|s0 ss0 IHl]; cbn [flat_map] in *; [exact Hx|].
  rewrite flat_map_app, in_app_iff in Hx. rewrite in_app_iff. destruct Hx as [Hx|Hx]; [left; eapply filter_loc_sub; eauto | right; auto].
Qed.

(* ---- root routing (plan.go:297-317, 353-375): a root field with an owner goes to exactly one service ---- *)
Lemma filter_loc_owned c al n args ds t oss loc parent o :
  url_for c parent "" n = Some o -> String.eqb n "__typename" = false ->
  filter_loc c (SField al n args ds t oss) loc parent = if String.eqb o loc then [SField al n args ds t oss] else [].
Proof.
  intros Hu Hn. destruct oss; cbn [filter_loc]; rewrite Hu, Hn, andb_false_r; reflexivity.
Qed.

Theorem root_field_once c al n args ds t oss parent o (locs : list string) :
  url_for c parent "" n = Some o -> String.eqb n "__typename" = false -> NoDup locs -> In o locs ->
  flat_map (fun loc => filter_loc c (SField al n args ds t oss) loc parent) locs = [SField al n args ds t oss].
Proof.
  intros Hu Hn HN Hin. induction locs as [|l t0 IH]; [destruct Hin|].
  cbn [flat_map]. rewrite (filter_loc_owned _ _ _ _ _ _ _ _ _ _ Hu Hn). inversion HN as [|? ? Hnin HN']; subst.
  destruct (String.eqb o l) eqn:E.
  - apply String.eqb_eq in E; subst l. cbn [app]. f_equal.
    clear -Hu Hn Hnin. induction t0 as [|l2 t2 IH2]; [reflexivity|]. cbn [flat_map].
    rewrite (filter_loc_owned _ _ _ _ _ _ _ _ _ _ Hu Hn).
    destruct (String.eqb o l2) eqn:E2; [apply String.eqb_eq in E2; subst; exfalso; apply Hnin; left; reflexivity|].
    cbn [app]. apply IH2. intros H. apply Hnin. right. exact H.
  - cbn [app]. apply IH; [exact HN'|]. destruct Hin as [->|Hin]; [rewrite String.eqb_refl in E; discriminate | exact Hin].
Qed.
