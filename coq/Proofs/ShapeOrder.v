(* Proofs/ShapeOrder.v — C06: the null-propagation pass and the response writer (Model/Shape.v) read the merged tree only
   through map lookups, so equal Go values ([req], Proofs/MergeOrder.v) give the same errors and the same response. *)
From V Require Import Base.Util Gql.Ast Gql.RefExec Model.MergeRes Model.Shape Proofs.MergeOrder.
From Coq Require Import Permutation.

Inductive bres_rel : bres -> bres -> Prop :=
| br_err e : bres_rel (BErr e) (BErr e)
| br_ok v v' ss errs up : req v v' -> bres_rel (BOk v ss errs up) (BOk v' ss errs up).
Lemma bres_rel_refl b : bres_rel b b.
Proof. destruct b; constructor. apply req_refl. Qed.

Lemma typename_of_mrel m m' : mrel m m' -> typename_of m = typename_of m'.
Proof.
  intros H. unfold typename_of. specialize (H "_bramble__typename"). inv H; [reflexivity|].
  match goal with HR : req _ _ |- _ => inv HR; reflexivity end.
Qed.
Lemma set_key_mrel k v v' m m' : req v v' -> mrel m m' -> mrel (set_key k v m) (set_key k v' m').
Proof. intros Hv Hm k'. rewrite !lookup_set_key. destruct (String.eqb k' k); [constructor; assumption|apply Hm]. Qed.
Lemma Forall2_rev_req a a' : Forall2 req a a' -> Forall2 req (rev a) (rev a').
Proof. induction 1; cbn; [constructor|]. apply Forall2_app; [assumption|constructor; [assumption|constructor]]. Qed.

Ltac split_rel HR :=
  match type of HR with bres_rel ?b1 ?b2 =>
    let B1 := fresh "B" in let B2 := fresh "B" in let E1 := fresh "EB" in let E2 := fresh "EB" in
    remember b1 as B1 eqn:E1; remember b2 as B2 eqn:E2; clear E1 E2; inversion HR; subst; clear HR end.

Theorem bubble_congr : forall fuel c cur ss v v' path, req v v' ->
  bres_rel (bubble fuel c cur ss v path) (bubble fuel c cur ss v' path).
Proof.
  induction fuel as [|fuel IH]; intros c cur ss v v' path Hq; [constructor|].
  pose proof Hq as Hq0. inv Hq.
  - apply bres_rel_refl.
  - apply bres_rel_refl.
  - apply bres_rel_refl.
  - apply bres_rel_refl.
  - (* lists *)
    cbn [bubble].
    match goal with |- bres_rel (?E l1 ?i0 ?s0 ?a0 ?e0 ?u0) (_ l2 _ _ _ _ _) =>
      cut (forall la lb i s a a' e u, Forall2 req la lb -> Forall2 req a a' -> bres_rel (E la i s a e u) (E lb i s a' e u));
      [intros HE; apply HE; [assumption|constructor]|] end.
    intros la lb i s a a' e u HF. revert i s a a' e u.
    induction HF as [|x y ta tb Hxy HF IHF]; intros i s a a' e u Ha.
    + constructor. constructor. apply Forall2_rev_req. assumption.
    + pose proof Hxy as Hxy'. inv Hxy; simpl;
      (match goal with |- context [bubble fuel c ?cu s ?xx (path ++ [PIdx i])] =>
         pose proof (IH c cu s xx _ (path ++ [PIdx i]) Hxy') as HR end);
      split_rel HR; try constructor;
      (match goal with |- bres_rel (if ?upv then _ else _) _ =>
          destruct upv; [|apply IHF; constructor; assumption];
          match goal with |- context [if ?b then _ else _] => destruct b end; apply IHF; constructor; try assumption; constructor end).
  - (* objects *)
    match goal with HM : forall k, orel req _ _ |- _ => rename HM into Hm end.
    cbn [bubble]. rewrite (typename_of_mrel m1 m2 Hm).
    match goal with |- bres_rel (?W ?td0 ?dn0 m1 ?er0 ?u0) (_ _ _ m2 _ _) =>
      cut (forall td dn ma mb er u, mrel ma mb -> bres_rel (W td dn ma er u) (W td dn mb er u)); [intros HW; apply HW; exact Hm|] end.
    induction td as [|[x inview] rest IHtd]; intros dn ma mb er u Hab.
    + simpl. constructor. constructor. exact Hab.
    + destruct x as [al n ar ds t oss | tc ds e0 body | f ds e0 tc body]; (destruct inview; [|simpl; apply IHtd; assumption]).
      * simpl. destruct (starts_uu n); [apply IHtd; assumption|].
        pose proof (Hab al) as Hal.
        destruct (lookup al ma) as [ca|] eqn:Ea; destruct (lookup al mb) as [cb|] eqn:Eb; inv Hal.
        -- match goal with HQ : req ca cb |- _ => pose proof HQ as HQ'; inv HQ end;
           try (destruct (ty_nn t); apply IHtd; assumption);
           (destruct oss as [css|]; [|apply IHtd; assumption]);
           (match goal with |- context [bubble fuel c (Some t) css ?xx (path ++ [PName al])] =>
              pose proof (IH c (Some t) css xx _ (path ++ [PName al]) HQ') as HR end);
           split_rel HR; try constructor;
           (match goal with |- bres_rel (if ?upv then _ else _) _ => destruct upv end;
            [destruct (ty_nn t)|]; apply IHtd; apply set_key_mrel; try assumption; constructor).
        -- destruct (ty_nn t); apply IHtd; assumption.
      * simpl. pose proof (IH c None body (RMap ma) (RMap mb) path (Q_map _ _ Hab)) as HR.
        split_rel HR; [constructor|]. apply IHtd.
        match goal with HQ : req ?va ?vb |- _ => inv HQ; try assumption end.
      * simpl. pose proof (IH c None body (RMap ma) (RMap mb) path (Q_map _ _ Hab)) as HR.
        split_rel HR; [constructor|]. apply IHtd.
        match goal with HQ : req ?va ?vb |- _ => inv HQ; try assumption end.
Qed.

(* ---------- json.Marshal of a Go map: keys in byte order, so equal maps give equal bytes ---------- *)
From Coq Require Import OrderedTypeEx.
Lemma ltb_lt a b : String.ltb a b = true <-> String_as_OT.lt a b.
Proof.
  unfold String.ltb. rewrite <- String_as_OT.cmp_lt. unfold String_as_OT.cmp.
  destruct (String.compare a b); split; intros H; congruence.
Qed.
Lemma ltb_irrefl a : String.ltb a a = false.
Proof. destruct (String.ltb a a) eqn:E; [|reflexivity]. apply ltb_lt in E. exfalso. eapply String_as_OT.lt_not_eq; [exact E|reflexivity]. Qed.
Lemma ltb_trans a b c : String.ltb a b = true -> String.ltb b c = true -> String.ltb a c = true.
Proof. rewrite !ltb_lt. apply String_as_OT.lt_trans. Qed.
Lemma ltb_total a b : a <> b -> String.ltb a b = false -> String.ltb b a = true.
Proof.
  intros Hne H. unfold String.ltb in *. pose proof (String_as_OT.cmp_antisym a b) as Ha. unfold String_as_OT.cmp in Ha.
  destruct (String.compare a b) eqn:E.
  - exfalso. apply Hne. apply String_as_OT.cmp_eq. exact E.
  - discriminate.
  - destruct (String.compare b a); cbn in Ha; try discriminate. reflexivity.
Qed.

Section Sorted.
  Context {A : Type}.
  Fixpoint ssorted (l : list (string * A)) : Prop :=
    match l with [] => True | kv :: t => (forall k', In k' (map fst t) -> String.ltb (fst kv) k' = true) /\ ssorted t end.
  Lemma insert_keys k (v : A) l x : In x (map fst (insert_sorted k v l)) -> x = k \/ In x (map fst l).
  Proof.
    induction l as [|[k' v'] t IH]; cbn; [intuition|].
    destruct (String.eqb k k') eqn:E; [cbn; apply String.eqb_eq in E; subst; intuition|].
    destruct (String.ltb k k'); cbn; [intuition|]. intros [H|H]; [intuition|]. destruct (IH H); intuition.
  Qed.
  Lemma insert_ssorted k (v : A) l : ssorted l -> ssorted (insert_sorted k v l).
  Proof.
    induction l as [|[k' v'] t IH]; cbn; intros Hs; [split; [intros ? []|exact I]|].
    destruct Hs as [Hh Ht].
    destruct (String.eqb k k') eqn:E.
    - apply String.eqb_eq in E. subst. cbn. split; assumption.
    - destruct (String.ltb k k') eqn:El.
      + cbn. split; [|split; assumption]. intros x [<-|Hx]; [assumption|]. eapply ltb_trans; [exact El|apply Hh; assumption].
      + cbn. split; [|apply IH; assumption]. intros x Hx. apply insert_keys in Hx. destruct Hx as [->|Hx]; [|apply Hh; assumption].
        apply ltb_total; [|assumption]. apply String.eqb_neq. assumption.
  Qed.
  Lemma lookup_insert k (v : A) l x : lookup x (insert_sorted k v l) = if String.eqb x k then Some v else lookup x l.
  Proof.
    induction l as [|[k' v'] t IH]; cbn; [reflexivity|].
    destruct (String.eqb k k') eqn:E.
    - apply String.eqb_eq in E. subst. cbn. destruct (String.eqb x k'); reflexivity.
    - destruct (String.ltb k k'); cbn; [reflexivity|]. rewrite IH.
      destruct (String.eqb x k') eqn:E1; [|reflexivity].
      apply String.eqb_eq in E1. subst. rewrite eqb_sym_s, E. reflexivity.
  Qed.
  Definition ins (acc : list (string * A)) (kv : string * A) := insert_sorted (fst kv) (snd kv) acc.
  Lemma fold_ins_ssorted l : forall acc, ssorted acc -> ssorted (fold_left ins l acc).
  Proof. induction l as [|kv t IH]; intros acc Hs; [assumption|]. cbn. apply IH. apply insert_ssorted. assumption. Qed.
  Lemma lookup_none_keys x (l : list (string * A)) : ~ In x (map fst l) -> lookup x l = None.
  Proof.
    induction l as [|[k v] t IH]; cbn; intros H; [reflexivity|].
    destruct (String.eqb x k) eqn:E; [apply String.eqb_eq in E; subst; tauto|]. apply IH. tauto.
  Qed.
  Lemma lookup_fold_ins x l : NoDup (map fst l) -> forall acc, (forall k, In k (map fst l) -> lookup k acc = None) ->
    lookup x (fold_left ins l acc) = match lookup x l with Some v => Some v | None => lookup x acc end.
  Proof.
    induction l as [|[k v] t IH]; intros Hnd acc Hacc; [reflexivity|].
    cbn in Hnd. inv Hnd. cbn [fold_left]. unfold ins at 2. cbn [fst snd].
    rewrite IH; [| assumption |].
    - cbn [lookup]. rewrite lookup_insert. destruct (String.eqb x k) eqn:E.
      + apply String.eqb_eq in E. subst. rewrite lookup_none_keys by assumption. reflexivity.
      + reflexivity.
    - intros k0 Hk0. rewrite lookup_insert. destruct (String.eqb k0 k) eqn:E.
      + apply String.eqb_eq in E. subst. contradiction.
      + apply Hacc. right. assumption.
  Qed.
  Lemma lookup_sort_keys x (l : list (string * A)) : NoDup (map fst l) -> lookup x (sort_keys l) = lookup x l.
  Proof. intros H. unfold sort_keys. change (lookup x (fold_left ins l []) = lookup x l). rewrite lookup_fold_ins; [destruct (lookup x l); reflexivity|assumption|reflexivity]. Qed.
  Lemma sort_keys_ssorted (l : list (string * A)) : ssorted (sort_keys l).
  Proof. apply (fold_ins_ssorted l []). exact I. Qed.

  Lemma ssorted_unique (l1 l2 : list (string * A)) : ssorted l1 -> ssorted l2 -> (forall k, lookup k l1 = lookup k l2) -> l1 = l2.
  Proof.
    revert l2. induction l1 as [|[k1 v1] t1 IH]; intros [|[k2 v2] t2] H1 H2 Hl.
    - reflexivity.
    - specialize (Hl k2). cbn in Hl. rewrite String.eqb_refl in Hl. discriminate.
    - specialize (Hl k1). cbn in Hl. rewrite String.eqb_refl in Hl. discriminate.
    - destruct H1 as [Hh1 Ht1]. destruct H2 as [Hh2 Ht2]. cbn [fst] in *.
      assert (Hn1 : ~ In k1 (map fst t1)) by (intros Hin; specialize (Hh1 _ Hin); rewrite ltb_irrefl in Hh1; discriminate).
      assert (Hn2 : ~ In k2 (map fst t2)) by (intros Hin; specialize (Hh2 _ Hin); rewrite ltb_irrefl in Hh2; discriminate).
      destruct (String.eqb k1 k2) eqn:E.
      + apply String.eqb_eq in E. subst k2.
        pose proof (Hl k1) as Hk. cbn in Hk. rewrite String.eqb_refl in Hk. inv Hk.
        f_equal. apply IH; try assumption. intros k. specialize (Hl k). cbn in Hl.
        destruct (String.eqb k k1) eqn:Ek; [|assumption].
        apply String.eqb_eq in Ek. subst. rewrite !lookup_none_keys by assumption. reflexivity.
      + exfalso. apply String.eqb_neq in E.
        assert (Hcase : String.ltb k1 k2 = true \/ String.ltb k2 k1 = true).
        { destruct (String.ltb k1 k2) eqn:El; [left; reflexivity|right; apply ltb_total; [congruence|assumption]]. }
        destruct Hcase as [Hlt|Hlt].
        * pose proof (Hl k1) as Hk. cbn in Hk. rewrite String.eqb_refl in Hk.
          assert (E12 : String.eqb k1 k2 = false) by (apply String.eqb_neq; assumption). rewrite E12 in Hk.
          rewrite lookup_none_keys in Hk; [discriminate|]. intros Hin. specialize (Hh2 _ Hin).
          pose proof (ltb_trans _ _ _ Hlt Hh2) as Hc. rewrite ltb_irrefl in Hc. discriminate.
        * pose proof (Hl k2) as Hk. cbn in Hk. rewrite String.eqb_refl in Hk.
          assert (E21 : String.eqb k2 k1 = false) by (apply String.eqb_neq; congruence). rewrite E21 in Hk.
          rewrite lookup_none_keys in Hk; [discriminate|]. intros Hin. specialize (Hh1 _ Hin).
          pose proof (ltb_trans _ _ _ Hlt Hh1) as Hc. rewrite ltb_irrefl in Hc. discriminate.
  Qed.
End Sorted.

(* ---------- decoded trees are Go values: every map has each key once ---------- *)
Fixpoint wf (r : raw) : Prop :=
  match r with
  | RArr l => (fix go (l : list raw) : Prop := match l with [] => True | x :: t => wf x /\ go t end) l
  | RMap m => NoDup (map fst m) /\ (fix go (m : list (string * raw)) : Prop := match m with [] => True | kv :: t => wf (snd kv) /\ go t end) m
  | _ => True
  end.
Lemma wf_arr l : wf (RArr l) <-> Forall wf l.
Proof. induction l as [|x t IH]; cbn; [split; [constructor|trivial]|]. split; [intros [H1 H2]; constructor; [exact H1|apply IH; exact H2]|intros H; inv H; split; [assumption|apply IH; assumption]]. Qed.
Lemma wf_map m : wf (RMap m) <-> NoDup (map fst m) /\ Forall (fun kv => wf (snd kv)) m.
Proof.
  cbn. split; intros [Hn H]; (split; [exact Hn|]).
  - induction m as [|kv t IH]; [constructor|]. destruct H as [H1 H2]. constructor; [exact H1|]. apply IH; [inv Hn; assumption|exact H2].
  - induction m as [|kv t IH]; [exact I|]. inv H. split; [assumption|]. apply IH; [inv Hn; assumption|assumption].
Qed.
Lemma lookup_map_val {A B} (f : A -> B) k (m : list (string * A)) :
  lookup k (map (fun kv => (fst kv, f (snd kv))) m) = option_map f (lookup k m).
Proof. induction m as [|[k' v] t IH]; cbn; [reflexivity|]. destruct (String.eqb k k'); [reflexivity|exact IH]. Qed.
Lemma map_fst_val {A B} (f : A -> B) (m : list (string * A)) : map fst (map (fun kv => (fst kv, f (snd kv))) m) = map fst m.
Proof. induction m as [|[k v] t IH]; cbn; [reflexivity|]. rewrite IH. reflexivity. Qed.

Lemma raw_json_req : forall a b, wf a -> wf b -> req a b -> raw_json a = raw_json b.
Proof.
  induction a using raw_ind2; intros b' Ha Hb Hq; inv Hq; try reflexivity.
  - cbn [raw_json]. f_equal. apply wf_arr in Ha. apply wf_arr in Hb.
    match goal with HF : Forall2 req l ?l2 |- _ => revert l2 HF Hb end.
    induction H as [|x t Hx Ht IHt]; intros l2 HF Hb; inv HF; [reflexivity|]. inv Ha. inv Hb. cbn. f_equal; [apply Hx; assumption|apply IHt; assumption].
  - match goal with HM : forall k, orel req (lookup k m) (lookup k ?m2) |- _ => rename HM into Hm; rename m2 into mb end.
    cbn [raw_json]. f_equal. apply wf_map in Ha. apply wf_map in Hb. destruct Ha as [Hna Hfa]. destruct Hb as [Hnb Hfb].
    apply ssorted_unique; try apply sort_keys_ssorted.
    intros k. rewrite !lookup_sort_keys by (rewrite map_fst_val; assumption). rewrite !lookup_map_val.
    specialize (Hm k). destruct (lookup k m) as [va|] eqn:Ea; destruct (lookup k mb) as [vb|] eqn:Eb; inv Hm; [|reflexivity].
    cbn. f_equal.
    apply (lookup_in_snd (fun v => forall b, wf v -> wf b -> req v b -> raw_json v = raw_json b) _ _ _ H Ea); try assumption.
    + apply (lookup_in_snd wf _ _ _ Hfa Ea).
    + apply (lookup_in_snd wf _ _ _ Hfb Eb).
Qed.

Theorem respond_congr : forall fuel c ss v v' inside, wf v -> wf v' -> req v v' ->
  respond fuel c ss v inside = respond fuel c ss v' inside.
Proof.
  induction fuel as [|fuel IH]; intros c ss v v' inside Hw Hw' Hq; [reflexivity|].
  inv Hq; try reflexivity.
  - cbn [respond]. apply wf_arr in Hw. apply wf_arr in Hw'.
    match goal with |- context [fold_left ?F l1 ?st0] =>
      assert (HE : forall st, fold_left F l1 st = fold_left F l2 st); [|rewrite HE; reflexivity] end.
    match goal with HF : Forall2 req l1 l2 |- _ => induction HF as [|x y ta tb Hxy HF IHF] end; intros st; [reflexivity|].
    inv Hw. inv Hw'. cbn [fold_left]. rewrite (IH c (snd st) x y false) by assumption. apply IHF; assumption.
  - match goal with HM : forall k, orel req _ _ |- _ => rename HM into Hm end.
    destruct m1 as [|p1 t1], m2 as [|p2 t2].
    + reflexivity.
    + exfalso. destruct p2 as [k2 v2]. specialize (Hm k2). cbn in Hm. rewrite String.eqb_refl in Hm. inv Hm.
    + exfalso. destruct p1 as [k1 v1]. specialize (Hm k1). cbn in Hm. rewrite String.eqb_refl in Hm. inv Hm.
    + cbn [respond]. set (ma := p1 :: t1) in *. set (mb := p2 :: t2) in *. clearbody ma mb.
      rewrite (typename_of_mrel ma mb Hm).
      apply wf_map in Hw. apply wf_map in Hw'. destruct Hw as [Hna Hfa]. destruct Hw' as [Hnb Hfb].
      match goal with |- context [?W1 (union_trim c ?tn ss) (@nil sel) (@nil (string * json))] =>
        match goal with |- _ = ?rhs => match rhs with context [?W2 (union_trim c tn ss) (@nil sel) (@nil (string * json))] =>
          assert (HW : forall td dn me, W1 td dn me = W2 td dn me); [|rewrite HW; reflexivity] end end end.
      induction td as [|[x b] rest IHtd]; intros dn me; [reflexivity|].
      destruct x as [al n ar ds t oss | tc ds e0 body | f ds e0 tc body]; destruct b; simpl; try apply IHtd.
      * pose proof (Hm al) as Hal.
        destruct (lookup al ma) as [ca|] eqn:Ea; destruct (lookup al mb) as [cb|] eqn:Eb; inv Hal; [|apply IHtd].
        pose proof (lookup_in_snd wf _ _ _ Hfa Ea) as Hwa. pose proof (lookup_in_snd wf _ _ _ Hfb Eb) as Hwb.
        destruct oss as [[|s0 css]|].
        -- rewrite (raw_json_req ca cb) by assumption. apply IHtd.
        -- rewrite (IH c (s0 :: css) ca cb false) by assumption. destruct (respond fuel c (s0 :: css) cb false). apply IHtd.
        -- rewrite (raw_json_req ca cb) by assumption. apply IHtd.
      * rewrite (IH c body (RMap ma) (RMap mb) true) by (try (apply wf_map; split; assumption); constructor; assumption).
        destruct (respond fuel c body (RMap mb) true). apply IHtd.
      * rewrite (IH c body (RMap ma) (RMap mb) true) by (try (apply wf_map; split; assumption); constructor; assumption).
        destruct (respond fuel c body (RMap mb) true). apply IHtd.
Qed.

(* ---------- merging and the null pass keep trees well formed ---------- *)
Lemma upsert_keys_in {A} k (f : option A -> A) m x : In x (map fst (upsert k f m)) -> x = k \/ In x (map fst m).
Proof.
  induction m as [|[k0 v0] t IH]; cbn; [intuition|].
  destruct (String.eqb k k0) eqn:E; cbn; [intuition|]. intros [H|H]; [intuition|]. destruct (IH H); intuition.
Qed.
Lemma set_key_nodup {A} k (v : A) m : NoDup (map fst m) -> NoDup (map fst (set_key k v m)).
Proof.
  unfold set_key. induction m as [|[k0 v0] t IH]; cbn; intros H; [repeat constructor; intros []|].
  inv H. destruct (String.eqb k k0) eqn:E; cbn; [constructor; assumption|].
  constructor; [|apply IH; assumption]. intros Hin. apply upsert_keys_in in Hin. destruct Hin as [->|Hin]; [|contradiction].
  rewrite String.eqb_refl in E. discriminate.
Qed.
Lemma set_key_vals {A} (P : A -> Prop) k v (m : list (string * A)) : Forall (fun kv => P (snd kv)) m -> P v -> Forall (fun kv => P (snd kv)) (set_key k v m).
Proof.
  unfold set_key. induction m as [|[k0 v0] t IH]; cbn; intros H Hv; [repeat constructor; assumption|].
  inv H. destruct (String.eqb k k0); constructor; try assumption. apply IH; assumption.
Qed.
Lemma set_key_wf k v m : wf (RMap m) -> wf v -> wf (RMap (set_key k v m)).
Proof. rewrite !wf_map. intros [H1 H2] Hv. split; [apply set_key_nodup; assumption|apply set_key_vals; assumption]. Qed.
Lemma apply_writes_wf w m : wf (RMap m) -> Forall (fun kv => wf (snd kv)) w -> wf (RMap (apply_writes w m)).
Proof.
  revert m. induction w as [|[k v] t IH]; intros m Hm Hw; [assumption|]. inv Hw.
  change (wf (RMap (apply_writes t (set_key k v m)))). apply IH; [apply set_key_wf; assumption|assumption].
Qed.
Lemma writes_vals dt di s w : Forall wf s -> writes dt di s = Ok w -> Forall (fun kv => wf (snd kv)) w.
Proof.
  revert w. induction s as [|it rest IH]; intros w Hs H; [inv H; constructor|].
  inv Hs. cbn [writes] in H.
  destruct it; try (apply IH; assumption).
  destruct (str_key tn m); [|discriminate].
  destruct (negb (String.eqb s dt)); [apply IH; assumption|].
  destruct di as [d|]; [|discriminate].
  destruct (str_key idk m); [|discriminate].
  destruct (String.eqb d s0); [|apply IH; assumption].
  apply rbind_ok in H. destruct H as [w' [Hw' E]]. inv E.
  apply Forall_app. split; [|apply IH; assumption].
  match goal with HW : wf (RMap m) |- _ => apply wf_map in HW; destruct HW as [_ HF] end.
  apply Forall_forall. intros kv Hin. apply filter_In in Hin. destruct Hin as [Hin _].
  rewrite Forall_forall in HF. apply HF. assumption.
Qed.
Lemma desc_wf f k m m' : wf (RMap m) -> (forall v v', In v (map snd m) -> f v = Ok v' -> wf v') -> desc f k m = Ok m' -> wf (RMap m').
Proof.
  rewrite !wf_map. revert m'. induction m as [|[k0 v0] t IH]; intros m' [Hn Hf] Hfv H; [cbn in H; inv H; split; [constructor|constructor]|].
  cbn in H. inv Hn. inv Hf. destruct (String.eqb k k0).
  - apply rbind_ok in H. destruct H as [v' [Hv' E]]. inv E. cbn. split; [constructor; assumption|].
    constructor; [|assumption]. cbn. eapply Hfv; [left; reflexivity|eassumption].
  - apply rbind_ok in H. destruct H as [r [Hr E]]. inv E.
    assert (Hkeys : map fst r = map fst t).
    { clear - Hr. revert r Hr. induction t as [|[k1 v1] t IH]; intros r Hr; cbn in Hr; [inv Hr; reflexivity|].
      destruct (String.eqb k k1).
      - apply rbind_ok in Hr. destruct Hr as [v' [_ E]]. inv E. reflexivity.
      - apply rbind_ok in Hr. destruct Hr as [r' [Hr' E]]. inv E. cbn. f_equal. apply IH. assumption. }
    destruct (IH r (conj H3 H5)) as [Hn' Hf']; [intros v v' Hin; apply Hfv; right; assumption|assumption|].
    cbn. rewrite Hkeys. split; [constructor; assumption|constructor; assumption].
Qed.

Theorem M_wf s : Forall wf s -> forall d ip e, wf d -> M s ip d = Ok e -> wf e.
Proof.
  intros Hs. induction d using raw_ind2; intros ip e Hw He.
  - rewrite M_rnil in He. inv He. exact I.
  - destruct (M_leaf s ip (RBool b) I) as [x Hx]. congruence.
  - destruct (M_leaf s ip (RNum s0) I) as [x Hx]. congruence.
  - destruct (M_leaf s ip (RStr s0) I) as [x Hx]. congruence.
  - rewrite M_arr in He. apply rbind_ok in He. destruct He as [r [Hr E]]. inv E.
    apply wf_arr. apply wf_arr in Hw. revert r Hr. induction H as [|x t Hx Ht IHt]; intros r Hr.
    + cbn in Hr. inv Hr. constructor.
    + inv Hw. apply all_res_cons in Hr. destruct Hr as [y [r' [Hy [Hr' ->]]]]. constructor; [eapply Hx; eassumption|apply IHt; assumption].
  - destruct ip as [|k rest].
    + rewrite M_top in He. apply rbind_ok in He. destruct He as [r [Hr E]]. inv E.
      apply ba_spec in Hr. destruct Hr as [u [dt [w [Hu [Ht [Hww ->]]]]]].
      apply apply_writes_wf; [assumption|eapply writes_vals; eassumption].
    + rewrite M_desc in He. apply rbind_ok in He. destruct He as [r [Hr E]]. inv E.
      eapply desc_wf; [exact Hw| |exact Hr].
      intros v v' Hin Hv. apply in_map_iff in Hin. destruct Hin as [[k0 v0] [E Hin]]. cbn in E. subst v0.
      rewrite Forall_forall in H. pose proof (H _ Hin) as IHv. cbn in IHv. eapply IHv; [|exact Hv].
      apply wf_map in Hw. destruct Hw as [_ Hf]. rewrite Forall_forall in Hf. apply (Hf _ Hin).
Qed.

Definition bres_wf (b : bres) : Prop := match b with BOk v _ _ _ => wf v | BErr _ => True end.
Lemma Forall_rev_wf a : Forall wf a -> Forall wf (rev a).
Proof. intros H. apply Forall_forall. intros x Hx. rewrite Forall_forall in H. apply H. apply in_rev. assumption. Qed.
Theorem bubble_wf : forall fuel c cur ss v path, wf v -> bres_wf (bubble fuel c cur ss v path).
Proof.
  induction fuel as [|fuel IH]; intros c cur ss v path Hw; [exact I|].
  destruct v; try exact I.
  - cbn [bubble]. destruct cur as [t|]; [|exact I]. destruct (ty_elem t) as [e|]; [|exact I]. destruct (ty_nn e); exact I.
  - cbn [bubble]. apply wf_arr in Hw.
    match goal with |- bres_wf (?E l ?i0 ?s0 ?a0 ?e0 ?u0) =>
      cut (forall la i s a e u, Forall wf la -> Forall wf a -> bres_wf (E la i s a e u)); [intros HE; apply HE; [assumption|constructor]|] end.
    induction la as [|x ta IHa]; intros i s a e u Hla Ha.
    + cbn. apply wf_arr. apply Forall_rev_wf. assumption.
    + inv Hla. simpl.
      match goal with |- context [bubble fuel c ?cu s x (path ++ [PIdx i])] => pose proof (IH c cu s x (path ++ [PIdx i]) ltac:(assumption)) as HR end.
      match type of HR with bres_wf ?b => destruct b as [x' ss' lerrs lup|]; [|exact I] end.
      cbn in HR. destruct lup; [|apply IHa; [assumption|constructor; assumption]].
      match goal with |- context [if ?b then _ else _] => destruct b end; apply IHa; try assumption; constructor; try assumption; exact I.
  - cbn [bubble].
    match goal with |- bres_wf (?W ?td0 ?dn0 m ?er0 ?u0) =>
      cut (forall td dn ma er u, wf (RMap ma) -> bres_wf (W td dn ma er u)); [intros HW; apply HW; exact Hw|] end.
    induction td as [|[x inview] rest IHtd]; intros dn ma er u Hma.
    + cbn. exact Hma.
    + destruct x as [al n ar ds t oss | tc ds e0 body | f ds e0 tc body]; (destruct inview; [|simpl; apply IHtd; assumption]).
      * simpl. destruct (starts_uu n); [apply IHtd; assumption|].
        destruct (lookup al ma) as [ca|] eqn:Ea; [|destruct (ty_nn t); apply IHtd; assumption].
        assert (Hca : wf ca) by (apply wf_map in Hma; destruct Hma as [_ Hf]; apply (lookup_in_snd wf _ _ _ Hf Ea)).
        destruct ca; try (destruct (ty_nn t); apply IHtd; assumption);
        (destruct oss as [css|]; [|apply IHtd; assumption]);
        (match goal with |- context [bubble fuel c (Some t) css ?xx (path ++ [PName al])] =>
           pose proof (IH c (Some t) css xx (path ++ [PName al]) Hca) as HR end);
        (match type of HR with bres_wf ?b => destruct b as [x' ss' lerrs lup|]; [|exact I] end);
        cbn in HR; (destruct lup; [destruct (ty_nn t)|]); apply IHtd; apply set_key_wf; try assumption; exact I.
      * simpl. pose proof (IH c None body (RMap ma) path Hma) as HR.
        match type of HR with bres_wf ?b => destruct b as [v' ss' lerrs lup|]; [|exact I] end.
        cbn in HR. apply IHtd. destruct v'; assumption.
      * simpl. pose proof (IH c None body (RMap ma) path Hma) as HR.
        match type of HR with bres_wf ?b => destruct b as [v' ss' lerrs lup|]; [|exact I] end.
        cbn in HR. apply IHtd. destruct v'; assumption.
Qed.

(* ---------- what the client receives: the gateway's steps after the merge (Model/Gateway.v, ExecuteQuery) ---------- *)
Definition shaped (fuel : nat) (c : schema) (ss : list sel) (merged : raw) : option (json * list berr) :=
  let merged := match merged with RNil => RMap [] | m => m end in
  match bubble fuel c None ss merged [] with
  | BErr _ => None
  | BOk v ss' berrs up => Some (if up then JNull else value_json (fst (respond fuel c ss' v false)), berrs)
  end.

Theorem shaped_congr fuel c ss d d' : wf d -> wf d' -> req d d' -> shaped fuel c ss d = shaped fuel c ss d'.
Proof.
  intros Hw Hw' Hq. unfold shaped.
  set (n := match d with RNil => RMap [] | m => m end). set (n' := match d' with RNil => RMap [] | m => m end).
  assert (Hn : req n n' /\ wf n /\ wf n').
  { subst n n'. inv Hq; try (split; [constructor; assumption|split; assumption]).
    split; [constructor; intros k; constructor|]. split; cbn; (split; [constructor|exact I]). }
  destruct Hn as [Hqn [Hwn Hwn']]. clearbody n n'.
  pose proof (bubble_congr fuel c None ss n n' [] Hqn) as HR.
  pose proof (bubble_wf fuel c None ss n [] Hwn) as W1. pose proof (bubble_wf fuel c None ss n' [] Hwn') as W2.
  destruct (bubble fuel c None ss n []) as [v s1 e1 u1|]; destruct (bubble fuel c None ss n' []) as [v' s2 e2 u2|]; inv HR; [|reflexivity].
  cbn in W1, W2. destruct u2; [reflexivity|]. rewrite (respond_congr fuel c s2 v v' false) by assumption. reflexivity.
Qed.

Lemma merge_from_wf rs : Forall is_child rs -> Forall (fun r => wf (er_data r)) rs -> forall base d, wf base -> merge_from base rs = Ok d -> wf d.
Proof.
  induction rs as [|r t IH]; intros Hc Hw base d Hb H; [cbn in H; inv H; assumption|].
  pose proof (Forall_inv Hc) as Hcr. pose proof (Forall_inv_tail Hc) as Hct.
  pose proof (Forall_inv Hw) as Hwr. pose proof (Forall_inv_tail Hw) as Hwt. cbv beta in Hwr.
  rewrite merge_from_cons in H. apply rbind_ok in H. destruct H as [d1 [Hd1 Hd2]].
  rewrite (child_M _ _ Hcr) in Hd1.
  apply (IH Hct Hwt d1 d); [|exact Hd2].
  refine (M_wf (items_of r) _ base (er_ip r) d1 Hb Hd1).
  unfold is_child in Hcr. unfold items_of. destruct (er_data r); try contradiction. exact (proj1 (wf_arr l) Hwr).
Qed.
Lemma merge_results_wf r0 rs d : Forall is_child rs -> wf (er_data r0) -> Forall (fun r => wf (er_data r)) rs ->
  merge_results (r0 :: rs) = Ok d -> wf d.
Proof.
  intros Hc H0 Hw H. destruct rs as [|r1 rest].
  - cbn in H. destruct (er_data r0); inv H; assumption.
  - rewrite merge_results_unfold in H. apply rbind_ok in H. destruct H as [e [He Hm]].
    destruct e; try discriminate. inv Hm.
    eapply merge_from_wf; [exact Hc|exact Hw| |exact He].
    destruct (er_data r0); try assumption. cbn. split; [constructor|exact I].
Qed.

(* C06 for plans with one root step: whatever the order in which the lookup results arrive (inverted pairs independent),
   the merge succeeds or fails alike and, for every schema and every selection, the null pass reports the same errors and
   the writer produces the same response. *)
Theorem response_order_irrelevant r0 rs rs' d : Forall is_child rs -> Permutation rs rs' ->
  (forall x y, before x y rs -> before y x rs' -> indep_res x y) ->
  wf (er_data r0) -> Forall (fun r => wf (er_data r)) rs ->
  merge_results (r0 :: rs) = Ok d ->
  exists d', merge_results (r0 :: rs') = Ok d' /\ forall fuel c ss, shaped fuel c ss d = shaped fuel c ss d'.
Proof.
  intros Hc Hp Hinv H0 Hw H.
  destruct (merge_results_order_irrelevant r0 rs rs' d Hc Hp Hinv H) as [d' [H' Hq]].
  exists d'. split; [exact H'|]. intros fuel c ss. apply shaped_congr; [| |exact Hq].
  - eapply merge_results_wf; eassumption.
  - eapply merge_results_wf; [| exact H0 | | exact H'].
    + eapply Permutation_Forall; eassumption.
    + eapply Permutation_Forall; eassumption.
Qed.

(* [shaped] IS what the whole-gateway model does with the merged tree *)
From V Require Import Model.Plan Model.FormatDoc Model.Gateway Model.Perm Model.SkipInclude Model.PermFilter.
Lemma gateway_shaped G fschema W op vars P max fuel oc merged :
  gateway G fschema W op vars P max fuel = Ok oc -> oc_merged oc = Some merged ->
  r_data (oc_response oc) = option_map fst (shaped fuel fschema (oc_op oc) merged).
Proof.
  unfold gateway. destruct (skip_include vars (o_sel op)) as [ss0|]; cbn [rbind]; [|discriminate].
  destruct (match P with
            | Some p => let '(o', e) := filter_operation p {| o_kind := o_kind op; o_name := o_name op; o_vardefs := o_vardefs op; o_sel := ss0 |} in (o_sel o', e)
            | None => (ss0, []) end) as [ss perm_errs].
  match goal with |- context [plan ?pc ?root ss] => destruct (plan pc root ss) as [steps|] end.
  2:{ intros H Hm; inversion H; subst; cbn in Hm; discriminate. }
  match goal with |- context [fold_left ?F steps ?I] => destruct (fold_left F steps I) as [a|] end.
  2:{ intros H Hm; inversion H; subst; cbn in Hm; discriminate. }
  destruct (Nat.ltb max (a_count a)); [intros H Hm; inversion H; subst; cbn in Hm; discriminate|].
  match goal with |- context [merge_results ?R] => destruct (merge_results R) as [mg|] end.
  2:{ intros H Hm; inversion H; subst; cbn in Hm; discriminate. }
  unfold shaped.
  destruct mg; cbn [oc_merged];
  (match goal with |- context [bubble ?f ?c ?cur ?s ?m ?p] => destruct (bubble f c cur s m p) eqn:EB end;
   intros H Hm; inversion H; subst; cbn in Hm; inversion Hm; subst; cbn [oc_op oc_response r_data]; rewrite EB; reflexivity).
Qed.
