(* Proofs/GatewayTotal.v — C02: whatever the services do, the gateway model produces a response, and a response without data
   carries an error. *)
From V Require Import Base.Util Gql.Ast Gql.RefExec Model.Plan Model.MergeRes Model.FormatDoc Model.Gateway.
From V Require Import Model.Perm Model.SkipInclude Model.PermFilter Model.Shape.

Theorem gateway_answers G fschema W op vars P max fuel ss0 :
  skip_include vars (o_sel op) = Ok ss0 -> exists oc, gateway G fschema W op vars P max fuel = Ok oc.
Proof.
  intros Hs. unfold gateway. rewrite Hs. cbn [rbind].
  destruct (match P with
            | Some p => let '(o', e) := filter_operation p {| o_kind := o_kind op; o_name := o_name op; o_vardefs := o_vardefs op; o_sel := ss0 |} in (o_sel o', e)
            | None => (ss0, []) end) as [ss perm_errs].
  match goal with |- context [plan ?pc ?root ss] => destruct (plan pc root ss) as [steps|] end; [|eauto].
  match goal with |- context [fold_left ?F steps ?I] => destruct (fold_left F steps I) as [a|] end; [|eauto].
  destruct (Nat.ltb max (a_count a)); [eauto|].
  match goal with |- context [merge_results ?R] => destruct (merge_results R) as [merged|] end; [|eauto].
  match goal with |- context [bubble ?f ?c ?cur ?s ?m ?p] => destruct (bubble f c cur s m p) end; eauto.
Qed.

Theorem gateway_no_data_means_error G fschema W op vars P max fuel oc :
  gateway G fschema W op vars P max fuel = Ok oc -> r_data (oc_response oc) = None -> r_errors (oc_response oc) <> [].
Proof.
  unfold gateway. destruct (skip_include vars (o_sel op)) as [ss0|]; cbn [rbind]; [|discriminate].
  destruct (match P with
            | Some p => let '(o', e) := filter_operation p {| o_kind := o_kind op; o_name := o_name op; o_vardefs := o_vardefs op; o_sel := ss0 |} in (o_sel o', e)
            | None => (ss0, []) end) as [ss perm_errs].
  match goal with |- context [plan ?pc ?root ss] => destruct (plan pc root ss) as [steps|] end.
  2:{ intros H _; inversion H; subst; cbn; discriminate. }
  match goal with |- context [fold_left ?F steps ?I] => destruct (fold_left F steps I) as [a|] end.
  2:{ intros H _; inversion H; subst; cbn. intros E. apply app_eq_nil in E. destruct E as [_ E]. discriminate. }
  destruct (Nat.ltb max (a_count a)); [intros H _; inversion H; subst; cbn; intros E; apply app_eq_nil in E; destruct E as [_ E]; discriminate|].
  match goal with |- context [merge_results ?R] => destruct (merge_results R) as [merged|] end.
  2:{ intros H _; inversion H; subst; cbn. intros E. apply app_eq_nil in E. destruct E as [_ E]. discriminate. }
  match goal with |- context [bubble ?f ?c ?cur ?s ?m ?p] => destruct (bubble f c cur s m p) end;
    intros H Hd; inversion H; subst; cbn in *; [discriminate|].
  intros E. apply app_eq_nil in E. destruct E as [_ E]. discriminate.
Qed.
