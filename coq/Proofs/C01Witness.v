(* Proofs/C01Witness.v — concrete executions of the gateway MODEL on the "tricky" federation (tables as published by
   the real code for harness/fixtures.go:fixtureTricky) with spec-conformant services, compared with the single server.
   Each witness is also replayed against the real gateway by the harness (corpus of check C01). *)
From V Require Import Base.Util Gql.Ast Gql.RefExec Model.Perm Model.Plan Model.Gateway Corr.E2ECheck Proofs.TrickyWorld.

Definition tS := TNamed "String" false.  Definition tSn := TNamed "String" true.  Definition tI := TNamed "Int" false.
Definition tFoo := TNamed "Foo" false.
Definition lf (a : string) (t : ty) := SField a a [] [] t None.
Definition ob (a n : string) (t : ty) (ss : list sel) := SField a n [] [] t (Some ss).

Definition data_t : list entity := [
  {| e_type := "Query"; e_id := ""; e_fields := [("foo", RvRef "Foo" "1"); ("foos", RvList [RvRef "Foo" "1"; RvRef "Foo" "2"]);
       ("animals", RvList [RvRef "Cat" "1"; RvRef "Dog" "2"]); ("us", RvList [RvRef "Cat" "1"; RvRef "Dog" "2"])] |};
  {| e_type := "Foo"; e_id := "1"; e_fields := [("id", RvLeaf (JStr "1")); ("name", RvLeaf (JStr "one")); ("foo", RvRef "Foo" "2");
       ("bar", RvRef "Foo" "2"); ("items", RvList []); ("must", RvLeaf (JStr "m1"))] |};
  {| e_type := "Foo"; e_id := "2"; e_fields := [("id", RvLeaf (JStr "2")); ("name", RvLeaf (JStr "two")); ("foo", RvRef "Foo" "1");
       ("bar", RvNull); ("items", RvList []); ("must", RvLeaf (JStr "m2"))] |};
  {| e_type := "Cat"; e_id := "1"; e_fields := [("id", RvLeaf (JStr "1")); ("name", RvLeaf (JStr "c")); ("lives", RvLeaf (JNum "9")); ("age", RvLeaf (JNum "1"))] |};
  {| e_type := "Dog"; e_id := "2"; e_fields := [("id", RvLeaf (JStr "2")); ("name", RvLeaf (JStr "d")); ("bark", RvLeaf (JStr "w")); ("age", RvLeaf (JNum "2"))] |} ].

Definition world_t : world :=
  {| w_services := [("http://a.svc/query", srv_tricky_A []); ("http://b.svc/query", srv_tricky_B [])]; w_data := data_t; w_fault := fun _ => None |}.
Definition qop (ss : list sel) : operation := {| o_kind := OQuery; o_name := "Op"; o_vardefs := []; o_sel := ss |}.
Definition gw (ss : list sel) := gateway gen_tricky (g_schema gen_tricky) world_t (qop ss) [] None 50 40.
Definition single (ss : list sel) : json := fst (exec_op (mono_tricky []) data_t [] 40 "Query" ss).
Definition differs (ss : list sel) : Prop :=
  exists o, gw ss = Ok o /\ r_errors (oc_response o) = [] /\ r_data (oc_response o) <> Some (single ss).
Definition agrees (ss : list sel) : Prop :=
  exists o, gw ss = Ok o /\ r_errors (oc_response o) = [] /\ r_data (oc_response o) = Some (single ss).

(* { foo { foo { name } } } : Foo.foo is owned by B, Foo.name by A; the nested lookup's insertion point is trimmed at
   the first "foo" (execution.go:371), no id is found, and name is silently null *)
Definition q_recurring := [ob "foo" "foo" tFoo [ob "foo" "foo" tFoo [lf "name" tS]]].
Lemma refuted_recurring_key : differs q_recurring.
Proof. unfold differs. eexists; split; [vm_compute; reflexivity|]. split; [reflexivity|]. vm_compute. discriminate. Qed.
(* control: with the inner field aliased the same query is answered correctly *)
Definition q_recurring_aliased := [ob "foo" "foo" tFoo [ob "bar" "foo" tFoo [lf "name" tS]]].
Lemma control_recurring_key : agrees q_recurring_aliased.
Proof. unfold agrees. eexists; split; [vm_compute; reflexivity|]. split; reflexivity. Qed.

(* animals { name ... on Cat { lives } ... on Dog { bark } } : Cat.lives and Dog.bark are both owned by B; the two child
   steps are merged on service/insertion point only (plan.go:240), so bark is sent inside the Cat lookup, which a
   conformant service rejects *)
Definition tAnimals := TList (TNamed "Animal" true) true.
Definition q_shared_remote := [ob "animals" "animals" tAnimals
  [lf "name" tS; SInline "Cat" [] "Animal" [lf "lives" tI]; SInline "Dog" [] "Animal" [lf "bark" tS]]].
Lemma refuted_shared_remote_abstract :
  exists o, gw q_shared_remote = Ok o /\
            existsb (fun rq => negb (valid_doc (sv_schema (srv_tricky_B [])) "Query"
                                      (match rq_lookup rq with Some l => lookup_doc l (rq_sel rq) (rq_ids rq) | None => rq_sel rq end)) &&
                               String.eqb (rq_url rq) "http://b.svc/query") (oc_requests o) = true /\
            r_data (oc_response o) <> Some (single q_shared_remote).
Proof. eexists; split; [vm_compute; reflexivity|]. split; [vm_compute; reflexivity|]. vm_compute. discriminate. Qed.

(* every request of a run validates against the schema of the service that receives it *)
Definition requests_valid (W : world) (rqs : list request) : bool :=
  forallb (fun rq => match lookup (rq_url rq) (w_services W) with
                     | Some sv => valid_doc (sv_schema sv) (match rq_lookup rq with Some _ => "Query" | None => rq_parent rq end)
                                    (match rq_lookup rq with Some l => lookup_doc l (rq_sel rq) (rq_ids rq) | None => rq_sel rq end)
                     | None => false end) rqs.
Lemma refuted_shared_remote_valid : exists o, gw q_shared_remote = Ok o /\ requests_valid world_t (oc_requests o) = false.
Proof. eexists; split; vm_compute; reflexivity. Qed.
Lemma control_requests_valid : exists o, gw q_recurring_aliased = Ok o /\ requests_valid world_t (oc_requests o) = true.
Proof. eexists; split; vm_compute; reflexivity. Qed.

(* foo { name ... on Foo { ... on Foo { name must } } } : the nested fragment gets a fresh de-duplication scope
   (execution.go:657), so "name" is written twice *)
Definition q_nested_dup := [ob "foo" "foo" tFoo [lf "name" tS; SInline "Foo" [] "Foo" [SInline "Foo" [] "Foo" [lf "name" tS; lf "must" tSn]]]].
Lemma refuted_nested_fragment_dup : differs q_nested_dup.
Proof. unfold differs. eexists; split; [vm_compute; reflexivity|]. split; [reflexivity|]. vm_compute. discriminate. Qed.
Definition q_nested_dup_control := [ob "foo" "foo" tFoo [lf "name" tS; SInline "Foo" [] "Foo" [lf "name" tS; lf "must" tSn]]].
Lemma control_nested_fragment_dup : agrees q_nested_dup_control.
Proof. unfold agrees. eexists; split; [vm_compute; reflexivity|]. split; reflexivity. Qed.

(* animals { ... on Cat { name } ... on Animal { name __typename } } over [Cat, Dog]: shaping the Cat removes "name" from the
   second fragment IN PLACE (execution.go:635), and the Dog that follows loses its name *)
Definition q_shortened := [ob "animals" "animals" tAnimals
  [SInline "Cat" [] "Animal" [lf "name" tS]; SInline "Animal" [] "Animal" [lf "name" tS; SField "__typename" "__typename" [] [] tSn None]]].
Lemma refuted_fragment_shortened : differs q_shortened.
Proof. unfold differs. eexists; split; [vm_compute; reflexivity|]. split; [reflexivity|]. vm_compute. discriminate. Qed.

(* us { ... on Named { name } } : the condition is abstract inside an abstract parent and is always applied
   (execution.go:563): a Dog, which is not Named, is answered {"name":...} *)
Definition q_abstract_cond := [ob "us" "us" (TList (TNamed "U" false) true) [SInline "Named" [] "U" [lf "name" tS]]].
Lemma refuted_abstract_condition : differs q_abstract_cond.
Proof. unfold differs. eexists; split; [vm_compute; reflexivity|]. split; [reflexivity|]. vm_compute. discriminate. Qed.
