(* Proofs/ExecProofs.v — invariants of the step-execution skeleton (Model/Gateway.v: exec_root, exec_child). *)
From V Require Import Base.Util Gql.Ast Gql.RefExec Model.Plan Model.MergeRes Model.Gateway.

Definition named (e : gerror) : Prop := ge_service e = true.

Lemma errors_of_named st es : Forall named (errors_of st es).
Proof. unfold errors_of. induction es; simpl; constructor; auto. reflexivity. Qed.

Section Inv.
  Variable G : generation.
  Variable W : world.
  Variable vars : env.
  Variable fuel : nat.

  (* every error recorded for a step names the failing service (after fix bb4e4d3), for every plan, every world,
     every fault assignment, every fuel *)
  Lemma exec_child_named : forall f st ids a a',
    exec_child G W vars fuel f st ids a = Ok a' -> Forall named (a_errors a) -> Forall named (a_errors a').
  Proof.
    induction f as [|f IH]; intros st ids a a' H Ha; [discriminate|].
    destruct st as [url sname parent ss ip thn]. cbn [exec_child] in H.
    destruct (lookup url (g_lookups G)) as [ls|]; [|discriminate].
    destruct (find (fun l => String.eqb (lk_type l) parent) ls) as [l|]; [|discriminate].
    cbn [rbind] in H.
    match type of H with context [fold_left ?F ?L ?I] => destruct (fold_left F L I) as [[rqs outcome] nb] end.
    destruct outcome as [d|es partial|k].
    - (* data *)
      match type of H with match ?N with [] => _ | _ => _ end = _ => destruct N as [|x0 nn] eqn:En end.
      + inversion H; subst. exact Ha.
      + revert H. generalize (x0 :: nn). intros nonnil.
        match goal with |- fold_left ?F thn (Ok ?A0) = Ok a' -> _ => set (F0 := F); set (a0 := A0) end.
        assert (Ha0 : Forall named (a_errors a0)) by exact Ha. clearbody a0. clear Ha.
        revert a0 Ha0. induction thn as [|ch t IHt]; intros a0 Ha0 H; cbn [fold_left] in H.
        * inversion H; subst. exact Ha0.
        * destruct (F0 (Ok a0) ch) as [a1|m] eqn:E1.
          -- apply (IHt a1); [|exact H]. unfold F0 in E1. cbn [rbind] in E1.
             destruct (trim_ip nonnil (step_ip ch)) as [ip'|]; cbn [rbind] in E1; [|discriminate].
             destruct (extract_ids (RArr nonnil) ip' (step_parent ch)) as [ids'|]; cbn [rbind] in E1; [|discriminate].
             destruct (dedupe_str ids') as [|i0 it]; [inversion E1; subst; exact Ha0|].
             eapply IH; eauto.
          -- exfalso. clear -H. induction t as [|c t IHt]; cbn [fold_left] in H; [discriminate|].
             apply IHt. exact H.
    - inversion H; subst. cbn [a_errors]. apply Forall_app. split; [exact Ha | apply errors_of_named].
    - inversion H; subst. cbn [a_errors]. apply Forall_app. split; [exact Ha|]. constructor; [reflexivity | constructor].
  Qed.

  Lemma exec_root_named st a a' :
    exec_root G W vars fuel st a = Ok a' -> Forall named (a_errors a) -> Forall named (a_errors a').
  Proof.
    destruct st as [url sname parent ss ip thn]. cbn [exec_root]. destruct (String.eqb url internal_service).
    - intros H Ha. inversion H; subst. exact Ha.
    - match goal with |- match ?C with _ => _ end = _ -> _ => destruct C as [d|es partial|k] end; intros H Ha.
      + match type of H with fold_left ?F thn (Ok ?A0) = Ok a' => set (F0 := F) in H; set (a0 := A0) in H end.
        assert (Ha0 : Forall named (a_errors a0)) by exact Ha. clearbody a0. clear Ha.
        revert a0 Ha0 H. induction thn as [|ch t IHt]; intros a0 Ha0 H; cbn [fold_left] in H.
        * inversion H; subst. exact Ha0.
        * destruct (F0 (Ok a0) ch) as [a1|m] eqn:E1.
          -- apply (IHt a1); [|exact H]. unfold F0 in E1. cbn [rbind] in E1.
             destruct (extract_ids d (step_ip ch) (step_parent ch)) as [ids'|]; cbn [rbind] in E1; [|discriminate].
             destruct (dedupe_str ids') as [|i0 it]; [inversion E1; subst; exact Ha0|].
             eapply exec_child_named; eauto.
          -- exfalso. clear -H. induction t as [|c t IHt]; cbn [fold_left] in H; [discriminate|]. apply IHt. exact H.
      + inversion H; subst. cbn [a_errors]. apply Forall_app. split; [exact Ha | apply errors_of_named].
      + inversion H; subst. cbn [a_errors]. apply Forall_app. split; [exact Ha|]. constructor; [reflexivity | constructor].
  Qed.
End Inv.
