(* Proofs/ValidateProofs.v — C09: what acceptance by ValidateSchema guarantees (the contrapositive of "a schema that breaks a
   rule is rejected"), for every schema. *)
From V Require Import Base.Util Base.Assoc Gql.Ast Model.Merge Model.Validate.

Lemma seq_ok (a b : res unit) : (a ;;; b) = Ok tt -> a = Ok tt /\ b = Ok tt.
Proof. destruct a as [[]|m]; [auto | discriminate]. Qed.
Lemma check_ok b m : check b m = Ok tt -> b = true.
Proof. unfold check. destruct b; [reflexivity | discriminate]. Qed.
Lemma res_unit_ok (r : res unit) : is_ok r = true -> r = Ok tt.
Proof. destruct r as [[]|]; [reflexivity | discriminate]. Qed.
Lemma ty_is_eq t n nn : ty_is t n nn = true -> t = TNamed n nn.
Proof.
  destruct t as [m b|]; simpl; [|discriminate]. intros H. apply andb_true_iff in H. destruct H as [H1 H2].
  apply String.eqb_eq in H1. apply Bool.eqb_prop in H2. subst. reflexivity.
Qed.

(* ---------- the rules, stated independently of the checks ---------- *)
Definition rule_roots (s : vschema) : Prop :=
  (forall n, vs_query s = Some n -> n = "Query") /\ (forall n, vs_mutation s = Some n -> n = "Mutation") /\
  (forall n, vs_subscription s = Some n -> n = "Subscription").
Definition rule_service_field (s : vschema) : Prop :=
  exists q f, query_type s = Some q /\ field_named "service" q = Some f /\ fd_args f = [] /\ fd_ty f = TNamed "Service" true.
Definition rule_service_type (s : vschema) : Prop :=
  exists t, find_type "Service" (vs_types s) = Some t /\ td_kind t = KObject /\ List.length (td_fields t) = 3 /\
            forall f, In f (td_fields t) -> In (fd_name f) ["name"; "version"; "schema"] /\ fd_ty f = TNamed "String" true.
Definition rule_boundary_key (s : vschema) : Prop :=
  forall t, In t (vs_types s) -> obj_boundary t = true -> exists f, field_named "id" t = Some f /\ fd_ty f = TNamed "ID" true.
(* a lookup in single or array form *)
Definition lookup_well_typed (f : fdef) : Prop :=
  exists a, fd_args f = [a] /\
    ((ad_ty a = TNamed "ID" true /\ ty_nn (fd_ty f) = false /\ (forall e b, ad_ty a <> TList e b)) \/
     (ad_ty a = TList (TNamed "ID" true) true /\ exists e, fd_ty f = TList e true)).
Definition lookups_of (q : tdef) (tn : string) : list fdef :=
  filter (fun f => fd_boundary f && String.eqb (ty_name (fd_ty f)) tn) (td_fields q).
Definition rule_lookups (s : vschema) : Prop :=
  forall q, query_type s = Some q ->
    (forall f, In f (td_fields q) -> fd_boundary f = true -> lookup_well_typed f) /\
    (forall t, In t (vs_types s) -> obj_boundary t = true -> List.length (lookups_of q (td_name t)) = 1).
Definition is_ns_obj (s : vschema) (n : string) : bool :=
  match find_type n (vs_types s) with Some t => obj_namespace t | None => false end.
Definition rule_namespace_parents (s : vschema) : Prop :=
  forall t f, In t (vs_types s) -> In f (td_fields t) -> is_ns_obj s (ty_name (fd_ty f)) = true ->
              td_namespace t = true \/ is_root (td_name t) = true.

(* the current syntax: @boundary on OBJECT | FIELD_DEFINITION and no Query.node *)
Definition modern (s : vschema) : Prop :=
  uses_fields_boundary s = true /\ forall q, query_type s = Some q -> has_node_query q = false.

Section Accepted.
  Variable s : vschema.
  Hypothesis Hacc : validate s = Ok tt.

  Lemma acc_parts :
    v_root_names s = Ok tt /\ v_boundary_objects s = Ok tt /\ v_namespace_objects s = Ok tt /\
    v_service_query s = Ok tt /\ v_service_object s = Ok tt /\ vs_valid_after_merge s = true.
  Proof.
    unfold validate in Hacc.
    apply seq_ok in Hacc. destruct Hacc as [H1 H]. apply seq_ok in H. destruct H as [H2 H]. apply seq_ok in H. destruct H as [H3 H].
    apply seq_ok in H. destruct H as [H4 H]. apply seq_ok in H. destruct H as [H5 H6]. apply check_ok in H6. repeat split; assumption.
  Qed.

  Lemma accepted_roots : rule_roots s.
  Proof.
    destruct acc_parts as [H _]. unfold v_root_names in H.
    apply seq_ok in H. destruct H as [Hq H]. apply seq_ok in H. destruct H as [Hm Hs].
    repeat split; intros n E.
    - rewrite E in Hq. apply check_ok, String.eqb_eq in Hq. exact Hq.
    - rewrite E in Hm. apply check_ok, String.eqb_eq in Hm. exact Hm.
    - rewrite E in Hs. apply check_ok, String.eqb_eq in Hs. exact Hs.
  Qed.

  Lemma accepted_service_field : rule_service_field s.
  Proof.
    destruct acc_parts as [_ [_ [_ [H _]]]]. unfold v_service_query in H.
    destruct (query_type s) as [q|] eqn:Eq; [|discriminate].
    destruct (field_named "service" q) as [f|] eqn:Ef; [|discriminate].
    apply seq_ok in H. destruct H as [Ha Ht]. apply check_ok in Ha. apply check_ok, ty_is_eq in Ht.
    exists q, f. repeat split; auto. destruct (fd_args f); [reflexivity | discriminate].
  Qed.

  Lemma accepted_service_type : rule_service_type s.
  Proof.
    destruct acc_parts as [_ [_ [_ [_ [H _]]]]]. unfold v_service_object in H.
    destruct (find_type "Service" (vs_types s)) as [t|] eqn:Et; [|discriminate].
    apply seq_ok in H. destruct H as [Hk H]. apply seq_ok in H. destruct H as [Hn Hf].
    apply check_ok in Hk. apply check_ok, Nat.eqb_eq in Hn. apply check_ok in Hf.
    exists t. split; [exact Et|]. split; [destruct (td_kind t); try discriminate; reflexivity|]. split; [exact Hn|].
    intros f Hin. rewrite forallb_forall in Hf. specialize (Hf f Hin). apply andb_true_iff in Hf. destruct Hf as [H1 H2].
    split; [apply mem_in; exact H1 | apply ty_is_eq; exact H2].
  Qed.

  Lemma boundary_cases :
    uses_boundary s = false \/
    (v_boundary_directive s = Ok tt /\ v_boundary_format s = Ok tt /\ exists q, query_type s = Some q /\
       ((if uses_fields_boundary s then
          check (forallb boundary_query_ok (filter fd_boundary (td_fields q))) "invalid boundary query" ;;;
          (if has_node_query q then Ok tt else v_boundary_fields s q)
        else v_node_interface s ;;; v_implements_node s) = Ok tt)).
  Proof.
    destruct acc_parts as [_ [H _]]. unfold v_boundary_objects in H.
    destruct (uses_boundary s); [right | left; reflexivity]. simpl in H.
    apply seq_ok in H. destruct H as [H1 H]. apply seq_ok in H. destruct H as [H2 H].
    destruct (query_type s) as [q|]; [|discriminate]. apply seq_ok in H. destruct H as [H3 _].
    split; [exact H1|]. split; [exact H2|]. exists q. split; [reflexivity | exact H3].
  Qed.

  Lemma accepted_boundary_key : rule_boundary_key s.
  Proof.
    intros t Hin Hb. destruct boundary_cases as [Hn | [_ [Hf _]]].
    - exfalso. unfold uses_boundary in Hn. apply orb_false_iff in Hn. destruct Hn as [Hn _].
      assert (existsb obj_boundary (vs_types s) = true) by (apply existsb_exists; exists t; auto). congruence.
    - unfold v_boundary_format in Hf. apply check_ok in Hf. rewrite forallb_forall in Hf. specialize (Hf t Hin).
      unfold obj_boundary in Hb. apply andb_true_iff in Hb. destruct Hb as [_ Hb]. rewrite Hb in Hf. simpl in Hf.
      destruct (field_named "id" t) as [f|]; [|discriminate]. exists f. split; [reflexivity | apply ty_is_eq; exact Hf].
  Qed.

  Lemma query_ok_well_typed f : boundary_query_ok f = true -> lookup_well_typed f.
  Proof.
    unfold boundary_query_ok, lookup_well_typed. destruct (fd_args f) as [|a [|]]; try discriminate.
    intros H. exists a. split; [reflexivity|]. destruct (ad_ty a) as [n b|e b] eqn:Ea.
    - left. apply andb_true_iff in H. destruct H as [H1 H2]. simpl in H1. apply andb_true_iff in H1. destruct H1 as [Hn Hb].
      apply String.eqb_eq in Hn. apply Bool.eqb_prop in Hb. subst. split; [reflexivity|]. split; [apply negb_true_iff; exact H2|].
      intros e0 b0; discriminate.
    - right. apply andb_true_iff in H. destruct H as [H1 H3]. apply andb_true_iff in H1. destruct H1 as [H1 H2].
      assert (Ht : TList e b = TList (TNamed "ID" true) true).
      { clear -H1. simpl in H1. destruct e as [n nb|]; [|discriminate]. simpl in H1.
        apply andb_true_iff in H1. destruct H1 as [H1 Hb]. apply andb_true_iff in H1. destruct H1 as [Hn Hnb].
        apply String.eqb_eq in Hn. apply Bool.eqb_prop in Hb, Hnb. subst. reflexivity. }
      split; [exact Ht|]. destruct (fd_ty f) as [|e' b']; [discriminate|]. simpl in H2. subst b'. exists e'. reflexivity.
  Qed.

  Definition cnt (tn : string) (l : list string) : nat := List.length (filter (fun n => String.eqb n tn) l).
  Lemma dedupe_len_le l : List.length (dedupe_str l) <= List.length l.
  Proof. induction l as [|x t IH]; simpl; [auto|]. destruct (mem x t); simpl; auto with arith. Qed.
  Lemma dedupe_same_len_cnt l tn : List.length (dedupe_str l) = List.length l -> cnt tn l <= 1.
  Proof.
    induction l as [|x t IH]; simpl; intros H; [auto|]. destruct (mem x t) eqn:Em.
    - pose proof (dedupe_len_le t). rewrite H in H0. exfalso. apply (Nat.nle_succ_diag_l _ H0).
    - simpl in H. injection H as H. specialize (IH H). unfold cnt in *. simpl. destruct (String.eqb x tn) eqn:E; [|exact IH].
      apply String.eqb_eq in E; subst x. simpl.
      assert (filter (fun n => String.eqb n tn) t = []) as ->; [|auto].
      clear -Em. induction t as [|y t IH]; simpl in *; [reflexivity|]. apply orb_false_iff in Em. destruct Em as [E1 E2].
      rewrite String.eqb_sym, E1. apply IH. exact E2.
  Qed.
  Lemma lookups_of_cnt q tn :
    List.length (lookups_of q tn) = cnt tn (map (fun f => ty_name (fd_ty f)) (filter fd_boundary (td_fields q))).
  Proof.
    unfold lookups_of, cnt. induction (td_fields q) as [|f t IH]; simpl; [reflexivity|].
    destruct (fd_boundary f); simpl; [|exact IH]. destruct (String.eqb (ty_name (fd_ty f)) tn); simpl; rewrite IH; reflexivity.
  Qed.
  Lemma exists_cnt tn l : existsb (fun n => String.eqb n tn) l = true -> 1 <= cnt tn l.
  Proof.
    unfold cnt. induction l as [|x t IH]; simpl; [discriminate|]. destruct (String.eqb x tn); simpl; [auto with arith | exact IH].
  Qed.

  Theorem accepted_lookups : modern s -> rule_lookups s.
  Proof.
    intros [Hu Hnode] q Eq. destruct boundary_cases as [Hn | [_ [_ [q' [Eq' H]]]]].
    - unfold uses_boundary in Hn. apply orb_false_iff in Hn. destruct Hn as [Hn1 Hn2]. rewrite Eq in Hn2. split.
      + intros f Hin Hb. exfalso. assert (existsb fd_boundary (td_fields q) = true) by (apply existsb_exists; exists f; auto). congruence.
      + intros t Hin Hb. exfalso. assert (existsb obj_boundary (vs_types s) = true) by (apply existsb_exists; exists t; auto). congruence.
    - rewrite Eq in Eq'. inversion Eq'; subst q'. rewrite Hu, (Hnode q Eq) in H.
      apply seq_ok in H. destruct H as [Hq Hf]. apply check_ok in Hq. split.
      + intros f Hin Hb. apply query_ok_well_typed. rewrite forallb_forall in Hq. apply Hq. apply filter_In. split; assumption.
      + intros t Hin Hb. unfold v_boundary_fields in Hf.
        apply seq_ok in Hf. destruct Hf as [_ Hf]. apply seq_ok in Hf. destruct Hf as [Hd Hf]. apply seq_ok in Hf. destruct Hf as [_ Hm].
        apply check_ok, Nat.eqb_eq in Hd. apply check_ok in Hm. rewrite lookups_of_cnt.
        apply Nat.le_antisymm.
        * apply dedupe_same_len_cnt. rewrite Hd. rewrite map_length. reflexivity.
        * apply exists_cnt. rewrite forallb_forall in Hm.
          assert (Hbt : In (td_name t) (map td_name (filter obj_boundary (vs_types s)))) by (apply in_map, filter_In; split; assumption).
          specialize (Hm _ Hbt). rewrite existsb_exists in Hm. destruct Hm as [f [Hfin Hfe]].
          apply existsb_exists. exists (ty_name (fd_ty f)). split; [apply (in_map (fun f => ty_name (fd_ty f))); exact Hfin | exact Hfe].
  Qed.

  Lemma accepted_namespace_parents : rule_namespace_parents s.
  Proof.
    intros t f Hin Hf Hns. unfold is_ns_obj in Hns. destruct (find_type (ty_name (fd_ty f)) (vs_types s)) as [nt|] eqn:En; [|discriminate].
    destruct acc_parts as [_ [_ [H _]]]. unfold v_namespace_objects in H.
    assert (Hex : existsb obj_namespace (vs_types s) = true).
    { apply existsb_exists. exists nt. split; [|exact Hns]. unfold find_type in En. apply find_some in En. tauto. }
    rewrite Hex in H. simpl in H. apply seq_ok in H. destruct H as [_ H]. apply seq_ok in H. destruct H as [Ha _].
    unfold v_namespace_ascendence in Ha. apply check_ok in Ha. rewrite forallb_forall in Ha. specialize (Ha t Hin).
    apply orb_true_iff in Ha. destruct Ha as [Ha|Ha]; [apply orb_true_iff in Ha; exact Ha|].
    exfalso. rewrite forallb_forall in Ha. specialize (Ha f Hf). unfold is_ns_type in Ha. rewrite En in Ha.
    unfold obj_namespace in Hns. apply andb_true_iff in Hns. destruct Hns as [_ Hns]. rewrite Hns in Ha. discriminate.
  Qed.
End Accepted.

(* ---------- namespace links: the depth-first check covers everything reachable from a root ---------- *)
Section NsLinks.
  Variable s : vschema.
  Definition ns_edge (x y : string) (f : fdef) : Prop :=
    exists t, find_type x (vs_types s) = Some t /\ In f (td_fields t) /\ is_ns_type s (ty_name (fd_ty f)) = true /\ y = ty_name (fd_ty f).
  Inductive NsReachFrom (n : string) : string -> Prop :=
   | NR_root : NsReachFrom n n
   | NR_step : forall x y f, NsReachFrom n x -> ns_edge x y f -> NsReachFrom n y.
  Definition Checked (x : string) : Prop := forall y f, ns_edge x y f -> ty_nn (fd_ty f) = true.
  Definition Closed (x : string) (vis : list string) : Prop := forall y f, ns_edge x y f -> In y vis.

  Definition step (fuel : nat) (r : res (list string)) (f : fdef) : res (list string) :=
    match r with
    | Err m => Err m
    | Ok vis => if is_ns_type s (ty_name (fd_ty f))
                then if ty_nn (fd_ty f) then ns_links fuel s vis (ty_name (fd_ty f))
                     else Err "namespace return type should be non nullable"
                else Ok vis
    end.
  Lemma fold_err fuel fs m : fold_left (step fuel) fs (Err m) = Err m.
  Proof. induction fs as [|f t IH]; simpl; auto. Qed.

  Definition Spec (vis : list string) (tn : string) (vis' : list string) : Prop :=
    incl vis vis' /\ (In tn vis' \/ find_type tn (vs_types s) = None) /\
    (forall x, In x vis' -> mem x vis = false -> Checked x /\ Closed x vis').

  Lemma ns_type_found n : is_ns_type s n = true -> exists t, find_type n (vs_types s) = Some t.
  Proof. unfold is_ns_type. destruct (find_type n (vs_types s)) as [t|]; [eauto | discriminate]. Qed.

  Lemma ns_links_spec fuel : forall vis tn vis', ns_links fuel s vis tn = Ok vis' -> Spec vis tn vis'.
  Proof.
    induction fuel as [|fuel IH]; intros vis tn vis' H; simpl in H; [discriminate|].
    destruct (mem tn vis) eqn:Em.
    { inversion H; subst vis'. split; [apply incl_refl|]. split; [left; apply mem_in; exact Em|].
      intros x Hx Hn. apply mem_in in Hx. congruence. }
    destruct (find_type tn (vs_types s)) as [t|] eqn:Et.
    2:{ inversion H; subst vis'. split; [apply incl_refl|]. split; [right; exact Et|]. intros x Hx Hn. apply mem_in in Hx. congruence. }
    fold (step fuel) in H.
    (* the fold over the fields of tn, started with tn marked *)
    assert (HF : forall fs v0 v', fold_left (step fuel) fs (Ok v0) = Ok v' ->
              incl v0 v' /\
              (forall f, In f fs -> is_ns_type s (ty_name (fd_ty f)) = true -> ty_nn (fd_ty f) = true /\ In (ty_name (fd_ty f)) v') /\
              (forall x, In x v' -> mem x v0 = false -> Checked x /\ Closed x v')).
    { induction fs as [|f fs IHf]; intros v0 v' Hfold; simpl in Hfold.
      - inversion Hfold; subst v'. split; [apply incl_refl|]. split; [intros f []|]. intros x Hx Hn. apply mem_in in Hx. congruence.
      - destruct (is_ns_type s (ty_name (fd_ty f))) eqn:Ens.
        + destruct (ty_nn (fd_ty f)) eqn:Enn; [|rewrite fold_err in Hfold; discriminate].
          destruct (ns_links fuel s v0 (ty_name (fd_ty f))) as [v1|m] eqn:E1; [|rewrite fold_err in Hfold; discriminate].
          destruct (IH _ _ _ E1) as [Hi1 [Hin1 Hnew1]]. destruct (IHf _ _ Hfold) as [Hi2 [Hfs2 Hnew2]].
          split; [eapply incl_tran; eauto|]. split.
          * intros g [Hg|Hg] Hgn.
            -- subst g. split; [exact Enn|]. apply Hi2. destruct Hin1 as [Hin1|Hnone]; [exact Hin1|].
               destruct (ns_type_found _ Ens) as [t' Et']. congruence.
            -- apply Hfs2; assumption.
          * intros x Hx Hn. destruct (mem x v1) eqn:Ex1.
            -- apply mem_in in Ex1. destruct (Hnew1 x Ex1 Hn) as [Hc Hcl]. split; [exact Hc|]. intros y g Hedge. apply Hi2. eapply Hcl; eauto.
            -- apply Hnew2; assumption.
        + destruct (IHf _ _ Hfold) as [Hi2 [Hfs2 Hnew2]]. split; [exact Hi2|]. split; [|exact Hnew2].
          intros g [Hg|Hg] Hgn; [subst g; congruence | apply Hfs2; assumption]. }
    destruct (HF _ _ _ H) as [Hi [Hfs Hnew]].
    split; [intros x Hx; apply Hi; right; exact Hx|]. split; [left; apply Hi; left; reflexivity|].
    intros x Hx Hn. destruct (String.eqb x tn) eqn:Ext.
    - apply String.eqb_eq in Ext; subst x. split.
      + intros y f [t' [Et' [Hf [Hns Hy]]]]. rewrite Et in Et'. inversion Et'; subst t'. apply (Hfs f Hf Hns).
      + intros y f [t' [Et' [Hf [Hns Hy]]]]. rewrite Et in Et'. inversion Et'; subst t' y. apply (Hfs f Hf Hns).
    - apply Hnew; [exact Hx|]. simpl. rewrite Ext. exact Hn.
  Qed.

  Theorem ns_root_checked r n : v_namespace_root s r = Ok tt -> r = Some n -> forall x, NsReachFrom n x -> Checked x.
  Proof.
    intros H Er x Hr. subst r. unfold v_namespace_root in H.
    destruct (ns_links (S (List.length (vs_types s))) s [] n) as [vis'|m] eqn:E; [|discriminate].
    destruct (ns_links_spec _ _ _ _ E) as [_ [Hn Hnew]].
    assert (Hin : In x vis' \/ find_type x (vs_types s) = None).
    { induction Hr as [|x y f Hr IHr Hedge]; [exact Hn|].
      destruct Hedge as [t [Et [Hf [Hns Hy]]]]. destruct IHr as [Hx|Hx]; [|congruence].
      left. destruct (Hnew x Hx eq_refl) as [_ Hcl]. apply (Hcl y f). exists t. auto. }
    destruct Hin as [Hin|Hnone]; [apply (Hnew x Hin eq_refl)|].
    intros y f [t [Et _]]. congruence.
  Qed.
End NsLinks.

Definition rule_namespace_links (s : vschema) : Prop :=
  forall r n, In r [vs_query s; vs_mutation s; vs_subscription s] -> r = Some n ->
  forall x y f, NsReachFrom s n x -> ns_edge s x y f -> ty_nn (fd_ty f) = true.

Theorem accepted_namespace_links s : validate s = Ok tt -> existsb obj_namespace (vs_types s) = true -> rule_namespace_links s.
Proof.
  intros Hacc Hex r n Hr Er x y f Hreach Hedge.
  destruct (acc_parts s Hacc) as [_ [_ [H _]]]. unfold v_namespace_objects in H. rewrite Hex in H. simpl in H.
  apply seq_ok in H. destruct H as [_ H]. apply seq_ok in H. destruct H as [_ H].
  apply seq_ok in H. destruct H as [Hq H]. apply seq_ok in H. destruct H as [Hm Hs].
  assert (Hroot : v_namespace_root s r = Ok tt).
  { simpl in Hr. destruct Hr as [Hr|[Hr|[Hr|[]]]]; subst r; assumption. }
  exact (ns_root_checked s r n Hroot Er x Hreach y f Hedge).
Qed.

(* ---------- accepted => the lookup table the executor consults has an entry for every boundary type of the service ---------- *)
Definition bf_step (m : list bfield) (f : fdef) : list bfield :=
  if negb (fd_boundary f) then m else
  let '(tn, arr) := match fd_ty f with TList e _ => (ty_name e, true) | t => (ty_name t, false) end in
  let arg := match fd_args f with a :: _ => ad_name a | [] => "" end in
  let entry := {| bf_type := tn; bf_field := fd_name f; bf_arg := arg; bf_array := arr |} in
  match find (fun b => String.eqb (bf_type b) tn) m with
  | Some _ => if arr then entry :: filter (fun b => negb (String.eqb (bf_type b) tn)) m else m
  | None => m ++ [entry]
  end.
Definition has_entry (tn : string) (m : list bfield) : Prop := exists b, In b m /\ bf_type b = tn.

Lemma bf_step_keeps tn m f : has_entry tn m -> has_entry tn (bf_step m f).
Proof.
  unfold has_entry. intros [b [Hb Ht]]. unfold bf_step. destruct (negb (fd_boundary f)); [exists b; auto|].
  destruct (match fd_ty f with TList e _ => (ty_name e, true) | t => (ty_name t, false) end) as [tn' arr].
  destruct (find (fun b0 => String.eqb (bf_type b0) tn') m) eqn:Ef.
  - destruct arr; [|exists b; auto]. destruct (String.eqb (bf_type b) tn') eqn:E.
    + apply String.eqb_eq in E. eexists. split; [apply in_eq|]. simpl. congruence.
    + exists b. split; [right; apply filter_In; split; [exact Hb | rewrite E; reflexivity] | exact Ht].
  - exists b. split; [apply in_or_app; left; exact Hb | exact Ht].
Qed.
Lemma bf_step_adds m f : fd_boundary f = true -> has_entry (ty_name (fd_ty f)) (bf_step m f).
Proof.
  unfold has_entry. intros Hb. unfold bf_step. rewrite Hb. cbn [negb].
  destruct (fd_ty f) as [n nb|e nb]; cbn [ty_name].
  - destruct (find (fun b0 => String.eqb (bf_type b0) n) m) as [b|] eqn:Ef.
    + apply find_some in Ef. destruct Ef as [Hin He]. apply String.eqb_eq in He. exists b. auto.
    + eexists. split; [apply in_or_app; right; apply in_eq | reflexivity].
  - destruct (find (fun b0 => String.eqb (bf_type b0) (ty_name e)) m) as [b|] eqn:Ef.
    + eexists. split; [apply in_eq | reflexivity].
    + eexists. split; [apply in_or_app; right; apply in_eq | reflexivity].
Qed.
Lemma bf_fold_entry fs : forall m f, In f fs -> fd_boundary f = true -> has_entry (ty_name (fd_ty f)) (fold_left bf_step fs m).
Proof.
  induction fs as [|g fs IH]; intros m f Hin Hb; [destruct Hin|]. simpl. destruct Hin as [Hg|Hin].
  - subst g. clear IH. assert (H : has_entry (ty_name (fd_ty f)) (bf_step m f)) by (apply bf_step_adds; exact Hb).
    revert H. generalize (bf_step m f). induction fs as [|h fs IH2]; intros m' H; simpl; [exact H|]. apply IH2. apply bf_step_keeps. exact H.
  - apply IH; assumption.
Qed.

Theorem accepted_lookup_entries s url : validate s = Ok tt -> modern s ->
  forall t, In t (vs_types s) -> obj_boundary t = true -> vs_query s = Some "Query" ->
  exists m, boundary_fields_map [{| sv_url := url; sv_types := vs_types s |}] = [(url, m)] /\ has_entry (td_name t) m.
Proof.
  intros Hacc Hmod t Hin Hb Hq. unfold boundary_fields_map. simpl.
  destruct (accepted_service_field s Hacc) as [q [f0 [Eq _]]]. unfold query_type in Eq. rewrite Hq in Eq. rewrite Eq.
  eexists. split; [reflexivity|].
  assert (Eq' : query_type s = Some q) by (unfold query_type; rewrite Hq; exact Eq).
  destruct (accepted_lookups s Hacc Hmod q Eq') as [_ Hone]. specialize (Hone t Hin Hb).
  unfold lookups_of in Hone. destruct (filter (fun f => fd_boundary f && String.eqb (ty_name (fd_ty f)) (td_name t)) (td_fields q)) as [|f l] eqn:Ef; [discriminate|].
  assert (Hf : In f (filter (fun f => fd_boundary f && String.eqb (ty_name (fd_ty f)) (td_name t)) (td_fields q))) by (rewrite Ef; left; reflexivity).
  apply filter_In in Hf. destruct Hf as [Hfin Hfb]. apply andb_true_iff in Hfb. destruct Hfb as [Hfb Hfn]. apply String.eqb_eq in Hfn.
  rewrite <- Hfn. apply (bf_fold_entry (td_fields q) [] f Hfin Hfb).
Qed.

(* ---------- witnesses ---------- *)
Definition mkf (n : string) (args : list argd) (t : ty) (b : bool) : fdef :=
  {| fd_name := n; fd_args := args; fd_ty := t; fd_boundary := b; fd_deprecated := None; fd_desc := "" |}.
Definition mkt (n : string) (k : kind) (fs : list fdef) (ifs : list string) (b ns : bool) : tdef :=
  {| td_name := n; td_kind := k; td_fields := fs; td_ifaces := ifs; td_members := []; td_enum := []; td_boundary := b; td_namespace := ns; td_desc := "" |}.
Definition service_t : tdef :=
  mkt "Service" KObject [mkf "name" [] (TNamed "String" true) false; mkf "version" [] (TNamed "String" true) false; mkf "schema" [] (TNamed "String" true) false] [] false false.
Definition id_arg : argd := {| ad_name := "id"; ad_ty := TNamed "ID" true; ad_default := None |}.

Definition legacy_witness : vschema :=
  {| vs_types := [ mkt "Foo" KObject [mkf "id" [] (TNamed "ID" true) false; mkf "name" [] (TNamed "String" false) false] ["Node"] true false;
                   mkt "Node" KInterface [mkf "id" [] (TNamed "ID" true) false] [] false false;
                   mkt "Query" KObject [mkf "service" [] (TNamed "Service" true) false; mkf "node" [id_arg] (TNamed "Node" false) false] [] false false;
                   service_t ];
     vs_dirs := [ {| dd_name := "boundary"; dd_nargs := 0; dd_locations := ["OBJECT"] |} ];
     vs_query := Some "Query"; vs_mutation := None; vs_subscription := None; vs_valid_after_merge := true |}.
Lemma legacy_refuted :
  validate legacy_witness = Ok tt /\
  exists t, In t (vs_types legacy_witness) /\ obj_boundary t = true /\
            boundary_fields_map [{| sv_url := "u"; sv_types := vs_types legacy_witness |}] = [("u", [])].
Proof. split; [vm_compute; reflexivity|]. eexists. split; [left; reflexivity|]. split; vm_compute; reflexivity. Qed.

Definition modern_witness : vschema :=
  {| vs_types := [ mkt "Foo" KObject [mkf "id" [] (TNamed "ID" true) false; mkf "name" [] (TNamed "String" false) false] [] true false;
                   mkt "LoopA" KObject [mkf "toB" [] (TNamed "LoopB" true) false] [] false true;
                   mkt "LoopB" KObject [mkf "toA" [] (TNamed "LoopA" true) false] [] false true;
                   mkt "Query" KObject [mkf "service" [] (TNamed "Service" true) false; mkf "foo" [id_arg] (TNamed "Foo" false) true;
                                        mkf "loop" [] (TNamed "LoopA" true) false] [] false false;
                   service_t ];
     vs_dirs := [ {| dd_name := "boundary"; dd_nargs := 0; dd_locations := ["OBJECT"; "FIELD_DEFINITION"] |};
                  {| dd_name := "namespace"; dd_nargs := 0; dd_locations := ["OBJECT"] |} ];
     vs_query := Some "Query"; vs_mutation := None; vs_subscription := None; vs_valid_after_merge := true |}.
Lemma modern_example : validate modern_witness = Ok tt /\ modern modern_witness /\
  existsb obj_namespace (vs_types modern_witness) = true /\ existsb obj_boundary (vs_types modern_witness) = true.
Proof.
  split; [vm_compute; reflexivity|]. split; [|split; vm_compute; reflexivity].
  split; [vm_compute; reflexivity|]. intros q E. vm_compute in E. inversion E; subst q. vm_compute. reflexivity.
Qed.
