(* Proofs/ConcTermination.v — C13: Execute always terminates.  Every step of the transition system strictly decreases a
   measure (so every schedule is finite, with an explicit bound), and as long as main has not returned some step is
   enabled (no deadlock): together, every maximal schedule ends with main returned. *)
From Coq Require Import List Arith Bool Lia.
Import ListNotations.
From V Require Import Model.ConcExec.

Fixpoint w (s : stp) : nat :=
  match s with St _ c => 5 + (fix ws (l : list stp) : nat := match l with [] => 0 | x :: t => w x + ws t end) c end.
Fixpoint ws (l : list stp) : nat := match l with [] => 0 | x :: t => w x + ws t end.
Lemma w_unfold i c : w (St i c) = 5 + ws c.
Proof. reflexivity. Qed.

Definition phase_w (p : gphase) : nat := match p with GStart _ => 4 | GRequest => 3 | GSend _ => 2 | GSpawn _ => 1 end.
Definition gw (g : gor) : nat := phase_w (g_phase g) + ws (kids (g_step g)).
Fixpoint gsw (l : list gor) : nat := match l with [] => 0 | g :: t => gw g + gsw t end.
Definition mainw (m : mainpc) : nat :=
  match m with
  | MSpawnRoots rest => ws rest + List.length rest + 5
  | MStartCollector => 4 | MWait => 3 | MClose => 2 | MJoin => 1 | MReturned _ => 0
  end.
Definition mu (st : state) : nat := mainw (main st) + gsw (gs st).

Lemma gsw_app a b : gsw (a ++ b) = gsw a + gsw b.
Proof. induction a as [|x t IH]; simpl; [reflexivity | rewrite IH; lia]. Qed.
Lemma ws_filter f l : ws (filter f l) <= ws l.
Proof. induction l as [|x t IH]; simpl; [lia|]. destruct (f x); simpl; lia. Qed.
Lemma kids_w s : ws (kids s) + 5 = w s.
Proof. destruct s as [i c]. rewrite w_unfold. simpl. lia. Qed.
Lemma gsw_spawned (l : list stp) p : gsw (map (fun c => {| g_step := c; g_phase := GStart true; g_parent := p |}) l) <= ws l.
Proof.
  induction l as [|c t IH]; [simpl; lia|]. cbn [map gsw ws]. unfold gw. cbn [g_phase g_step phase_w]. pose proof (kids_w c). lia.
Qed.
Lemma gsw_replace i l g new : nth_error l i = Some g -> gsw (replace_nth i l new) + gw g = gsw l + gsw new.
Proof.
  revert i. induction l as [|h t IH]; intros i H; [destruct i; discriminate|].
  destruct i as [|i]; simpl in *.
  - inversion H; subst. rewrite gsw_app. lia.
  - specialize (IH i H). lia.
Qed.

Section T.
  Variable fixed : bool.
  Variable max : nat.
  Variable o : oracle.

  Lemma fire_decreases st l st' : fire fixed max o st l = Some st' -> mu st' < mu st.
  Proof.
    destruct l as [|i]; simpl.
    - unfold fire_main, mu. destruct (main st) as [rest| | | | |b] eqn:Em.
      + destruct rest as [|r rest]; intros H; inversion H; subst; clear H; simpl; [lia|].
        rewrite gsw_app. simpl. unfold gw. simpl. pose proof (kids_w r). lia.
      + intros H; inversion H; subst; simpl; lia.
      + destruct (gs st) eqn:Eg; [|discriminate]. destruct (group_err st); [destruct fixed|]; intros H; inversion H; subst; simpl; lia.
      + intros H; inversion H; subst; simpl; lia.
      + destruct (coll st); try discriminate. intros H; inversion H; subst; simpl; lia.
      + discriminate.
    - unfold fire_gor, mu. destruct (nth_error (gs st) i) as [g|] eqn:En; [|discriminate].
      pose proof (gsw_replace i (gs st) g) as HR.
      destruct (g_phase g) as [[|]| |ok|ok] eqn:Ep.
      + destruct (Nat.ltb max (S (count st))); intros H; inversion H; subst; clear H; simpl;
          [specialize (HR [] En) | specialize (HR [{| g_step := g_step g; g_phase := GRequest; g_parent := g_parent g |}] En)];
          simpl in HR; unfold gw in HR; rewrite Ep in HR; simpl in HR; lia.
      + intros H; inversion H; subst; clear H; simpl.
        specialize (HR [{| g_step := g_step g; g_phase := GRequest; g_parent := g_parent g |}] En). simpl in HR. unfold gw in HR. rewrite Ep in HR. simpl in HR. lia.
      + intros H; inversion H; subst; clear H; simpl.
        match goal with |- context [replace_nth i (gs st) ?new] => specialize (HR new En) end.
        simpl in HR. unfold gw in HR. rewrite Ep in HR. simpl in HR. lia.
      + destruct (coll st); try discriminate. intros H; inversion H; subst; clear H; simpl.
        match goal with |- context [replace_nth i (gs st) ?new] => specialize (HR new En) end.
        simpl in HR. unfold gw in HR. rewrite Ep in HR. simpl in HR. lia.
      + intros H; inversion H; subst; clear H; simpl.
        match goal with |- context [replace_nth i (gs st) ?new] => specialize (HR new En); pose proof (gsw_spawned (if ok then filter (fun c => has_ids o (sid c)) (kids (g_step g)) else []) (Some (sid (g_step g)))) as HS end.
        unfold gw in HR at 1. rewrite Ep in HR. simpl in HR.
        assert (ws (if ok then filter (fun c => has_ids o (sid c)) (kids (g_step g)) else []) <= ws (kids (g_step g))) by (destruct ok; [apply ws_filter | simpl; lia]).
        lia.
  Qed.

  (* every schedule is finite: no more than [mu] steps from any state *)
  Theorem run_bounded ls : forall st st', run fixed max o ls st = Some st' -> List.length ls + mu st' <= mu st.
  Proof.
    induction ls as [|l t IH]; intros st st' H; simpl in H; [inversion H; simpl; lia|].
    destruct (fire fixed max o st l) as [s1|] eqn:E; [|discriminate].
    pose proof (fire_decreases _ _ _ E). specialize (IH _ _ H). simpl. lia.
  Qed.

  (* ---- no deadlock (repaired error path) ---- *)
  Definition PInv (st : state) : Prop :=
    (main st = MWait -> coll st = CRunning) /\ (main st = MJoin -> coll st = CDone).
End T.

Section P.
  Variable max : nat.
  Variable o : oracle.

  Lemma pinv_init roots : PInv (init roots).
  Proof. split; intros H; discriminate. Qed.

  Lemma pinv_step st l st' : PInv st -> fire true max o st l = Some st' -> PInv st'.
  Proof.
    intros [H1 H2] H. destruct l as [|i]; simpl in H.
    - unfold fire_main in H. destruct (main st) as [rest| | | | |b] eqn:Em.
      + destruct rest; inversion H; subst; split; simpl; intros; discriminate.
      + inversion H; subst; split; simpl; intros; [reflexivity | discriminate].
      + destruct (gs st); [|discriminate]. destruct (group_err st); inversion H; subst; split; simpl; intros; discriminate.
      + inversion H; subst; split; simpl; intros; [discriminate | reflexivity].
      + destruct (coll st); try discriminate. inversion H; subst; split; simpl; intros; discriminate.
      + discriminate.
    - unfold fire_gor in H. destruct (nth_error (gs st) i) as [g|]; [|discriminate].
      destruct (g_phase g) as [[|]| |ok|ok].
      + destruct (Nat.ltb max (S (count st))); inversion H; subst; split; simpl; auto.
      + inversion H; subst; split; simpl; auto.
      + inversion H; subst; split; simpl; auto.
      + destruct (coll st) eqn:Ec; try discriminate. inversion H; subst; split; simpl; auto.
      + inversion H; subst; split; simpl; auto.
  Qed.

  Lemma pinv_run ls : forall st st', PInv st -> run true max o ls st = Some st' -> PInv st'.
  Proof.
    induction ls as [|l t IH]; intros st st' Hi H; simpl in H; [inversion H; subst; exact Hi|].
    destruct (fire true max o st l) as [s1|] eqn:E; [|discriminate]. eapply IH; [eapply pinv_step; eauto | exact H].
  Qed.

  Lemma progress st : PInv st -> (forall b, main st <> MReturned b) -> exists l st', fire true max o st l = Some st'.
  Proof.
    intros [H1 H2] Hn. destruct (main st) as [rest| | | | |b] eqn:Em.
    - exists LMain. simpl. unfold fire_main. rewrite Em. destruct rest; eauto.
    - exists LMain. simpl. unfold fire_main. rewrite Em. eauto.
    - destruct (gs st) as [|g t] eqn:Eg.
      + exists LMain. simpl. unfold fire_main. rewrite Em, Eg. destruct (group_err st); eauto.
      + exists (LGor 0). simpl. unfold fire_gor. rewrite Eg. simpl. rewrite (H1 eq_refl).
        destruct (g_phase g) as [[|]| |ok|ok]; try destruct (Nat.ltb max (S (count st))); eauto.
    - exists LMain. simpl. unfold fire_main. rewrite Em. eauto.
    - exists LMain. simpl. unfold fire_main. rewrite Em, (H2 eq_refl). eauto.
    - exfalso. apply (Hn b). reflexivity.
  Qed.

  (* Every schedule from the start is at most mu(init) steps long, and whenever main has not returned yet it can be extended:
     every maximal schedule ends with main returned. *)
  Theorem execute_terminates roots ls st : run true max o ls (init roots) = Some st ->
    List.length ls <= mu (init roots) /\ ((forall b, main st <> MReturned b) -> exists l st', fire true max o st l = Some st').
  Proof.
    intros H. split.
    - pose proof (run_bounded true max o ls _ _ H). lia.
    - apply progress. eapply pinv_run; [apply pinv_init | exact H].
  Qed.
End P.
