(* Proofs/RefreshProofs.v — C11: under the locking protocol every query reads all published tables from ONE generation,
   for every schedule; the service map, which is outside the lock, is not covered (refutation). *)
From V Require Import Base.Util Model.Refresh.

Lemma qget_set_same l q v : (match find (fun x => Nat.eqb (fst x) q) (qset l q v) with Some x => snd x | None => v end) = v.
Proof.
  induction l as [|[k x] t IH]; simpl; [rewrite Nat.eqb_refl; reflexivity|].
  destruct (Nat.eqb k q) eqn:E; simpl; rewrite E; [reflexivity | exact IH].
Qed.
Lemma find_set_other l q q' v : q' <> q ->
  find (fun x : nat * qstate => Nat.eqb (fst x) q') (qset l q v) = find (fun x => Nat.eqb (fst x) q') l.
Proof.
  intros Hne. induction l as [|[k x] t IH]; simpl.
  - destruct (Nat.eqb q q') eqn:E; [apply Nat.eqb_eq in E; congruence | reflexivity].
  - destruct (Nat.eqb k q) eqn:E; simpl.
    + apply Nat.eqb_eq in E. subst k. destruct (Nat.eqb q q') eqn:E2; [apply Nat.eqb_eq in E2; congruence | reflexivity].
    + destruct (Nat.eqb k q'); [reflexivity | exact IH].
Qed.
Lemma qget_with_same s q v : qget (with_q s q v) q = v.
Proof.
  unfold qget, with_q; cbn [qs]. pose proof (qget_set_same (qs s) q v) as H.
  destruct (find (fun x => Nat.eqb (fst x) q) (qset (qs s) q v)) as [x|] eqn:E; [exact H|].
  exfalso. clear H. induction (qs s) as [|[k x] t IH]; simpl in E; [rewrite Nat.eqb_refl in E; discriminate|].
  destruct (Nat.eqb k q) eqn:Ek; simpl in E; rewrite Ek in E; [discriminate | auto].
Qed.
Lemma qget_with_other s q q' v : q' <> q -> qget (with_q s q v) q' = qget s q'.
Proof. intros H. unfold qget, with_q; cbn [qs]. rewrite (find_set_other _ _ _ _ H). reflexivity. Qed.

Lemma nobody_reads_qget s : nobody_reads s = true -> forall q, q_holding (qget s q) = false.
Proof.
  unfold nobody_reads, qget. intros H q. destruct (find (fun x => Nat.eqb (fst x) q) (qs s)) as [x|] eqn:E; [|reflexivity].
  apply find_some in E. destruct E as [Hin _]. rewrite forallb_forall in H. specialize (H x Hin). apply negb_true_iff in H. exact H.
Qed.

Lemma set_nth_in l k v x : In x (set_nth l k v) -> x = v \/ In x l.
Proof.
  revert k. induction l as [|y t IH]; intros k H; simpl in H; [destruct k; destruct H|].
  destruct k as [|k]; simpl in H.
  - destruct H as [H|H]; [left; auto | right; right; exact H].
  - destruct H as [H|H]; [right; left; exact H|]. destruct (IH k H) as [H'|H']; [left; exact H' | right; right; exact H'].
Qed.

Definition TabsEq (s : st) : Prop := forall x y, In x (tabs s) -> In y (tabs s) -> x = y.
Definition Inv (s : st) : Prop :=
  (wr s = false -> TabsEq s) /\
  (wr s = true -> forall q, q_holding (qget s q) = false) /\
  (forall q, q_holding (qget s q) = true -> forall x y, In x (q_tabs (qget s q)) -> In y (tabs s) -> x = y) /\
  (forall q x y, In x (q_tabs (qget s q)) -> In y (q_tabs (qget s q)) -> x = y).

Lemma inv_init : Inv init.
Proof.
  split; [|split; [|split]].
  - intros _ x y Hx Hy. simpl in Hx, Hy. repeat (destruct Hx as [Hx|Hx]; [subst x|]); try destruct Hx;
      repeat (destruct Hy as [Hy|Hy]; [subst y; reflexivity|]); destruct Hy.
  - intros H; discriminate.
  - intros q H. unfold qget in H. simpl in H. discriminate.
  - intros q x y Hx. unfold qget in Hx. simpl in Hx. destruct Hx.
Qed.

Lemma inv_step s l s' : Inv s -> step s l = Some s' -> Inv s'.
Proof.
  intros [HA [HB [HC HD]]] Hs. destruct l as [q|q k|q|q| | |k|]; cbn [step] in Hs.
  - (* QLock *)
    destruct (wr s) eqn:Ew; [discriminate|]. destruct (q_holding (qget s q)); [discriminate|]. cbn [orb] in Hs. inversion Hs; subst s'; clear Hs.
    (split; [|split; [|split]]); cbn [with_q wr tabs].
    + intros _. exact (HA eq_refl).
    + intros H; congruence.
    + intros q' Hh x y Hx Hy. destruct (Nat.eq_dec q' q) as [->|Hne].
      * rewrite qget_with_same in Hx. destruct Hx.
      * rewrite qget_with_other in Hh, Hx by exact Hne. eapply HC; eauto.
    + intros q' x y Hx Hy. destruct (Nat.eq_dec q' q) as [->|Hne].
      * rewrite qget_with_same in Hx. destruct Hx.
      * rewrite qget_with_other in Hx, Hy by exact Hne. eapply HD; eauto.
  - (* QRead *)
    destruct (q_holding (qget s q)) eqn:Eh; [|discriminate]. destruct (Nat.ltb k (List.length (tabs s))) eqn:Ek; [|discriminate].
    cbn [andb] in Hs. inversion Hs; subst s'; clear Hs.
    assert (Ew : wr s = false). { destruct (wr s) eqn:E; [|reflexivity]. rewrite (HB eq_refl q) in Eh. discriminate. }
    assert (Hnew : In (nth k (tabs s) 0) (tabs s)) by (apply nth_In; apply Nat.ltb_lt; exact Ek).
    (split; [|split; [|split]]); cbn [with_q wr tabs].
    + exact HA.
    + intros H; congruence.
    + intros q' Hh x y Hx Hy. destruct (Nat.eq_dec q' q) as [->|Hne].
      * rewrite qget_with_same in Hx. cbn [q_tabs] in Hx. destruct Hx as [Hx|Hx]; [subst x; apply (HA Ew); assumption | eapply HC; eauto].
      * rewrite qget_with_other in Hh, Hx by exact Hne. eapply HC; eauto.
    + intros q' x y Hx Hy. destruct (Nat.eq_dec q' q) as [->|Hne].
      * rewrite qget_with_same in Hx, Hy. cbn [q_tabs] in Hx, Hy.
        destruct Hx as [Hx|Hx]; destruct Hy as [Hy|Hy]; subst.
        -- reflexivity.
        -- symmetry. eapply HC; eauto.
        -- eapply HC; eauto.
        -- eapply HD; eauto.
      * rewrite qget_with_other in Hx, Hy by exact Hne. eapply HD; eauto.
  - (* QReadSvc *)
    inversion Hs; subst s'; clear Hs. (split; [|split; [|split]]); cbn [with_q wr tabs].
    + exact HA.
    + intros H q'. destruct (Nat.eq_dec q' q) as [->|Hne]; [rewrite qget_with_same; cbn [q_holding]; apply HB; exact H | rewrite qget_with_other by exact Hne; apply HB; exact H].
    + intros q' Hh x y Hx Hy. destruct (Nat.eq_dec q' q) as [->|Hne].
      * rewrite qget_with_same in Hh, Hx. cbn [q_holding q_tabs] in Hh, Hx. eapply HC; eauto.
      * rewrite qget_with_other in Hh, Hx by exact Hne. eapply HC; eauto.
    + intros q' x y Hx Hy. destruct (Nat.eq_dec q' q) as [->|Hne].
      * rewrite qget_with_same in Hx, Hy. cbn [q_tabs] in Hx, Hy. eapply HD; eauto.
      * rewrite qget_with_other in Hx, Hy by exact Hne. eapply HD; eauto.
  - (* QUnlock *)
    destruct (q_holding (qget s q)) eqn:Eh; [|discriminate]. inversion Hs; subst s'; clear Hs. (split; [|split; [|split]]); cbn [with_q wr tabs].
    + exact HA.
    + intros H q'. destruct (Nat.eq_dec q' q) as [->|Hne]; [rewrite qget_with_same; reflexivity | rewrite qget_with_other by exact Hne; apply HB; exact H].
    + intros q' Hh x y Hx Hy. destruct (Nat.eq_dec q' q) as [->|Hne].
      * rewrite qget_with_same in Hh. discriminate.
      * rewrite qget_with_other in Hh, Hx by exact Hne. eapply HC; eauto.
    + intros q' x y Hx Hy. destruct (Nat.eq_dec q' q) as [->|Hne].
      * rewrite qget_with_same in Hx, Hy. cbn [q_tabs] in Hx, Hy. eapply HD; eauto.
      * rewrite qget_with_other in Hx, Hy by exact Hne. eapply HD; eauto.
  - (* WSvc *) inversion Hs; subst s'. split; [|split; [|split]]; assumption.
  - (* WLock *)
    destruct (wr s) eqn:Ew; [discriminate|]. destruct (nobody_reads s) eqn:En; [|discriminate]. cbn [orb negb] in Hs. inversion Hs; subst s'; clear Hs.
    (split; [|split; [|split]]); cbn [wr tabs].
    + intros H; discriminate.
    + intros _ q. exact (nobody_reads_qget s En q).
    + exact HC.
    + exact HD.
  - (* WWrite *)
    destruct (wr s) eqn:Ew; [|discriminate]. inversion Hs; subst s'; clear Hs. (split; [|split; [|split]]); cbn [wr tabs].
    + intros H; discriminate.
    + intros _ q. exact (HB eq_refl q).
    + intros q Hh. change (q_holding (qget s q) = true) in Hh. rewrite (HB eq_refl q) in Hh. discriminate.
    + exact HD.
  - (* WUnlock *)
    destruct (wr s) eqn:Ew; [|discriminate]. destruct (forallb (Nat.eqb (gen s)) (tabs s)) eqn:Ef; [|discriminate].
    cbn [andb] in Hs. inversion Hs; subst s'; clear Hs. (split; [|split; [|split]]); cbn [wr tabs].
    + intros _ x y Hx Hy. rewrite forallb_forall in Ef. pose proof (Ef x Hx) as H1. pose proof (Ef y Hy) as H2.
      apply Nat.eqb_eq in H1, H2. congruence.
    + intros H; discriminate.
    + intros q Hh. change (q_holding (qget s q) = true) in Hh. rewrite (HB eq_refl q) in Hh. discriminate.
    + exact HD.
Qed.

Lemma inv_run ls : forall s s', Inv s -> run s ls = Some s' -> Inv s'.
Proof.
  induction ls as [|l t IH]; intros s s' Hi Hr; simpl in Hr; [inversion Hr; subst; exact Hi|].
  destruct (step s l) as [s1|] eqn:E; [|discriminate]. eapply IH; [eapply inv_step; eauto | exact Hr].
Qed.

Theorem one_generation ls s : run init ls = Some s -> forall q x y, In x (q_tabs (qget s q)) -> In y (q_tabs (qget s q)) -> x = y.
Proof. intros Hr. destruct (inv_run ls init s inv_init Hr) as [_ [_ [_ HD]]]. exact HD. Qed.

(* the service map is replaced outside the lock: a query can see tables of generation 0 together with the service map of
   generation 1 (UpdateServiceList assigns s.Services before the poll; the tables follow after it) *)
Lemma service_map_refuted : exists ls s, run init ls = Some s /\ q_tabs (qget s 7) = [0; 0] /\ q_svc (qget s 7) = [1].
Proof. exists [QLock 7; QRead 7 0; WSvc; QReadSvc 7; QRead 7 2; QUnlock 7]. eexists. split; [vm_compute; reflexivity|]. split; reflexivity. Qed.

(* non-vacuity: a refresh does go through between two queries, and the second sees the new generation everywhere *)
Example refresh_example :
  exists s, run init [QLock 1; QRead 1 0; QUnlock 1; WLock; WWrite 0; WWrite 1; WWrite 2; WWrite 3; WUnlock; QLock 2; QRead 2 0; QRead 2 3] = Some s /\
            q_tabs (qget s 1) = [0] /\ q_tabs (qget s 2) = [1; 1].
Proof. eexists. split; [vm_compute; reflexivity|]. split; reflexivity. Qed.
