(* Proofs/IsolationProofs.v — the frame argument behind C12, for every interleaving of every set of in-place writes. *)
From V Require Import Base.Util Model.Isolation.

Lemma run_agree ws : forall h h' c, h c = h' c -> run h ws c = run h' ws c.
Proof.
  induction ws as [|w t IH]; intros h h' c H; simpl; [exact H|].
  apply IH. unfold write. destruct (Nat.eqb c (w_cell w)); [reflexivity | exact H].
Qed.

Lemma own_cells_as_alone o ws : disjoint o -> confined o ws ->
  forall h i c, o i c = true -> run h ws c = run h (only i ws) c.
Proof.
  intros Hd. induction ws as [|w t IH]; intros Hc h i c Hown; [reflexivity|].
  inversion Hc as [|? ? Hw Ht]; subst. simpl. destruct (Nat.eqb (w_req w) i) eqn:E.
  - simpl. apply IH; assumption.
  - rewrite (IH Ht _ i c Hown). apply run_agree. unfold write.
    destruct (Nat.eqb c (w_cell w)) eqn:Ec; [|reflexivity].
    apply Nat.eqb_eq in Ec. subst c. exfalso. apply Nat.eqb_neq in E. apply E. apply (Hd _ _ _ Hw Hown).
Qed.

Lemma shared_cells_untouched o ws : confined o ws -> forall h c, shared o c -> run h ws c = h c.
Proof.
  induction ws as [|w t IH]; intros Hc h c Hs; [reflexivity|].
  inversion Hc as [|? ? Hw Ht]; subst. simpl. rewrite (IH Ht _ c Hs). unfold write.
  destruct (Nat.eqb c (w_cell w)) eqn:Ec; [|reflexivity].
  apply Nat.eqb_eq in Ec. subst c. rewrite (Hs (w_req w)) in Hw. discriminate.
Qed.

(* whatever request i reads - cells of its own copy or shared cells - after any interleaving of all requests' writes is what it
   reads after its own writes alone *)
Theorem isolation_frame o ws : disjoint o -> confined o ws ->
  forall h i cells, (forall c, In c cells -> o i c = true \/ shared o c) ->
  observe (run h ws) cells = observe (run h (only i ws)) cells.
Proof.
  intros Hd Hc h i cells Hr. unfold observe. apply map_ext_in. intros c Hin.
  destruct (Hr c Hin) as [Hown|Hs].
  - apply own_cells_as_alone with (o := o); assumption.
  - rewrite (shared_cells_untouched o ws Hc h c Hs).
    symmetry. apply (shared_cells_untouched o (only i ws)); [|exact Hs].
    unfold confined, only in *. rewrite Forall_forall in *. intros w Hw. apply filter_In in Hw. apply Hc. tauto.
Qed.

(* without the per-request copy two requests rewrite the same (cached) cell, and what one of them reads depends on the other *)
Lemma no_copy_refuted : exists ws h, observe (run h ws) [0] <> observe (run h (only 1 ws)) [0].
Proof.
  exists [ {| w_req := 1; w_cell := 0; w_val := 7 |}; {| w_req := 2; w_cell := 0; w_val := 9 |} ], (fun _ => 0).
  vm_compute. discriminate.
Qed.

Example frame_example :
  let o : owns := fun i c => Nat.eqb (c / 10) i in          (* request i owns cells 10i .. 10i+9; cell 0..9 are shared *)
  let ws := [ {| w_req := 1; w_cell := 11; w_val := 5 |}; {| w_req := 2; w_cell := 21; w_val := 6 |}; {| w_req := 1; w_cell := 12; w_val := 8 |} ] in
  confined o ws /\ observe (run (fun _ => 0) ws) [11; 12; 3] = [5; 8; 0].
Proof. split; [repeat constructor | vm_compute; reflexivity]. Qed.
