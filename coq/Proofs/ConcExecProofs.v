(* Proofs/ConcExecProofs.v — invariants of the Execute transition system. *)
From Coq Require Import List Arith Bool Lia.
Import ListNotations.
From V Require Import Model.ConcExec.

(* ---- refutation on the code as it is: limit 0, one root with one child ---- *)
Definition o1 := {| succeeds := fun _ => true; has_ids := fun _ => true |}.
Definition plan1 := [St 0 [St 1 []]].
Definition sched1 := [LMain; LMain; LMain; LGor 0; LGor 0; LGor 0; LGor 0; LGor 0; LMain].

Lemma released_refuted_before_fix :
  exists max o roots ls st, run false max o ls (init roots) = Some st /\ enabled_any false max o st = false /\ released st = false.
Proof. exists 0, o1, plan1, sched1. eexists. split; [vm_compute; reflexivity|]. split; vm_compute; reflexivity. Qed.

(* ---- on the repaired error path: every terminal reachable state has released everything ---- *)
Definition inv (st : state) : Prop :=
  (* the collector is running exactly between StartCollector and Close; no goroutine is alive once main passed Wait *)
  match main st with
  | MSpawnRoots _ | MStartCollector => coll st = CNotStarted
  | MWait => coll st = CRunning
  | MClose => coll st = CRunning /\ gs st = []
  | MJoin => coll st = CDone /\ gs st = []
  | MReturned _ => coll st = CDone /\ gs st = []
  end.

Lemma replace_nth_nil {A} i (l : list A) x : l = [] -> replace_nth i l x = [].
Proof. intros ->. destruct i; reflexivity. Qed.

Lemma fire_inv max o st l st' : inv st -> fire true max o st l = Some st' -> inv st'.
Proof.
  unfold inv. intros Hinv Hf. destruct l as [|i]; simpl in Hf.
  - unfold fire_main in Hf. destruct (main st) as [[|r rest]| | | | |b] eqn:Em; simpl in *.
    + inversion Hf; subst; simpl; auto.
    + inversion Hf; subst; simpl; auto.
    + inversion Hf; subst; simpl; auto.
    + destruct (gs st) eqn:Eg; [|discriminate]. destruct (group_err st); inversion Hf; subst; simpl; auto.
    + inversion Hf; subst; simpl. tauto.
    + destruct Hinv as [Hc Hg]. rewrite Hc in Hf. inversion Hf; subst; simpl; auto.
    + discriminate.
  - unfold fire_gor in Hf. destruct (nth_error (gs st) i) as [g|] eqn:En; [|discriminate].
    assert (Hne : gs st <> []) by (intro E; rewrite E in En; destruct i; discriminate).
    assert (Hmain : forall new cnt err res snt,
              inv {| gs := replace_nth i (gs st) new; coll := coll st; main := main st; count := cnt;
                     group_err := err; results := res; sent := snt |}).
    { intros. unfold inv; simpl. destruct (main st); auto; destruct Hinv as [? Hg]; contradiction. }
    destruct (g_phase g) as [[|]| |ok|ok]; simpl in Hf.
    + destruct (Nat.ltb _ _); inversion Hf; subst; apply Hmain.
    + inversion Hf; subst; apply Hmain.
    + inversion Hf; subst; apply Hmain.
    + destruct (coll st); inversion Hf; subst; apply Hmain.
    + inversion Hf; subst; apply Hmain.
Qed.

Lemma init_inv roots : inv (init roots).
Proof. reflexivity. Qed.

Lemma run_inv max o ls : forall st st', inv st -> run true max o ls st = Some st' -> inv st'.
Proof.
  induction ls as [|l t IH]; simpl; intros st st' Hi Hr.
  - inversion Hr; subst; auto.
  - destruct (fire true max o st l) as [st1|] eqn:Ef; [|discriminate]. eapply IH; [eapply fire_inv; eauto|eauto].
Qed.

(* a goroutine that is not blocked on the channel can always move; one blocked on the channel can move iff the collector runs *)
Lemma gor_enabled max o st i g :
  nth_error (gs st) i = Some g -> coll st = CRunning -> exists st', fire_gor max o st i = Some st'.
Proof.
  intros En Hc. unfold fire_gor. rewrite En. destruct (g_phase g) as [[|]| |ok|ok]; simpl; rewrite ?Hc; eauto.
  destruct (Nat.ltb _ _); eauto.
Qed.

Lemma released_fixed max o roots ls st :
  run true max o ls (init roots) = Some st -> enabled_any true max o st = false -> released st = true.
Proof.
  intros Hr Hen. pose proof (run_inv _ _ _ _ _ (init_inv roots) Hr) as Hi.
  unfold enabled_any in Hen. destruct (fire_main true st) as [?|] eqn:Em; [discriminate|].
  assert (Hall : forall i, i < List.length (gs st) -> fire_gor max o st i = None).
  { intros i Hlt. destruct (fire_gor max o st i) eqn:E'; auto. exfalso.
    enough (existsb (fun i => match fire_gor max o st i with Some _ => true | None => false end)
                    (seq 0 (List.length (gs st))) = true) by congruence.
    apply existsb_exists. exists i. split; [apply in_seq; lia | rewrite E'; reflexivity]. }
  clear Hen. unfold inv in Hi. unfold released. unfold fire_main in Em.
  destruct (main st) as [[|r rest]| | | | |b] eqn:E; try discriminate.
  - (* MWait with live goroutines: one of them is enabled, contradiction *)
    destruct (gs st) as [|g t] eqn:Eg; [destruct (group_err st); discriminate|].
    exfalso. destruct (gor_enabled max o st 0 g) as [st' Hst']; [rewrite Eg; reflexivity|exact Hi|].
    rewrite Hall in Hst'; [discriminate|simpl; lia].
  - destruct Hi as [Hc Hg]. rewrite Hc in Em. discriminate.
  - destruct Hi as [Hc Hg]. rewrite Hc, Hg. reflexivity.
Qed.

(* ---- the request limit: lookup rounds actually sent never exceed max-requests-per-query ---- *)
Definition lim_inv (max : nat) (st : state) : Prop := sent st <= count st /\ sent st <= max.

Lemma fire_lim fixed max o st l st' : lim_inv max st -> fire fixed max o st l = Some st' -> lim_inv max st'.
Proof.
  unfold lim_inv. intros [H1 H2] Hf. destruct l as [|i]; simpl in Hf.
  - unfold fire_main in Hf. destruct (main st) as [[|r rest]| | | | |b]; simpl in *;
      try (inversion Hf; subst; simpl; auto; fail); try discriminate.
    + destruct (gs st); [|discriminate]. destruct (group_err st); [destruct fixed|]; inversion Hf; subst; simpl; auto.
    + destruct (coll st); inversion Hf; subst; simpl; auto.
  - unfold fire_gor in Hf. destruct (nth_error (gs st) i) as [g|]; [|discriminate].
    destruct (g_phase g) as [[|]| |ok|ok]; simpl in Hf.
    + destruct (Nat.ltb max (S (count st))) eqn:E; inversion Hf; subst; simpl.
      * split; lia.
      * apply Nat.ltb_ge in E. split; lia.
    + inversion Hf; subst; simpl; auto.
    + inversion Hf; subst; simpl; auto.
    + destruct (coll st); inversion Hf; subst; simpl; auto.
    + inversion Hf; subst; simpl; auto.
Qed.

Lemma run_lim fixed max o ls : forall st st', lim_inv max st -> run fixed max o ls st = Some st' -> lim_inv max st'.
Proof.
  induction ls as [|l t IH]; simpl; intros st st' Hi Hr.
  - inversion Hr; subst; auto.
  - destruct (fire fixed max o st l) as [st1|] eqn:Ef; [|discriminate]. eapply IH; [eapply fire_lim; eauto|eauto].
Qed.

Lemma sent_within_limit fixed max o roots ls st : run fixed max o ls (init roots) = Some st -> sent st <= max.
Proof.
  intros H. assert (Hi : lim_inv max (init roots)) by (unfold lim_inv; simpl; split; lia).
  apply (run_lim _ _ _ _ _ _ Hi H).
Qed.

(* ---- when the limit is hit the run ends in the error outcome: Execute returns no results ---- *)
Definition err_inv (max : nat) (st : state) : Prop :=
  (max < count st -> group_err st = true) /\ match main st with MReturned ok => ok = negb (group_err st) | _ => True end.

(* ---- causality (C06, mechanism 1): whatever the schedule, a step's result is collected only after the result of
   the step that spawned it — the results list handed to the merge is causally ordered ---- *)
Fixpoint causal (l : list (nat * option nat)) (seen : list nat) : Prop :=
  match l with
  | [] => True
  | (i, p) :: t => match p with Some q => In q seen | None => True end /\ causal t (i :: seen)
  end.
Definition causal_inv (st : state) : Prop :=
  (forall seen, (forall x, In x (map fst (results st)) -> In x seen) -> True) /\
  causal (results st) [] /\
  (* every live goroutine spawned by a step has that step's result already collected *)
  Forall (fun g => match g_parent g with Some q => In q (map fst (results st)) | None => True end) (gs st) /\
  (* a goroutine about to spawn has already delivered its own result *)
  Forall (fun g => match g_phase g with GSpawn _ => In (sid (g_step g)) (map fst (results st)) | _ => True end) (gs st).

Lemma causal_app l : forall seen x, causal l seen -> match snd x with Some q => In q (seen ++ map fst l) | None => True end ->
  causal (l ++ [x]) seen.
Proof.
  induction l as [|[i p] t IH]; intros seen [j q] Hc Hx; simpl in *.
  - rewrite app_nil_r in Hx. split; [exact Hx | exact I].
  - destruct Hc as [Hp Hc]. split; [exact Hp|]. apply IH; [exact Hc|]. simpl.
    destruct q as [q|]; [|exact I]. apply in_app_iff in Hx. simpl in Hx. simpl. rewrite in_app_iff. tauto.
Qed.

Lemma Forall_replace_nth {A} (P : A -> Prop) i (l new : list A) : Forall P l -> Forall P new -> Forall P (replace_nth i l new).
Proof.
  revert l. induction i as [|i IH]; intros l Hl Hn; destruct l as [|h t]; simpl; auto.
  - inversion Hl; subst. apply Forall_app. split; assumption.
  - inversion Hl; subst. constructor; auto.
Qed.

Lemma Forall_mono_results {A} (P Q : A -> Prop) (l : list A) : (forall x, P x -> Q x) -> Forall P l -> Forall Q l.
Proof. intros H HF. eapply Forall_impl; eauto. Qed.

Lemma fire_causal fixed max o st l st' : causal_inv st -> fire fixed max o st l = Some st' -> causal_inv st'.
Proof.
  unfold causal_inv. intros [_ [Hc [Hp Hs]]] Hf. split; [intros; exact I|]. destruct l as [|i]; simpl in Hf.
  - unfold fire_main in Hf. destruct (main st) as [[|r rest]| | | | |b]; simpl in *; try discriminate;
      try (inversion Hf; subst; simpl; auto; fail).
    + inversion Hf; subst; simpl. split; [exact Hc|]. split; apply Forall_app; split; auto; constructor; simpl; auto.
    + destruct (gs st) eqn:Eg; [|discriminate]. destruct (group_err st); [destruct fixed|]; inversion Hf; subst; simpl; auto.
    + destruct (coll st); inversion Hf; subst; simpl; auto.
  - unfold fire_gor in Hf. destruct (nth_error (gs st) i) as [g|] eqn:En; [|discriminate].
    assert (Hgp : match g_parent g with Some q => In q (map fst (results st)) | None => True end).
    { rewrite Forall_forall in Hp. apply Hp. eapply nth_error_In; eauto. }
    assert (Hgs : match g_phase g with GSpawn _ => In (sid (g_step g)) (map fst (results st)) | _ => True end).
    { rewrite Forall_forall in Hs. apply Hs. eapply nth_error_In; eauto. }
    destruct (g_phase g) as [[|]| |ok|ok] eqn:Eph; simpl in Hf.
    + destruct (Nat.ltb max (S (count st))); inversion Hf; subst; simpl; (split; [exact Hc|]); split;
        apply Forall_replace_nth; auto; constructor; simpl; auto.
    + inversion Hf; subst; simpl. split; [exact Hc|]. split; apply Forall_replace_nth; auto; constructor; simpl; auto.
    + inversion Hf; subst; simpl. split; [exact Hc|]. split; apply Forall_replace_nth; auto; constructor; simpl; auto.
    + destruct (coll st); inversion Hf; subst; simpl.
      split; [apply causal_app; [exact Hc | simpl; exact Hgp]|].
      split; apply Forall_replace_nth.
      * eapply Forall_impl; [|exact Hp]. intros a. cbv beta. destruct (g_parent a); [|auto]. rewrite map_app, in_app_iff. tauto.
      * constructor; [|constructor]. simpl. revert Hgp. destruct (g_parent g); [|auto]. rewrite map_app, in_app_iff. tauto.
      * eapply Forall_impl; [|exact Hs]. intros a. cbv beta. destruct (g_phase a); auto. rewrite map_app, in_app_iff. tauto.
      * constructor; [|constructor]. simpl. rewrite map_app, in_app_iff. simpl. tauto.
    + inversion Hf; subst; simpl. split; [exact Hc|]. split; apply Forall_replace_nth; auto.
      * apply Forall_forall. intros x Hx. apply in_map_iff in Hx. destruct Hx as [c [<- _]]. simpl. exact Hgs.
      * apply Forall_forall. intros x Hx. apply in_map_iff in Hx. destruct Hx as [c [<- _]]. simpl. exact I.
Qed.

Lemma run_causal fixed max o ls : forall st st', causal_inv st -> run fixed max o ls st = Some st' -> causal_inv st'.
Proof.
  induction ls as [|l t IH]; simpl; intros st st' Hi Hr.
  - inversion Hr; subst; auto.
  - destruct (fire fixed max o st l) as [st1|] eqn:Ef; [|discriminate]. eapply IH; [eapply fire_causal; eauto|eauto].
Qed.

Lemma results_causal fixed max o roots ls st : run fixed max o ls (init roots) = Some st -> causal (results st) [].
Proof.
  intros H. assert (Hi : causal_inv (init roots)) by (unfold causal_inv; simpl; repeat split; auto).
  apply (run_causal _ _ _ _ _ _ Hi H).
Qed.
