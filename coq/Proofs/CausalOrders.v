(* Proofs/CausalOrders.v — C06: from "every arrival order is causal" (Proofs/ConcExecProofs.v, all schedules) to "the pairs
   that two arrival orders have in opposite order are causally unrelated": neither result is an ancestor of the other in
   the spawning relation.  These are the pairs the merge-order theorem asks to be independent. *)
From Coq Require Import List Arith Bool Lia Permutation.
Import ListNotations.
From V Require Import Model.ConcExec Proofs.ConcExecProofs.

Definition cres := (nat * option nat)%type.     (* a collected result: the step's id and the id of the step that spawned it *)

Inductive bef {A} (x y : A) : list A -> Prop :=
| bef_here l : In y l -> bef x y (x :: l)
| bef_skip u l : bef x y l -> bef x y (u :: l).
Lemma bef_in {A} (x y : A) l : bef x y l -> In x l /\ In y l.
Proof. induction 1 as [l H|u l H [IH1 IH2]]; simpl; tauto. Qed.
Lemma bef_antisym {A} (x y : A) l : NoDup l -> bef x y l -> bef y x l -> False.
Proof.
  induction l as [|u t IH]; intros Hnd H1 H2; [inversion H1|]. inversion Hnd; subst.
  inversion H1; subst; inversion H2; subst.
  - auto.
  - match goal with HB : bef y u t |- _ => apply bef_in in HB; tauto end.
  - match goal with HB : bef x u t |- _ => apply bef_in in HB; tauto end.
  - eapply IH; eassumption.
Qed.
Lemma bef_trans {A} (x y z : A) l : NoDup l -> bef x y l -> bef y z l -> bef x z l.
Proof.
  induction l as [|u t IH]; intros Hnd H1 H2; [inversion H1|]. inversion Hnd; subst.
  inversion H1; subst.
  - inversion H2; subst; [contradiction|]. apply bef_here. match goal with HB : bef y z t |- _ => apply bef_in in HB; tauto end.
  - inversion H2; subst.
    + match goal with HB : bef x u t |- _ => apply bef_in in HB; tauto end.
    + apply bef_skip. eapply IH; eassumption.
Qed.

(* ancestors in the spawning relation recorded in the list *)
Inductive anc (l : list cres) : nat -> nat -> Prop :=
| anc_parent a b : In (b, Some a) l -> anc l a b
| anc_step a b c : anc l a b -> In (c, Some b) l -> anc l a c.
Lemma anc_perm l l' a b : Permutation l l' -> anc l a b -> anc l' a b.
Proof. intros Hp H. induction H; [apply anc_parent|eapply anc_step; [eassumption|]]; eapply Permutation_in; eassumption. Qed.

Lemma causal_parent_before l : forall seen a b, causal l seen -> In (b, Some a) l -> In a seen \/ exists pa, bef (a, pa) (b, Some a) l.
Proof.
  induction l as [|[i p] t IH]; intros seen a b Hc Hin; [destruct Hin|].
  simpl in Hc. destruct Hc as [Hp Hc]. destruct Hin as [Heq|Hin].
  - inversion Heq; subst. left. exact Hp.
  - destruct (IH (i :: seen) a b Hc Hin) as [[<-|Hs]|[pa Hb]].
    + right. exists p. apply bef_here. exact Hin.
    + left. exact Hs.
    + right. exists pa. apply bef_skip. exact Hb.
Qed.

Lemma nodup_ids (l : list cres) : NoDup (map fst l) -> NoDup l.
Proof.
  induction l as [|[i p] t IH]; intros H; [constructor|]. inversion H; subst. constructor; [|auto].
  intros Hin. match goal with HN : ~ In _ _ |- _ => apply HN end. change i with (fst (i, p)). apply in_map. exact Hin.
Qed.
Lemma same_id (l : list cres) (i : nat) (p q : option nat) : NoDup (map fst l) -> In (i, p) l -> In (i, q) l -> p = q.
Proof.
  induction l as [|[j r] t IH]; intros Hnd H1 H2; [destruct H1|]. inversion Hnd; subst.
  destruct H1 as [E1|H1]; destruct H2 as [E2|H2].
  - congruence.
  - inversion E1; subst. exfalso. match goal with HN : ~ In _ _ |- _ => apply HN end. change i with (fst (i, q)). apply in_map. exact H2.
  - inversion E2; subst. exfalso. match goal with HN : ~ In _ _ |- _ => apply HN end. change i with (fst (i, p)). apply in_map. exact H1.
  - eauto.
Qed.

(* in a causal order every ancestor's result comes before its descendant's *)
Lemma ancestors_precede l : causal l [] -> NoDup (map fst l) -> forall a b, anc l a b ->
  forall pa pb, In (a, pa) l -> In (b, pb) l -> bef (a, pa) (b, pb) l.
Proof.
  intros Hc Hnd a b H. induction H as [a b Hin|a b c H IH Hin]; intros pa pb Ha Hb.
  - destruct (causal_parent_before l [] a b Hc Hin) as [[]|[pa' Hbef]].
    pose proof (bef_in _ _ _ Hbef) as [Ha' _].
    rewrite (same_id l a pa pa' Hnd Ha Ha'). rewrite (same_id l b pb (Some a) Hnd Hb Hin). exact Hbef.
  - destruct (causal_parent_before l [] b c Hc Hin) as [[]|[pb' Hbef]].
    pose proof (bef_in _ _ _ Hbef) as [Hb' _].
    rewrite (same_id l c pb (Some b) Hnd Hb Hin).
    eapply bef_trans; [apply nodup_ids; exact Hnd|apply (IH pa pb' Ha Hb')|exact Hbef].
Qed.

(* two causal orders of the same results: a pair they have in opposite order is causally unrelated *)
Theorem inverted_pairs_unrelated l l' : causal l [] -> causal l' [] -> NoDup (map fst l) -> Permutation l l' ->
  forall x y, bef x y l -> bef y x l' -> ~ anc l (fst x) (fst y) /\ ~ anc l (fst y) (fst x).
Proof.
  intros Hc Hc' Hnd Hp [a pa] [b pb] H1 H2.
  assert (Hnd' : NoDup (map fst l')) by (eapply Permutation_NoDup; [apply Permutation_map; exact Hp|exact Hnd]).
  pose proof (bef_in _ _ _ H1) as [Hx Hy]. pose proof (bef_in _ _ _ H2) as [Hy' Hx'].
  split; intros Ha; cbn [fst] in Ha.
  - apply (anc_perm _ _ _ _ Hp) in Ha. pose proof (ancestors_precede l' Hc' Hnd' a b Ha pa pb Hx' Hy') as Hb.
    eapply (bef_antisym _ _ l' (nodup_ids _ Hnd')); eassumption.
  - pose proof (ancestors_precede l Hc Hnd b a Ha pb pa Hy Hx) as Hb.
    eapply (bef_antisym _ _ l (nodup_ids _ Hnd)); eassumption.
Qed.

(* with the schedule theorem: any two executions of the same plan *)
Corollary any_two_schedules fixed max o roots ls ls' st st' :
  run fixed max o ls (init roots) = Some st -> run fixed max o ls' (init roots) = Some st' ->
  NoDup (map fst (results st)) -> Permutation (results st) (results st') ->
  forall x y, bef x y (results st) -> bef y x (results st') ->
  ~ anc (results st) (fst x) (fst y) /\ ~ anc (results st) (fst y) (fst x).
Proof.
  intros H H' Hnd Hp. apply inverted_pairs_unrelated; try assumption.
  - eapply results_causal; eassumption.
  - eapply results_causal; eassumption.
Qed.
