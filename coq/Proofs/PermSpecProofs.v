(* Proofs/PermSpecProofs.v — C03: auth.go's filterFields (Model/PermFilter.v) IS the specification (Model/PermSpec.v): the same
   selection survives and exactly the removed fields are reported, each with its path. *)
From V Require Import Base.Util Base.Assoc Gql.Ast Model.Perm Model.PermFilter Model.PermSpec Proofs.PermProofs.

(* [a] is the permission node found at [p] below [root] by descending through nodes that are not allow-all *)
Inductive at_path (root : af) : list string -> af -> Prop :=
 | AP_root : at_path root [] root
 | AP_step : forall p a n a', at_path root p a -> af_all a = false -> lookup n (af_subs a) = Some a' -> at_path root (p ++ [n]) a'.

Lemma allows_cons a n q : allows a (n :: q) = if af_all a then true else match lookup n (af_subs a) with Some a' => allows a' q | None => false end.
Proof. destruct a as [all subs]. simpl. destruct all; reflexivity. Qed.

Lemma at_path_allows root p a : at_path root p a -> forall q, allows root (p ++ q) = allows a q.
Proof.
  induction 1 as [|p a n a' Hp IH Hall Hl]; intros q; [reflexivity|].
  rewrite <- app_assoc. simpl. rewrite IH, allows_cons, Hall, Hl. reflexivity.
Qed.

(* no selection below __typename (gqlparser's validation guarantees it) *)
Fixpoint wf_sel (s : sel) : bool :=
  match s with
  | SField _ n _ _ _ oss => match oss with
                            | None => true
                            | Some ss => negb (String.eqb n "__typename") && forallb wf_sel ss end
  | SInline _ _ _ ss | SSpread _ _ _ _ ss => forallb wf_sel ss
  end.

(* below an allow-all node the specification keeps everything *)
Lemma spec_all root s : forall p, (forall q, allows root (p ++ q) = true) -> spec_filter root p s = ([s], []).
Proof.
  induction s as [al n args ds t|al n args ds t ss IH|tc ds en ss IH|f ds en tc ss IH] using sel_ind'; intros p Hall; cbn [spec_filter].
  - destruct (meta_field n); [reflexivity|]. rewrite (Hall [n]), orb_true_r. reflexivity.
  - destruct (meta_field n); [reflexivity|]. rewrite (Hall [n]), orb_true_r.
    assert (Hgo : (fix go (l : list sel) : list sel * list (list string) :=
                     match l with [] => ([], []) | x :: r => let '(k1, n1) := spec_filter root (p ++ [n]) x in let '(k2, n2) := go r in (k1 ++ k2, n1 ++ n2) end) ss = (ss, [])).
    { induction ss as [|x r IHr]; [reflexivity|]. inversion IH as [|? ? Hx Hr]; subst.
      rewrite (Hx (p ++ [n])); [|intros q; rewrite <- app_assoc; apply Hall]. rewrite (IHr Hr). reflexivity. }
    rewrite Hgo. reflexivity.
  - assert (Hgo : (fix go (l : list sel) : list sel * list (list string) :=
                     match l with [] => ([], []) | x :: r => let '(k1, n1) := spec_filter root p x in let '(k2, n2) := go r in (k1 ++ k2, n1 ++ n2) end) ss = (ss, [])).
    { induction ss as [|x r IHr]; [reflexivity|]. inversion IH as [|? ? Hx Hr]; subst. rewrite (Hx p Hall), (IHr Hr). reflexivity. }
    rewrite Hgo. reflexivity.
  - assert (Hgo : (fix go (l : list sel) : list sel * list (list string) :=
                     match l with [] => ([], []) | x :: r => let '(k1, n1) := spec_filter root p x in let '(k2, n2) := go r in (k1 ++ k2, n1 ++ n2) end) ss = (ss, [])).
    { induction ss as [|x r IHr]; [reflexivity|]. inversion IH as [|? ? Hx Hr]; subst. rewrite (Hx p Hall), (IHr Hr). reflexivity. }
    rewrite Hgo. reflexivity.
Qed.

Section Equiv.
  Variable root : af.
  Variable pre : list string.          (* "query" / "mutation" / "subscription" *)
  Definition render (e : list (list string)) : list string := map (fun q => sconcat "." (pre ++ q)) e.

  Lemma render_app a b : render (a ++ b) = render a ++ render b.
  Proof. apply map_app. Qed.

  Theorem filter_is_spec s : forall p a, at_path root p a -> af_all a = false -> wf_sel s = true ->
    filter_sel (pre ++ p) a s = (fst (spec_filter root p s), render (snd (spec_filter root p s))).
  Proof.
    induction s as [al n args ds t|al n args ds t ss IH|tc ds en ss IH|f ds en tc ss IH] using sel_ind'; intros p a Hp Ha Hwf;
      cbn [filter_sel spec_filter].
    - (* leaf *)
      unfold is_allowed, meta_field. destruct (String.eqb n "__schema" || String.eqb n "__type") eqn:Em; [reflexivity|].
      destruct (String.eqb n "__typename") eqn:Et; [reflexivity|]. cbn [orb].
      rewrite (at_path_allows _ _ _ Hp [n]), allows_cons, Ha.
      destruct (lookup n (af_subs a)) as [sub|]; [destruct (af_all sub); destruct sub; reflexivity|].
      cbn [fst snd render map]. rewrite app_assoc. reflexivity.
    - unfold is_allowed, meta_field. destruct (String.eqb n "__schema" || String.eqb n "__type") eqn:Em; [reflexivity|].
      cbn [wf_sel] in Hwf. apply andb_true_iff in Hwf. destruct Hwf as [Hnt Hwf]. apply negb_true_iff in Hnt. rewrite Hnt. cbn [orb].
      rewrite (at_path_allows _ _ _ Hp [n]), allows_cons, Ha.
      destruct (lookup n (af_subs a)) as [sub|] eqn:El; [|cbn [fst snd render map]; rewrite app_assoc; reflexivity].
      assert (Hsub_allows : allows sub [] = true) by (destruct sub; reflexivity). rewrite Hsub_allows.
      assert (Hp' : at_path root (p ++ [n]) sub) by (eapply AP_step; eauto).
      destruct (af_all sub) eqn:Es.
      + (* everything below is allowed: the code returns the node untouched, the specification rebuilds it unchanged *)
        assert (Hall : forall q, allows root ((p ++ [n]) ++ q) = true).
        { intros q. rewrite (at_path_allows _ _ _ Hp' q). destruct sub as [b sl]. simpl in Es. subst b. destruct q; reflexivity. }
        assert (Hgo : (fix go (l : list sel) : list sel * list (list string) :=
                         match l with [] => ([], []) | x :: r => let '(k1, n1) := spec_filter root (p ++ [n]) x in let '(k2, n2) := go r in (k1 ++ k2, n1 ++ n2) end) ss = (ss, [])).
        { clear -Hall. induction ss as [|x r IHr]; [reflexivity|]. rewrite (spec_all root x (p ++ [n]) Hall), IHr. reflexivity. }
        rewrite Hgo. reflexivity.
      + assert (Hgo : forall l, Forall (fun s0 => forall p0 a0, at_path root p0 a0 -> af_all a0 = false -> wf_sel s0 = true ->
                                  filter_sel (pre ++ p0) a0 s0 = (fst (spec_filter root p0 s0), render (snd (spec_filter root p0 s0)))) l ->
                   forallb wf_sel l = true ->
                   (fix go (l : list sel) : list sel * list string :=
                      match l with [] => ([], []) | x :: r => let '(k1, e1) := filter_sel ((pre ++ p) ++ [n]) sub x in let '(k2, e2) := go r in (k1 ++ k2, e1 ++ e2) end) l
                   = (fst ((fix go (l : list sel) : list sel * list (list string) :=
                              match l with [] => ([], []) | x :: r => let '(k1, n1) := spec_filter root (p ++ [n]) x in let '(k2, n2) := go r in (k1 ++ k2, n1 ++ n2) end) l),
                      render (snd ((fix go (l : list sel) : list sel * list (list string) :=
                              match l with [] => ([], []) | x :: r => let '(k1, n1) := spec_filter root (p ++ [n]) x in let '(k2, n2) := go r in (k1 ++ k2, n1 ++ n2) end) l)))).
        { induction l as [|x r IHr]; intros HF Hw; [reflexivity|]. inversion HF as [|? ? Hx Hr]; subst.
          cbn [forallb] in Hw. apply andb_true_iff in Hw. destruct Hw as [Hwx Hwr].
          rewrite <- app_assoc. rewrite (Hx (p ++ [n]) sub Hp' Es Hwx). rewrite app_assoc. rewrite (IHr Hr Hwr).
          destruct (spec_filter root (p ++ [n]) x) as [k1 n1]. cbn [fst snd].
          match goal with |- context [let '(k2, n2) := ?G in _] => destruct G as [k2 n2] end. cbn [fst snd]. rewrite render_app. reflexivity. }
        rewrite (Hgo ss IH Hwf).
        match goal with |- context [let '(k, e) := ?G in _] => destruct G as [k e] end. reflexivity.
    - cbn [wf_sel] in Hwf.
      assert (Hgo : (fix go (l : list sel) : list sel * list string :=
                      match l with [] => ([], []) | x :: r => let '(k1, e1) := filter_sel (pre ++ p) a x in let '(k2, e2) := go r in (k1 ++ k2, e1 ++ e2) end) ss
                   = (fst ((fix go (l : list sel) : list sel * list (list string) :=
                              match l with [] => ([], []) | x :: r => let '(k1, n1) := spec_filter root p x in let '(k2, n2) := go r in (k1 ++ k2, n1 ++ n2) end) ss),
                      render (snd ((fix go (l : list sel) : list sel * list (list string) :=
                              match l with [] => ([], []) | x :: r => let '(k1, n1) := spec_filter root p x in let '(k2, n2) := go r in (k1 ++ k2, n1 ++ n2) end) ss)))).
      { revert Hwf. induction ss as [|x r IHr]; intros Hw; [reflexivity|]. inversion IH as [|? ? Hx Hr]; subst.
        cbn [forallb] in Hw. apply andb_true_iff in Hw. destruct Hw as [Hwx Hwr].
        rewrite (Hx p a Hp Ha Hwx), (IHr Hr Hwr).
        destruct (spec_filter root p x) as [k1 n1]. cbn [fst snd].
        match goal with |- context [let '(k2, n2) := ?G in _] => destruct G as [k2 n2] end. cbn [fst snd]. rewrite render_app. reflexivity. }
      rewrite Hgo. match goal with |- context [let '(k, e) := ?G in _] => destruct G as [k e] end. reflexivity.
    - cbn [wf_sel] in Hwf.
      assert (Hgo : (fix go (l : list sel) : list sel * list string :=
                      match l with [] => ([], []) | x :: r => let '(k1, e1) := filter_sel (pre ++ p) a x in let '(k2, e2) := go r in (k1 ++ k2, e1 ++ e2) end) ss
                   = (fst ((fix go (l : list sel) : list sel * list (list string) :=
                              match l with [] => ([], []) | x :: r => let '(k1, n1) := spec_filter root p x in let '(k2, n2) := go r in (k1 ++ k2, n1 ++ n2) end) ss),
                      render (snd ((fix go (l : list sel) : list sel * list (list string) :=
                              match l with [] => ([], []) | x :: r => let '(k1, n1) := spec_filter root p x in let '(k2, n2) := go r in (k1 ++ k2, n1 ++ n2) end) ss)))).
      { revert Hwf. induction ss as [|x r IHr]; intros Hw; [reflexivity|]. inversion IH as [|? ? Hx Hr]; subst.
        cbn [forallb] in Hw. apply andb_true_iff in Hw. destruct Hw as [Hwx Hwr].
        rewrite (Hx p a Hp Ha Hwx), (IHr Hr Hwr).
        destruct (spec_filter root p x) as [k1 n1]. cbn [fst snd].
        match goal with |- context [let '(k2, n2) := ?G in _] => destruct G as [k2 n2] end. cbn [fst snd]. rewrite render_app. reflexivity. }
      rewrite Hgo. match goal with |- context [let '(k, e) := ?G in _] => destruct G as [k e] end. reflexivity.
  Qed.
End Equiv.
