(* Proofs/ConfigProofs.v — C20: a reload that is accepted puts in effect what a fresh start computes, for every earlier
   history (any state the earlier edits left), every file and environment; an edit that is refused changes nothing in effect.
   The list of federated services comes out of a Go map: it is compared as a set, and shown duplicate-free. *)
From V Require Import Base.Util Base.Assoc Model.Config.

Definition same_set (a b : list string) : Prop := forall x, In x a <-> In x b.
Definition same_effect (a b : cstate) : Prop :=
  same_set (cs_eff a) (cs_eff b) /\ cs_roles a = cs_roles b /\ cs_keys a = cs_keys b.

Lemma dedupe_in y l : In y (dedupe_str l) <-> In y l.
Proof.
  induction l as [|z r IH]; simpl; [tauto|]. destruct (mem z r) eqn:E; simpl.
  - rewrite IH. split; [tauto|]. intros [H|H]; [subst; apply mem_in; exact E | exact H].
  - rewrite IH. tauto.
Qed.
Lemma dedupe_nodup' l : NoDup (dedupe_str l).
Proof.
  induction l as [|x t IH]; simpl; [constructor|]. destruct (mem x t) eqn:E; [exact IH|].
  constructor; [|exact IH]. intros Hin. apply (proj1 (dedupe_in _ _)) in Hin. apply (proj2 (mem_in _ _)) in Hin. congruence.
Qed.
Lemma union_set_in a b x : In x (union_set a b) <-> In x a \/ In x b.
Proof. unfold union_set. rewrite dedupe_in, in_app_iff. tauto. Qed.
Lemma union_set_nodup a b : NoDup (union_set a b).
Proof. apply dedupe_nodup'. Qed.
Lemma same_set_refl a : same_set a a.
Proof. intros x; tauto. Qed.
Local Opaque union_set.

(* After ANY history (whatever state [st] the earlier edits left behind), a reload that is accepted puts in effect exactly
   what a freshly started gateway computes from the same file and environment, services contributed by plugins included —
   provided the in-memory poll interval is parseable or the file sets it (guard of the finding KF-stale-config-scalar). *)
Theorem reload_equals_restart : forall env st f,
  (cs_poll_ok st = true \/ f_poll f <> None) ->
  snd (load true true env st f) = true ->
  exists fr, fresh true true env f = Some fr /\ same_effect (reload true true env st f) fr /\
             NoDup (cs_eff (reload true true env st f)) /\ NoDup (cs_eff fr).
Proof.
  intros env st f Hg Hok. unfold fresh, reload, load in *. cbn [cs_poll_ok zero] in *.
  destruct (f_loadable f); cbn [negb orb] in *; [|discriminate].
  assert (Hp : match f_poll f with Some b => b | None => cs_poll_ok st end = match f_poll f with Some b => b | None => true end).
  { destruct (f_poll f) as [b|]; [reflexivity|]. destruct Hg as [Hg|Hg]; [exact Hg | contradiction]. }
  rewrite Hp in *. destruct (match f_poll f with Some b => b | None => true end); cbn [negb] in *; [|discriminate].
  destruct (union_set (match f_services f with Some l => l | None => [] end) env) eqn:Eu; cbn in *; [discriminate|].
  eexists. split; [reflexivity|]. cbn. split; [|split; apply union_set_nodup].
  split; [|split; reflexivity].
  intros x. cbn [cs_eff cs_mem cs_plug]. rewrite !union_set_in. tauto.
Qed.

(* An edit that cannot be loaded leaves what is in effect untouched, whatever the previous state. *)
Theorem failed_edit_keeps_config : forall fixed pfixed env st f,
  snd (load fixed pfixed env st f) = false -> same_effect (reload fixed pfixed env st f) st.
Proof.
  intros fixed pfixed env st f H. unfold reload. destruct (load fixed pfixed env st f) as [st' ok] eqn:E. simpl in H. subst ok.
  unfold load in E.
  destruct (negb (f_loadable f) || negb (match f_poll f with Some b => b | None => cs_poll_ok st end)).
  - inversion E; subst. repeat split; cbn; tauto.
  - destruct (if pfixed then _ else _); inversion E; subst. repeat split; cbn; tauto.
Qed.

(* ... and does not stop a later valid edit from being applied: the services, roles and keys in effect after an accepted
   reload do not depend on the state the history left (same guard). *)
Theorem accepted_reload_forgets_history : forall env st1 st2 f,
  (cs_poll_ok st1 = true \/ f_poll f <> None) -> (cs_poll_ok st2 = true \/ f_poll f <> None) ->
  snd (load true true env st1 f) = true ->
  snd (load true true env st2 f) = true /\ same_effect (reload true true env st1 f) (reload true true env st2 f).
Proof.
  intros env st1 st2 f H1 H2 Hok.
  assert (Hp : forall st, (cs_poll_ok st = true \/ f_poll f <> None) ->
            match f_poll f with Some b => b | None => cs_poll_ok st end = match f_poll f with Some b => b | None => true end).
  { intros st Hg. destruct (f_poll f) as [b|]; [reflexivity|]. destruct Hg as [Hg|Hg]; [exact Hg | contradiction]. }
  unfold reload, load in *. rewrite (Hp st1 H1) in *. rewrite (Hp st2 H2).
  destruct (negb (f_loadable f) || negb (match f_poll f with Some b => b | None => true end)); cbn in *; [discriminate|].
  destruct (union_set (match f_services f with Some l => l | None => [] end) env) eqn:Eu; cbn in *; [discriminate|].
  split; [reflexivity|]. repeat split; cbn; tauto.
Qed.

(* ---------- whole histories ---------- *)
Definition poll_ok_file (f : file) : bool := match f_poll f with Some false => false | _ => true end.
Definition accepts (env : list string) (f : file) : bool :=
  f_loadable f && match union_set (match f_services f with Some l => l | None => [] end) env with [] => false | _ => true end.
Definition run (env : list string) (st : cstate) (fs : list file) : cstate := fold_left (reload true true env) fs st.
Definition last_accepted (env : list string) (fs : list file) : option file := find (accepts env) (rev fs).

Lemma same_effect_refl a : same_effect a a.
Proof. repeat split; intros; tauto. Qed.
Lemma same_effect_trans a b c : same_effect a b -> same_effect b c -> same_effect a c.
Proof.
  intros [H1 [H2 H3]] [H4 [H5 H6]]. repeat split; try congruence.
  - intros Hx. apply H4, H1, Hx.
  - intros Hx. apply H1, H4, Hx.
Qed.

(* under the guard (no edit writes an invalid poll interval), whether an edit is accepted depends on the file and the
   environment only, never on the state the history left; and the in-memory interval stays parseable *)
Lemma load_verdict env st f : cs_poll_ok st = true -> poll_ok_file f = true ->
  snd (load true true env st f) = accepts env f /\ cs_poll_ok (fst (load true true env st f)) = true.
Proof.
  intros Hp Hf. unfold load, accepts, poll_ok_file in *.
  assert (Hpoll : match f_poll f with Some b => b | None => cs_poll_ok st end = true).
  { destruct (f_poll f) as [[|]|]; [reflexivity|discriminate|exact Hp]. }
  rewrite Hpoll. destruct (f_loadable f); cbn [negb orb andb fst snd cs_poll_ok]; [|split; reflexivity].
  destruct (union_set (match f_services f with Some l => l | None => [] end) env); cbn [fst snd cs_poll_ok]; split; auto.
Qed.
Lemma reload_poll_ok env st f : cs_poll_ok st = true -> poll_ok_file f = true -> cs_poll_ok (reload true true env st f) = true.
Proof.
  intros Hp Hf. destruct (load_verdict env st f Hp Hf) as [_ Hk]. unfold reload.
  destruct (load true true env st f) as [st' ok]. cbn [fst] in Hk. destruct ok; cbn [cs_poll_ok]; exact Hk.
Qed.

(* After ANY history of edits none of which writes an invalid poll interval (guard of KF-stale-config-scalar), what the
   running gateway has in effect is what a fresh start computes from the LAST edit that could be loaded - whatever came
   before or after it, refused edits included - and the start configuration when none could. *)
Theorem history_equals_restart env : forall fs st,
  cs_poll_ok st = true -> forallb poll_ok_file fs = true ->
  cs_poll_ok (run env st fs) = true /\
  match last_accepted env fs with
  | Some f => exists fr, fresh true true env f = Some fr /\ same_effect (run env st fs) fr
  | None => same_effect (run env st fs) st
  end.
Proof.
  induction fs as [|f fs IH] using rev_ind; intros st Hp Hall.
  - cbn. split; [exact Hp|apply same_effect_refl].
  - rewrite forallb_app in Hall. apply andb_prop in Hall. destruct Hall as [Hfs Hf]. cbn in Hf. rewrite andb_true_r in Hf.
    destruct (IH st Hp Hfs) as [Hk IHe]. unfold run in *. rewrite fold_left_app. cbn [fold_left].
    set (s := fold_left (reload true true env) fs st) in *.
    split; [apply reload_poll_ok; assumption|].
    unfold last_accepted in *. rewrite rev_unit. cbn [find].
    destruct (load_verdict env s f Hk Hf) as [Hv _].
    destruct (accepts env f) eqn:Ea.
    + destruct (reload_equals_restart env s f (or_introl Hk) Hv) as [fr [Hfr [He _]]]. exists fr. split; assumption.
    + pose proof (failed_edit_keeps_config true true env s f Hv) as Hkeep.
      destruct (find (accepts env) (rev fs)) as [g|].
      * destruct IHe as [fr [Hfr He]]. exists fr. split; [assumption|eapply same_effect_trans; eassumption].
      * eapply same_effect_trans; eassumption.
Qed.
