(* Proofs/PermProofs.v — lemmas behind Properties/C18.v *)
From V Require Import Base.Util Base.Assoc Model.Perm.

(* representation invariant of a Go map: keys are unique, recursively *)
Inductive wf : af -> Prop :=
| wf_af all subs : NoDup (map fst subs) -> Forall (fun kv => wf (snd kv)) subs -> wf (AF all subs).

Section AfInd.
  Variable P : af -> Prop.
  Hypothesis H : forall all subs, Forall (fun kv => P (snd kv)) subs -> P (AF all subs).
  Fixpoint af_ind' (a : af) : P a :=
    match a with AF all subs =>
      H all subs ((fix go (l : list (string * af)) : Forall (fun kv => P (snd kv)) l :=
                     match l with [] => Forall_nil _ | kv :: t => Forall_cons _ (af_ind' (snd kv)) (go t) end) subs)
    end.
End AfInd.

Lemma fold_upsert_lookup (fs : list string) : forall (m : list (string * af)) k,
  lookup k (fold_left (fun m f => upsert f (fun _ => AF true []) m) fs m) =
  if existsb (String.eqb k) fs then Some (AF true []) else lookup k m.
Proof.
  induction fs as [|f t IH]; simpl; intros m k; [reflexivity|].
  rewrite IH, lookup_upsert. destruct (existsb (String.eqb k) t); [destruct (String.eqb k f); reflexivity|].
  destruct (String.eqb k f); reflexivity.
Qed.

Lemma all_strs_map (subs : list (string * af)) : all_strs (map (fun kv => PStr (fst kv)) subs) = Some (map fst subs).
Proof. induction subs as [|[k v] t IH]; simpl; [reflexivity|]. rewrite IH. reflexivity. Qed.

Lemma go_lookup (kvs : list (string * af)) :
  Forall (fun kv => exists a', unmarshal (marshal (snd kv)) af_zero = Some a' /\ forall p, allows a' p = allows (snd kv) p) kvs ->
  NoDup (map fst kvs) ->
  forall m, exists m',
    (fix go (kvs : list (string * pj)) (m : list (string * af)) : option af :=
       match kvs with
       | [] => Some (AF false m)
       | (k, v) :: t => match unmarshal v af_zero with Some a' => go t (upsert k (fun _ => a') m) | None => None end
       end) (map (fun kv => (fst kv, marshal (snd kv))) kvs) m = Some (AF false m') /\
    forall k, match lookup k kvs with
              | Some v => exists a', lookup k m' = Some a' /\ forall p, allows a' p = allows v p
              | None => lookup k m' = lookup k m
              end.
Proof.
  induction kvs as [|[k0 v0] t IH]; intros HF HN m; simpl.
  - exists m. split; [reflexivity|]. intros k; reflexivity.
  - inversion HF as [|? ? [a0 [Ha0 Hal0]] HF']; subst. inversion HN as [|? ? Hnin HN']; subst. simpl in *.
    rewrite Ha0. destruct (IH HF' HN' (upsert k0 (fun _ => a0) m)) as [m' [Hgo Hm']].
    exists m'. split; [exact Hgo|]. intros k. specialize (Hm' k).
    destruct (String.eqb k k0) eqn:E.
    + apply String.eqb_eq in E; subst k.
      rewrite (lookup_not_in k0 t Hnin) in Hm'. rewrite Hm', lookup_upsert, String.eqb_refl. eauto.
    + destruct (lookup k t); [exact Hm'|]. rewrite Hm', lookup_upsert, E. reflexivity.
Qed.

Lemma roundtrip a : wf a ->
  exists a', unmarshal (marshal a) af_zero = Some a' /\ forall p, allows a' p = allows a p.
Proof.
  induction a as [all subs IH] using af_ind'. intros Hwf. inversion Hwf as [? ? HN HW]; subst.
  destruct all.
  - simpl. eexists; split; [reflexivity|]. intros [|f p]; reflexivity.
  - cbn [marshal]. destruct (forallb (fun kv => af_all (snd kv)) subs) eqn:Eall; cbn [unmarshal af_subs].
    + rewrite all_strs_map. eexists; split; [reflexivity|]. intros [|f p]; [reflexivity|]. simpl.
      rewrite fold_upsert_lookup, lookup_in_keys. simpl.
      destruct (lookup f subs) as [v|] eqn:El; [|reflexivity].
      assert (af_all v = true) as Hv.
      { rewrite forallb_forall in Eall. apply lookup_some_in in El. apply (Eall (f, v) El). }
      destruct v as [allv sv]. simpl in Hv. subst allv. destruct p; reflexivity.
    + assert (HF : Forall (fun kv => exists a', unmarshal (marshal (snd kv)) af_zero = Some a' /\
                                                 forall p, allows a' p = allows (snd kv) p) subs).
      { clear -IH HW. induction subs as [|kv t IHt]; constructor; inversion IH; inversion HW; subst; auto. }
      destruct (go_lookup subs HF HN []) as [m' [Hgo Hm']]. simpl in Hgo. rewrite Hgo.
      eexists; split; [reflexivity|]. intros [|f p]; [reflexivity|]. simpl. specialize (Hm' f).
      destruct (lookup f subs) as [v|].
      * destruct Hm' as [a' [Hl Ha']]. rewrite Hl. apply Ha'.
      * rewrite Hm'. reflexivity.
Qed.

Lemma allows_all subs p : allows (AF true subs) p = true.
Proof. destruct p; reflexivity. Qed.

Lemma merge2_allows a : forall b p, wf a -> allows (merge2 a b) p = allows a p || allows b p.
Proof.
  induction a as [alla sa IH] using af_ind'. intros [allb sb] p Hwf. inversion Hwf as [? ? HN HW]; subst.
  destruct alla; simpl; [rewrite !allows_all; reflexivity|].
  destruct allb; simpl; [rewrite !allows_all, orb_true_r; reflexivity|].
  destruct p as [|f p]; [reflexivity|]. simpl.
  assert (G : forall l acc, Forall (fun kv => forall b p, wf (snd kv) -> allows (merge2 (snd kv) b) p = allows (snd kv) p || allows b p) l ->
                            NoDup (map fst l) -> Forall (fun kv => wf (snd kv)) l ->
            match lookup f ((fix go (l : list (string * af)) (acc : list (string * af)) :=
                       match l with [] => acc
                       | (k, v) :: t => go t (upsert k (fun o => match o with None => v | Some w => merge2 v w end) acc) end) l acc) with
            | Some r => allows r p
            | None => false
            end = (match lookup f l with Some v => allows v p | None => false end) ||
                  (match lookup f acc with Some w => allows w p | None => false end)).
  { induction l as [|[k v] t IHl]; intros acc HF HNl HWl; simpl; [reflexivity|].
    inversion HF as [|? ? Hv HF']; inversion HNl as [|? ? Hnin HNl']; inversion HWl as [|? ? Hwv HWl']; subst; simpl in *.
    rewrite IHl by assumption. rewrite lookup_upsert.
    destruct (String.eqb f k) eqn:E.
    - apply String.eqb_eq in E; subst k.
      rewrite (lookup_not_in f t Hnin). simpl.
      destruct (lookup f acc) as [w|]; [apply Hv; exact Hwv | rewrite orb_false_r; reflexivity].
    - reflexivity. }
  rewrite G by assumption. reflexivity.
Qed.

(* merge2 preserves the representation invariant (needed to iterate) *)
Lemma merge2_wf a : forall b, wf a -> wf b -> wf (merge2 a b).
Proof.
  induction a as [alla sa IH] using af_ind'. intros [allb sb] Ha Hb.
  inversion Ha as [? ? HNa HWa]; inversion Hb as [? ? HNb HWb]; subst.
  destruct alla; simpl; [constructor; [constructor|constructor]|].
  destruct allb; simpl; [constructor; [constructor|constructor]|].
  assert (G : forall l acc,
             Forall (fun kv => forall b, wf (snd kv) -> wf b -> wf (merge2 (snd kv) b)) l ->
             Forall (fun kv => wf (snd kv)) l ->
             NoDup (map fst acc) -> Forall (fun kv => wf (snd kv)) acc ->
             let r := (fix go (l : list (string * af)) (acc : list (string * af)) :=
                       match l with [] => acc
                       | (k, v) :: t => go t (upsert k (fun o => match o with None => v | Some w => merge2 v w end) acc) end) l acc in
             NoDup (map fst r) /\ Forall (fun kv => wf (snd kv)) r).
  { induction l as [|[k v] t IHl]; intros acc HF HWl HNacc HWacc; simpl; [split; assumption|].
    inversion HF as [|? ? Hv HF']; inversion HWl as [|? ? Hwv HWl']; subst; simpl in *.
    apply IHl; try assumption.
    - apply nodup_upsert; assumption.
    - clear -Hv Hwv HWacc. induction acc as [|[k1 w1] acc IHacc]; simpl.
      + constructor; [exact Hwv | constructor].
      + inversion HWacc as [|? ? Hw1 HWacc']; subst. destruct (String.eqb k k1); simpl.
        * constructor; [simpl; apply Hv; assumption | assumption].
        * constructor; [assumption | apply IHacc; assumption]. }
  destruct (G sa sb IH HWa HNb HWb) as [G1 G2]. constructor; assumption.
Qed.

Lemma fold_merge_allows (l : list af) : forall acc p, Forall wf l -> wf acc ->
  allows (fold_left (fun acc a => merge2 a acc) l acc) p = existsb (fun a => allows a p) l || allows acc p.
Proof.
  induction l as [|a t IH]; intros acc p HF Hacc; simpl; [reflexivity|].
  inversion HF as [|? ? Ha HF']; subst.
  rewrite IH; [|assumption|apply merge2_wf; assumption].
  rewrite merge2_allows by assumption. rewrite orb_assoc. f_equal. apply orb_comm.
Qed.

Lemma allows_zero p : allows af_zero p = match p with [] => true | _ => false end.
Proof. destruct p; reflexivity. Qed.

(* the union law for non-empty paths (the empty path is allowed by every tree, including the union of none) *)
Lemma merge_list_allows (l : list af) f p : Forall wf l ->
  allows (merge_list l) (f :: p) = existsb (fun a => allows a (f :: p)) l.
Proof.
  intros HF. unfold merge_list. destruct (existsb af_all l) eqn:E.
  - rewrite allows_all. symmetry. apply existsb_exists. apply existsb_exists in E. destruct E as [a [Hin Ha]].
    exists a. split; [exact Hin|]. destruct a as [al s]. simpl in Ha. subst. reflexivity.
  - rewrite fold_merge_allows; [|assumption|constructor; constructor].
    rewrite allows_zero, orb_false_r. reflexivity.
Qed.
