(* Proofs/ExecGatewayNamed.v — C05 at the level of the whole gateway model: every error of a downstream kind in the response
   names the service that failed. *)
From V Require Import Base.Util Gql.Ast Gql.RefExec Model.Plan Model.MergeRes Model.FormatDoc Model.Gateway Proofs.ExecProofs.
From V Require Import Model.Perm Model.SkipInclude Model.PermFilter Model.Shape.

Definition downstream_kind (k : ekind) : bool := match k with EDownstream | ETimeout | EOther => true | _ => false end.
Definition names_if_downstream (e : gerror) : Prop := downstream_kind (ge_kind e) = true -> ge_service e = true.

Lemma named_weaken l : Forall named l -> Forall names_if_downstream l.
Proof. intros H. eapply Forall_impl; [|exact H]. intros e He _. exact He. Qed.

Lemma fold_exec_root_named G W vars fuel steps : forall I a,
  fold_left (fun racc st => do a <- racc ;; exec_root G W vars fuel st a) steps I = Ok a ->
  (forall a0, I = Ok a0 -> Forall named (a_errors a0)) -> Forall named (a_errors a).
Proof.
  induction steps as [|st t IH]; intros I a H HI; cbn [fold_left] in H; [apply HI; exact H|].
  apply (IH _ _ H). intros a1 E1. destruct I as [a0|m]; cbn [rbind] in E1; [|discriminate].
  eapply exec_root_named; [exact E1 | apply HI; reflexivity].
Qed.

Theorem gateway_errors_named G fschema W op vars P max fuel oc :
  gateway G fschema W op vars P max fuel = Ok oc -> Forall names_if_downstream (r_errors (oc_response oc)).
Proof.
  unfold gateway. destruct (skip_include vars (o_sel op)) as [ss0|]; cbn [rbind]; [|discriminate].
  destruct (match P with
            | Some p => let '(o', e) := filter_operation p {| o_kind := o_kind op; o_name := o_name op; o_vardefs := o_vardefs op; o_sel := ss0 |} in (o_sel o', e)
            | None => (ss0, []) end) as [ss perm_errs].
  assert (Hint : names_if_downstream {| ge_kind := EInternal; ge_path := []; ge_service := false |}) by (intros H; discriminate).
  assert (Hperm : Forall names_if_downstream (map (fun m => {| ge_kind := EPerm; ge_path := [PName m]; ge_service := false |}) perm_errs)).
  { apply Forall_forall. intros e He. apply in_map_iff in He. destruct He as [m [<- _]]. intros H; discriminate. }
  match goal with |- context [plan ?pc ?root ss] => destruct (plan pc root ss) as [steps|] end.
  2:{ intros H; inversion H; subst; cbn. constructor; [exact Hint | constructor]. }
  match goal with |- context [fold_left ?F steps ?I] => destruct (fold_left F steps I) as [a|] eqn:Ef end.
  2:{ intros H; inversion H; subst; cbn. apply Forall_app; split; [exact Hperm | constructor; [exact Hint | constructor]]. }
  assert (Ha : Forall names_if_downstream (a_errors a)).
  { apply named_weaken. eapply fold_exec_root_named; [exact Ef|]. intros a0 E0. inversion E0; subst. constructor. }
  destruct (Nat.ltb max (a_count a)); [intros H; inversion H; subst; cbn; apply Forall_app; split; [exact Hperm | constructor; [exact Hint | constructor]]|].
  match goal with |- context [merge_results ?R] => destruct (merge_results R) as [merged|] end.
  2:{ intros H; inversion H; subst; cbn. repeat (apply Forall_app; split); auto. }
  match goal with |- context [bubble ?f ?c ?cur ?s ?m ?p] => destruct (bubble f c cur s m p) as [v ss' berrs up|msg] end;
    intros H; inversion H; subst; cbn; repeat (apply Forall_app; split); auto.
  unfold bubble_errors. apply Forall_forall. intros e He. apply in_map_iff in He. destruct He as [b [<- _]]. intros Hk; discriminate.
Qed.
