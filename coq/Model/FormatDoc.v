(* Model/FormatDoc.v — how argument values travel: format.go:208-244 formatArgument (strconv.Quote for strings),
   execution.go:490-505 (%q for entity ids), format.go:202-206 (whitespace runs collapsed in lookup selections), and
   the GraphQL string lexer that reads them back at the service (gqlparser lexer.readString, GraphQL spec 2.9.4).
   Strings are byte strings; bytes >= 0x80 belong to multi-byte UTF-8 runes which strconv.IsPrint is assumed to accept
   (oracle; the harness only uses printable non-ASCII runes) and are copied by both sides. *)
From V Require Import Base.Util Gql.Ast.

Definition hexdigit (n : nat) : ascii :=
  match n with
  | 0 => "0" | 1 => "1" | 2 => "2" | 3 => "3" | 4 => "4" | 5 => "5" | 6 => "6" | 7 => "7" | 8 => "8" | 9 => "9"
  | 10 => "a" | 11 => "b" | 12 => "c" | 13 => "d" | 14 => "e" | _ => "f"
  end%char.

(* strconv.Quote, one byte of an ASCII or assumed-printable rune *)
Definition go_quote_char (c : ascii) : string :=
  let n := nat_of_ascii c in
  if Nat.eqb n 34 then "\"""                      (* the quote *)
  else if Nat.eqb n 92 then "\\"                  (* the backslash *)
  else if Nat.eqb n 7 then "\a" else if Nat.eqb n 8 then "\b" else if Nat.eqb n 12 then "\f"
  else if Nat.eqb n 10 then "\n" else if Nat.eqb n 13 then "\r" else if Nat.eqb n 9 then "\t" else if Nat.eqb n 11 then "\v"
  else if Nat.ltb n 32 || Nat.eqb n 127 then String "\"%char (String "x"%char (String (hexdigit (n / 16)) (String (hexdigit (n mod 16)) EmptyString)))
  else String c EmptyString.
Fixpoint go_quote_body (s : string) : string :=
  match s with EmptyString => EmptyString | String c r => go_quote_char c +++ go_quote_body r end.

(* the GraphQL lexer on the body of a quoted string: backslash followed by quote, backslash, slash, b, f, n, r or t are
   the only two-character escapes (the uXXXX escape is accepted by the lexer but never produced here for the bytes the
   harness uses; it is rejected by this model) *)
Fixpoint gql_unquote_body (s : string) : option string :=
  match s with
  | EmptyString => Some EmptyString
  | String c r =>
      let n := nat_of_ascii c in
      if Nat.eqb n 92 then
        match r with
        | String e r' =>
            let m := nat_of_ascii e in
            let out := if Nat.eqb m 34 then Some """"%char else if Nat.eqb m 92 then Some "\"%char else if Nat.eqb m 47 then Some "/"%char
                       else if Nat.eqb m 98 then Some (ascii_of_nat 8) else if Nat.eqb m 102 then Some (ascii_of_nat 12)
                       else if Nat.eqb m 110 then Some (ascii_of_nat 10) else if Nat.eqb m 114 then Some (ascii_of_nat 13)
                       else if Nat.eqb m 116 then Some (ascii_of_nat 9) else None in
            match out with
            | Some ch => option_map (String ch) (gql_unquote_body r')
            | None => None
            end
        | EmptyString => None
        end
      else if Nat.eqb n 34 then None                         (* an unescaped quote would end the string early *)
      else if Nat.ltb n 32 then None                         (* raw control characters are not allowed *)
      else option_map (String c) (gql_unquote_body r)
  end.

(* what the service reads for a string literal the gateway printed *)
Definition wire_string (s : string) : option string := gql_unquote_body (go_quote_body s).

(* bytes whose Go escape is not a GraphQL escape *)
Definition gql_safe_char (c : ascii) : bool :=
  let n := nat_of_ascii c in
  negb (Nat.eqb n 7 || Nat.eqb n 11 || Nat.eqb n 127 ||
        (Nat.ltb n 32 && negb (Nat.eqb n 8 || Nat.eqb n 12 || Nat.eqb n 10 || Nat.eqb n 13 || Nat.eqb n 9))).
Fixpoint gql_safe (s : string) : bool :=
  match s with EmptyString => true | String c r => gql_safe_char c && gql_safe r end.

(* format.go:202 multipleSpacesRegex on the printed selection of a lookup: inside a string literal only runs of the
   space character survive quoting unescaped, and they are collapsed to one space *)
Fixpoint collapse_spaces (s : string) : string :=
  match s with
  | EmptyString => EmptyString
  | String c r =>
      if Ascii.eqb c " "%char then
        match r with
        | String c' _ => if Ascii.eqb c' " "%char then collapse_spaces r else String c (collapse_spaces r)
        | EmptyString => String c EmptyString
        end
      else String c (collapse_spaces r)
  end.
Fixpoint has_space_run (s : string) : bool :=
  match s with
  | String c ((String c' _) as r) => (Ascii.eqb c " "%char && Ascii.eqb c' " "%char) || has_space_run r
  | _ => false
  end.

(* a value as it arrives; None = the printed document does not lex *)
Fixpoint wire_value (collapse : bool) (v : value) {struct v} : option value :=
  match v with
  | VStr s | VBlock s =>                                   (* block strings are printed as ordinary quoted strings *)
      match wire_string (if collapse then collapse_spaces s else s) with
      | Some s' => Some (VStr s') | None => None end
  | VList l =>
      option_map VList
      ((fix go (l : list value) : option (list value) :=
         match l with
         | [] => Some []
         | x :: t => match wire_value collapse x, go t with Some x', Some t' => Some (x' :: t') | _, _ => None end
         end) l)
  | VObj kvs =>
      option_map VObj
      ((fix go (l : list (string * value)) : option (list (string * value)) :=
         match l with
         | [] => Some []
         | (k, x) :: t => match wire_value collapse x, go t with Some x', Some t' => Some ((k, x') :: t') | _, _ => None end
         end) kvs)
  | _ => Some v
  end.

(* a whole selection as it arrives at the service *)
Definition wire_args (collapse : bool) (args : list (string * value)) : option (list (string * value)) :=
  (fix go (l : list (string * value)) : option (list (string * value)) :=
     match l with
     | [] => Some []
     | (k, x) :: t => match wire_value collapse x, go t with Some x', Some t' => Some ((k, x') :: t') | _, _ => None end
     end) args.
Definition wire_dirs (collapse : bool) (ds : list dir) : option (list dir) :=
  (fix go (l : list dir) : option (list dir) :=
     match l with
     | [] => Some []
     | d :: t => match wire_args collapse (d_args d), go t with
                 | Some a, Some t' => Some ({| d_name := d_name d; d_args := a |} :: t') | _, _ => None end
     end) ds.
Fixpoint wire_sel (collapse : bool) (s : sel) {struct s} : option sel :=
  let go := fix go (l : list sel) : option (list sel) :=
    match l with
    | [] => Some []
    | x :: t => match wire_sel collapse x, go t with Some x', Some t' => Some (x' :: t') | _, _ => None end
    end in
  match s with
  | SField al n args ds t oss =>
      match wire_args collapse args, wire_dirs collapse ds with
      | Some a, Some d =>
          match oss with
          | None => Some (SField al n a d t None)
          | Some ss => match go ss with Some ss' => Some (SField al n a d t (Some ss')) | None => None end
          end
      | _, _ => None
      end
  | SInline tc ds e ss =>
      match wire_dirs collapse ds, go ss with Some d, Some ss' => Some (SInline tc d e ss') | _, _ => None end
  | SSpread f ds e tc ss =>
      match wire_dirs collapse ds, go ss with Some d, Some ss' => Some (SSpread f d e tc ss') | _, _ => None end
  end.
Definition wire_ss (collapse : bool) (ss : list sel) : option (list sel) :=
  (fix go (l : list sel) : option (list sel) :=
    match l with
    | [] => Some []
    | x :: t => match wire_sel collapse x, go t with Some x', Some t' => Some (x' :: t') | _, _ => None end
    end) ss.
Definition wire_ids (ids : list string) : option (list string) :=
  (fix go (l : list string) : option (list string) :=
    match l with
    | [] => Some []
    | x :: t => match wire_string x, go t with Some x', Some t' => Some (x' :: t') | _, _ => None end
    end) ids.
