(* Model/Isolation.v — C12: the discipline that keeps requests apart.  executable_schema.go:204 evaluateSkipAndInclude hands
   every request a deep copy of the (possibly cached, shared) parsed operation; auth.go:259-303 and execution.go:613-663 then
   rewrite selection sets IN PLACE.  Cells stand for AST nodes and schema definitions; a request owns the cells of its copy;
   the cache and the merged schema are the cells nobody owns.  Definitions only. *)
From V Require Import Base.Util.

Definition heap := nat -> nat.
Definition write (h : heap) (c v : nat) : heap := fun x => if Nat.eqb x c then v else h x.
Record wr := { w_req : nat; w_cell : nat; w_val : nat }.          (* request w_req assigns w_val to cell w_cell *)
Definition owns := nat -> nat -> bool.                             (* owns i c: cell c belongs to request i's copy *)
Definition run (h : heap) (ws : list wr) : heap := fold_left (fun h w => write h (w_cell w) (w_val w)) ws h.
Definition only (i : nat) (ws : list wr) : list wr := filter (fun w => Nat.eqb (w_req w) i) ws.
Definition observe (h : heap) (cells : list nat) : list nat := map h cells.

(* copies are pairwise disjoint, and every in-place write of a request lands in its own copy *)
Definition disjoint (o : owns) : Prop := forall i j c, o i c = true -> o j c = true -> i = j.
Definition confined (o : owns) (ws : list wr) : Prop := Forall (fun w => o (w_req w) (w_cell w) = true) ws.
Definition shared (o : owns) (c : nat) : Prop := forall j, o j c = false.
