(* Model/View.v — auth.go:144-256 FilterSchema / filterDefinition / addFields: the schema view derived from a permission set,
   and, independently of the code, which fields a permission set lets a query select (the specification side of the
   third clause of C18).  Executable definitions only. *)
From V Require Import Base.Util Model.Perm.

(* what filterDefinition reads from the source *ast.Schema *)
Record vfield := { vf_name : string; vf_type : string (* f.Type.Name() *); vf_args : list string (* a.Type.Name() of each argument *) }.
Record vtype := { vt_name : string; vt_abstract : bool; vt_fields : list vfield; vt_possible : list string (* Schema.PossibleTypes *) }.
Record vsrc := { v_types : list vtype; v_query : option string; v_mutation : option string; v_subscription : option string;
                 v_dirargs : list string (* type names of the arguments of the directive definitions *) }.
Definition vfind (S : vsrc) (n : string) : option vtype := find (fun t => String.eqb (vt_name t) n) (v_types S).
Definition all_fields (t : vtype) : list string := map vf_name (vt_fields t).

(* the [types] map under construction: type name -> names of the fields of its (copied or shared) definition *)
Definition tmap := list (string * list string).
(* auth.go:250 addFields *)
Definition add_fields (a b : list string) : list string := fold_left (fun acc f => if mem f acc then acc else acc ++ [f]) b a.
Definition install_or_add (n : string) (fs : list string) (types : tmap) : tmap :=
  upsert n (fun o => match o with Some old => add_fields old fs | None => fs end) types.

(* auth.go:164 filterDefinition.  [vis = None] is the nil map handed down by FilterSchema and by the restricted branch;
   the allow-all branch then makes a fresh map that its own recursion shares (a Go map is a reference) and the caller
   never sees.  Returns the fields of the resulting definition (None: def was nil), the visited set and the types map.
   The body is written over an abstract recursive call [rec] (open recursion) and closed by fuel below. *)
Definition fd_result := (option (list string) * list string * tmap)%type.
Definition fields_or_nil (o : option vtype) : list string := match o with Some t => all_fields t | None => [] end.
Section Body.
  Variable S : vsrc.
  Variable rec : option (list string) -> tmap -> option vtype -> af -> fd_result.

  (* ---- allow-all branch (auth.go:172-207) ---- *)
  Definition all_possible (st : list string * tmap) (pn : string) : list string * tmap :=
    match vfind S pn with
    | Some pt => let '(_, v', t') := rec (Some (fst st)) (set_key pn (all_fields pt) (snd st)) (Some pt) (AF true []) in (v', t')
    | None => st
    end.
  Definition all_arg (st : list string * tmap) (an : string) : list string * tmap :=
    let '(_, v', t') := rec (Some (fst st)) (set_key an (fields_or_nil (vfind S an)) (snd st)) (vfind S an) (AF true []) in (v', t').
  Definition all_field (d : vtype) (st : list string * tmap) (f : vfield) : list string * tmap :=
    let key := vt_name d +++ vf_name f in
    if mem key (fst st) then st else
    let v := key :: fst st in
    match vfind S (vf_type f) with
    | None => (v, snd st)
    | Some typ =>
        let st1 := if vt_abstract typ then fold_left all_possible (vt_possible typ) (v, snd st) else (v, snd st) in
        let st2 := (fst st1, set_key (vf_type f) (all_fields typ) (snd st1)) in
        let st3 := fold_left all_arg (vf_args f) st2 in
        let '(_, v', t') := rec (Some (fst st3)) (snd st3) (Some typ) (AF true []) in (v', t')
    end.

  (* ---- restricted branch (auth.go:209-247) ---- *)
  Definition res_possible (vis : option (list string)) (sub : af) (t : tmap) (pn : string) : tmap :=
    match vfind S pn with
    | Some pt => let '(nf, _, t') := rec vis t (Some pt) sub in install_or_add pn (match nf with Some l => l | None => [] end) t'
    | None => t
    end.
  Definition res_arg (vis : option (list string)) (t : tmap) (an : string) : tmap :=
    let '(_, _, t') := rec vis (set_key an (fields_or_nil (vfind S an)) t) (vfind S an) (AF true []) in t'.
  Definition res_field (vis : option (list string)) (a : af) (st : list string * tmap) (f : vfield) : list string * tmap :=
    match lookup (vf_name f) (af_subs a) with
    | None => st
    | Some sub =>
        let res := fst st ++ [vf_name f] in
        match vfind S (vf_type f) with
        | None => (res, snd st)
        | Some typ =>
            let t1 := if vt_abstract typ then fold_left (res_possible vis sub) (vt_possible typ) (snd st) else snd st in
            let '(nf, _, t2) := rec vis t1 (Some typ) sub in
            let t3 := install_or_add (vf_type f) (match nf with Some l => l | None => [] end) t2 in
            (res, fold_left (res_arg vis) (vf_args f) t3)
        end
    end.

  Definition body (vis : option (list string)) (types : tmap) (def : option vtype) (a : af) : fd_result :=
    let v0 := match vis with Some v => v | None => [] end in
    match def with
    | None => (None, v0, types)
    | Some d =>
        if af_all a then
          let st := fold_left (all_field d) (vt_fields d) (v0, types) in
          (Some (all_fields d), fst st, snd st)
        else
          let st := fold_left (res_field vis a) (vt_fields d) ([], types) in
          (Some (fst st), v0, snd st)
    end.
End Body.
Fixpoint filter_def (fuel : nat) (S : vsrc) : option (list string) -> tmap -> option vtype -> af -> fd_result :=
  match fuel with
  | O => fun _ types _ _ => (None, [], types)
  | Datatypes.S fuel => body S (filter_def fuel S)
  end.

(* auth.go:144 FilterSchema: the three roots in turn over one shared [types] map; each root's own entry is written last *)
Definition root_def (S : vsrc) (r : option string) : option vtype := match r with Some n => vfind S n | None => None end.
Definition filter_schema (fuel : nat) (S : vsrc) (p : operm) : tmap :=
  let step := fun (types : tmap) (r : option string) (key : string) (a : af) =>
    let '(fs, _, t) := filter_def fuel S None types (root_def S r) a in
    match fs with Some l => set_key key l t | None => t end in
  let t := step [] (v_query S) "Query" (p_query p) in
  let t := step t (v_mutation S) "Mutation" (p_mutation p) in
  let t := step t (v_subscription S) "Subscription" (p_subscription p) in
  (* directive definitions are shared with the source: the types of their arguments stay visible *)
  fold_left (fun t n => match vfind S n with
                        | Some ty => if has_key n t then t else t ++ [(n, all_fields ty)]
                        | None => t end) (v_dirargs S) t.

Definition view_visible (view : tmap) (tn f : string) : bool :=
  match lookup tn view with Some fs => mem f fs | None => false end.

(* ---------- SPECIFICATION: what a permission set lets a query select ----------
   A query is left intact by filtering when every field on every path is allowed (filterFields walks the tree of
   permissions along the fields and through fragments without consuming a level: Proofs/PermFilterProofs.v).
   A type T is "reached under node a" when some such path from a root ends in a field of that type (or, for an abstract
   type, in a fragment on one of its possible types); then its field f is selectable iff a allows it. *)
Definition vposs (S : vsrc) (tn : string) : list string :=
  match vfind S tn with Some t => if vt_abstract t then vt_possible t else [tn] | None => [] end.
Definition overlap (S : vsrc) (tn un : string) : bool := existsb (fun x => mem x (vposs S un)) (vposs S tn).
Inductive Reach (S : vsrc) (p : operm) : string -> af -> Prop :=
 | R_query : forall n, v_query S = Some n -> Reach S p n (p_query p)
 | R_mutation : forall n, v_mutation S = Some n -> Reach S p n (p_mutation p)
 | R_subscription : forall n, v_subscription S = Some n -> Reach S p n (p_subscription p)
 | R_dirarg : forall n, In n (v_dirargs S) -> Reach S p n (AF true [])   (* directive definitions are public *)
 | R_field_all : forall tn a t f, Reach S p tn a -> af_all a = true -> vfind S tn = Some t -> In f (vt_fields t) ->
                 Reach S p (vf_type f) (AF true [])
 | R_field : forall tn a t f sub, Reach S p tn a -> af_all a = false -> vfind S tn = Some t -> In f (vt_fields t) ->
                 lookup (vf_name f) (af_subs a) = Some sub -> Reach S p (vf_type f) sub
 | R_arg_all : forall tn a t f an, Reach S p tn a -> af_all a = true -> vfind S tn = Some t -> In f (vt_fields t) -> In an (vf_args f) ->
                 Reach S p an (AF true [])
 | R_arg : forall tn a t f sub an, Reach S p tn a -> af_all a = false -> vfind S tn = Some t -> In f (vt_fields t) ->
                 lookup (vf_name f) (af_subs a) = Some sub -> In an (vf_args f) -> Reach S p an (AF true [])
 | R_possible : forall tn a t pn, Reach S p tn a -> vfind S tn = Some t -> vt_abstract t = true -> In pn (vt_possible t) -> Reach S p pn a
 (* a fragment may name any type that shares a possible type with the enclosing one (GraphQL: fragment spread is possible) *)
 | R_overlap : forall tn a un, Reach S p tn a -> overlap S tn un = true -> Reach S p un a.
Definition node_allows (a : af) (f : string) : bool := af_all a || has_key f (af_subs a).
Definition Selectable (S : vsrc) (p : operm) (tn f : string) : Prop :=
  exists a t, Reach S p tn a /\ vfind S tn = Some t /\ In f (all_fields t) /\ node_allows a f = true.

(* the same, computed: depth-first over (type, node) pairs *)
Definition seen_t := list (string * af).
Definition seen_mem (tn : string) (a : af) (s : seen_t) : bool := existsb (fun x => String.eqb (fst x) tn && af_eqb (snd x) a) s.
Fixpoint reach_dfs (wide : bool) (fuel : nat) (S : vsrc) (tn : string) (a : af) (seen : seen_t) : seen_t :=
  match fuel with
  | O => seen
  | Datatypes.S fuel =>
    if seen_mem tn a seen then seen else
    let seen := (tn, a) :: seen in
    match vfind S tn with
    | None => seen
    | Some t =>
      let seen := if vt_abstract t then fold_left (fun s pn => reach_dfs wide fuel S pn a s) (vt_possible t) seen else seen in
      let seen := if wide then fold_left (fun s u => if overlap S tn (vt_name u) then reach_dfs wide fuel S (vt_name u) a s else s) (v_types S) seen
                  else seen in
      fold_left (fun s f =>
        let sub := if af_all a then Some (AF true []) else lookup (vf_name f) (af_subs a) in
        match sub with
        | None => s
        | Some sub => let s := reach_dfs wide fuel S (vf_type f) sub s in
                      fold_left (fun s an => reach_dfs wide fuel S an (AF true []) s) (vf_args f) s
        end) (vt_fields t) seen
    end
  end.
Definition reach_all (wide : bool) (fuel : nat) (S : vsrc) (p : operm) : seen_t :=
  let go := fun (r : option string) (a : af) (s : seen_t) => match r with Some n => reach_dfs wide fuel S n a s | None => s end in
  fold_left (fun s n => reach_dfs wide fuel S n (AF true []) s) (v_dirargs S)
    (go (v_subscription S) (p_subscription p) (go (v_mutation S) (p_mutation p) (go (v_query S) (p_query p) []))).
Definition selectable (reach : seen_t) (S : vsrc) (tn f : string) : bool :=
  match vfind S tn with
  | Some t => mem f (all_fields t) && existsb (fun x => String.eqb (fst x) tn && node_allows (snd x) f) reach
  | None => false
  end.
