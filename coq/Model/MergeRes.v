(* Model/MergeRes.v — execution_result.go:15-182 mergeExecutionResults and executable_schema.go:663 mergeMaps;
   execution.go:362-483 insertion-point trimming and boundary id extraction.  Panics and errors are explicit. *)
From V Require Import Base.Util Gql.Ast.

Definition str_key (k : string) (m : list (string * raw)) : option string :=
  match lookup k m with Some (RStr s) => Some s | _ => None end.

(* executable_schema.go:663 mergeMaps (values are decoded maps here: no json.RawMessage reaches it) *)
Fixpoint merge_maps (fuel : nat) (dst src : list (string * raw)) : res (list (string * raw)) :=
  match fuel with O => Err "out of fuel" | S fuel =>
  do d <- fold_left (fun acc kv =>
            do d <- acc ;;
            match lookup (fst kv) src with
            | None => Ok (d ++ [kv])
            | Some sv => match snd kv, sv with
                         | RMap a, RMap b => do r <- merge_maps fuel a b ;; Ok (d ++ [(fst kv, RMap r)])
                         | _, _ => Err "PANIC mergeMaps: value is not a map[string]interface{}"
                         end
            end) dst (Ok []) ;;
  Ok (d ++ filter (fun kv => negb (has_key (fst kv) dst)) src)
  end.

(* execution_result.go:71-109: children step merging into one destination object *)
Definition boundary_apply (m : list (string * raw)) (items : list raw) : res (list (string * raw)) :=
  (* getBoundaryFieldResults first: every non-nil element must be a map *)
  do _ <- all_res (fun it => match it with RNil | RMap _ => Ok tt | _ => Err "getBoundaryFieldResults: expected a map" end) items ;;
  match str_key "_bramble__typename" m with
  | None => Err "boundaryTypeFromMap: _bramble__typename not found"
  | Some dt =>
    fold_left (fun acc it =>
      do m <- acc ;;
      match it with
      | RMap r =>
        match str_key "_bramble__typename" r with
        | None => Err "boundaryTypeFromMap: _bramble__typename not found"
        | Some st => if negb (String.eqb st dt) then Ok m else
            match str_key "_bramble_id" m with
            | None => Err "boundaryIDFromMap: _bramble_id not found"
            | Some di => match str_key "_bramble_id" r with
                         | None => Err "boundaryIDFromMap: _bramble_id not found"
                         | Some si => if String.eqb di si
                                      then Ok (fold_left (fun m kv => if String.eqb (fst kv) "_bramble_id" then m else set_key (fst kv) (snd kv) m) r m)
                                      else Ok m
                         end
            end
        end
      | _ => Ok m
      end) items (Ok m)
  end.

Fixpoint merge_rec (src : raw) (dst : raw) (ip : list string) {struct dst} : res raw :=
  match ip with
  | [] =>
    match dst with
    | RNil => Ok RNil
    | RMap m => match src with
                | RMap sm => do r <- merge_maps 64 m sm ;; Ok (RMap r)
                | RArr items => do r <- boundary_apply m items ;; Ok (RMap r)
                | _ => Ok dst
                end
    | RArr l => do r <- all_res (fun e => merge_rec src e []) l ;; Ok (RArr r)
    | _ => Err "mergeExecutionResultsRec: unxpected type for top-level merge"
    end
  | k :: rest =>
    match dst with
    | RMap m =>
      (* ptr[insertionPoint[0]]: an absent key reads as nil, for which the recursive call returns *)
      do m' <- (fix go (m : list (string * raw)) : res (list (string * raw)) :=
         match m with
         | [] => Ok []
         | (k', v) :: t =>
           if String.eqb k k' then
             do v' <- match v with
                      | RArr l => do r <- all_res (fun e => merge_rec src e rest) l ;; Ok (RArr r)
                      | _ => merge_rec src v rest
                      end ;;
             Ok ((k', v') :: t)
           else do r <- go t ;; Ok ((k', v) :: r)
         end) m ;;
      Ok (RMap m')
    | RArr l => do r <- all_res (fun e => merge_rec src e ip) l ;; Ok (RArr r)
    | RNil => Ok RNil
    | _ => Err "mergeExecutionResultsRec: unxpected type for non top-level merge"
    end
  end.

Record exres := { er_url : string; er_ip : list string; er_data : raw }.

(* execution_result.go:15 *)
Definition merge_results (rs : list exres) : res raw :=
  match rs with
  | [] => Err "mergeExecutionResults: nothing to merge"
  | [r] => match er_data r with
           | RNil => Ok RNil
           | RMap m => Ok (RMap m)
           | _ => Err "a complete graphql response should be map[string]interface{}"
           end
  | r0 :: rest =>
    let base := match er_data r0 with RNil => RMap [] | d => d end in
    do d <- fold_left (fun acc r => do d <- acc ;; merge_rec (er_data r) d (er_ip r)) rest (Ok base) ;;
    match d with RMap _ => Ok d | _ => Err "merged execution results should be map[string]interface{}" end
  end.

(* execution.go:434 extractBoundaryIDs *)
Fixpoint extract_ids (d : raw) (ip : list string) (parent : string) {struct d} : res (list string) :=
  match d with
  | RNil => Ok []
  | RMap m =>
      match ip with
      | [] => match str_key "_bramble__typename" m with
              | None => Err "boundaryTypeFromMap: _bramble__typename not found"
              | Some t => if negb (String.eqb t parent) then Ok [] else
                          match str_key "_bramble_id" m with Some i => Ok [i] | None => Err "boundaryIDFromMap: _bramble_id not found" end
              end
      | k :: rest =>
          (fix go (m : list (string * raw)) : res (list string) :=
             match m with
             | [] => Ok []
             | (k', v) :: t => if String.eqb k k' then extract_ids v rest parent else go t
             end) m
      end
  | RArr l => do r <- all_res (fun e => extract_ids e ip parent) l ;; Ok (List.concat r)
  | _ => Err "extractBoundaryIDs: unexpected type"
  end.

(* execution.go:362 trimInsertionPointForNestedBoundaryStep: cut at the FIRST segment that is a key of the first result *)
Definition trim_ip (data : list raw) (ip : list string) : res (list string) :=
  match data with
  | RMap first :: _ =>
      (fix go (ip : list string) : res (list string) :=
         match ip with
         | [] => Err "could not find any insertion points inside boundary data"
         | p :: rest => if has_key p first then Ok ip else go rest
         end) ip
  | [] => Err "no boundary results to process"
  | _ => Err "a single boundary result should be a map[string]interface{}"
  end.
