(* Model/Perm.v — auth.go:15-117, 305-349: AllowedFields, its three JSON forms, union of permission sets.
   Executable definitions only (no proofs): this file must run even if a proof breaks. *)
From V Require Import Base.Util.

(* auth.go:15 AllowedFields.  A Go map has unique keys: [wf] in Proofs/PermProofs.v. *)
Inductive af := AF (all : bool) (subs : list (string * af)).
Definition af_all (a : af) := match a with AF b _ => b end.
Definition af_subs (a : af) := match a with AF _ s => s end.
Notation af_zero := (AF false []) (only parsing).

(* SPECIFICATION (docs/access-control.md): "*" allows everything below; a listed field is allowed and its own
   permissions govern what is below it. Independent of the code. *)
Fixpoint allows (a : af) (p : list string) {struct p} : bool :=
  match p with
  | [] => true
  | f :: p' => match a with AF all subs =>
                 if all then true else match lookup f subs with None => false | Some a' => allows a' p' end end
  end.

(* auth.go:22 IsAllowed, as the code has it (special names first) *)
Definition is_allowed (a : af) (f : string) : bool * af :=
  if String.eqb f "__schema" || String.eqb f "__type" then (true, AF true [])
  else if String.eqb f "__typename" then (true, af_zero)
  else match lookup f (af_subs a) with Some s => (true, s) | None => (false, af_zero) end.

(* how filterFields consults a tree along a path of field names: allow-all short-circuits, else IsAllowed *)
Fixpoint walk_allowed (a : af) (p : list string) : bool :=
  match p with
  | [] => true
  | f :: p' => if af_all a then true else
               let '(ok, sub) := is_allowed a f in if ok then walk_allowed sub p' else false
  end.

(* ---------- the JSON forms ---------- *)
Inductive pj := PStr (s : string) | PArr (l : list pj) | PObj (kvs : list (string * pj)) | PNull | POther.

(* auth.go:67 MarshalJSON.  The list form is sorted by Go; callers hand in [subs] sorted by key, see Corr/PermCheck.v *)
Fixpoint marshal (a : af) : pj :=
  match a with
  | AF true _ => PStr "*"
  | AF false subs =>
    if forallb (fun kv => af_all (snd kv)) subs
    then PArr (map (fun kv => PStr (fst kv)) subs)
    else PObj (map (fun kv => (fst kv, marshal (snd kv))) subs)
  end.

(* json.Unmarshal(input, &[]string): a null element leaves the zero string in place *)
Fixpoint all_strs (l : list pj) : option (list string) :=
  match l with
  | [] => Some []
  | PStr s :: t => option_map (cons s) (all_strs t)
  | PNull :: t => option_map (cons "") (all_strs t)
  | _ => None
  end.

(* auth.go:84 UnmarshalJSON, decoding OVER an existing value [old] (that is what encoding/json does) *)
Fixpoint unmarshal (j : pj) (old : af) {struct j} : option af :=
  match j with
  | PStr s => if String.eqb s "*" then Some (AF true (af_subs old)) else None
  | PNull => Some (AF false (af_subs old))
  | PArr l => match all_strs l with
              | Some fs => Some (AF false (fold_left (fun m f => upsert f (fun _ => AF true []) m) fs (af_subs old)))
              | None => None
              end
  | PObj kvs =>
      (fix go (kvs : list (string * pj)) (m : list (string * af)) : option af :=
         match kvs with
         | [] => Some (AF false m)
         | (k, v) :: t => match unmarshal v af_zero with     (* map values are decoded into a fresh zero value *)
                          | Some a' => go t (upsert k (fun _ => a') m)
                          | None => None
                          end
         end) kvs (af_subs old)
  | POther => None
  end.

(* auth.go:327 MergeAllowedFields, binary step and n-ary fold *)
Fixpoint merge2 (a b : af) {struct a} : af :=
  match a, b with
  | AF true _, _ => AF true []
  | _, AF true _ => AF true []
  | AF false sa, AF false sb =>
    AF false ((fix go (l : list (string * af)) (acc : list (string * af)) : list (string * af) :=
                 match l with
                 | [] => acc
                 | (k, v) :: t => go t (upsert k (fun o => match o with None => v | Some w => merge2 v w end) acc)
                 end) sa sb)
  end.
(* the top-level loop returns as soon as it meets an allow-all operand; entries met first are stored as they are *)
Definition merge_list (l : list af) : af :=
  if existsb af_all l then AF true [] else fold_left (fun acc a => merge2 a acc) l af_zero.

(* auth.go:38 OperationPermissions and auth.go:307 MergePermissions *)
Record operm := { p_query : af; p_mutation : af; p_subscription : af }.
Definition merge_perms (l : list operm) : operm :=
  {| p_query := merge_list (map p_query l); p_mutation := merge_list (map p_mutation l);
     p_subscription := merge_list (map p_subscription l) |}.
Definition operm_allows (o : operm) (p : list string) : bool :=
  match p with
  | "query" :: r => allows (p_query o) r
  | "mutation" :: r => allows (p_mutation o) r
  | "subscription" :: r => allows (p_subscription o) r
  | _ => false
  end.

(* structural equality of two Go values, key order ignored (Go maps are unordered) *)
Fixpoint af_eqb (a b : af) {struct a} : bool :=
  match a, b with
  | AF aa sa, AF ab sb =>
    Bool.eqb aa ab && Nat.eqb (List.length sa) (List.length sb) &&
    (fix go (l : list (string * af)) : bool :=
       match l with
       | [] => true
       | (k, v) :: t => match lookup k sb with Some w => af_eqb v w | None => false end && go t
       end) sa
  end.
Fixpoint pj_eqb (a b : pj) {struct a} : bool :=
  match a, b with
  | PStr x, PStr y => String.eqb x y
  | PNull, PNull => true
  | POther, POther => true
  | PArr x, PArr y =>
      (fix go (x y : list pj) : bool :=
         match x, y with [], [] => true | p :: x', q :: y' => pj_eqb p q && go x' y' | _, _ => false end) x y
  | PObj x, PObj y =>
      (fix go (x : list (string * pj)) (y : list (string * pj)) : bool :=
         match x, y with
         | [], [] => true
         | (k, p) :: x', (k', q) :: y' => String.eqb k k' && pj_eqb p q && go x' y'
         | _, _ => false
         end) x y
  | _, _ => false
  end.

(* all field paths mentioned by a tree, each extended by one probe name: the finite probe set of the checks *)
Fixpoint af_paths (a : af) : list (list string) :=
  match a with AF _ subs =>
    [] :: flat_map (fun kv => map (cons (fst kv)) (af_paths (snd kv))) subs
  end.
