(* Model/Plan.v — plan.go: Plan, createSteps, extractSelectionSet, routeSelectionSet, filterSelectionSetByLoc, URLFor.
   The Go mutual recursion extractSelectionSet -> createSteps -> routeSelectionSet -> extractSelectionSet revisits the
   SAME remote fields; here one structural pass returns, per selection, whether it stays (Keep) or moves to another
   service (Remote owner), and [assemble] does what one frame of extractSelectionSet does after its loop
   (DESIGN.md Appendix D.1). *)
From V Require Import Base.Util Gql.Ast.

Inductive step := Step (url sname parent : string) (sel_ : list sel) (ip : list string) (thn : list step).
Definition step_url (s : step) := match s with Step u _ _ _ _ _ => u end.
Definition step_parent (s : step) := match s with Step _ _ p _ _ _ => p end.
Definition step_sel (s : step) := match s with Step _ _ _ ss _ _ => ss end.
Definition step_ip (s : step) := match s with Step _ _ _ _ ip _ => ip end.
Definition step_then (s : step) := match s with Step _ _ _ _ _ t => t end.

Record pctx := {
  pc_schema : schema;                         (* the (possibly permission-filtered) schema: plumbing is read from it *)
  pc_locations : list (string * string);      (* "Type.field" -> service url *)
  pc_is_boundary : list (string * bool);
  pc_services : list (string * string)        (* url -> name, in the order routeSelectionSet happens to visit them *)
}.
Definition internal_service := "__bramble".

(* plan.go:381 URLFor *)
Definition url_for (c : pctx) (parent ploc field : string) : option string :=
  if String.eqb field "__typename" then Some ploc else lookup (parent +++ "." +++ field) (pc_locations c).
Definition boundary_raw (c : pctx) (t : string) : bool :=
  match lookup t (pc_is_boundary c) with Some b => b | None => false end.
Definition boundary (c : pctx) (t : string) : bool :=
  negb (String.eqb t "Query") && negb (String.eqb t "Mutation") && boundary_raw c t.

Inductive outcome := Keep (s : sel) (children : list step) | Remote (owner : string) (s : sel) (children : list step).

Definition id_field (idty : ty) := SField "_bramble_id" "id" [] [] idty None.
Definition tn_field := SField "_bramble__typename" "__typename" [] [] (TNamed "String" false) None.

(* plan.go:251-293: id/__typename plumbing appended to a selection whose parent type is [parent] *)
Definition plumbing (c : pctx) (parent : string) : res (list sel) :=
  let S := pc_schema c in
  match kind_of S parent with
  | None => Err ("definition is nil for parentType " +++ parent)
  | Some k =>
    if kind_abstract k then
      let impls := filter (fun kv => boundary_raw c (fst kv) && mem parent (snd kv)) (s_implements S) in
      Ok (flat_map (fun kv => match field_ty S (fst kv) "id" with
                              | Some idty => [SInline (fst kv) [] (fst kv) [id_field idty]]
                              | None => [] end) impls ++ [tn_field])
    else if boundary c parent then
      match field_ty S parent "id" with Some idty => Ok [id_field idty; tn_field] | None => Ok [] end
    else Ok []
  end.

(* plan.go:234-249: steps targeting the same service/insertion point are merged, whatever their parent type *)
Definition step_key (s : step) : string := sconcat "/" (step_url s :: step_ip s).
Fixpoint merge_into (s : step) (acc : list step) : list step :=
  match acc with
  | [] => [s]
  | a :: t => if String.eqb (step_key a) (step_key s)
              then match a, s with Step u n p ss ip th, Step _ _ _ ss' _ th' => Step u n p (ss ++ ss') ip (th ++ th') end :: t
              else a :: merge_into s t
  end.
Definition merge_steps (l : list step) : list step :=
  match l with _ :: _ :: _ => fold_left (fun acc s => merge_into s acc) l [] | _ => l end.

Fixpoint add_group (o : string) (s : sel) (g : list (string * list sel)) : list (string * list sel) :=
  match g with
  | [] => [(o, [s])]
  | (o', ss) :: t => if String.eqb o o' then (o', ss ++ [s]) :: t else (o', ss) :: add_group o s t
  end.

Definition reserved_misuse (alias name : string) : bool :=
  (String.eqb alias "_bramble_id" && negb (String.eqb name "id")) ||
  (String.eqb alias "_bramble__typename" && negb (String.eqb name "__typename")).

Section Extract.
  Variable c : pctx.
  Definition service_name (url : string) : string := match lookup url (pc_services c) with Some n => n | None => "unknown" end.

  (* what extractSelectionSet does after its loop: remote selections become child steps (createSteps: one per owner,
     each extracted at its own location - that second extraction is what produced [ch] and the rewritten [s]),
     children are merged, plumbing is appended *)
  Definition assemble (ip : list string) (parent : string) (outs : list outcome) : res (list sel * list step) :=
    let kept := flat_map (fun o => match o with Keep s _ => [s] | Remote _ _ _ => [] end) outs in
    let ch_local := flat_map (fun o => match o with Keep _ ch => ch | Remote _ _ _ => [] end) outs in
    do pl <- plumbing c parent ;;
    (* createSteps on the remote selections: grouped by owner (routeSelectionSet), each group extracted at the owner:
       its kept part + plumbing is the step's selection, its children (merged inside that extraction) hang below *)
    let owners := fold_left (fun g o => match o with Remote ow s _ => add_group ow s g | Keep _ _ => g end) outs [] in
    let new_steps := map (fun g =>
        let ow := fst g in
        let ch := flat_map (fun o => match o with Remote ow' _ ch' => if String.eqb ow ow' then ch' else [] | Keep _ _ => [] end) outs in
        Step ow (service_name ow) parent (snd g ++ pl) ip (merge_steps ch)) owners in
    Ok (kept ++ pl, merge_steps (ch_local ++ new_steps)).

  (* one selection, at service location [loc], below parent type [parent] *)
  Fixpoint extract_sel (s : sel) (ip : list string) (parent loc : string) {struct s} : res outcome :=
    let go := fun (ip : list string) (parent loc : string) => fix go (l : list sel) : res (list outcome) :=
      match l with
      | [] => Ok []
      | x :: r => do o <- extract_sel x ip parent loc ;; do os <- go r ;; Ok (o :: os)
      end in
    match s with
    | SField alias name args ds fty oss =>
      if reserved_misuse alias name then Err ("alias is reserved for system use") else
      if boundary c parent && String.eqb name "id" then Ok (Keep s []) else
      let owner := url_for c parent loc name in
      let remote := match owner with Some o => negb (String.eqb o loc) | None => false end in
      let l' := match owner with Some o => if remote then o else loc | None => loc end in
      match oss with
      | None => Ok (if remote then Remote l' s [] else Keep s [])
      | Some ss =>                                              (* Some [] is NOT a leaf: plan.go:168 tests == nil *)
        do outs <- go (ip ++ [alias]) (ty_name fty) l' ss ;;
        do r <- assemble (ip ++ [alias]) (ty_name fty) outs ;;
        let f' := SField alias name args ds fty (Some (fst r)) in
        Ok (if remote then Remote l' f' (snd r) else Keep f' (snd r))
      end
    | SInline tc ds e ss =>
      do outs <- go ip tc loc ss ;;
      do r <- assemble ip tc outs ;;
      Ok (Keep (SInline tc ds e (fst r)) (snd r))
    | SSpread _ _ e tc ss =>                                    (* spreads become inline fragments without directives *)
      do outs <- go ip tc loc ss ;;
      do r <- assemble ip tc outs ;;
      Ok (Keep (SInline tc [] "" (fst r)) (snd r))
    end.

  Definition extract_list (ss : list sel) (ip : list string) (parent loc : string) : res (list sel * list step) :=
    do outs <- all_res (fun x => extract_sel x ip parent loc) ss ;;
    assemble ip parent outs.

  (* plan.go:353 filterSelectionSetByLoc (fragments are flattened by selectionSetToFields) *)
  Fixpoint filter_loc (s : sel) (loc parent : string) {struct s} : list sel :=
    match s with
    | SField alias name args ds fty oss =>
      match url_for c parent "" name with
      | None => match oss with                                   (* namespace, or any unmapped field *)
                | None => []
                | Some ss => match flat_map (fun x => filter_loc x loc (ty_name fty)) ss with
                             | [] => []
                             | sub => [SField alias name args ds fty (Some sub)]
                             end
                end
      | Some fl => if String.eqb fl loc then [s]
                   else if String.eqb loc internal_service && String.eqb name "__typename" then [s] else []
      end
    | SInline _ _ _ ss => flat_map (fun x => filter_loc x loc parent) ss
    | SSpread _ _ _ _ ss => flat_map (fun x => filter_loc x loc parent) ss
    end.

  (* plan.go:82 Plan + createSteps at the root: one step per service that owns something, then the gateway's own *)
  Definition plan (root : string) (ss : list sel) : res (list step) :=
    seq_res (flat_map (fun loc =>
               match flat_map (fun x => filter_loc x loc root) ss with
               | [] => []
               | fs => [do r <- extract_list fs [] root loc ;; Ok (Step loc (service_name loc) root (fst r) [] (snd r))]
               end) (map fst (pc_services c) ++ [internal_service])).
End Extract.

(* all steps of a plan, parents before children *)
Fixpoint steps_flat (s : step) : list step :=
  match s with Step _ _ _ _ _ thn => s :: flat_map steps_flat thn end.
