(* Model/Introspect.v — executable_schema.go:340-620: the hand-written introspection resolvers, specialised to the standard
   introspection query (graphql-js getIntrospectionQuery: FullType / InputValue / TypeRef with seven levels of ofType,
   includeDeprecated: true), over the schema the resolvers read: the merged schema, or its permission-filtered view
   (auth.go FilterSchema: Model/View.v).  And the inverse a client applies: JSON answer -> schema.  Definitions only. *)
From V Require Import Base.Util Gql.Ast Model.Perm Model.View.

Record ival := { iv_name : string; iv_desc : string; iv_type : ty; iv_default : option string }.
Record ifield := { if_name : string; if_desc : string; if_args : list ival; if_type : ty;
                   if_dep : option string;          (* @deprecated: Some reason *)
                   if_default : option string }.    (* input fields only *)
Record ienum := { ie_name : string; ie_desc : string; ie_dep : option string }.
Record itype := { it_kind : kind; it_name : string; it_desc : string; it_fields : list ifield;
                  it_ifaces : list string; it_possible : list string; it_enum : list ienum }.
Record idir := { id_name : string; id_desc : string; id_locs : list string; id_args : list ival }.
Record isch := { is_types : list itype; is_dirs : list idir }.

Definition ifind (S : isch) (n : string) : option itype := find (fun t => String.eqb (it_name t) n) (is_types S).
Definition kind_str (k : kind) : string :=
  match k with KScalar => "SCALAR" | KObject => "OBJECT" | KInterface => "INTERFACE" | KUnion => "UNION" | KEnum => "ENUM" | KInput => "INPUT_OBJECT" end.

(* what FilterSchema reads (Model/View.v) *)
Definition vsrc_of (S : isch) : vsrc :=
  {| v_types := map (fun t => {| vt_name := it_name t; vt_abstract := kind_abstract (it_kind t);
                                 vt_fields := map (fun f => {| vf_name := if_name f; vf_type := ty_name (if_type f);
                                                               vf_args := map (fun a => ty_name (iv_type a)) (if_args f) |}) (it_fields t);
                                 vt_possible := it_possible t |}) (is_types S);
     v_query := match ifind S "Query" with Some _ => Some "Query" | None => None end;
     v_mutation := match ifind S "Mutation" with Some _ => Some "Mutation" | None => None end;
     v_subscription := match ifind S "Subscription" with Some _ => Some "Subscription" | None => None end;
     v_dirargs := flat_map (fun d => map (fun a => ty_name (iv_type a)) (id_args d)) (is_dirs S) |}.

(* the schema the resolvers see: every type when there are no permissions, else the view's types with the view's fields;
   everything else of a definition is shared with the source (resDef := *def) *)
Definition seen_types (S : isch) (view : option tmap) : list itype :=
  match view with
  | None => is_types S
  | Some v => flat_map (fun t => match lookup (it_name t) v with
                                 | Some fs => [ {| it_kind := it_kind t; it_name := it_name t; it_desc := it_desc t;
                                                   (* in the VIEW's order: addFields appends in the order the paths were walked *)
                                                   it_fields := flat_map (fun n => match find (fun f => String.eqb (if_name f) n) (it_fields t) with
                                                                                   | Some f => [f] | None => [] end) fs;
                                                   it_ifaces := it_ifaces t; it_possible := it_possible t; it_enum := it_enum t |} ]
                                 | None => [] end) (is_types S)
  end.
Definition seen_find (types : list itype) (n : string) : option itype := find (fun t => String.eqb (it_name t) n) types.

(* ---------- resolvers ---------- *)
Definition jopt (o : option string) : json := match o with Some s => JStr s | None => JNull end.

(* resolveType on a type reference, under the TypeRef fragment with [depth] further levels of ofType *)
Fixpoint tyref (types : list itype) (depth : nat) (t : ty) : json :=
  let deeper := fun (k : string) (inner : ty) =>
    match depth with
    | O => JObj [("kind", JStr k); ("name", JNull)]
    | S d => JObj [("kind", JStr k); ("name", JNull); ("ofType", tyref types d inner)]
    end in
  match t with
  | TNamed n true => deeper "NON_NULL" (TNamed n false)
  | TList e true => deeper "NON_NULL" (TList e false)
  | TList e false => deeper "LIST" e
  | TNamed n false =>
      match seen_find types n with
      | None => JNull                                     (* executable_schema.go:428 *)
      | Some nt => JObj ([("kind", JStr (kind_str (it_kind nt))); ("name", JStr n)] ++
                         match depth with O => [] | S _ => [("ofType", JNull)] end)
      end
  end.
Definition std_depth := 7.

Definition input_value (types : list itype) (a : ival) : json :=
  JObj [("name", JStr (iv_name a)); ("description", JStr (iv_desc a)); ("type", tyref types std_depth (iv_type a));
        ("defaultValue", jopt (iv_default a))].
Definition field_json (types : list itype) (f : ifield) : json :=
  JObj [("name", JStr (if_name f)); ("description", JStr (if_desc f)); ("args", JArr (map (input_value types) (if_args f)));
        ("type", tyref types std_depth (if_type f));
        ("isDeprecated", JBool (match if_dep f with Some _ => true | None => false end)); ("deprecationReason", jopt (if_dep f))].
Definition input_field_json (types : list itype) (f : ifield) : json :=
  JObj [("name", JStr (if_name f)); ("description", JStr (if_desc f)); ("type", tyref types std_depth (if_type f));
        ("defaultValue", jopt (if_default f))].
Definition enum_json (e : ienum) : json :=
  JObj [("name", JStr (ie_name e)); ("description", JStr (ie_desc e));
        ("isDeprecated", JBool (match ie_dep e with Some _ => true | None => false end)); ("deprecationReason", jopt (ie_dep e))].

(* FullType; [full_possible]: Schema.PossibleTypes is shared with the unfiltered schema *)
Definition full_type (types : list itype) (t : itype) : json :=
  JObj [("kind", JStr (kind_str (it_kind t))); ("name", JStr (it_name t)); ("description", JStr (it_desc t));
        ("fields", JArr (map (field_json types) (filter (fun f => negb (starts_uu (if_name f))) (it_fields t))));
        ("inputFields", match it_kind t with KInput => JArr (map (input_field_json types) (it_fields t)) | _ => JNull end);
        ("interfaces", JArr (map (fun i => tyref types std_depth (TNamed i false)) (it_ifaces t)));
        ("enumValues", JArr (map enum_json (it_enum t)));
        ("possibleTypes", if kind_abstract (it_kind t) then JArr (map (fun n => tyref types std_depth (TNamed n false)) (it_possible t)) else JNull)].
Definition dir_json (types : list itype) (d : idir) : json :=
  JObj [("name", JStr (id_name d)); ("description", JStr (id_desc d)); ("locations", JArr (map JStr (id_locs d)));
        ("args", JArr (map (input_value types) (id_args d)))].
Definition root_json (types : list itype) (n : string) : json :=
  match seen_find types n with Some _ => JObj [("name", JStr n)] | None => JNull end.

(* the answer to the standard query; `types` and `directives` in the order of [S] (the harness sorts both sides by name:
   Go iterates maps) *)
Definition introspect (S : isch) (view : option tmap) : json :=
  let types := seen_types S view in
  JObj [("__schema", JObj [("queryType", root_json types "Query"); ("mutationType", root_json types "Mutation");
                           ("subscriptionType", root_json types "Subscription");
                           ("types", JArr (map (full_type types) types));
                           ("directives", JArr (map (dir_json types) (is_dirs S)))])].

(* ---------- what a client reconstructs ---------- *)
Definition jget (k : string) (j : json) : option json := match j with JObj kvs => lookup k kvs | _ => None end.
Definition jstr (j : json) : option string := match j with JStr s => Some s | _ => None end.
Definition jstr_or_null (j : json) : option (option string) := match j with JStr s => Some (Some s) | JNull => Some None | _ => None end.
Definition jarr (j : json) : option (list json) := match j with JArr l => Some l | _ => None end.
Definition omap {A B} (f : A -> option B) : list A -> option (list B) :=
  fix go (l : list A) : option (list B) :=
    match l with
    | [] => Some []
    | x :: t => match f x, go t with Some y, Some r => Some (y :: r) | _, _ => None end
    end.
Notation "'olet' x <- e ;; k" := (match e with Some x => k | None => None end) (at level 200, x pattern, e at level 100, k at level 200).

Definition kind_of_str (s : string) : option kind :=
  if String.eqb s "SCALAR" then Some KScalar else if String.eqb s "OBJECT" then Some KObject
  else if String.eqb s "INTERFACE" then Some KInterface else if String.eqb s "UNION" then Some KUnion
  else if String.eqb s "ENUM" then Some KEnum else if String.eqb s "INPUT_OBJECT" then Some KInput else None.

(* TypeRef -> type; the answer nests at most std_depth + 1 objects, fuel 10 is never exhausted on one *)
Fixpoint untyref_f (fuel : nat) (j : json) : option ty :=
  match fuel with O => None | S fuel =>
  let untyref := untyref_f fuel in
  match j with
  | JObj kvs =>
      match lookup "kind" kvs with
      | Some (JStr k) =>
          if String.eqb k "NON_NULL" then
            match lookup "ofType" kvs with
            | Some inner => match untyref inner with
                            | Some (TNamed n false) => Some (TNamed n true)
                            | Some (TList e false) => Some (TList e true)
                            | _ => None end
            | None => None end
          else if String.eqb k "LIST" then
            match lookup "ofType" kvs with
            | Some inner => match untyref inner with Some e => Some (TList e false) | None => None end
            | None => None end
          else match lookup "name" kvs with Some (JStr n) => Some (TNamed n false) | _ => None end
      | _ => None
      end
  | _ => None
  end end.
Definition untyref := untyref_f 10.
Definition named_ref (j : json) : option string := match untyref j with Some (TNamed n false) => Some n | _ => None end.

Definition un_input_value (j : json) : option ival :=
  olet n <- (olet x <- jget "name" j ;; jstr x) ;; olet d <- (olet x <- jget "description" j ;; jstr x) ;;
  olet t <- (olet x <- jget "type" j ;; untyref x) ;; olet dv <- (olet x <- jget "defaultValue" j ;; jstr_or_null x) ;;
  Some {| iv_name := n; iv_desc := d; iv_type := t; iv_default := dv |}.
Definition un_field (j : json) : option ifield :=
  olet n <- (olet x <- jget "name" j ;; jstr x) ;; olet d <- (olet x <- jget "description" j ;; jstr x) ;;
  olet args <- (olet x <- jget "args" j ;; olet l <- jarr x ;; omap un_input_value l) ;;
  olet t <- (olet x <- jget "type" j ;; untyref x) ;;
  olet dep <- (olet x <- jget "deprecationReason" j ;; jstr_or_null x) ;;
  Some {| if_name := n; if_desc := d; if_args := args; if_type := t; if_dep := dep; if_default := None |}.
Definition un_input_field (j : json) : option ifield :=
  olet v <- un_input_value j ;;
  Some {| if_name := iv_name v; if_desc := iv_desc v; if_args := []; if_type := iv_type v; if_dep := None; if_default := iv_default v |}.
Definition un_enum (j : json) : option ienum :=
  olet n <- (olet x <- jget "name" j ;; jstr x) ;; olet d <- (olet x <- jget "description" j ;; jstr x) ;;
  olet dep <- (olet x <- jget "deprecationReason" j ;; jstr_or_null x) ;;
  Some {| ie_name := n; ie_desc := d; ie_dep := dep |}.
Definition un_type (j : json) : option itype :=
  olet k <- (olet x <- jget "kind" j ;; olet s <- jstr x ;; kind_of_str s) ;;
  olet n <- (olet x <- jget "name" j ;; jstr x) ;; olet d <- (olet x <- jget "description" j ;; jstr x) ;;
  olet fs <- (match k with
              | KInput => olet x <- jget "inputFields" j ;; olet l <- jarr x ;; omap un_input_field l
              | _ => olet x <- jget "fields" j ;; olet l <- jarr x ;; omap un_field l end) ;;
  olet ifs <- (olet x <- jget "interfaces" j ;; olet l <- jarr x ;; omap named_ref l) ;;
  olet es <- (olet x <- jget "enumValues" j ;; olet l <- jarr x ;; omap un_enum l) ;;
  olet ps <- (olet x <- jget "possibleTypes" j ;; match x with JNull => Some [] | JArr l => omap named_ref l | _ => None end) ;;
  Some {| it_kind := k; it_name := n; it_desc := d; it_fields := fs; it_ifaces := ifs; it_possible := ps; it_enum := es |}.
Definition un_dir (j : json) : option idir :=
  olet n <- (olet x <- jget "name" j ;; jstr x) ;; olet d <- (olet x <- jget "description" j ;; jstr x) ;;
  olet locs <- (olet x <- jget "locations" j ;; olet l <- jarr x ;; omap jstr l) ;;
  olet args <- (olet x <- jget "args" j ;; olet l <- jarr x ;; omap un_input_value l) ;;
  Some {| id_name := n; id_desc := d; id_locs := locs; id_args := args |}.
Definition reconstruct (j : json) : option isch :=
  olet sc <- jget "__schema" j ;;
  olet ts <- (olet x <- jget "types" sc ;; olet l <- jarr x ;; omap un_type l) ;;
  olet ds <- (olet x <- jget "directives" sc ;; olet l <- jarr x ;; omap un_dir l) ;;
  Some {| is_types := ts; is_dirs := ds |}.

(* ---------- well-formedness assumed by the round-trip theorem (evaluated on every generated schema) ---------- *)
Fixpoint wraps (t : ty) : nat :=
  match t with
  | TNamed _ false => 0 | TNamed _ true => 1
  | TList e false => S (wraps e) | TList e true => S (S (wraps e))
  end.
Definition found (types : list itype) (n : string) : bool := match seen_find types n with Some _ => true | None => false end.
Definition ty_ok (types : list itype) (t : ty) : bool := Nat.leb (wraps t) std_depth && found types (ty_name t).
Definition ival_ok (types : list itype) (a : ival) : bool := ty_ok types (iv_type a).
Definition wfb (S : isch) : bool :=
  let ts := is_types S in
  forallb (fun t => forallb (fun f => ty_ok ts (if_type f) && forallb (ival_ok ts) (if_args f)) (it_fields t) &&
                    forallb (found ts) (it_ifaces t) && forallb (found ts) (it_possible t)) ts &&
  forallb (fun d => forallb (ival_ok ts) (id_args d)) (is_dirs S).

