(* Model/Config.v — config.go:101-220, 267-287 Load / buildServiceList / reload and plugins/auth_jwt.go:82-108 Configure:
   a state machine over the contents of the configuration file.  [fixed = true] is the code as it is now (after the
   fix: commits that reset the service list and the JWT plugin configuration before decoding); [fixed = false] is the
   behaviour at d802d19, kept for the refutation theorems.  [pfixed] does the same for the services contributed by
   plugins: false = Load builds the list with the plugins enabled by the PREVIOUS load (d802d19), true = with those
   this load enables, after checking the list of the files and the environment as a fresh start does. *)
From V Require Import Base.Util.

(* what one version of the file says (None = the key is omitted) *)
Record file := { f_loadable : bool;                           (* false: invalid JSON or a value of the wrong type *)
                 f_poll : option bool;                        (* "poll-interval" as far as the decoder got: Some true = a valid
                                                                 duration, Some false = an invalid one, None = key omitted *)
                 f_services : option (list string);           (* the "services" key as far as the decoder got *)
                 f_roles : option (list (string * string));   (* auth-jwt "roles": role -> permissions (as text) *)
                 f_keys : option (list string);               (* auth-jwt "public-keys": key ids *)
                 f_plug : list string }.                      (* addresses of the services contributed by the plugins this file
                                                                 enables (Plugin.GraphqlQueryPath), [] when it enables none *)

Record cstate := { cs_mem : list string;                      (* Config.Services (in memory) *)
                   cs_eff : list string;                      (* ExecutableSchema.Services: what is federated *)
                   cs_roles : list (string * string);         (* JWT plugin role table *)
                   cs_keys : list string;                     (* JWT plugin accepted key ids *)
                   cs_poll_ok : bool;                         (* Config.PollInterval (in memory) parses as a duration *)
                   cs_plug : list string }.                   (* services contributed by Config.plugins, the plugins the last
                                                                 completed Load enabled *)

Definition union_set (a b : list string) : list string := dedupe_str (a ++ b).
Fixpoint upsert_all {A} (new old : list (string * A)) : list (string * A) :=
  match new with [] => old | (k, v) :: t => upsert_all t (set_key k v old) end.

Section Config.
  Variable fixed : bool.
  Variable pfixed : bool.
  Variable env : list string.                                 (* BRAMBLE_SERVICE_LIST *)

  (* config.go:101 Load followed by plugin Configure; returns None when Load fails *)
  Definition load (st : cstate) (f : file) : cstate * bool :=
    let mem0 := if fixed then [] else cs_mem st in
    let mem1 := match f_services f with Some l => l | None => mem0 end in
    (* scalar settings are decoded over the in-memory value and are NOT reset: an invalid duration stays until a later
       file sets the key again (config.go:112, :127) *)
    let poll := match f_poll f with Some b => b | None => cs_poll_ok st end in
    let failed := {| cs_mem := mem1; cs_eff := cs_eff st; cs_roles := cs_roles st; cs_keys := cs_keys st; cs_poll_ok := poll; cs_plug := cs_plug st |} in
    if negb (f_loadable f) || negb poll then (failed, false)
    else
      let base := union_set mem1 env in
      (* the list Load checks for emptiness *)
      let checked := if pfixed then base else union_set base (cs_plug st) in
      match checked with
      | [] => (failed, false)
      | _ =>
        let services := if pfixed then union_set base (f_plug f) else checked in
        let roles := match f_roles f with
                     | Some r => if fixed then upsert_all r [] else upsert_all r (cs_roles st)
                     | None => if fixed then [] else cs_roles st end in
        let keys := match f_keys f with
                    | Some k => if fixed then dedupe_str k else union_set (cs_keys st) k
                    | None => if fixed then [] else cs_keys st end in
        ({| cs_mem := services; cs_eff := cs_eff st; cs_roles := roles; cs_keys := keys; cs_poll_ok := poll; cs_plug := f_plug f |}, true)
      end.

  (* config.go:267 reload: Load, then hand the list to the executable schema *)
  Definition reload (st : cstate) (f : file) : cstate :=
    let '(st', ok) := load st f in
    if ok then {| cs_mem := cs_mem st'; cs_eff := cs_mem st'; cs_roles := cs_roles st'; cs_keys := cs_keys st'; cs_poll_ok := cs_poll_ok st'; cs_plug := cs_plug st' |} else st'.

  Definition zero := {| cs_mem := []; cs_eff := []; cs_roles := []; cs_keys := []; cs_poll_ok := true; cs_plug := [] |}.
  (* a freshly started gateway on file f: GetConfig (Load with no plugin enabled yet), then Init, which builds the list
     once more now that the plugins are configured (config.go:356) *)
  Definition fresh (f : file) : option cstate :=
    let '(st', ok) := load zero f in
    let services := union_set (cs_mem st') (cs_plug st') in
    if ok then Some {| cs_mem := services; cs_eff := services; cs_roles := cs_roles st'; cs_keys := cs_keys st'; cs_poll_ok := cs_poll_ok st'; cs_plug := cs_plug st' |} else None.
End Config.

(* what the property compares: federated services as a set, role table, key ids *)
Definition eff_equiv (a b : cstate) : bool :=
  seteq_str (cs_eff a) (cs_eff b) &&
  multiset_eqb (fun p q => String.eqb (fst p) (fst q) && String.eqb (snd p) (snd q)) (cs_roles a) (cs_roles b) &&
  seteq_str (cs_keys a) (cs_keys b).
