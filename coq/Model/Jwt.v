(* Model/Jwt.v — plugins/auth_jwt.go:117-183 ApplyMiddlewarePublicMux as a decision tree over the components of the
   presented token.  golang-jwt's parser, base64/JSON decoding, RSA verification and the clock are oracles: a token is
   given by what they report about it. *)
From V Require Import Base.Util.

Record token := {
  t_wellformed : bool;                 (* three base64url segments that decode to JSON objects *)
  t_alg : string;                      (* header "alg" *)
  t_kid : option string;               (* header "kid", if it is a string *)
  t_verifies_under : list string;      (* oracle rsa_verify: ids of the configured keys under which the signature verifies
                                          with the RSA method named by alg *)
  t_time_valid : bool;                 (* exp / nbf / iat against the clock *)
  t_role : string;                     (* claim "Role" *)
  t_claims : list (string * string)    (* non-empty standard claims: Audience, ID, Issuer, Subject *)
}.
Inductive presented := NoToken | Presented (t : token).   (* Authorization header first, then the "token" cookie *)

Record jcfg := { j_keys : list string; j_roles : list (string * string) (* role -> permission set (as text) *) }.
Inductive decision := Reject401 | Proceed (perms : option string (* None: the zero permission set *)) (headers : list (string * string)).

Definition rsa_alg (a : string) : bool := mem a ["RS256"; "RS384"; "RS512"].

Definition decide (c : jcfg) (p : presented) : decision :=
  match p with
  | NoToken => Proceed (lookup "public_role" (j_roles c)) []
  | Presented t =>
      if negb (t_wellformed t) then Reject401 else
      if negb (rsa_alg (t_alg t)) then Reject401 else                       (* the signing method must be an RSA method: auth_jwt.go:131 *)
      match t_kid t with
      | None => if mem "" (j_keys c) && mem "" (t_verifies_under t) && t_time_valid t
                then match lookup (t_role t) (j_roles c) with
                     | Some perms => Proceed (Some perms) (map (fun kv => ("JWT-Claim-" +++ fst kv, snd kv)) (t_claims t) ++ [("JWT-Claim-Role", t_role t)])
                     | None => Reject401 end
                else Reject401
      | Some kid =>
          if negb (mem kid (j_keys c)) then Reject401 else
          if negb (mem kid (t_verifies_under t)) then Reject401 else
          if negb (t_time_valid t) then Reject401 else
          match lookup (t_role t) (j_roles c) with
          | Some perms => Proceed (Some perms) (map (fun kv => ("JWT-Claim-" +++ fst kv, snd kv)) (t_claims t) ++ [("JWT-Claim-Role", t_role t)])
          | None => Reject401
          end
      end
  end.
