(* Model/Shape.v — execution_result.go:187-391 (null propagation pass, response writer) and execution.go:529-663
   (unionAndTrimSelectionSet, selectionSetMerger), AS THEY ARE in /repo, including the in-place rewriting of the
   selection tree.  Go mutates *ast.Field / fragment nodes that are shared between the list being walked and the
   operation; here every walk returns the rewritten selection list, which is threaded through list elements and
   from the null pass into the writer (DESIGN.md Appendix D.4/D.5). *)
From V Require Import Base.Util Gql.Ast Gql.RefExec.

(* the writer emitted no bytes for a value (a scalar where an object was expected): the body is not JSON *)
Definition JBroken := JStr "<<no bytes written>>".

(* execution.go:563 includeFragment; a nil ObjectDefinition (encl = "") drops the fragment: execution.go:555 *)
Definition include_fragment (c : schema) (typename encl tc : string) : bool :=
  negb (String.eqb encl "") &&
  negb (is_abstract c encl && mem encl (implements_of c tc) && negb (String.eqb tc typename)).

(* ---- selectionSetMerger ---- seen: alias -> (name, has a non-nil selection set) *)
Definition seen_t := list (string * (string * bool)).

(* seenField.SelectionSet = append(seenField.SelectionSet, extra...): the seen field is the first field aliased [a]
   among the direct members of [l] *)
Fixpoint append_in_fields (a : string) (extra : list sel) (l : list sel) : list sel * bool :=
  match l with
  | [] => ([], false)
  | SField al n ar ds t (Some ss) :: rest =>
      if String.eqb al a then (SField al n ar ds t (Some (ss ++ extra)) :: rest, true)
      else let (r, ok) := append_in_fields a extra rest in (SField al n ar ds t (Some ss) :: r, ok)
  | x :: rest =>
      match x with
      | SField al _ _ _ _ None => if String.eqb al a then (l, true) else let (r, ok) := append_in_fields a extra rest in (x :: r, ok)
      | _ => let (r, ok) := append_in_fields a extra rest in (x :: r, ok)
      end
  end.

(* the list being shaped, rewritten so far: (selection, in the view?) — only members of the view can hold a seen field *)
Definition acc_t := list (sel * bool).
Fixpoint append_in_acc (a : string) (extra : list sel) (acc : acc_t) : acc_t * bool :=
  match acc with
  | [] => ([], false)
  | (x, false) :: rest => let (r, ok) := append_in_acc a extra rest in ((x, false) :: r, ok)
  | (x, true) :: rest =>
      let '(x', ok) :=
        match x with
        | SField _ _ _ _ _ _ => match append_in_fields a extra [x] with ([y], ok) => (y, ok) | _ => (x, false) end
        | SInline tc ds e body => let (b, ok) := append_in_fields a extra body in (SInline tc ds e b, ok)
        | SSpread f ds e tc body => let (b, ok) := append_in_fields a extra body in (SSpread f ds e tc b, ok)
        end in
      if ok then ((x', true) :: rest, true)
      else let (r, ok2) := append_in_acc a extra rest in ((x, true) :: r, ok2)
  end.

(* execution.go:620 shouldAppendField on field (al, n, oss); [cur] = members of the fragment being de-duplicated *)
Definition should_append (al n : string) (oss : option (list sel)) (seen : seen_t) (cur : list sel) (acc : acc_t)
  : bool * seen_t * list sel * acc_t :=
  match lookup al seen with
  | Some (n0, has0) =>
      match oss with
      | Some extra =>
          if String.eqb n0 n && has0 then
            let (cur', ok) := append_in_fields al extra cur in
            if ok then (false, seen, cur', acc) else (false, seen, cur, fst (append_in_acc al extra acc))
          else (false, seen, cur, acc)
      | None => (false, seen, cur, acc)
      end
  | None => (true, (al, (n, match oss with Some _ => true | None => false end)) :: seen, cur, acc)
  end.

(* execution.go:648 dedupeFragmentSelectionSet *)
Fixpoint dedupe (fs : list sel) (seen : seen_t) (cur : list sel) (acc : acc_t) : list sel * seen_t * acc_t :=
  match fs with
  | [] => (cur, seen, acc)
  | SField al n ar ds t oss :: rest =>
      let '(app, seen1, cur1, acc1) := should_append al n oss seen cur acc in
      dedupe rest seen1 (if app then cur1 ++ [SField al n ar ds t oss] else cur1) acc1
  | x :: rest => dedupe rest seen (cur ++ [x]) acc
  end.

(* execution.go:529 unionAndTrimSelectionSet *)
Fixpoint union_trim_go (c : schema) (typename : string) (ss : list sel) (seen : seen_t) (acc : acc_t) : acc_t :=
  match ss with
  | [] => acc
  | SField al n ar ds t oss :: rest =>
      let '(app, seen1, _, acc1) := should_append al n oss seen [] acc in
      union_trim_go c typename rest seen1 (acc1 ++ [(SField al n ar ds t oss, app)])
  | SInline tc ds e fs :: rest =>
      if include_fragment c typename e tc then
        let '(d, seen1, acc1) := dedupe fs seen [] acc in
        match d with
        | [] => union_trim_go c typename rest seen1 (acc1 ++ [(SInline tc ds e fs, false)])
        | _ => union_trim_go c typename rest seen1 (acc1 ++ [(SInline tc ds e d, true)])      (* fragment.SelectionSet = deduped *)
        end
      else union_trim_go c typename rest seen (acc ++ [(SInline tc ds e fs, false)])
  | SSpread f ds e tc fs :: rest =>
      if include_fragment c typename e tc then
        let '(d, seen1, acc1) := dedupe fs seen [] acc in
        match d with
        | [] => union_trim_go c typename rest seen1 (acc1 ++ [(SSpread f ds e tc fs, false)])
        | _ => union_trim_go c typename rest seen1 (acc1 ++ [(SSpread f ds e tc d, true)])    (* fragment.Definition.SelectionSet = deduped *)
        end
      else union_trim_go c typename rest seen (acc ++ [(SSpread f ds e tc fs, false)])
  end.
(* result: the rewritten list (same length and positions as the input) and which positions form the view *)
Definition union_trim (c : schema) (typename : string) (ss : list sel) : acc_t := union_trim_go c typename ss [] [].

Definition typename_of (m : list (string * raw)) : string :=
  match lookup "_bramble__typename" m with Some (RStr s) => s | _ => "" end.

Record berr := { be_alias : string; be_path : list pe }.
Inductive bres := BOk (v : raw) (ss : list sel) (errs : list berr) (up : bool) | BErr (msg : string).

Definition set_child (s : sel) (ss' : list sel) : sel :=
  match s with
  | SField al n ar ds t (Some _) => SField al n ar ds t (Some ss')
  | SField _ _ _ _ _ None => s
  | SInline tc ds e _ => SInline tc ds e ss'
  | SSpread f ds e tc _ => SSpread f ds e tc ss'
  end.

(* execution_result.go:198 bubbleUpNullValuesInPlaceRec *)
Fixpoint bubble (fuel : nat) (c : schema) (cur : option ty) (ss : list sel) (v : raw) (path : list pe) {struct fuel} : bres :=
  match fuel with O => BErr "out of fuel" | S fuel =>
  match v with
  | RMap m =>
      (* walk the view left to right; [done] = rewritten positions already passed, in reverse *)
      (fix walk (todo : acc_t) (done : list sel) (m : list (string * raw)) (errs : list berr) (up : bool) : bres :=
         match todo with
         | [] => BOk (RMap m) (rev done) errs up
         | (x, false) :: rest => walk rest (x :: done) m errs up
         | (SField al n ar ds t oss as x, true) :: rest =>
             if starts_uu n then walk rest (x :: done) m errs up else
             match lookup al m with
             | None | Some RNil =>
                 (* execution_result.go:212-222 (after fix 17e5b21): report a non-null null, then go on with the next field *)
                 if ty_nn t then walk rest (x :: done) m (errs ++ [{| be_alias := al; be_path := path ++ [PName al] |}]) true
                 else walk rest (x :: done) m errs up
             | Some child =>
                 match oss with
                 | None => walk rest (x :: done) m errs up
                 | Some css =>
                     match bubble fuel c (Some t) css child (path ++ [PName al]) with
                     | BErr e => BErr e
                     | BOk child' css' lerrs lup =>
                         let x' := set_child x css' in
                         if lup then
                           if ty_nn t then walk rest (x' :: done) (set_key al child' m) (errs ++ lerrs) true
                           else walk rest (x' :: done) (set_key al RNil m) (errs ++ lerrs) up
                         else walk rest (x' :: done) (set_key al child' m) (errs ++ lerrs) up
                     end
                 end
             end
         | (x, true) :: rest =>      (* a fragment: same object, the fragment's own selection, a fresh de-duplication scope *)
             match bubble fuel c None (sel_children x) (RMap m) path with
             | BErr e => BErr e
             | BOk v' fs' lerrs lup =>
                 let m' := match v' with RMap m' => m' | _ => m end in
                 walk rest (set_child x fs' :: done) m' (errs ++ lerrs) (up || lup)      (* lines 243/251, after fix 694d7a8 *)
             end
         end) (union_trim c (typename_of m) ss) [] m [] false
  | RArr l =>
      let elem_nn := match cur with Some t => match ty_elem t with Some e => ty_nn e | None => false end | None => false end in
      (fix each (l : list raw) (i : nat) (ss : list sel) (acc : list raw) (errs : list berr) (up : bool) : bres :=
         match l with
         | [] => BOk (RArr (rev acc)) ss errs up
         | x :: rest =>
             (* after fix c3464ca: an element that is itself a list is judged by the element type *)
             let cur' := match x, cur with
                         | RArr _, Some t => match ty_elem t with Some e => Some e | None => cur end
                         | _, _ => cur end in
             match bubble fuel c cur' ss x (path ++ [PIdx i]) with
             | BErr e => BErr e
             | BOk x' ss' lerrs lup =>
                 if lup then if elem_nn then each rest (S i) ss' (x' :: acc) (errs ++ lerrs) true
                             else each rest (S i) ss' (RNil :: acc) (errs ++ lerrs) up
                 else each rest (S i) ss' (x' :: acc) (errs ++ lerrs) up
             end
         end) l 0 ss [] [] false
  | RNil =>
      match cur with
      | Some t => match ty_elem t with
                  | Some e => if ty_nn e then BErr "unexpected result type <nil>" else BOk RNil ss [] false
                  | None => BErr "PANIC nil Elem dereference"
                  end
      | None => BErr "PANIC nil currentType dereference"
      end
  | _ => BErr "unexpected result type"
  end end.

(* execution_result.go:311 formatResponseDataRec; a fragment (insideFragment) yields members to splice *)
Inductive fres := FVal (j : json) | FMembers (kvs : list (string * json)).
Definition value_json (f : fres) : json := match f with FVal j => j | FMembers k => JObj k end.

Fixpoint respond (fuel : nat) (c : schema) (ss : list sel) (v : raw) (inside : bool) {struct fuel} : fres * list sel :=
  match fuel with O => (FVal JBroken, ss) | S fuel =>
  match v with
  | RNil => (FVal JNull, ss)
  | RMap [] => (FVal JNull, ss)
  | RMap m =>
      let '(members, ss') :=
        (fix walk (todo : acc_t) (done : list sel) (members : list (string * json)) : list (string * json) * list sel :=
           match todo with
           | [] => (members, rev done)
           | (x, false) :: rest => walk rest (x :: done) members
           | (SField al n ar ds t oss as x, true) :: rest =>
               match lookup al m with
               | None => walk rest (x :: done) (members ++ [(al, JNull)])
               | Some child =>
                   match oss with
                   | Some ((_ :: _) as css) =>
                       let '(r, css') := respond fuel c css child false in
                       walk rest (set_child x css' :: done) (members ++ [(al, value_json r)])
                   | _ => walk rest (x :: done) (members ++ [(al, raw_json child)])
                   end
               end
           | (x, true) :: rest =>
               let '(r, fs') := respond fuel c (sel_children x) (RMap m) true in
               walk rest (set_child x fs' :: done) (members ++ match r with FMembers k => k | FVal _ => [] end)
           end) (union_trim c (typename_of m) ss) [] [] in
      (if inside then FMembers members else FVal (JObj members), ss')
  | RArr l =>
      let '(js, ss') := fold_left (fun (st : list json * list sel) x =>
                                     let '(r, s') := respond fuel c (snd st) x false in (fst st ++ [value_json r], s')) l ([], ss) in
      (FVal (JArr js), ss')
  | _ => (FVal JBroken, ss)
  end end.
