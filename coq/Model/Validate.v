(* Model/Validate.v — validate.go: ValidateSchema and the rule checks it calls, on the schema representation of
   Model/Merge.v extended with what the rules read (directive definitions, root type names).
   Go panics (nil Query dereference) are explicit error values. *)
From V Require Import Base.Util Gql.Ast Model.Merge.

Record dirdef := { dd_name : string; dd_nargs : nat; dd_locations : list string }.
Record vschema := {
  vs_types : sschema;
  vs_dirs : list dirdef;
  vs_query : option string; vs_mutation : option string; vs_subscription : option string;   (* names of the root types *)
  vs_valid_after_merge : bool     (* oracle: MergeSchemas(schema) formats and reloads as a valid GraphQL schema (validate.go:456) *)
}.

Notation "a ;;; b" := (match a with Ok _ => b | Err m => Err m end) (at level 61, right associativity).
Definition check (b : bool) (msg : string) : res unit := if b then Ok tt else Err msg.

Definition obj_boundary (t : tdef) : bool := kind_eqb (td_kind t) KObject && td_boundary t.
Definition obj_namespace (t : tdef) : bool := kind_eqb (td_kind t) KObject && td_namespace t.
Definition find_dir (n : string) (s : vschema) : option dirdef := find (fun d => String.eqb (dd_name d) n) (vs_dirs s).
Definition query_type (s : vschema) : option tdef := match vs_query s with Some n => find_type n (vs_types s) | None => None end.
Definition ty_is (t : ty) (n : string) (nn : bool) : bool := match t with TNamed m b => String.eqb m n && Bool.eqb b nn | _ => false end.
Definition field_named (n : string) (t : tdef) : option fdef := find (fun f => String.eqb (fd_name f) n) (td_fields t).
Definition is_ns_type (s : vschema) (n : string) : bool := match find_type n (vs_types s) with Some t => td_namespace t | None => false end.

(* validate.go:440 validateRootObjectNames *)
Definition v_root_names (s : vschema) : res unit :=
  match vs_query s with Some n => check (String.eqb n "Query") "the schema Query type can not be renamed" | None => Ok tt end ;;;
  match vs_mutation s with Some n => check (String.eqb n "Mutation") "the schema Mutation type can not be renamed" | None => Ok tt end ;;;
  match vs_subscription s with Some n => check (String.eqb n "Subscription") "the schema Subscription type can not be renamed" | None => Ok tt end.

(* validate.go:290 validateBoundaryDirective *)
Definition v_boundary_directive (s : vschema) : res unit :=
  match find_dir "boundary" s with
  | None => Err "@boundary directive not found"
  | Some d =>
      check (Nat.eqb (dd_nargs d) 0) "@boundary directive may not take arguments" ;;;
      match dd_locations d with
      | [l] => check (String.eqb l "OBJECT") "@boundary directive should have location OBJECT"
      | [l1; l2] => check ((String.eqb l1 "OBJECT" || String.eqb l1 "FIELD_DEFINITION") && (String.eqb l2 "OBJECT" || String.eqb l2 "FIELD_DEFINITION") &&
                           negb (String.eqb l1 l2)) "@boundary directive should have locations OBJECT | FIELD_DEFINITION"
      | _ => Err "@boundary directive should have locations OBJECT | FIELD_DEFINITION"
      end
  end.
Definition uses_fields_boundary (s : vschema) : bool :=
  match find_dir "boundary" s with Some d => Nat.eqb (List.length (dd_locations d)) 2 | None => false end.

(* validate.go:368 validateBoundaryObjectsFormat (any type carrying the directive) *)
Definition v_boundary_format (s : vschema) : res unit :=
  check (forallb (fun t => negb (td_boundary t) ||
                           match field_named "id" t with Some f => ty_is (fd_ty f) "ID" true | None => false end) (vs_types s))
        "missing or ill-typed id field in boundary type".

(* validate.go:399 validateBoundaryQuery *)
Definition boundary_query_ok (f : fdef) : bool :=
  match fd_args f with
  | [a] =>
      match ad_ty a with
      | TList _ _ => ty_eqb (ad_ty a) (TList (TNamed "ID" true) true) &&
                     ty_nn (fd_ty f) && match fd_ty f with TList _ _ => true | _ => false end
      | _ => ty_eqb (ad_ty a) (TNamed "ID" true) && negb (ty_nn (fd_ty f))
      end
  | _ => false
  end.

(* validate.go:327 validateBoundaryFields: every boundary object has exactly one lookup, every lookup a boundary object *)
Definition v_boundary_fields (s : vschema) (q : tdef) : res unit :=
  let btypes := map td_name (filter obj_boundary (vs_types s)) in
  let lookups := filter fd_boundary (td_fields q) in
  check (forallb (fun f => mem (ty_name (fd_ty f)) btypes) lookups) "declared boundary query for non-boundary type" ;;;
  check (Nat.eqb (List.length (dedupe_str (map (fun f => ty_name (fd_ty f)) lookups))) (List.length lookups)) "declared duplicate query for boundary type" ;;;
  check (forallb (fun f => Nat.eqb (List.length (fd_args f)) 1) lookups) "boundary field expects exactly one argument" ;;;
  check (forallb (fun b => existsb (fun f => String.eqb (ty_name (fd_ty f)) b) lookups) btypes) "missing boundary fields".

Definition has_node_query (q : tdef) : bool := match field_named "node" q with Some _ => true | None => false end.

(* validate.go:152 validateNodeQuery, :181 validateNodeInterface, :205 validateImplementsNode *)
Definition v_node_query (q : tdef) : res unit :=
  match field_named "node" q with
  | None => Err "the Query type is missing the 'node' field"
  | Some f => check (match fd_args f with [a] => String.eqb (ad_name a) "id" && ty_is (ad_ty a) "ID" true | _ => false end &&
                     ty_is (fd_ty f) "Node" false) "ill-formed node query"
  end.
Definition v_node_interface (s : vschema) : res unit :=
  match find_type "Node" (vs_types s) with
  | None => Err "the Node interface was not found"
  | Some t => check (kind_eqb (td_kind t) KInterface &&
                     match td_fields t with [f] => String.eqb (fd_name f) "id" && ty_is (fd_ty f) "ID" true | _ => false end) "ill-formed Node interface"
  end.
Definition v_implements_node (s : vschema) : res unit :=
  check (forallb (fun t => negb (obj_boundary t) || mem "Node" (td_ifaces t)) (vs_types s)) "boundary object does not implement Node".

(* validate.go:33 validateBoundaryObjects *)
(* validate.go usesBoundaryDirective: a boundary object, or a Query field marked as a lookup *)
Definition uses_boundary (s : vschema) : bool :=
  existsb obj_boundary (vs_types s) || match query_type s with Some q => existsb fd_boundary (td_fields q) | None => false end.
Definition v_boundary_objects (s : vschema) : res unit :=
  if negb (uses_boundary s) then Ok tt else
  v_boundary_directive s ;;;
  v_boundary_format s ;;;
  match query_type s with
  | None => Err "the schema is missing a Query type"
  | Some q =>
      (if uses_fields_boundary s then
         check (forallb boundary_query_ok (filter fd_boundary (td_fields q))) "invalid boundary query" ;;;
         (if has_node_query q then Ok tt else v_boundary_fields s q)       (* "node compatibility" *)
       else v_node_interface s ;;; v_implements_node s) ;;;
      (if has_node_query q then v_node_query q else Ok tt)
  end.

(* validate.go:247 validateNamespaceDirective, :270 ascendence, :232 fields *)
Definition v_namespace_directive (s : vschema) : res unit :=
  match find_dir "namespace" s with
  | None => Err "@namespace directive not found"
  | Some d => check (Nat.eqb (dd_nargs d) 0) "@namespace directive may not take arguments" ;;;
              check (match dd_locations d with [l] => String.eqb l "OBJECT" | _ => false end) "@namespace directive should have location OBJECT"
  end.
Definition v_namespace_ascendence (s : vschema) : res unit :=
  check (forallb (fun t => td_namespace t || is_root (td_name t) ||
                           forallb (fun f => negb (is_ns_type s (ty_name (fd_ty f)))) (td_fields t)) (vs_types s))
        "namespace type used in a non-namespace object".
(* validateNamespacesFields: depth-first through namespace-typed fields; the visited set (a Go map, shared by reference)
   makes it terminate on cyclic namespace types.  Fuel is an artefact of Gallina: it is never exhausted when
   fuel > number of types (each call marks a new type). *)
Fixpoint ns_links (fuel : nat) (s : vschema) (visited : list string) (tn : string) : res (list string) :=
  match fuel with
  | O => Err "OUT OF FUEL"
  | S fuel =>
      if mem tn visited then Ok visited else
      match find_type tn (vs_types s) with
      | None => Ok visited
      | Some t =>
          fold_left (fun r f =>
            match r with
            | Err m => Err m
            | Ok vis => if is_ns_type s (ty_name (fd_ty f))
                        then if ty_nn (fd_ty f) then ns_links fuel s vis (ty_name (fd_ty f))
                             else Err "namespace return type should be non nullable"
                        else Ok vis
            end) (td_fields t) (Ok (tn :: visited))
      end
  end.
Definition v_namespace_root (s : vschema) (r : option string) : res unit :=
  match r with
  | Some n => match ns_links (S (List.length (vs_types s))) s [] n with Ok _ => Ok tt | Err m => Err m end
  | None => Ok tt
  end.
Definition v_namespace_objects (s : vschema) : res unit :=
  if negb (existsb obj_namespace (vs_types s)) then Ok tt else
  v_namespace_directive s ;;;
  v_namespace_ascendence s ;;;
  v_namespace_root s (vs_query s) ;;; v_namespace_root s (vs_mutation s) ;;; v_namespace_root s (vs_subscription s).

(* validate.go:126 validateServiceQuery, :100 validateServiceObject *)
Definition v_service_query (s : vschema) : res unit :=
  match query_type s with
  | None => Err "the schema is missing a Query type"
  | Some q => match field_named "service" q with
              | None => Err "the Query type is missing the 'service' field"
              | Some f => check (match fd_args f with [] => true | _ => false end) "the 'service' field of Query must take no arguments" ;;;
                          check (ty_is (fd_ty f) "Service" true) "the 'service' field of Query must be of type 'Service!'"
              end
  end.
Definition v_service_object (s : vschema) : res unit :=
  match find_type "Service" (vs_types s) with
  | None => Err "the Service object was not found"
  | Some t => check (kind_eqb (td_kind t) KObject) "the Service type must be an object" ;;;
              check (Nat.eqb (List.length (td_fields t)) 3) "the Service object should have exactly 3 fields" ;;;
              check (forallb (fun f => mem (fd_name f) ["name"; "version"; "schema"] && ty_is (fd_ty f) "String" true) (td_fields t))
                    "ill-formed Service object"
  end.

(* validate.go:11 ValidateSchema *)
Definition validate (s : vschema) : res unit :=
  v_root_names s ;;;
  v_boundary_objects s ;;;
  v_namespace_objects s ;;;
  v_service_query s ;;;
  v_service_object s ;;;
  check (vs_valid_after_merge s) "schema will become invalid after merge operation".
