(* Model/ConcExec.v — execution.go:54-98 Execute, :100-146 executeRootStep, :161-213 executeChildStep as a transition
   system: main, the collector goroutine and one goroutine per started step over an unbuffered channel, an error group
   (first error cancels the context) and an atomic counter.  [fire] is a FUNCTION, so [run labels init] doubles as the
   acceptor of observed schedules.  [fixed = true] is the code as it is now (after fix d3a4cc6: close + join on the
   error path); [fixed = false] is the error path as it was at d802d19, kept for the refutation theorem. *)
From Coq Require Import List Arith Bool Lia.
Import ListNotations.

(* ---- plan skeleton: a step has an id and children; the oracle says whether its request succeeds
        and (abstracting data) which children find ids to look up ---- *)
Inductive stp := St (id : nat) (children : list stp).
Record oracle := { succeeds : nat -> bool; has_ids : nat -> bool }.

(* program points of one step goroutine (execution.go:100-146 / 161-213) *)
Inductive gphase :=
| GStart (child : bool)      (* child steps first bump the counter and check the limit *)
| GRequest                   (* downstream call in flight *)
| GSend (ok : bool)          (* blocked on q.results <- result (unbuffered) *)
| GSpawn (ok : bool).        (* after the send: spawn children whose ids exist, then return *)
Record gor := { g_step : stp; g_phase : gphase; g_parent : option nat (* ghost: id of the step that spawned it *) }.

Inductive collector := CNotStarted | CRunning | CDone.
Inductive mainpc := MSpawnRoots (rest : list stp) | MStartCollector | MWait | MClose | MJoin | MReturned (ok : bool).

Record state := { gs : list gor; coll : collector; main : mainpc;
                  count : nat; group_err : bool; results : list (nat * option nat) (* arrival order, with the ghost parent *); sent : nat (* lookup rounds sent *) }.

(* [fixed] selects the repaired error path (close + join) vs the code as it is at d802d19 *)
Section Sem.
  Variable fixed : bool.
  Variable max : nat.
  Variable o : oracle.

  Inductive label := LMain | LGor (i : nat).

  Definition sid (s : stp) := match s with St i _ => i end.
  Definition kids (s : stp) := match s with St _ c => c end.

  Fixpoint replace_nth {A} (n : nat) (l : list A) (x : list A) : list A :=
    match n, l with
    | _, [] => []
    | 0, _ :: t => x ++ t
    | S k, h :: t => h :: replace_nth k t x
    end.

  Definition fire_main (st : state) : option state :=
    match main st with
    | MSpawnRoots [] => Some {| gs := gs st; coll := coll st; main := MStartCollector; count := count st;
                                group_err := group_err st; results := results st; sent := sent st |}
    | MSpawnRoots (r :: rest) =>
        Some {| gs := gs st ++ [{| g_step := r; g_phase := GStart false; g_parent := None |}]; coll := coll st; main := MSpawnRoots rest;
                count := count st; group_err := group_err st; results := results st; sent := sent st |}
    | MStartCollector => Some {| gs := gs st; coll := CRunning; main := MWait; count := count st;
                                 group_err := group_err st; results := results st; sent := sent st |}
    | MWait => (* group.Wait(): enabled only when every step goroutine has returned *)
        match gs st with
        | [] => if group_err st
                then if fixed
                     then Some {| gs := []; coll := coll st; main := MClose; count := count st; group_err := true;
                                  results := results st; sent := sent st |}
                     else Some {| gs := []; coll := coll st; main := MReturned false; count := count st; group_err := true;
                                  results := results st; sent := sent st |}
                else Some {| gs := []; coll := coll st; main := MClose; count := count st; group_err := false;
                             results := results st; sent := sent st |}
        | _ => None
        end
    | MClose => Some {| gs := gs st; coll := CDone; main := MJoin; count := count st; group_err := group_err st;
                        results := results st; sent := sent st |}
    | MJoin => match coll st with
               | CDone => Some {| gs := gs st; coll := CDone; main := MReturned (negb (group_err st)); count := count st;
                                  group_err := group_err st; results := results st; sent := sent st |}
               | _ => None
               end
    | MReturned _ => None
    end.

  Definition fire_gor (st : state) (i : nat) : option state :=
    match nth_error (gs st) i with
    | None => None
    | Some g =>
      let upd (new : list gor) (cnt : nat) (err : bool) (res : list (nat * option nat)) (snt : nat) :=
          Some {| gs := replace_nth i (gs st) new; coll := coll st; main := main st; count := cnt;
                  group_err := err; results := res; sent := snt |} in
      match g_phase g with
      | GStart false => upd [{| g_step := g_step g; g_phase := GRequest; g_parent := g_parent g |}] (count st) (group_err st) (results st) (sent st)
      | GStart true =>
          if Nat.ltb max (S (count st))
          then upd [] (S (count st)) true (results st) (sent st)                     (* return error: errgroup records it *)
          else upd [{| g_step := g_step g; g_phase := GRequest; g_parent := g_parent g |}] (S (count st)) (group_err st) (results st) (S (sent st))
      | GRequest => (* a cancelled context makes the call fail; otherwise the oracle decides *)
          let ok := negb (group_err st) && succeeds o (sid (g_step g)) in
          upd [{| g_step := g_step g; g_phase := GSend ok; g_parent := g_parent g |}] (count st) (group_err st) (results st) (sent st)
      | GSend ok => match coll st with
                    | CRunning => upd [{| g_step := g_step g; g_phase := GSpawn ok; g_parent := g_parent g |}] (count st) (group_err st)
                                      (results st ++ [(sid (g_step g), g_parent g)]) (sent st)
                    | _ => None       (* nobody receives: blocked *)
                    end
      | GSpawn ok =>
          let ch := if ok then filter (fun c => has_ids o (sid c)) (kids (g_step g)) else [] in
          upd (map (fun c => {| g_step := c; g_phase := GStart true; g_parent := Some (sid (g_step g)) |}) ch) (count st) (group_err st) (results st) (sent st)
      end
    end.

  Definition fire (st : state) (l : label) : option state :=
    match l with LMain => fire_main st | LGor i => fire_gor st i end.

  Fixpoint run (ls : list label) (st : state) : option state :=
    match ls with [] => Some st | l :: t => match fire st l with Some st' => run t st' | None => None end end.

  Definition init (roots : list stp) : state :=
    {| gs := []; coll := CNotStarted; main := MSpawnRoots roots; count := 0; group_err := false; results := []; sent := 0 |}.

  Definition enabled_any (st : state) : bool :=
    match fire_main st with Some _ => true | None =>
      existsb (fun i => match fire_gor st i with Some _ => true | None => false end) (seq 0 (List.length (gs st))) end.

  (* "everything released": main returned, no step goroutine alive, collector exited *)
  Definition released (st : state) : bool :=
    match main st, gs st, coll st with MReturned _, [], CDone => true | _, _, _ => false end.
End Sem.

