(* Model/Gateway.v — executable_schema.go:167-320 ExecuteQuery as a composition of the stage models, with the
   step execution of execution.go:54-265 as a depth-first (hence causally ordered) sequential skeleton.
   Downstream services are spec-conformant executors (Gql/RefExec.v) over their own schema and the shared data graph,
   optionally overridden by a fault assignment. *)
From V Require Import Base.Util Gql.Ast Gql.RefExec Model.Perm Model.SkipInclude Model.PermFilter Model.Plan Model.MergeRes Model.Shape Model.FormatDoc.

Record generation := {
  g_schema : schema;
  g_locations : list (string * string);
  g_is_boundary : list (string * bool);
  g_lookups : list (string * list lookup_def);        (* BoundaryQueries: url -> lookups by type *)
  g_services : list (string * string)                  (* url -> name *)
}.

Inductive fault := FStatus | FTransport | FTimeout | FTooLarge | FBadJSON | FErrorsNull | FErrorsPartial.
Inductive ekind := EPerm | EDownstream | ETimeout | EOther | ENullBubble | EInternal.
Definition ekind_eqb (a b : ekind) : bool :=
  match a, b with
  | EPerm, EPerm | EDownstream, EDownstream | ETimeout, ETimeout | EOther, EOther | ENullBubble, ENullBubble | EInternal, EInternal => true
  | _, _ => false
  end.
Record gerror := { ge_kind : ekind; ge_path : list pe; ge_service : bool (* names the service *) }.

Record request := {
  rq_url : string; rq_optype : opkind; rq_parent : string; rq_sel : list sel;
  rq_ids : list string; rq_lookup : option lookup_def;
  rq_batch : nat                                       (* index of the document within a batched single-entity lookup *)
}.
Record response := { r_data : option json (* None: no "data" key *); r_errors : list gerror }.

Record world := {
  w_services : list (string * server);                 (* url -> simulator *)
  w_data : list entity;
  w_fault : request -> option fault                    (* decided from the request's content *)
}.

Definition opkind_of_root (root : string) : opkind := if String.eqb root "Mutation" then OMutation else OQuery.

(* execution.go:267 createGQLErrors: path of a non-GraphQL failure = insertion point + aliases of composite fields *)
Fixpoint flat_fields (s : sel) : list sel :=
  match s with
  | SField _ _ _ _ _ _ => [s]
  | SInline _ _ _ ss => flat_map flat_fields ss
  | SSpread _ _ _ _ ss => flat_map flat_fields ss
  end.
Definition step_error_path (ip : list string) (ss : list sel) : list pe :=
  map PName ip ++ flat_map (fun f => match f with SField al _ _ _ _ (Some (_ :: _)) => [PName al] | _ => [] end) (flat_map flat_fields ss).

(* execution.go:393 buildTypenameResponseMap *)
Fixpoint tn_sel (parent : string) (s : sel) {struct s} : list (string * raw) :=
  match s with
  | SField al _ _ _ t (Some sub) => [(al, RMap (flat_map (tn_sel (ty_name t)) sub))]
  | SField al _ _ _ _ None => [(al, RStr parent)]
  | SInline _ _ _ ss => flat_map (tn_sel parent) ss
  | SSpread _ _ _ _ ss => flat_map (tn_sel parent) ss
  end.

Inductive reply := RpData (d : raw) | RpErrors (es : list xerr) (partial : raw) | RpFail (k : ekind).

Section Run.
  Variable G : generation.
  Variable W : world.
  Variable vars : env.
  Variable fuel : nat.

  Definition call (rq : request) (doc_root : string) (doc : list sel) : reply :=
    match lookup (rq_url rq) (w_services W) with
    | None => RpFail EOther
    | Some sv =>
      match w_fault W rq with
      | Some FTimeout => RpFail ETimeout
      | Some FStatus | Some FTransport | Some FTooLarge | Some FBadJSON => RpFail EOther
      | Some FErrorsNull => RpErrors [{| xe_msg := "service exploded"; xe_path := [] |}] RNil
      | other =>
        if negb (valid_doc (sv_schema sv) doc_root doc) then RpErrors [{| xe_msg := "validation"; xe_path := [] |}] RNil else
        let '(j, errs) := exec_op sv (w_data W) vars fuel doc_root doc in
        let errs := match other with Some FErrorsPartial => errs ++ [{| xe_msg := "injected partial failure"; xe_path := [] |}] | _ => errs end in
        match errs with [] => RpData (json_raw j) | _ => RpErrors errs (json_raw j) end
      end
    end.

  (* execution.go:485 buildBoundaryQueryDocuments; [start] is the running selection index across batches *)
  Definition lookup_doc_from (start : nat) (l : lookup_def) (ss : list sel) (ids : list string) : list sel :=
    if lk_array l
    then [SField "_result" (lk_field l) [(lk_arg l, VList (map VStr ids))] [] (TList (TNamed (lk_type l) false) true) (Some ss)]
    else (fix go (ids : list string) (i : nat) : list sel :=
            match ids with
            | [] => []
            | id :: r => SField ("_" +++ nat_str i) (lk_field l) [(lk_arg l, VStr id)] [] (TNamed (lk_type l) false) (Some ss) :: go r (S i)
            end) ids start.
  Definition lookup_doc := lookup_doc_from 0.
  (* execution.go:516 batchBy, with the batch size 50 of execution.go:173 *)
  Fixpoint chunk (fuel n : nat) (l : list string) : list (list string) :=
    match fuel with
    | O => [l]
    | S fuel => if Nat.leb (List.length l) n then [l] else firstn n l :: chunk fuel n (skipn n l)
    end.
  Definition batch_size := 50.

  Record acc := { a_results : list exres; a_requests : list request; a_errors : list gerror; a_count : nat }.

  Definition errors_of (st : step) (es : list xerr) : list gerror :=
    map (fun e => {| ge_kind := EDownstream; ge_path := xe_path e; ge_service := true |}) es.

  (* execution.go:161 executeChildStep; Err = a hard error that aborts the whole execution *)
  Fixpoint exec_child (f : nat) (st : step) (ids : list string) (a : acc) {struct f} : res acc :=
    match f with O => Err "out of fuel" | S f =>
    match st with Step url sname parent ss ip thn =>
      let count := S (a_count a) in
      do l <- match lookup url (g_lookups G) with
              | None => Err ("could not find BoundaryFieldsMap entry for service " +++ url)
              | Some ls => match find (fun l => String.eqb (lk_type l) parent) ls with
                           | Some l => Ok l
                           | None => Err ("could not find BoundaryFieldsMap entry for typeName " +++ parent)
                           end
              end ;;
      (* what is printed and lexed back: string literals through strconv.Quote and the whitespace collapse, ids through %q *)
      let wired := match wire_ss true ss, wire_ids ids with Some ss', Some ids' => Some (ss', ids') | _, _ => None end in
      let wsel := match wired with Some w => fst w | None => [] end in
      let wids := match wired with Some w => snd w | None => ids end in
      (* execution.go:227 executeBoundaryQuery: one document for an array lookup, else one per batch of 50, sent in order;
         the first failing document ends the step (its data and that of the earlier batches is dropped) *)
      let batches := if lk_array l then [wids] else chunk (List.length wids) batch_size wids in
      let mkrq := fun (b : nat) (bids : list string) =>
        {| rq_url := url; rq_optype := OQuery; rq_parent := parent; rq_sel := wsel; rq_ids := bids; rq_lookup := Some l; rq_batch := b |} in
      let unwrap := fun (d : raw) =>
        match d with
        | RMap m => if lk_array l then match lookup "_result" m with Some (RArr items) => items | _ => [] end
                    else map snd m
        | _ => [] end in
      let one := fun (b : nat) (bids : list string) =>
        match wired with
        | Some _ => call (mkrq b bids) "Query" (lookup_doc_from (b * batch_size) l wsel bids)
        | None => match w_fault W (mkrq b bids) with              (* the document does not lex: the service rejects it *)
                  | Some FTimeout => RpFail ETimeout
                  | Some FStatus | Some FTransport | Some FTooLarge | Some FBadJSON => RpFail EOther
                  | _ => RpErrors [{| xe_msg := "syntax"; xe_path := [] |}] RNil end
        end in
      let '(rqs, outcome, _) :=
        fold_left (fun (st : list request * reply * nat) (bids : list string) =>
                     let '(rqs, acc_reply, b) := st in
                     match acc_reply with
                     | RpData (RArr items) =>
                         match one b bids with
                         | RpData d => (rqs ++ [mkrq b bids], RpData (RArr (items ++ unwrap d)), S b)
                         | RpErrors es partial => (rqs ++ [mkrq b bids], RpErrors es (RArr (if lk_array l then unwrap partial else [])), S b)
                         | RpFail k => (rqs ++ [mkrq b bids], RpFail k, S b)
                         end
                     | _ => st
                     end) batches ([], RpData (RArr []), 0) in
      let rq := mkrq 0 wids in
      let a1 := {| a_results := a_results a; a_requests := a_requests a ++ rqs; a_errors := a_errors a; a_count := count |} in
      match outcome with
      | RpFail k =>
          Ok {| a_results := a_results a1 ++ [{| er_url := url; er_ip := ip; er_data := RArr [] |}]; a_requests := a_requests a1;
                a_errors := a_errors a1 ++ [{| ge_kind := k; ge_path := step_error_path ip ss; ge_service := true |}]; a_count := count |}
      | RpErrors es partial =>
          Ok {| a_results := a_results a1 ++ [{| er_url := url; er_ip := ip; er_data := partial |}];
                a_requests := a_requests a1; a_errors := a_errors a1 ++ errors_of st es; a_count := count |}
      | RpData d =>
          let items := match d with RArr items => items | _ => [] end in
          let a2 := {| a_results := a_results a1 ++ [{| er_url := url; er_ip := ip; er_data := RArr items |}];
                       a_requests := a_requests a1; a_errors := a_errors a1; a_count := count |} in
          let nonnil := filter (fun x => match x with RNil => false | _ => true end) items in
          match nonnil with
          | [] => Ok a2
          | _ =>
            fold_left (fun racc ch =>
              do a' <- racc ;;
              do ip' <- trim_ip nonnil (step_ip ch) ;;
              do ids' <- extract_ids (RArr nonnil) ip' (step_parent ch) ;;
              match dedupe_str ids' with
              | [] => Ok a'
              | ids'' => exec_child f ch ids'' a'
              end) thn (Ok a2)
          end
      end
    end end.

  (* execution.go:100 executeRootStep *)
  Definition exec_root (st : step) (a : acc) : res acc :=
    match st with Step url sname parent ss ip thn =>
      if String.eqb url internal_service then
        (* execution.go:380 executeBrambleStep: __typename of the root and of namespaces *)
        Ok {| a_results := a_results a ++ [{| er_url := url; er_ip := []; er_data := RMap (flat_map (tn_sel parent) ss) |}];
              a_requests := a_requests a; a_errors := a_errors a; a_count := a_count a |}
      else
      let wired := wire_ss false ss in
      let rq := {| rq_url := url; rq_optype := opkind_of_root parent; rq_parent := parent;
                   rq_sel := match wired with Some w => w | None => [] end; rq_ids := []; rq_lookup := None; rq_batch := 0 |} in
      let a1 := {| a_results := a_results a; a_requests := a_requests a ++ [rq]; a_errors := a_errors a; a_count := a_count a |} in
      match match wired with
            | Some w => call rq parent w
            | None => match w_fault W rq with
                      | Some FTimeout => RpFail ETimeout
                      | Some FStatus | Some FTransport | Some FTooLarge | Some FBadJSON => RpFail EOther
                      | _ => RpErrors [{| xe_msg := "syntax"; xe_path := [] |}] RNil end
            end with
      | RpFail k =>
          Ok {| a_results := a_results a1 ++ [{| er_url := url; er_ip := ip; er_data := RNil |}]; a_requests := a_requests a1;
                a_errors := a_errors a1 ++ [{| ge_kind := k; ge_path := step_error_path ip ss; ge_service := true |}]; a_count := a_count a1 |}
      | RpErrors es partial =>
          Ok {| a_results := a_results a1 ++ [{| er_url := url; er_ip := ip; er_data := partial |}]; a_requests := a_requests a1;
                a_errors := a_errors a1 ++ errors_of st es; a_count := a_count a1 |}
      | RpData d =>
          let a2 := {| a_results := a_results a1 ++ [{| er_url := url; er_ip := ip; er_data := d |}];
                       a_requests := a_requests a1; a_errors := a_errors a1; a_count := a_count a1 |} in
          fold_left (fun racc ch =>
            do a' <- racc ;;
            do ids <- extract_ids d (step_ip ch) (step_parent ch) ;;
            match dedupe_str ids with
            | [] => Ok a'
            | ids' => exec_child fuel ch ids' a'
            end) thn (Ok a2)
      end
    end.
End Run.

Definition bubble_errors (es : list berr) : list gerror :=
  map (fun e => {| ge_kind := ENullBubble; ge_path := be_path e; ge_service := false |}) es.

Record outcome_t := { oc_response : response; oc_requests : list request; oc_plan : list step; oc_merged : option raw; oc_op : list sel }.

(* ExecuteQuery.  [max] is MaxRequestsPerQuery as the comparison sees it. *)
Definition gateway (G : generation) (fschema : schema) (W : world) (op : operation) (vars : env) (P : option operm)
                   (max : nat) (fuel : nat) : res outcome_t :=
  do ss0 <- skip_include vars (o_sel op) ;;
  let '(ss, perm_errs) := match P with
                          | Some p => let '(o', e) := filter_operation p {| o_kind := o_kind op; o_name := o_name op; o_vardefs := o_vardefs op; o_sel := ss0 |} in (o_sel o', e)
                          | None => (ss0, []) end in
  let perrs := map (fun m => {| ge_kind := EPerm; ge_path := [PName m]; ge_service := false |}) perm_errs in
  let root := match o_kind op with OMutation => "Mutation" | _ => "Query" end in
  let pc := {| pc_schema := fschema; pc_locations := g_locations G; pc_is_boundary := g_is_boundary G; pc_services := g_services G |} in
  (* an execution that is abandoned (executable_schema.go:252): the permission errors collected before it, then the
     execution's error (after the fix that keeps them; a planning error is reported alone) *)
  let err_only := fun (pre : list gerror) (steps : list step) (rqs : list request) =>
    Ok {| oc_response := {| r_data := None; r_errors := pre ++ [{| ge_kind := EInternal; ge_path := []; ge_service := false |}] |};
          oc_requests := rqs; oc_plan := steps; oc_merged := None; oc_op := ss |} in
  match plan pc root ss with
  | Err _ => err_only [] [] []
  | Ok steps =>
    match fold_left (fun racc st => do a <- racc ;; exec_root G W vars fuel st a) steps
                    (Ok {| a_results := []; a_requests := []; a_errors := []; a_count := 0 |}) with
    | Err _ => err_only perrs steps []
    | Ok a =>
      if Nat.ltb max (a_count a) then err_only perrs steps (a_requests a) else
      let errs := perrs ++ a_errors a in
      (* the gateway's own step result comes first in the list only when it is a root step executed inline: execution.go:58-72 *)
      let internal_first := filter (fun r => String.eqb (er_url r) internal_service) (a_results a) ++
                            filter (fun r => negb (String.eqb (er_url r) internal_service)) (a_results a) in
      match merge_results internal_first with
      | Err _ => Ok {| oc_response := {| r_data := None; r_errors := errs ++ [{| ge_kind := EInternal; ge_path := []; ge_service := false |}] |};
                       oc_requests := a_requests a; oc_plan := steps; oc_merged := None; oc_op := ss |}
      | Ok merged =>
        (* a single failed result merges to a nil map[string]interface{}: the null pass and the writer see an empty map *)
        let merged := match merged with RNil => RMap [] | m => m end in
          match bubble fuel fschema None ss merged [] with
          | BErr _ => Ok {| oc_response := {| r_data := None; r_errors := errs ++ [{| ge_kind := EInternal; ge_path := []; ge_service := false |}] |};
                            oc_requests := a_requests a; oc_plan := steps; oc_merged := Some merged; oc_op := ss |}
          | BOk v ss' berrs up =>
              let data := if up then JNull else value_json (fst (respond fuel fschema ss' v false)) in
              Ok {| oc_response := {| r_data := Some data; r_errors := errs ++ bubble_errors berrs |};
                    oc_requests := a_requests a; oc_plan := steps; oc_merged := Some merged; oc_op := ss |}
          end
      end
    end
  end.
