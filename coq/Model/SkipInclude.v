(* Model/SkipInclude.v — executable_schema.go:710-814 evaluateSkipAndInclude: a copying tree rewrite. *)
From V Require Import Base.Util Gql.Ast.

(* executable_schema.go:800 resolveIfArgument; the panics are explicit *)
Definition resolve_if (vars : env) (d : dir) : res bool :=
  match lookup "if" (d_args d) with
  | None => Err ("PANIC " +++ d_name d +++ ": argument 'if' not defined")
  | Some (VBool b) => Ok b
  | Some (VVar n) => match lookup n vars with
                     | Some (JBool b) => Ok b
                     | Some _ => Err ("PANIC " +++ d_name d +++ ": argument 'if' is not a boolean")
                     | None => Err "PANIC variable not found"
                     end
  | Some _ => Err ("PANIC " +++ d_name d +++ ": argument 'if' is not a boolean")
  end.
Definition dir_named (n : string) (ds : list dir) : option dir := find (fun d => String.eqb (d_name d) n) ds.
(* executable_schema.go:789 removeSkipAndInclude *)
Definition strip_dirs (ds : list dir) : list dir :=
  filter (fun d => negb (String.eqb (d_name d) "include" || String.eqb (d_name d) "skip")) ds.

(* executable_schema.go:739-746: Directives.ForName finds the FIRST directive of each name *)
Definition keep_node (vars : env) (ds : list dir) : res bool :=
  do skip <- match dir_named "skip" ds with Some d => resolve_if vars d | None => Ok false end ;;
  do incl <- match dir_named "include" ds with Some d => resolve_if vars d | None => Ok true end ;;
  Ok (negb skip && incl).

Fixpoint skip_include_sel (vars : env) (s : sel) {struct s} : res (list sel) :=
  let go := fix go (l : list sel) : res (list sel) :=
    match l with
    | [] => Ok []
    | x :: r => do a <- skip_include_sel vars x ;; do b <- go r ;; Ok (a ++ b)
    end in
  match s with
  | SField al n args ds t oss =>
      do k <- keep_node vars ds ;;
      if k then
        match oss with
        | None => Ok [SField al n args (strip_dirs ds) t None]
        | Some ss => do ss' <- go ss ;; Ok [SField al n args (strip_dirs ds) t (Some ss')]
        end
      else Ok []
  | SInline tc ds e ss =>
      do k <- keep_node vars ds ;;
      if k then do ss' <- go ss ;; Ok [SInline tc (strip_dirs ds) e ss'] else Ok []
  | SSpread f ds e tc ss =>
      do k <- keep_node vars ds ;;
      if k then do ss' <- go ss ;; Ok [SSpread f (strip_dirs ds) e tc ss'] else Ok []
  end.
Definition skip_include (vars : env) (ss : list sel) : res (list sel) :=
  (fix go (l : list sel) : res (list sel) :=
     match l with
     | [] => Ok []
     | x :: r => do a <- skip_include_sel vars x ;; do b <- go r ;; Ok (a ++ b)
     end) ss.
