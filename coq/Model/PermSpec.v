(* Model/PermSpec.v — C03: the SPECIFICATION of permission filtering, written from docs/access-control.md with [allows] (path
   membership in the permission tree) alone and independently of auth.go: a field is kept iff the path of field names from the
   root to it is allowed; fragments do not add a path segment; the meta fields are always allowed; a removed field is reported
   with its path. *)
From V Require Import Base.Util Gql.Ast Model.Perm.

Definition meta_field (n : string) : bool := String.eqb n "__schema" || String.eqb n "__type".

Fixpoint spec_filter (a : af) (path : list string) (s : sel) {struct s} : list sel * list (list string) :=
  let go := fun (path : list string) => fix go (l : list sel) : list sel * list (list string) :=
    match l with [] => ([], []) | x :: r => let '(k1, n1) := spec_filter a path x in let '(k2, n2) := go r in (k1 ++ k2, n1 ++ n2) end in
  match s with
  | SField al n ar ds t oss =>
      if meta_field n then ([s], [])                        (* introspection is answered from the (filtered) schema view *)
      else if String.eqb n "__typename" || allows a (path ++ [n]) then
        match oss with
        | None => ([s], [])
        | Some ss => let '(k, e) := go (path ++ [n]) ss in ([SField al n ar ds t (Some k)], e)
        end
      else ([], [path ++ [n]])          (* the removed field, named by its path *)
  | SInline tc ds e ss => let '(k, n) := go path ss in ([SInline tc ds e k], n)
  | SSpread f ds e tc ss => let '(k, n) := go path ss in ([SSpread f ds e tc k], n)
  end.
Definition spec_filter_list (a : af) (path : list string) (ss : list sel) : list sel * list (list string) :=
  fold_right (fun x acc => let '(k1, n1) := spec_filter a path x in (k1 ++ fst acc, n1 ++ snd acc)) ([], []) ss.
