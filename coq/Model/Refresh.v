(* Model/Refresh.v — C11: the locking protocol of ExecutableSchema (executable_schema.go:54, :150-155, :199-200) as a transition
   system.  Four published tables (Locations, IsBoundary, MergedSchema, BoundaryQueries) are written by the refresher inside
   mutex.Lock and read by a query inside mutex.RLock, held for the whole execution; the service map (executable_schema.go:78,
   read by plan.go:117,:301) is replaced WITHOUT the lock.  Every table cell carries the generation it was written in.
   Executable definitions only. *)
From V Require Import Base.Util.

Record qstate := { q_holding : bool; q_tabs : list nat (* generations of the tables it has read *);
                   q_svc : list nat (* generations of the service map it has read *) }.
Record st := {
  tabs : list nat;                 (* the four tables *)
  smap : nat;                      (* the service map *)
  gen : nat;                       (* generation the refresher is installing *)
  wr : bool;                       (* RWMutex: the writer holds it; the read holders are the queries with q_holding *)
  qs : list (nat * qstate)
}.
Inductive label :=
 | QLock (q : nat) | QRead (q k : nat) | QReadSvc (q : nat) | QUnlock (q : nat)
 | WSvc | WLock | WWrite (k : nat) | WUnlock.

Definition init : st := {| tabs := [0; 0; 0; 0]; smap := 0; gen := 1; wr := false; qs := [] |}.
Definition qget (s : st) (q : nat) : qstate :=
  match find (fun x => Nat.eqb (fst x) q) (qs s) with Some x => snd x | None => {| q_holding := false; q_tabs := []; q_svc := [] |} end.
Fixpoint qset (l : list (nat * qstate)) (q : nat) (v : qstate) : list (nat * qstate) :=
  match l with
  | [] => [(q, v)]
  | (k, x) :: t => if Nat.eqb k q then (k, v) :: t else (k, x) :: qset t q v
  end.
Fixpoint set_nth (l : list nat) (k v : nat) : list nat :=
  match l, k with
  | [], _ => []
  | _ :: t, O => v :: t
  | x :: t, S k => x :: set_nth t k v
  end.
Definition with_q (s : st) (q : nat) (v : qstate) : st :=
  {| tabs := tabs s; smap := smap s; gen := gen s; wr := wr s; qs := qset (qs s) q v |}.
Definition nobody_reads (s : st) : bool := forallb (fun x => negb (q_holding (snd x))) (qs s).

(* None: the step is not enabled (a blocked Lock/RLock, or a step out of program order) *)
Definition step (s : st) (l : label) : option st :=
  match l with
  | QLock q => if wr s || q_holding (qget s q) then None          (* RLock waits for the writer; a new request starts with no reads *)
               else Some (with_q s q {| q_holding := true; q_tabs := []; q_svc := [] |})
  | QRead q k => if q_holding (qget s q) && Nat.ltb k (List.length (tabs s))
                 then Some (with_q s q {| q_holding := true; q_tabs := nth k (tabs s) 0 :: q_tabs (qget s q); q_svc := q_svc (qget s q) |})
                 else None
  | QReadSvc q => Some (with_q s q {| q_holding := q_holding (qget s q); q_tabs := q_tabs (qget s q); q_svc := smap s :: q_svc (qget s q) |})
  | QUnlock q => if q_holding (qget s q)
                 then Some (with_q s q {| q_holding := false; q_tabs := q_tabs (qget s q); q_svc := q_svc (qget s q) |})
                 else None
  | WSvc => Some {| tabs := tabs s; smap := gen s; gen := gen s; wr := wr s; qs := qs s |}     (* UpdateServiceList: no lock *)
  | WLock => if wr s || negb (nobody_reads s) then None                                         (* Lock waits for every reader *)
             else Some {| tabs := tabs s; smap := smap s; gen := gen s; wr := true; qs := qs s |}
  | WWrite k => if wr s then Some {| tabs := set_nth (tabs s) k (gen s); smap := smap s; gen := gen s; wr := true; qs := qs s |}
                else None
  | WUnlock => if wr s && forallb (Nat.eqb (gen s)) (tabs s)            (* the critical section writes all four tables *)
               then Some {| tabs := tabs s; smap := smap s; gen := S (gen s); wr := false; qs := qs s |}
               else None
  end.
Fixpoint run (s : st) (ls : list label) : option st :=
  match ls with
  | [] => Some s
  | l :: t => match step s l with Some s' => run s' t | None => None end
  end.
Definition all_equal (l : list nat) : bool := match l with [] => true | x :: t => forallb (Nat.eqb x) t end.
