(* Model/Poll.v — introspection.go:40-95 Service.Update, executable_schema.go:60-160 UpdateServiceList / UpdateSchema:
   a state machine over poll outcomes and service-list changes.  A schema is identified with its source text (parsing
   is deterministic); what parses, what passes ValidateSchema and what merges are parameters of the model. *)
From V Require Import Base.Util.

Inductive outcome := Unreachable | Serve (text : string).
Inductive skind := KValid | KSyntax | KRule.           (* loads and validates | does not parse | parses, breaks a federation rule *)

Record cache := { c_src : string;                       (* Service.SchemaSource *)
                  c_schema : option string;             (* Service.Schema, as the text it was parsed from *)
                  c_ok : bool }.                        (* Status = "OK" after the most recent poll *)
Definition fresh := {| c_src := ""; c_schema := None; c_ok := false |}.

Definition generation := list (string * string).        (* (service url, schema text) merged into what is published *)
Record pstate := { ps_services : list (string * cache);
                   ps_published : option generation;
                   ps_gauge : bool }.                    (* promInvalidSchema *)

Section Poll.
  Variable classify : string -> skind.
  Variable mergeable : generation -> bool.              (* MergeSchemas succeeds *)

  (* introspection.go:40 Update: returns the new cache, [updated] and [err] *)
  Definition update (c : cache) (o : outcome) : cache * bool * bool :=
    match o with
    | Unreachable => ({| c_src := ""; c_schema := c_schema c; c_ok := false |}, false, true)
    | Serve text =>
        let updated := negb (String.eqb text (c_src c)) in
        match classify text with
        | KSyntax => ({| c_src := text; c_schema := c_schema c; c_ok := false |}, false, true)
        | KRule => ({| c_src := text; c_schema := Some text; c_ok := false |}, updated, true)
        | KValid => ({| c_src := text; c_schema := Some text; c_ok := true |}, updated, false)
        end
    end.

  (* executable_schema.go:85 UpdateSchema *)
  Definition refresh (force : bool) (outs : string -> outcome) (st : pstate) : pstate :=
    let polled := map (fun uc => (fst uc, update (snd uc) (outs (fst uc)))) (ps_services st) in
    let services' := map (fun p : string * (cache * bool * bool) => (fst p, fst (fst (snd p)))) polled in
    let any_err := existsb (fun p : string * (cache * bool * bool) => snd (snd p)) polled in
    let any_upd := existsb (fun p : string * (cache * bool * bool) => negb (snd (snd p)) && snd (fst (snd p))) polled in
    let schemas := flat_map (fun p : string * (cache * bool * bool) => if snd (snd p) then []
                                      else match c_schema (fst (fst (snd p))) with Some s => [(fst p, s)] | None => [] end) polled in
    if any_upd || force || any_err then
      if mergeable schemas
      then {| ps_services := services'; ps_published := Some schemas; ps_gauge := any_err |}
      else {| ps_services := services'; ps_published := ps_published st; ps_gauge := true |}
    else {| ps_services := services'; ps_published := ps_published st; ps_gauge := false |}.

  (* executable_schema.go:60 UpdateServiceList: existing service objects are kept, new ones start empty; forced rebuild *)
  Definition set_services (urls : list string) (outs : string -> outcome) (st : pstate) : pstate :=
    let svcs := map (fun u => (u, match lookup u (ps_services st) with Some c => c | None => fresh end)) (dedupe_str urls) in
    refresh true outs {| ps_services := svcs; ps_published := ps_published st; ps_gauge := ps_gauge st |}.

  Inductive event := EPoll (outs : list (string * outcome)) | ESet (urls : list string) (outs : list (string * outcome)).
  Definition outs_fun (l : list (string * outcome)) (u : string) : outcome :=
    match lookup u l with Some o => o | None => Unreachable end.
  Definition step (st : pstate) (e : event) : pstate :=
    match e with
    | EPoll outs => refresh false (outs_fun outs) st
    | ESet urls outs => set_services urls (outs_fun outs) st
    end.
  Definition init (urls : list string) : pstate :=
    {| ps_services := map (fun u => (u, fresh)) (dedupe_str urls); ps_published := None; ps_gauge := false |}.

  (* ---- SPECIFICATION (the property's own words): the published schema is the merge of the latest schemas of exactly
     those listed services whose most recent poll succeeded; when that merge is impossible the previous one stays ---- *)
  Definition healthy_of (svcs : list (string * cache)) : generation :=
    flat_map (fun uc => if c_ok (snd uc) then match c_schema (snd uc) with Some s => [(fst uc, s)] | None => [] end else []) svcs.
  Definition healthy (st : pstate) : generation := healthy_of (ps_services st).
  Definition spec_published (prev : option generation) (st_after : pstate) : option generation :=
    if mergeable (healthy st_after) then Some (healthy st_after) else prev.
End Poll.
