(* Model/Merge.v — merge.go: MergeSchemas, mergeTypes, mergeNamespaceObjects, mergeBoundaryObjects, and the routing tables
   buildFieldURLMap / buildIsBoundaryMap / buildBoundaryFieldsMap.  Service schemas are lists of type definitions
   (built-in "__" types and the standard scalars are left out: they merge trivially). *)
From V Require Import Base.Util Gql.Ast.

Record argd := { ad_name : string; ad_ty : ty; ad_default : option string }.
Record fdef := { fd_name : string; fd_args : list argd; fd_ty : ty;
                 fd_boundary : bool;                  (* @boundary on the field: an entity lookup *)
                 fd_deprecated : option string;
                 fd_desc : string }.
Record tdef := { td_name : string; td_kind : kind; td_fields : list fdef; td_ifaces : list string;
                 td_members : list string;            (* union members *)
                 td_enum : list string;
                 td_boundary : bool; td_namespace : bool; td_desc : string }.
Definition sschema := list tdef.

Definition find_type (n : string) (s : sschema) : option tdef := find (fun t => String.eqb (td_name t) n) s.
Definition is_root (n : string) : bool := String.eqb n "Query" || String.eqb n "Mutation" || String.eqb n "Subscription".
Definition ty_str_eqb := ty_eqb.

(* merge.go:416-432 isIDField / isServiceField / isNodeField *)
Definition is_id_field (f : fdef) : bool :=
  String.eqb (fd_name f) "id" && match fd_args f with [] => true | _ => false end && ty_eqb (fd_ty f) (TNamed "ID" true).
Definition is_service_field (f : fdef) : bool :=
  String.eqb (fd_name f) "service" && match fd_args f with [] => true | _ => false end && ty_eqb (fd_ty f) (TNamed "Service" true).
Definition is_node_field (f : fdef) : bool :=
  String.eqb (fd_name f) "node" &&
  match fd_args f with [a] => String.eqb (ad_name a) "id" && ty_eqb (ad_ty a) (TNamed "ID" true) | _ => false end &&
  ty_eqb (fd_ty f) (TNamed "Node" false).
Definition has_id_field (t : tdef) : bool := existsb is_id_field (td_fields t).
Definition fed (t : tdef) : bool := td_boundary t || td_namespace t.

(* merge.go:324 mergeableFields *)
Definition mergeable_fields (t : tdef) : list fdef :=
  filter (fun f => negb (starts_uu (fd_name f)) &&
                   negb (String.eqb (td_name t) "Query" && (is_node_field f || is_service_field f))) (td_fields t).
Definition own_fields (t : tdef) : list fdef :=     (* "for f in a.Fields: skip node/service on Query" *)
  filter (fun f => negb (String.eqb (td_name t) "Query" && (is_node_field f || is_service_field f))) (td_fields t).

(* merge.go:348-383 cleanInterfaces / cleanFields (directives are flags here) *)
Definition clean (t : tdef) : tdef :=
  {| td_name := td_name t; td_kind := td_kind t; td_fields := filter (fun f => negb (fd_boundary f)) (td_fields t);
     td_ifaces := filter (fun i => negb (String.eqb i "Node")) (td_ifaces t); td_members := td_members t; td_enum := td_enum t;
     td_boundary := td_boundary t; td_namespace := td_namespace t; td_desc := td_desc t |}.

Definition merge_desc (a b : string) : string :=
  if String.eqb a "" then b else if String.eqb b "" then a else a +++ chr 10 +++ chr 10 +++ b.

(* merge.go:255 mergeNamespaceObjects(aTypes, bTypes, a, b): a comes from the NEW schema, b from the accumulator;
   the type lookups are crossed exactly as in the code *)
Definition merge_namespace (acc_types new_types : sschema) (a b : tdef) : res tdef :=
  do fields <- fold_left (fun r f =>
      do fs <- r ;;
      match find (fun rf => String.eqb (fd_name rf) (fd_name f)) fs with
      | Some rf =>
          let ns_a := match find_type (ty_name (fd_ty rf)) acc_types with Some t => td_namespace t && negb (has_id_field t) | None => false end in
          let ns_b := match find_type (ty_name (fd_ty f)) new_types with Some t => td_namespace t && negb (has_id_field t) | None => false end in
          if ty_eqb (fd_ty f) (fd_ty rf) && ty_nn (fd_ty f) && ns_a && ns_b &&
             match fd_args f, fd_args rf with [], [] => true | _, _ => false end
          then Ok fs
          else Err ("overlapping namespace fields " +++ td_name a +++ " : " +++ fd_name f)
      | None => Ok (fs ++ [f])
      end) (mergeable_fields b) (Ok (own_fields a)) ;;
  Ok {| td_name := td_name a; td_kind := KObject; td_fields := fields; td_ifaces := td_ifaces a ++ td_ifaces b;
        td_members := []; td_enum := []; td_boundary := false; td_namespace := td_namespace a;
        td_desc := merge_desc (td_desc a) (td_desc b) |}.

(* merge.go:287 mergeBoundaryObjects *)
Definition merge_boundary (a b : tdef) : res tdef :=
  do fields <- fold_left (fun r f =>
      do fs <- r ;;
      if is_id_field f then Ok fs else
      match find (fun rf => String.eqb (fd_name rf) (fd_name f)) fs with
      | Some _ => Err ("overlapping fields " +++ td_name a +++ " : " +++ fd_name f)
      | None => Ok (fs ++ [f])
      end) (mergeable_fields b) (Ok (own_fields a)) ;;
  Ok {| td_name := td_name a; td_kind := KObject; td_fields := fields;
        td_ifaces := filter (fun i => negb (String.eqb i "Node")) (td_ifaces a ++ td_ifaces b);
        td_members := []; td_enum := []; td_boundary := td_boundary a; td_namespace := false;
        td_desc := merge_desc (td_desc a) (td_desc b) |}.

Fixpoint replace_type (t : tdef) (s : sschema) : sschema :=
  match s with
  | [] => [t]
  | x :: r => if String.eqb (td_name x) (td_name t) then t :: r else x :: replace_type t r
  end.

(* merge.go:119 mergeTypes(a, b) *)
Definition merge_types (a b : sschema) : res sschema :=
  let a0 := map clean (filter (fun t => negb (String.eqb (td_name t) "Node" || String.eqb (td_name t) "Service")) a) in
  fold_left (fun r vb =>
    do result <- r ;;
    let k := td_name vb in
    if starts_uu k || String.eqb k "Node" || String.eqb k "Service" then Ok result else
    let nvb := clean vb in
    match find_type k result with
    | None => Ok (result ++ [nvb])
    | Some va =>
        if negb (kind_eqb (td_kind nvb) (td_kind va)) then Err ("name collision: " +++ k) else
        match td_kind nvb with
        | KScalar => Ok (replace_type nvb result)
        | _ =>
          if (negb (fed nvb) || negb (fed va)) && negb (String.eqb k "Query" || String.eqb k "Mutation") then
            Err (match td_kind nvb with KInterface => "conflicting interface: " | _ => "conflicting non boundary type: " end +++ k)
          else if negb (Bool.eqb (td_boundary va) (td_boundary nvb)) || negb (Bool.eqb (td_namespace va) (td_namespace nvb)) then
            Err ("conflicting object directives " +++ k)
          else if negb (kind_eqb (td_kind va) KObject) then Err "non object boundary type"
          else if td_namespace nvb || is_root k then
            do m <- merge_namespace a b nvb va ;; Ok (replace_type m result)
          else
            do m <- merge_boundary nvb va ;; Ok (replace_type m result)
        end
    end) b (Ok a0).

(* merge.go:11 MergeSchemas: a single schema is merged with a minimal one so that plumbing is pruned *)
Definition minimal_schema : sschema :=
  [ {| td_name := "Service"; td_kind := KObject; td_fields := []; td_ifaces := []; td_members := []; td_enum := [];
       td_boundary := false; td_namespace := false; td_desc := "" |};
    {| td_name := "Query"; td_kind := KObject;
       td_fields := [ {| fd_name := "service"; fd_args := []; fd_ty := TNamed "Service" true; fd_boundary := false; fd_deprecated := None; fd_desc := "" |} ];
       td_ifaces := []; td_members := []; td_enum := []; td_boundary := false; td_namespace := false; td_desc := "" |} ].
Definition merge_schemas (l : list sschema) : res sschema :=
  match l with
  | [] => Err "no source schemas"
  | [s] => merge_types s minimal_schema
  | s :: rest => fold_left (fun r b => do a <- r ;; merge_types a b) rest (Ok s)
  end.

(* ---------- routing tables ---------- *)
Record service_src := { sv_url : string; sv_types : sschema }.

(* merge.go:58 buildFieldURLMap: last writer wins (RegisterURL) *)
Definition field_url_map (svcs : list service_src) : list (string * string) :=
  fold_left (fun m sv =>
    fold_left (fun m t =>
      if negb (kind_composite (td_kind t)) || starts_uu (td_name t) || String.eqb (td_name t) "Service" then m else
      fold_left (fun m f =>
        if (td_boundary t && is_id_field f) ||
           match find_type (ty_name (fd_ty f)) (sv_types sv) with Some ft => td_namespace ft | None => false end ||
           fd_boundary f
        then m else set_key (td_name t +++ "." +++ fd_name f) (sv_url sv) m) (mergeable_fields t) m) (sv_types sv) m) svcs [].

(* merge.go:87 buildIsBoundaryMap *)
Definition is_boundary_map (svcs : list service_src) : list (string * bool) :=
  fold_left (fun m sv =>
    fold_left (fun m t =>
      if negb (kind_eqb (td_kind t) KObject) || starts_uu (td_name t) || String.eqb (td_name t) "Service" then m
      else set_key (td_name t) (td_boundary t) m) (sv_types sv) m) svcs [].

(* merge.go:100 buildBoundaryFieldsMap + plan.go:416 RegisterField (the array form is preferred) *)
Record bfield := { bf_type : string; bf_field : string; bf_arg : string; bf_array : bool }.
Definition boundary_fields_map (svcs : list service_src) : list (string * list bfield) :=
  map (fun sv =>
    (sv_url sv,
     match find_type "Query" (sv_types sv) with
     | None => []
     | Some q =>
       fold_left (fun m f =>
         if negb (fd_boundary f) then m else
         let '(tn, arr) := match fd_ty f with TList e _ => (ty_name e, true) | t => (ty_name t, false) end in
         let arg := match fd_args f with a :: _ => ad_name a | [] => "" end in
         let entry := {| bf_type := tn; bf_field := fd_name f; bf_arg := arg; bf_array := arr |} in
         match find (fun b => String.eqb (bf_type b) tn) m with
         | Some _ => if arr then entry :: filter (fun b => negb (String.eqb (bf_type b) tn)) m else m
         | None => m ++ [entry]
         end) (td_fields q) []
     end)) svcs.

(* ---------- equivalence used by C08: same types, kinds, fields with signatures, interface sets, members, values, flags;
   not descriptions, not order ---------- *)
Definition argd_eqb (a b : argd) : bool := String.eqb (ad_name a) (ad_name b) && ty_eqb (ad_ty a) (ad_ty b) && option_eqb String.eqb (ad_default a) (ad_default b).
Definition fdef_eqb (a b : fdef) : bool :=
  String.eqb (fd_name a) (fd_name b) && ty_eqb (fd_ty a) (fd_ty b) && list_eqb argd_eqb (fd_args a) (fd_args b) &&
  match fd_deprecated a, fd_deprecated b with None, None => true | Some _, Some _ => true | _, _ => false end.
Definition tdef_equiv (a b : tdef) : bool :=
  String.eqb (td_name a) (td_name b) && kind_eqb (td_kind a) (td_kind b) &&
  multiset_eqb fdef_eqb (td_fields a) (td_fields b) && seteq_str (td_ifaces a) (td_ifaces b) &&
  seteq_str (td_members a) (td_members b) && seteq_str (td_enum a) (td_enum b) &&
  Bool.eqb (td_boundary a) (td_boundary b) && Bool.eqb (td_namespace a) (td_namespace b).
Definition schema_equiv (a b : sschema) : bool := multiset_eqb tdef_equiv a b.
