(* Model/PermFilter.v — auth.go:122-140, 259-303 FilterAuthorizedFields / filterFields on the selection tree. *)
From V Require Import Base.Util Gql.Ast Model.Perm.

(* returns the filtered selection (option: nil vs empty is observable) and the "access disallowed" paths *)
Fixpoint filter_sel (path : list string) (a : af) (s : sel) {struct s} : list sel * list string :=
  let go := fun (path : list string) (a : af) => fix go (l : list sel) : list sel * list string :=
    match l with
    | [] => ([], [])
    | x :: r => let '(k1, e1) := filter_sel path a x in let '(k2, e2) := go r in (k1 ++ k2, e1 ++ e2)
    end in
  match s with
  | SField al n args ds t oss =>
      let '(ok, sub) := is_allowed a n in
      if ok then
        if af_all sub then ([s], [])
        else match oss with
             | None => ([s], [])                                          (* auth.go:276-281 after fix b10b363: a leaf keeps its nil selection set *)
             | Some ss => let '(k, e) := go (path ++ [n]) sub ss in ([SField al n args ds t (Some k)], e)
             end
      else ([], [sconcat "." (path ++ [n])])
  | SInline tc ds e ss => let '(k, er) := go path a ss in ([SInline tc ds e k], er)
  | SSpread f ds e tc ss => let '(k, er) := go path a ss in ([SSpread f ds e tc k], er)
  end.
Definition filter_fields (path : list string) (a : af) (ss : list sel) : list sel * list string :=
  if af_all a then (ss, []) else
  (fix go (l : list sel) : list sel * list string :=
    match l with
    | [] => ([], [])
    | x :: r => let '(k1, e1) := filter_sel path a x in let '(k2, e2) := go r in (k1 ++ k2, e1 ++ e2)
    end) ss.

Definition filter_operation (p : operm) (op : operation) : operation * list string :=
  let '(root, a) := match o_kind op with
                    | OQuery => ("query", p_query p) | OMutation => ("mutation", p_mutation p)
                    | OSubscription => ("subscription", p_subscription p) end in
  let '(ss, errs) := filter_fields [root] a (o_sel op) in
  ({| o_kind := o_kind op; o_name := o_name op; o_vardefs := o_vardefs op; o_sel := ss |}, errs).
