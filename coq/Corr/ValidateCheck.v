(* Corr/ValidateCheck.v — C09: the verdict and failing stage of bramble.ValidateSchema on a service schema vs Model/Validate.v,
   and the property's own oracles on the observed verdict. *)
From V Require Import Base.Util Gql.Ast Model.Merge Model.Validate.

Record validate_case := {
  vc_schema : vschema;
  vc_rule : string;          (* "" = the schema follows the documented syntax; else the single rule it breaks *)
  vc_obs : string;           (* "ok" | "err" | "panic" *)
  vc_obs_stage : string      (* which group of checks reported the error (from its message) *)
}.

Definition is_err {A} (r : res A) : bool := match r with Err _ => true | Ok _ => false end.
Definition err_msg {A} (r : res A) : string := match r with Err m => m | Ok _ => "" end.
(* the group of checks that rejects, in ValidateSchema's order *)
Definition model_stage (s : vschema) : string :=
  if is_err (v_root_names s) then "roots"
  else if is_err (v_boundary_objects s) then
    (if String.eqb (err_msg (v_boundary_objects s)) "the schema is missing a Query type" then "query_missing" else "boundary")
  else if is_err (v_namespace_objects s) then "namespace"
  else if is_err (v_service_query s) then
    (if String.eqb (err_msg (v_service_query s)) "the schema is missing a Query type" then "query_missing" else "service_query")
  else if is_err (v_service_object s) then "service_object"
  else if negb (vs_valid_after_merge s) then "after_merge"
  else "".

Definition check_validate_case (c : validate_case) : list (string * bool) :=
  let m := validate (vc_schema c) in
  [ ("corr.verdict", match m with Ok _ => String.eqb (vc_obs c) "ok" | Err _ => String.eqb (vc_obs c) "err" end);
    ("corr.stage", String.eqb (model_stage (vc_schema c)) (vc_obs_stage c));
    ("prop.c09.rule_breaking_rejected", String.eqb (vc_rule c) "" || String.eqb (vc_obs c) "err");
    ("prop.c09.conforming_accepted", negb (String.eqb (vc_rule c) "") || String.eqb (vc_obs c) "ok");
    ("prop.c09.rejected_with_reason", negb (String.eqb (vc_obs c) "panic"));
    ("feat.mutated", negb (String.eqb (vc_rule c) ""));
    ("feat.accepted", String.eqb (vc_obs c) "ok") ].
