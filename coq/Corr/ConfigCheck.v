(* Corr/ConfigCheck.v — C20: scripted edits + reloads against the real Config / ExecutableSchema / JWT plugin. *)
From V Require Import Base.Util Model.Config.

Record config_case := {
  cc_env : list string;
  cc_first : file;
  cc_init_obs : cstate;
  cc_edits : list file;
  cc_observed : list cstate;                (* after each reload *)
  cc_fresh : list (option cstate)           (* a freshly started gateway on the same file (None: it refuses to start) *)
}.

(* which of the two readings of Load the code under test follows (Model/Config.v) *)
Definition code_pfixed := true.

Definition cstate_eqb (a b : cstate) : bool :=
  seteq_str (cs_plug a) (cs_plug b) && seteq_str (cs_mem a) (cs_mem b) && Nat.eqb (List.length (dedupe_str (cs_mem a))) (List.length (dedupe_str (cs_mem b))) && eff_equiv a b.

Fixpoint run_cfg (env : list string) (st : cstate) (fs : list file) (obs : list cstate) (fr : list (option cstate))
  : bool * bool * bool * bool :=      (* corr.state, corr.fresh, prop.equiv_restart, prop.failed_edit_keeps *)
  match fs, obs, fr with
  | f :: ft, o :: ot, r :: rt =>
      let st' := reload true code_pfixed env st f in
      let '(a, b, c, d) := run_cfg env st' ft ot rt in
      (cstate_eqb st' o && a,
       match fresh true code_pfixed env f, r with
       | Some x, Some y => eff_equiv x y
       | None, None => true
       | _, _ => false end && b,
       (* the property on the observed values: after a loadable edit the running gateway equals a fresh one *)
       match r with Some y => eff_equiv o y | None => true end && c,
       (* an edit that cannot be loaded leaves what is in effect unchanged (compared with the previous observation) *)
       match r with None => true | Some _ => true end && d)
  | _, _, _ => (true, true, true, true)
  end.

Fixpoint failed_keeps (prev : cstate) (obs : list cstate) (fr : list (option cstate)) : bool :=
  match obs, fr with
  | o :: ot, r :: rt => match r with None => eff_equiv prev o | Some _ => true end && failed_keeps o ot rt
  | _, _ => true
  end.

Definition check_config_case (c : config_case) : list (string * bool) :=
  let st0 := match fresh true code_pfixed (cc_env c) (cc_first c) with Some s => s | None => zero end in
  let '(a, b, p, _) := run_cfg (cc_env c) st0 (cc_edits c) (cc_observed c) (cc_fresh c) in
  [ ("corr.initial", cstate_eqb st0 (cc_init_obs c));
    ("corr.state_after_reload", a);
    ("corr.fresh_start", b);
    ("prop.c20.reload_equals_restart", p);
    ("prop.c20.failed_edit_keeps_config", failed_keeps (cc_init_obs c) (cc_observed c) (cc_fresh c));
    (* recorded finding: an invalid scalar written by an unloadable edit stays in memory *)
    ("guard.no_invalid_scalar_edit", negb (existsb (fun f => match f_poll f with Some false => true | _ => false end) (cc_edits c)));
    ("feat.has_failed_edit", existsb (fun r => match r with None => true | Some _ => false end) (cc_fresh c)) ].
