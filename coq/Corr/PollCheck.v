(* Corr/PollCheck.v — C10: scripted polling histories against the real ExecutableSchema. *)
From V Require Import Base.Util Model.Poll.

Record poll_obs := { ob_published : option generation;       (* which (service, schema version) the published schema contains; None: nothing published yet *)
                     ob_gauge : bool;
                     ob_tables_consistent : bool;            (* MergedSchema, Locations, IsBoundary, BoundaryQueries come from the same generation *)
                     ob_services : list (string * bool) }.   (* Services map: url -> Status == "OK" *)
Record poll_case := { pc_initial : list string; pc_events : list event; pc_observed : list poll_obs }.

(* tokens: "<svc>:<version>"; the harness's schema texts are classified by their version tag *)
Definition suffix_is (suf s : string) : bool :=
  let n := String.length s in let m := String.length suf in Nat.leb m n && String.eqb (substring (n - m) m s) suf.
Definition classify_std (tok : string) : skind :=
  if String.eqb tok "" then KSyntax
  else if suffix_is ":syntax" tok then KSyntax
  else if suffix_is ":rule" tok then KRule else KValid.
(* MergeSchemas fails on no schemas and on two services declaring the same non-shared type *)
Definition mergeable_std (g : generation) : bool :=
  match g with [] => false | _ => Nat.leb (List.length (filter (fun us => suffix_is ":vc" (snd us)) g)) 1 end.

Definition gen_eqb (a b : option generation) : bool :=
  match a, b with
  | None, None => true
  | Some x, Some y => multiset_eqb (fun p q => String.eqb (fst p) (fst q) && String.eqb (snd p) (snd q)) x y
  | _, _ => false
  end.

(* run the model and the specification side by side, one verdict per event *)
Fixpoint run_check (st : pstate) (spec_pub : option generation) (es : list event) (obs : list poll_obs)
  : bool * bool * bool * bool * bool :=   (* corr.published, corr.gauge, corr.services, prop.published_spec, prop.tables *)
  match es, obs with
  | e :: et, o :: ot =>
      let st' := step classify_std mergeable_std st e in
      let spec' := spec_published mergeable_std spec_pub st' in
      let '(a, b, c, d, f) := run_check st' spec' et ot in
      (gen_eqb (ps_published st') (ob_published o) && a,
       Bool.eqb (ps_gauge st') (ob_gauge o) && b,
       multiset_eqb (fun p q => String.eqb (fst p) (fst q) && Bool.eqb (snd p) (snd q))
                    (map (fun uc => (fst uc, c_ok (snd uc))) (ps_services st')) (ob_services o) && c,
       gen_eqb spec' (ob_published o) && d,
       ob_tables_consistent o && f)
  | _, _ => (true, true, true, true, true)
  end.

Definition check_poll_case (c : poll_case) : list (string * bool) :=
  let '(a, b, s, d, f) := run_check (init (pc_initial c)) None (pc_events c) (pc_observed c) in
  [ ("corr.published", a); ("corr.gauge", b); ("corr.services", s);
    (* the property itself on the observed behaviour: published = merge of the healthy listed services, else previous *)
    ("prop.c10.published_is_spec", d);
    ("prop.c10.tables_one_generation", f);
    ("feat.len_ge6", Nat.leb 6 (List.length (pc_events c))) ].
