(* Corr/RefreshCheck.v — C11: what the real gateway answered around a refresh, set against the generation the lock model
   predicts for the request's position in the schedule. *)
From V Require Import Base.Util Model.Refresh.

Record refresh_case := {
  rc_query : nat;
  rc_after_swap : bool;      (* the request was parked between validation and execution until the refresh had completed *)
  rc_matches_old : bool;     (* its response is the answer of a fresh gateway of the old generation *)
  rc_matches_new : bool;     (* ... of the new generation *)
  rc_clean_error : bool      (* errors, no data *)
}.

(* the schedule of a request that takes the read lock after the refresher's critical section, resp. before it *)
Definition reader (q : nat) : list label := [QLock q; QRead q 0; QRead q 1; QRead q 2; QRead q 3; QUnlock q].
Definition writer : list label := [WLock; WWrite 0; WWrite 1; WWrite 2; WWrite 3; WUnlock].
Definition gens_read (ls : list label) (q : nat) : list nat := match run init ls with Some s => q_tabs (qget s q) | None => [] end.

Definition check_refresh_case (c : refresh_case) : list (string * bool) :=
  let q := rc_query c in
  let after := gens_read (writer ++ reader q) q in
  let before := gens_read (reader q ++ writer) q in
  [ (* the model: a reader entirely after the swap sees generation 1 in all four tables, one entirely before sees 0 *)
    ("corr.model_schedules", list_eqb Nat.eqb after [1; 1; 1; 1] && list_eqb Nat.eqb before [0; 0; 0; 0]);
    (* the code: a request that takes the read lock after the swap may not answer from the old generation only *)
    ("corr.generation_after_swap", negb (rc_after_swap c) || rc_matches_new c || rc_clean_error c);
    ("prop.c11.from_one_generation", rc_matches_old c || rc_matches_new c || rc_clean_error c);
    ("feat.after_swap", rc_after_swap c);
    ("feat.generations_differ", negb (rc_matches_old c && rc_matches_new c)) ].
