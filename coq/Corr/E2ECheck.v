(* Corr/E2ECheck.v — end-to-end cases: what the real gateway did on a generated federation/data/operation,
   compared with the model (components corr.x) and judged directly by the properties' own oracles (prop.x). *)
From V Require Import Base.Util Gql.Ast Gql.RefExec Model.Perm Model.PermSpec Model.SkipInclude Model.PermFilter Model.Plan Model.MergeRes Model.Shape Model.FormatDoc Model.Gateway.
From V Require Model.View.

Record obs_request := {
  or_varnames : list string;                        (* keys of the "variables" object that was sent *)
  or_declared : list string;                        (* variables declared by the document *)
  or_batch : nat;                                   (* index of this document within a batched lookup (from its first alias) *)
  or_url : string; or_optype : string; or_keyword : opkind; or_valid : bool;
  or_root : string; or_doc : list sel;
  or_is_lookup : bool; or_parent : string; or_sel : list sel; or_ids : list string;
  or_reply_data : option json; or_reply_nerrs : nat; or_fault : option fault
}.
(* the request got no usable answer at all (an errors-with-data or errors-with-null-data answer is relayed, not a failure
   of the service as a whole) *)
Definition hard_fault (f : fault) : bool := match f with FStatus | FTransport | FTimeout | FTooLarge | FBadJSON => true | _ => false end.
Record obs_error := { oe_kind : ekind; oe_path : list pe; oe_names_service : bool; oe_service : string (* extensions.serviceUrl *) }.
Record e2e_case := {
  ec_gen : generation; ec_fschema : option schema;
  ec_services : list (string * server); ec_mono : server; ec_data : list entity;
  ec_op : operation; ec_vars : env; ec_perm : option operm; ec_max : nat; ec_fuel : nat;
  ec_faults : list (string * string * fault);       (* url, "root" | parent type | "*", fault *)
  ec_conforming : bool;
  ec_failing : list string;                         (* services ALL of whose requests are failed by ec_faults *)
  obs_data0 : option json;                          (* the fault-free answer to the same request over the same data, if taken *)
  obs_requests : list obs_request;
  obs_data : option json;
  obs_errors : list obs_error
}.

(* ---------- canonical, order-insensitive rendering of selections ---------- *)
Fixpoint value_str (v : value) : string :=
  match v with
  | VVar n => "$" +++ n
  | VInt l | VFloat l => l
  | VStr s => "s:" +++ s
  | VBlock s => "b:" +++ s
  | VBool b => if b then "true" else "false"
  | VNull => "null"
  | VEnum n => "e:" +++ n
  | VList l => "[" +++ sconcat "," (map value_str l) +++ "]"
  | VObj kvs => "{" +++ sconcat "," (map (fun kv => fst kv +++ ":" +++ value_str (snd kv)) kvs) +++ "}"
  end.
Definition args_str (a : list (string * value)) : string := sconcat "," (map (fun kv => fst kv +++ ":" +++ value_str (snd kv)) a).
Definition dirs_str (ds : list dir) : string := sconcat "" (map (fun d => "@" +++ d_name d +++ "(" +++ args_str (d_args d) +++ ")") ds).
Fixpoint sel_paths (prefix : string) (s : sel) {struct s} : list string :=
  match s with
  | SField al n ar ds _ oss =>
      let me := prefix +++ "/" +++ al +++ ":" +++ n +++ "(" +++ args_str ar +++ ")" +++ dirs_str ds in
      match oss with
      | None | Some [] => [me]         (* format.go:161 prints braces only for a non-empty selection set *)
      | Some ss => (me +++ "{}") :: flat_map (sel_paths me) ss
      end
  | SInline tc ds _ ss => flat_map (sel_paths (prefix +++ "/~" +++ tc +++ dirs_str ds)) ss
  | SSpread _ ds _ tc ss => flat_map (sel_paths (prefix +++ "/~" +++ tc +++ dirs_str ds)) ss
  end.
Definition ss_paths (ss : list sel) : list string := flat_map (sel_paths "") ss.

Definition req_key_eqb (a b : string * opkind * string * list string * list string) : bool :=
  let '(u, k, p, ids, paths) := a in let '(u', k', p', ids', paths') := b in
  (* a received document that does not even lex or parse (an empty fragment body, a Go-only escape) is compared by its
     destination only *)
  match paths' with
  | ["<unparsable>"] => String.eqb u u'
  | _ => String.eqb u u' && opkind_eqb k k' && String.eqb p p' && multiset_eqb String.eqb ids ids' && multiset_eqb String.eqb paths paths'
  end.
(* which ids share a document of a batched lookup depends on Go's map iteration order: batches are compared by size *)
Definition batch_ids (b : nat) (ids : list string) : list string :=
  if Nat.leb 50 (List.length ids) || Nat.ltb 0 b then ["#" +++ nat_str (List.length ids)] else ids.
Definition model_req_key (r : request) := (rq_url r, rq_optype r, rq_parent r, batch_ids (rq_batch r) (rq_ids r), ss_paths (rq_sel r)).
Definition obs_req_key (r : obs_request) := (or_url r, or_keyword r, or_parent r, batch_ids (or_batch r) (or_ids r), match or_doc r with [] => ["<unparsable>"] | _ => ss_paths (or_sel r) end).

Definition fault_for (faults : list (string * string * fault)) (rq : request) : option fault :=
  let target := match rq_lookup rq with Some _ => rq_parent rq | None => "root" end in
  let tb := target +++ "#" +++ nat_str (rq_batch rq) in       (* one document of a batched lookup *)
  match find (fun f => String.eqb (fst (fst f)) (rq_url rq) &&
                       (String.eqb (snd (fst f)) "*" || String.eqb (snd (fst f)) target || String.eqb (snd (fst f)) tb)) faults with
  | Some f => Some (snd f) | None => None end.

(* list indices are not compared, and neither is the numbering of the aliases of a single-entity lookup document (_0, _1, ...:
   it follows the order in which ids come out of a Go map) *)
Fixpoint all_digits (s : string) : bool :=
  match s with
  | EmptyString => true
  | String c r => (Nat.leb 48 (Ascii.nat_of_ascii c) && Nat.leb (Ascii.nat_of_ascii c) 57) && all_digits r
  end.
Definition lookup_alias (s : string) : bool :=
  match s with String c (String d r) => Ascii.eqb c "_"%char && all_digits (String d r) | _ => false end.
Definition erase_idx (p : list pe) : list pe :=
  flat_map (fun e => match e with PName s => [PName (if lookup_alias s then "_" else s)] | PIdx _ => [] end) p.
Definition path_eqb (a b : list pe) : bool := list_eqb pe_eqb a b.
Definition err_key_eqb (a b : ekind * list pe * bool) : bool := ekind_eqb (fst (fst a)) (fst (fst b)) && path_eqb (snd (fst a)) (snd (fst b)) && Bool.eqb (snd a) (snd b).
Fixpoint dedupe_by {A} (eqb : A -> A -> bool) (l : list A) : list A :=
  match l with [] => [] | x :: t => if existsb (eqb x) t then dedupe_by eqb t else x :: dedupe_by eqb t end.
Definition set_eqb {A} (eqb : A -> A -> bool) (a b : list A) : bool :=
  forallb (fun x => existsb (eqb x) b) a && forallb (fun x => existsb (eqb x) a) b.

(* ---------- C02: schema- and query-directed validity of a response ---------- *)
Fixpoint valid_value (fuel : nat) (S : schema) (vars : env) (t : ty) (fs : list sel) (j : json) {struct fuel} : bool :=
  match fuel with O => false | S fuel =>
  match j with
  | JNull => negb (ty_nn t)
  | _ =>
    match t with
    | TList et _ => match j with JArr l => forallb (valid_value fuel S vars et fs) l | _ => false end
    | TNamed n _ =>
      match kind_of S n with
      | Some KObject => valid_obj fuel S vars n (sub_selection fs) j
      | Some KInterface | Some KUnion => existsb (fun pt => valid_obj fuel S vars pt (sub_selection fs) j) (possible_of S n)
      | Some _ => true
      | None => false
      end
    end
  end end
with valid_obj (fuel : nat) (S : schema) (vars : env) (objT : string) (ss : list sel) (j : json) {struct fuel} : bool :=
  match fuel with O => false | S fuel =>
  match j with
  | JObj kvs =>
    let groups := fst (collect S vars objT [] ss []) in
    list_eqb String.eqb (map fst groups) (map fst kvs) &&
    forallb (fun g => match snd g, lookup (fst g) kvs with
                      | (SField _ name _ _ _ _) :: _, Some v =>
                          if String.eqb name "__typename" then json_eqb v (JStr objT)
                          else match field_ty S objT name with
                               | Some ft => valid_value fuel S vars ft (snd g) v
                               | None => false end
                      | _, _ => false end) groups
  | _ => false
  end end.

Definition has_helper_keys : json -> bool :=
  fix go (j : json) : bool :=
    match j with
    | JObj kvs => existsb (fun kv => String.eqb (substring 0 8 (fst kv)) "_bramble" || go (snd kv)) kvs
    | JArr l => existsb go l
    | _ => false
    end.

(* ---------- guards: trigger predicates of recorded defects, evaluated on the rewritten client operation ---------- *)
(* execution.go:657: a fragment nested in a fragment gets a fresh de-duplication scope *)
Fixpoint frag_keys (depth : nat) (s : sel) {struct s} : list (nat * string) :=
  match s with
  | SField al _ _ _ _ _ => [(depth, al)]
  | SInline _ _ _ ss => flat_map (frag_keys (S depth)) ss
  | SSpread _ _ _ _ ss => flat_map (frag_keys (S depth)) ss
  end.
Definition scope_has_nested_dup (ss : list sel) : bool :=
  let ks := flat_map (frag_keys 0) ss in
  existsb (fun dk => Nat.leb 2 (fst dk) &&
                     Nat.leb 2 (List.length (filter (fun dk' => String.eqb (snd dk) (snd dk')) ks))) ks.
Fixpoint any_scope (p : list sel -> bool) (s : sel) {struct s} : bool :=
  match s with
  | SField _ _ _ _ _ (Some ss) => p ss || existsb (any_scope p) ss
  | SField _ _ _ _ _ None => false
  | SInline _ _ _ ss => existsb (any_scope p) ss
  | SSpread _ _ _ _ ss => existsb (any_scope p) ss
  end.
Definition op_any_scope (p : list sel -> bool) (ss : list sel) : bool := p ss || existsb (any_scope p) ss.

(* plan.go:168 / format.go:161 / execution_result.go:343: a selection set emptied by @skip/@include or permissions *)
Fixpoint has_emptied (s : sel) : bool :=
  match s with
  | SField _ _ _ _ _ (Some []) => true
  | SField _ _ _ _ _ (Some ss) => existsb has_emptied ss
  | SField _ _ _ _ _ None => false
  | SInline _ _ _ [] | SSpread _ _ _ _ [] => true
  | SInline _ _ _ ss | SSpread _ _ _ _ ss => existsb has_emptied ss
  end.

(* execution.go:563-580: fragment whose condition is abstract inside an abstract enclosing type *)
Fixpoint has_abstract_cond (S : schema) (s : sel) : bool :=
  match s with
  | SField _ _ _ _ _ (Some ss) => existsb (has_abstract_cond S) ss
  | SField _ _ _ _ _ None => false
  | SInline tc _ e ss | SSpread _ _ e tc ss =>
      (is_abstract S tc && negb (String.eqb tc e)) || existsb (has_abstract_cond S) ss
  end.

(* execution.go:632-646: a fragment's selection is shortened in place while shaping one element and reused for the next:
   trigger = some scope has a fragment whose direct field key also occurs elsewhere in the scope (so it gets removed) *)
Definition scope_frag_shortened (ss : list sel) : bool :=
  let ks := flat_map (frag_keys 0) ss in
  existsb (fun dk => Nat.leb 1 (fst dk) &&
                     Nat.leb 2 (List.length (filter (fun dk' => String.eqb (snd dk) (snd dk')) ks))) ks.

(* plan.go:240-241: a step absorbed the selection of a step with a different ParentType: some top-level field of
   the step is not a field of the step's parent type *)
Fixpoint step_foreign_field (S : schema) (st : step) : bool :=
  match st with Step _ _ parent ss _ thn =>
    existsb (fun s => match s with
                      | SField _ name _ _ _ _ => negb (String.eqb name "__typename") &&
                                                 match field_ty S parent name with Some _ => false | None => true end
                      | _ => false end) ss || existsb (step_foreign_field S) thn
  end.

(* execution.go:371: for a nested child step, a segment of the insertion point before the parent's own depth
   is a key of the lookup result *)
Fixpoint ip_recurring (st : step) (parent_ip_len : nat) : bool :=
  match st with Step _ _ _ ss ip thn =>
    existsb (fun ch => let cip := step_ip ch in
                       (* segments of the child's ip that lie above the parent's object, but name a top-level key of the parent's selection *)
                       existsb (fun seg => existsb (fun f => match f with SField al _ _ _ _ _ => String.eqb al seg | _ => false end) (flat_map flat_fields ss))
                               (firstn (List.length ip) cip)
                       || ip_recurring ch (List.length ip)) thn
  end.

(* ---------- C05: the faulty answer is the fault-free answer with subtrees replaced by null ---------- *)
Fixpoint json_below (fuel : nat) (a b : json) {struct fuel} : bool :=   (* a is b with some subtrees nulled *)
  match fuel with O => false | S fuel =>
  match a, b with
  | JNull, _ => true
  | JArr x, JArr y => Nat.eqb (List.length x) (List.length y) && forallb (fun p => json_below fuel (fst p) (snd p)) (combine x y)
  | JObj x, JObj y => list_eqb String.eqb (map fst x) (map fst y) &&
                      forallb (fun p => json_below fuel (snd (fst p)) (snd (snd p))) (combine x y)
  | _, _ => json_eqb a b
  end end.

Definition with_failing (sv : server) (l : list string) : server :=
  {| sv_name := sv_name sv; sv_schema := sv_schema sv; sv_argdefs := sv_argdefs sv; sv_lookups := sv_lookups sv;
     sv_owner := sv_owner sv; sv_unknown := sv_unknown sv; sv_failing := l |}.

(* ---------- C03: the specification of filtering, from [allows] alone ---------- *)
(* the specification itself is Model/PermSpec.v (the one Proofs/PermSpecProofs.v relates to the model of filterFields) *)
Definition spec_filter_op (p : option operm) (root : string) (ss : list sel) : list sel * list string :=
  match p with
  | None => (ss, [])
  | Some pm => let '(a, rn) := if String.eqb root "Mutation" then (p_mutation pm, "mutation") else (p_query pm, "query") in
               fold_left (fun acc x => let '(k, n) := spec_filter a [] x in (fst acc ++ k, snd acc ++ map (fun p => sconcat "." (rn :: p)) n)) ss ([], [])
  end.
(* (parent type, field) pairs of a selection *)
Fixpoint type_fields (parent : string) (s : sel) {struct s} : list string :=
  match s with
  | SField _ n _ _ t oss => (parent +++ "." +++ n) :: match oss with Some ss => flat_map (type_fields (ty_name t)) ss | None => [] end
  | SInline tc _ _ ss => flat_map (type_fields tc) ss
  | SSpread _ _ _ tc ss => flat_map (type_fields tc) ss
  end.
Fixpoint has_directive (s : sel) : bool :=
  match s with
  | SField _ _ _ ds _ oss => negb (match ds with [] => true | _ => false end) || match oss with Some ss => existsb has_directive ss | None => false end
  | SInline _ ds _ ss | SSpread _ ds _ _ ss => negb (match ds with [] => true | _ => false end) || existsb has_directive ss
  end.
Fixpoint sel_vars (s : sel) : list string :=
  let vv := fix vv (v : value) : list string :=
    match v with VVar n => [n] | VList l => flat_map vv l | VObj kvs => flat_map (fun kv => vv (snd kv)) kvs | _ => [] end in
  let av := fun (a : list (string * value)) => flat_map (fun kv => vv (snd kv)) a in
  let dv := fun (ds : list dir) => flat_map (fun d => av (d_args d)) ds in
  match s with
  | SField _ _ ar ds _ oss => av ar ++ dv ds ++ match oss with Some ss => flat_map sel_vars ss | None => [] end
  | SInline _ ds _ ss => dv ds ++ flat_map sel_vars ss
  | SSpread _ ds _ _ ss => dv ds ++ flat_map sel_vars ss
  end.

(* C15: the names and response keys of the nodes that the GraphQL rule keeps (no @skip(true), no @include(false)) *)
Fixpoint included_names (vars : env) (s : sel) {struct s} : list string :=
  match s with
  | SField _ n _ ds _ oss => if dirs_allow vars ds then n :: match oss with Some ss => flat_map (included_names vars) ss | None => [] end else []
  | SInline _ ds _ ss | SSpread _ ds _ _ ss => if dirs_allow vars ds then flat_map (included_names vars) ss else []
  end.
Fixpoint included_keys (vars : env) (s : sel) {struct s} : list string :=
  match s with
  | SField al _ _ ds _ oss => if dirs_allow vars ds then al :: match oss with Some ss => flat_map (included_keys vars) ss | None => [] end else []
  | SInline _ ds _ ss | SSpread _ ds _ _ ss => if dirs_allow vars ds then flat_map (included_keys vars) ss else []
  end.
(* field names a downstream document selects, leaving out the gateway's own plumbing (aliases _bramble...) *)
Fixpoint requested_names (s : sel) {struct s} : list string :=
  match s with
  | SField al n _ _ _ oss => (if String.prefix "_bramble" al then [] else [n]) ++ match oss with Some ss => flat_map requested_names ss | None => [] end
  | SInline _ _ _ ss | SSpread _ _ _ _ ss => flat_map requested_names ss
  end.
Fixpoint leaf_keys (s : sel) {struct s} : list string :=
  match s with
  | SField al _ _ _ _ None => [al]
  | SField _ _ _ _ _ (Some ss) => flat_map leaf_keys ss
  | SInline _ _ _ ss | SSpread _ _ _ _ ss => flat_map leaf_keys ss
  end.
(* keys of the response objects; the value of a leaf field (a custom scalar may be an object) is not descended into *)
Fixpoint json_keys (leaves : list string) (j : json) : list string :=
  match j with
  | JObj kvs => flat_map (fun kv => fst kv :: if mem (fst kv) leaves then [] else json_keys leaves (snd kv)) kvs
  | JArr l => flat_map (json_keys leaves) l
  | _ => []
  end.

(* auth.go:172-206: the permission-filtered view lacks a type the (permitted part of the) query refers to *)
Fixpoint types_used (s : sel) : list string :=
  match s with
  | SField _ _ _ _ t (Some ss) => ty_name t :: flat_map types_used ss
  | SField _ _ _ _ _ None => []
  | SInline tc _ _ ss | SSpread _ _ _ tc ss => tc :: flat_map types_used ss
  end.

(* format.go:226 / execution.go:492: strings of the operation (literals) and entity ids that Go escapes outside GraphQL's set;
   format.go:202: a literal with a run of spaces inside a lookup selection *)
Fixpoint sel_strings (s : sel) : list string :=
  let vs := fix vs (v : value) : list string :=
    match v with VStr x | VBlock x => [x] | VList l => flat_map vs l | VObj kvs => flat_map (fun kv => vs (snd kv)) kvs | _ => [] end in
  let av := fun (a : list (string * value)) => flat_map (fun kv => vs (snd kv)) a in
  match s with
  | SField _ _ ar ds _ oss => av ar ++ flat_map (fun d => av (d_args d)) ds ++ match oss with Some ss => flat_map sel_strings ss | None => [] end
  | SInline _ ds _ ss | SSpread _ ds _ _ ss => flat_map (fun d => av (d_args d)) ds ++ flat_map sel_strings ss
  end.

Definition run_model (c : e2e_case) : res outcome_t :=
  let W := {| w_services := ec_services c; w_data := ec_data c; w_fault := fault_for (ec_faults c) |} in
  let fs := match ec_fschema c with Some s => s | None => g_schema (ec_gen c) end in
  gateway (ec_gen c) fs W (ec_op c) (ec_vars c) (ec_perm c) (ec_max c) (ec_fuel c).

(* types that an EXPLICIT (not allow-all) part of a permission tree names through field types: the recorded finding
   KF-view-drops-types is about the allow-all branch only, so a type found here that the view lacks is not that finding *)
Fixpoint explicit_reach (S : schema) (a : af) (t : string) {struct a} : list string :=
  match a with AF all subs =>
    if all then [] else
    flat_map (fun kv =>
      match field_ty S t (fst kv) with
      | None => []
      | Some fty => let ft := ty_name fty in
          (ft :: possible_of S ft) ++ flat_map (fun pt => explicit_reach S (snd kv) pt) (ft :: possible_of S ft)
      end) subs
  end.

(* the permission-filtered schema the code built for this request against the model of FilterSchema (Model/View.v),
   on the composite types of the merged schema: the same types, each with the same set of fields *)
Definition vsrc_of (S : schema) : View.vsrc :=
  {| View.v_types := map (fun kk => let t := fst kk in
                       {| View.vt_name := t; View.vt_abstract := kind_abstract (snd kk);
                          View.vt_fields := map (fun f => {| View.vf_name := fst f; View.vf_type := ty_name (snd f); View.vf_args := [] |})
                                           (match lookup t (s_fields S) with Some fs => fs | None => [] end);
                          View.vt_possible := possible_of S t |}) (s_kinds S);
     View.v_query := match kind_of S "Query" with Some _ => Some "Query" | None => None end;
     View.v_mutation := match kind_of S "Mutation" with Some _ => Some "Mutation" | None => None end;
     View.v_subscription := match kind_of S "Subscription" with Some _ => Some "Subscription" | None => None end;
     View.v_dirargs := [] |}.
Definition view_matches (S fs : schema) (p : operm) : bool :=
  let view := View.filter_schema 60 (vsrc_of S) p in
  forallb (fun kk =>
    let t := fst kk in
    if String.prefix "__" t || negb (kind_composite (snd kk)) then true else
    match lookup t view, kind_of fs t with
    | Some mf, Some _ => seteq_str mf (map fst (match lookup t (s_fields fs) with Some l => l | None => [] end))
    | None, None => true
    | _, _ => false
    end) (s_kinds S).

(* response paths of the fields of an operation, with what is selected there: the same path with two different fields can
   only arise under two different type conditions (known finding KF-key-clash-across-types) *)
Fixpoint keyed (s : sel) {struct s} : list (list string * (string * list (string * value))) :=
  match s with
  | SField al n args _ _ oss => ([al], (n, args)) :: match oss with
                                                     | Some ss => map (fun e => (al :: fst e, snd e)) (flat_map keyed ss)
                                                     | None => [] end
  | SInline _ _ _ ss | SSpread _ _ _ _ ss => flat_map keyed ss
  end.
Definition key_clash (l : list (list string * (string * list (string * value)))) : bool :=
  existsb (fun a => existsb (fun b => list_eqb String.eqb (fst a) (fst b) &&
                                      negb (String.eqb (fst (snd a)) (fst (snd b)) && args_eqb (snd (snd a)) (snd (snd b)))) l) l.

(* the entities (type name, id) a reply names through the gateway's plumbing aliases *)
Fixpoint json_entities (j : json) {struct j} : list (string * string) :=
  match j with
  | JObj kvs =>
      (match lookup "_bramble__typename" kvs, lookup "_bramble_id" kvs with
       | Some (JStr t), Some (JStr i) => [(t, i)]
       | Some (JStr t), Some (JNum i) => [(t, i)]
       | _, _ => [] end) ++
      (fix go (l : list (string * json)) : list (string * string) := match l with [] => [] | kv :: t => json_entities (snd kv) ++ go t end) kvs
  | JArr l => (fix go (l : list json) : list (string * string) := match l with [] => [] | x :: t => json_entities x ++ go t end) l
  | _ => []
  end.
(* C04: "looks entities up only by ids that an earlier response returned for that type" *)
Fixpoint ids_from_earlier (seen : list (string * string)) (rs : list obs_request) : bool :=
  match rs with
  | [] => true
  | r :: t =>
      (if or_is_lookup r
       then forallb (fun i => existsb (fun p => String.eqb (fst p) (or_parent r) && String.eqb (snd p) i) seen) (or_ids r)
       else true) &&
      ids_from_earlier (seen ++ match or_reply_data r with Some j => json_entities j | None => [] end) t
  end.

Definition root_of (c : e2e_case) : string := match o_kind (ec_op c) with OMutation => "Mutation" | _ => "Query" end.

Definition check_e2e_case (c : e2e_case) : list (string * bool) :=
  let m := run_model c in
  let S := g_schema (ec_gen c) in
  let fs := match ec_fschema c with Some s => s | None => S end in
  let client_ss := match m with Ok o => oc_op o | Err _ => o_sel (ec_op c) end in
  (* the client's selection after @skip/@include, before permissions (by the spec's reading of the directives) *)
  let client_ss0 := match skip_include (ec_vars c) (o_sel (ec_op c)) with Ok x => x | Err _ => o_sel (ec_op c) end in
  let nofault := match ec_faults c with [] => true | _ => false end in
  [ (* --- correspondence: the model against what the code did --- *)
    ("corr.model_runs", is_ok m);
    ("corr.requests", match m with
                      | Ok o => (* after a hard error, which of the remaining requests were already sent is up to the scheduler *)
                                match r_data (oc_response o) with
                                | None => true
                                | Some _ =>
                                    (* wildcard (unparsable) observations are matched last, and against what the exact ones leave *)
                                    let obs := map obs_req_key (obs_requests c) in
                                    let is_wild := fun k : string * opkind * string * list string * list string =>
                                                     match snd k with ["<unparsable>"] => true | _ => false end in
                                    let mdl := map model_req_key (oc_requests o) in
                                    let exact_obs := filter (fun k => negb (is_wild k)) obs in
                                    (* model requests that have an exact partner first *)
                                    let mdl_sorted := filter (fun k => existsb (req_key_eqb k) exact_obs) mdl ++
                                                      filter (fun k => negb (existsb (req_key_eqb k) exact_obs)) mdl in
                                    multiset_eqb req_key_eqb mdl_sorted (exact_obs ++ filter is_wild obs)
                                end
                      | Err _ => false end);
    ("corr.data", match m with
                  | Ok o => (* gqlgen always writes the data key: an absent value and null are the same bytes *)
                            json_eqb (match r_data (oc_response o) with Some j => j | None => JNull end)
                                     (match obs_data c with Some j => j | None => JNull end)
                  | Err _ => false end);
    ("corr.errors", match m with
                    | Ok o => set_eqb err_key_eqb (map (fun e => (ge_kind e, erase_idx (ge_path e), ge_service e)) (r_errors (oc_response o)))
                                                  (map (fun e => (oe_kind e, erase_idx (oe_path e), oe_names_service e)) (obs_errors c))
                    | Err _ => false end);
    (* the simulators are spec-conformant executors: their reply to each recorded request equals RefExec *)
    ("corr.simulators", forallb (fun r =>
        match or_fault r with
        | Some _ => true
        | None => if negb (or_valid r) then match lookup (or_url r) (ec_services c) with
                                             | Some sv => negb (valid_doc (sv_schema sv) (or_root r) (or_doc r)) | None => false end else
          match lookup (or_url r) (ec_services c) with
          | Some sv => match or_reply_data r with
                       | None => true       (* the request was cancelled before the simulator answered *)
                       | Some d => let '(j, es) := exec_op sv (ec_data c) (ec_vars c) (ec_fuel c) (or_root r) (or_doc r) in
                                   json_eqb j d && Nat.eqb (List.length es) (or_reply_nerrs r)
                       end
          | None => false end
        end) (obs_requests c));
    (* --- the properties, evaluated on the observed behaviour --- *)
    ("prop.c01.transparent", if ec_conforming c && nofault && match ec_perm c with None => true | Some _ => false end then
        let '(j, es) := exec_op (ec_mono c) (ec_data c) (ec_vars c) (ec_fuel c) (root_of c) (o_sel (ec_op c)) in
        option_eqb json_eqb (Some j) (obs_data c) && match obs_errors c with [] => true | _ => false end
      else true);
    ("prop.c02.wellformed", match obs_data c with
        | None => negb (match obs_errors c with [] => true | _ => false end)
        | Some JNull => true
        | Some j => valid_obj (ec_fuel c) S (ec_vars c) (root_of c) client_ss j && negb (has_helper_keys j)
        end);
    ("prop.c05.whole_service", match ec_failing c, ec_perm c with
        | _ :: _, None => if ec_conforming c then
            let expected := fst (exec_op (with_failing (ec_mono c) (ec_failing c)) (ec_data c) (ec_vars c) (ec_fuel c) (root_of c) (o_sel (ec_op c))) in
            let got := match obs_data c with Some j => j | None => JNull end in
            json_eqb expected got ||
            (* "data itself may be null when no root field could be resolved" *)
            match got, expected with
            | JNull, JObj kvs => forallb (fun kv => match snd kv with JNull => true | _ => false end) kvs
            | _, _ => false end
          else true
        | _, _ => true end);
    ("prop.c05.only_nulls", match obs_data0 c, nofault with
        | Some j0, false => json_below (ec_fuel c + 20) (match obs_data c with Some j => j | None => JNull end) j0
        | _, _ => true end);
    ("prop.c05.accounted", match obs_data0 c, nofault with
        | Some j0, false => json_eqb (match obs_data c with Some j => j | None => JNull end) j0 ||
                            negb (match obs_errors c with [] => true | _ => false end)
        | _, _ => true end);
    ("prop.c02.accounted", match obs_data0 c, nofault with
        | Some j0, false => json_eqb (match obs_data c with Some j => j | None => JNull end) j0 ||
                            negb (match obs_errors c with [] => true | _ => false end)
        | _, _ => true end);
    ("prop.c05.named", forallb (fun e => match oe_kind e with
                                          | ETimeout | EOther | EDownstream => oe_names_service e
                                          | _ => true end) (obs_errors c));
    (* every service one of whose requests failed outright is named by an error of its own (two services failing alike are
       two errors) *)
    ("prop.c05.every_failing_service_named",
       (* an execution aborted by an internal error (one of the recorded planning/merge findings) reports only that *)
       existsb (fun e => ekind_eqb (oe_kind e) EInternal) (obs_errors c) ||
       forallb (fun r => match or_fault r with
                         | Some f => if hard_fault f then existsb (fun e => String.eqb (oe_service e) (or_url r)) (obs_errors c) else true
                         | None => true end) (obs_requests c));
    ("prop.c03.response_confined", match ec_perm c, obs_data c with
        | Some _, Some (JObj kvs) => valid_obj (ec_fuel c) S (ec_vars c) (root_of c) (fst (spec_filter_op (ec_perm c) (root_of c) client_ss0)) (JObj kvs)
        | _, _ => true end);
    ("prop.c03.no_leak_downstream", match ec_perm c with
        | Some _ =>
            let allowed := flat_map (type_fields (root_of c)) (fst (spec_filter_op (ec_perm c) (root_of c) client_ss0)) in
            forallb (fun r => forallb (fun tf => mem tf allowed ||
                                                 String.eqb (substring (String.length tf - 3) 3 tf) ".id" ||
                                                 String.eqb (substring (String.length tf - 11) 11 tf) ".__typename")
                                      (flat_map (type_fields (or_parent r)) (or_sel r))) (obs_requests c)
        | None => true end);
    ("prop.c03.errors_exact", match ec_perm c with
        | Some _ => multiset_eqb String.eqb
                      (flat_map (fun e => if ekind_eqb (oe_kind e) EPerm then [match oe_path e with [PName m] => m | _ => "" end] else []) (obs_errors c))
                      (snd (spec_filter_op (ec_perm c) (root_of c) client_ss0))
        | None => true end);
    ("prop.c03.authorized_part", match ec_perm c with
        | Some _ => if ec_conforming c && nofault then
            let fss := fst (spec_filter_op (ec_perm c) (root_of c) client_ss0) in
            if valid_doc S (root_of c) fss then
              json_eqb (fst (exec_op (ec_mono c) (ec_data c) (ec_vars c) (ec_fuel c) (root_of c) fss))
                       (match obs_data c with Some j => j | None => JNull end)
            else true
          else true
        | None => true end);
    ("prop.c15.skipped_not_requested",
       let inc := flat_map (included_names (ec_vars c)) (o_sel (ec_op c)) in
       forallb (fun r => forallb (fun n => mem n inc) (flat_map requested_names (or_sel r))) (obs_requests c));
    ("prop.c15.skipped_not_in_response",
       let inc := flat_map (included_keys (ec_vars c)) (o_sel (ec_op c)) in
       match obs_data c with Some d => forallb (fun k => mem k inc) (json_keys (flat_map leaf_keys (o_sel (ec_op c))) d) | None => true end);
    ("prop.c15.directives_not_forwarded", forallb (fun r => negb (existsb has_directive (or_doc r))) (obs_requests c));
    (* a document that does not even parse (recorded C04/C14 findings) has no variables to compare: C04 judges it *)
    ("prop.c15.vars_exact", forallb (fun r => match or_doc r with
                                              | [] => true
                                              | _ => seteq_str (or_varnames r) (dedupe_str (flat_map sel_vars (or_doc r))) &&
                                                     seteq_str (or_declared r) (or_varnames r) end) (obs_requests c));
    (* a document that does not even lex (the Go-escape finding) cannot be judged here *)
    ("prop.c14.vars_exact", forallb (fun r => match or_doc r with
                                              | [] => true
                                              | _ => seteq_str (or_varnames r) (dedupe_str (flat_map sel_vars (or_doc r))) &&
                                                     seteq_str (or_declared r) (or_varnames r) end) (obs_requests c));
    (* C14: echo resolvers return the arguments they received; the client's values must come back (reference executor) *)
    ("prop.c14.values_arrive", if ec_conforming c && nofault && match ec_perm c with None => true | Some _ => false end then
        let '(j, es) := exec_op (ec_mono c) (ec_data c) (ec_vars c) (ec_fuel c) (root_of c) (o_sel (ec_op c)) in
        json_eqb j (match obs_data c with Some d => d | None => JNull end)
      else true);
    ("corr.view", match ec_perm c, ec_fschema c with Some p, Some f => view_matches S f p | _, _ => true end);
    ("prop.c04.valid_subqueries", forallb or_valid (obs_requests c));
    ("prop.c04.optype", forallb (fun r => if or_is_lookup r then opkind_eqb (or_keyword r) OQuery && String.eqb (or_optype r) "query"
                                          else opkind_eqb (or_keyword r) (o_kind (ec_op c)) &&
                                               String.eqb (or_optype r) (match o_kind (ec_op c) with OMutation => "mutation" | _ => "query" end)) (obs_requests c));
    (* only fields the client selected and that survived @skip/@include: every field name a request asks for is the name of a
       field of the client's operation that the conditions leave in *)
    ("prop.c04.only_surviving_fields",
       let inc := flat_map (included_names (ec_vars c)) (o_sel (ec_op c)) in
       forallb (fun r => forallb (fun n => mem n inc) (flat_map requested_names (or_sel r))) (obs_requests c));
    ("prop.c04.ids_from_earlier_responses", ids_from_earlier [] (obs_requests c));
    ("prop.c04.ids_nodup", forallb (fun r => Nat.eqb (List.length (dedupe_str (or_ids r))) (List.length (or_ids r))) (obs_requests c));
    (* --- guards (true = the recorded defect's trigger did NOT fire) --- *)
    ("guard.nested_fragment_dup", negb (op_any_scope scope_has_nested_dup client_ss));
    ("guard.fragment_shortened", negb (op_any_scope scope_frag_shortened client_ss));
    ("guard.emptied_selection", negb (existsb has_emptied client_ss) && negb (match client_ss with [] => true | _ => false end));
    ("guard.abstract_condition", negb (existsb (has_abstract_cond S) client_ss));
    ("guard.merged_step_parent", match m with Ok o => negb (existsb (step_foreign_field S) (oc_plan o)) | Err _ => true end);
    ("guard.namespace_under_fault", nofault || negb (existsb (fun s => match s with
                                                   | SField _ n _ _ t (Some _) => match lookup (root_of c +++ "." +++ n) (g_locations (ec_gen c)) with None => true | Some _ => false end
                                                   | _ => false end) (flat_map flat_fields client_ss)));
    ("guard.no_key_clash_across_types", negb (key_clash (flat_map keyed client_ss)));
    ("guard.view_has_types",
       let named := match ec_perm c with
                    | Some p => explicit_reach S (match o_kind (ec_op c) with OMutation => p_mutation p | _ => p_query p end) (root_of c)
                    | None => [] end in
       forallb (fun t => match kind_of fs t with Some _ => true | None => mem t named end) (flat_map types_used client_ss));
    ("guard.gql_safe_strings", forallb gql_safe (flat_map sel_strings client_ss) &&
                               match m with Ok o => forallb (fun rq => forallb gql_safe (rq_ids rq)) (oc_requests o) | Err _ => true end &&
                               forallb (fun e => forallb (fun kv => match snd kv with RvLeaf (JStr x) => if String.eqb (fst kv) "id" then gql_safe x else true | _ => true end) (e_fields e)) (ec_data c));
    ("guard.no_space_runs", negb (existsb has_space_run (flat_map sel_strings client_ss)));
    (* plan.go:269,287: the key plumbing is read from the permission-filtered schema *)
    ("guard.key_permitted", forallb (fun t => negb (match lookup t (g_is_boundary (ec_gen c)) with Some b => b | None => false end) ||
                                              match kind_of fs t with None => true | Some _ => match field_ty fs t "id" with Some _ => true | None => false end end)
                                    (flat_map (fun t => t :: possible_of S t) (flat_map types_used client_ss)));
    ("guard.recurring_ip", match m with Ok o => negb (existsb (fun st => ip_recurring st 0) (oc_plan o)) | Err _ => true end);
    (* --- features --- *)
    ("feat.multi_service", Nat.leb 2 (List.length (dedupe_str (map or_url (obs_requests c)))));
    ("feat.lookup", existsb or_is_lookup (obs_requests c));
    ("feat.nested_lookup", match m with Ok o => existsb (fun st => existsb (fun ch => negb (match step_then ch with [] => true | _ => false end)) (step_then st)) (oc_plan o) | Err _ => false end);
    ("feat.has_data", match obs_data c with Some (JObj _) => true | _ => false end)
  ].
