(* Corr/PermCheck.v — correspondence + direct oracle for C18 (auth.go AllowedFields algebra).
   A case carries inputs and what the real code answered; [check_perm_case] compares the model to it (components corr.x)
   and evaluates the property itself on the observed values (components prop.x). *)
From V Require Import Base.Util Model.Perm.

Record perm_case := {
  pc_tree : af;                         (* a Go AllowedFields value, keys sorted *)
  pc_marshal_obs : option pj;           (* json.Marshal(tree) *)
  pc_reread_obs : option af;            (* json.Unmarshal(json.Marshal(tree), &zero) *)
  pc_json : pj;                         (* an arbitrary JSON input (valid forms and malformed stream) *)
  pc_old : af;                          (* the value it is decoded over *)
  pc_unmarshal_obs : option af;         (* result, None = error *)
  pc_family : list af;
  pc_merge_obs : af;                    (* MergeAllowedFields(family...) *)
  pc_probe_obs : list (list string * bool)  (* path -> allowed, by walking IsAllowed as filterFields does *)
}.

Definition probes (a : af) : list (list string) :=
  let ps := af_paths a in ps ++ map (fun p => p ++ ["zz"]) ps.

Definition check_perm_case (c : perm_case) : list (string * bool) :=
  let fam_probes := flat_map probes (pc_family c) in
  [ ("corr.marshal", option_eqb pj_eqb (Some (marshal (pc_tree c))) (pc_marshal_obs c));
    ("corr.reread", option_eqb af_eqb (unmarshal (marshal (pc_tree c)) af_zero) (pc_reread_obs c));
    ("corr.unmarshal", option_eqb af_eqb (unmarshal (pc_json c) (pc_old c)) (pc_unmarshal_obs c));
    ("corr.merge", af_eqb (merge_list (pc_family c)) (pc_merge_obs c));
    ("corr.is_allowed", forallb (fun pb => Bool.eqb (walk_allowed (pc_tree c) (fst pb)) (snd pb)) (pc_probe_obs c));
    (* the property, on the observed values *)
    ("prop.roundtrip", match pc_reread_obs c with
                       | Some a' => forallb (fun p => Bool.eqb (allows a' p) (allows (pc_tree c) p)) (probes (pc_tree c))
                       | None => false end);
    ("prop.union", forallb (fun p => match p with
                                     | [] => true
                                     | _ => Bool.eqb (allows (pc_merge_obs c) p) (existsb (fun a => allows a p) (pc_family c))
                                     end) fam_probes);
    ("prop.walk_is_allows", forallb (fun pb => if existsb starts_uu (fst pb) then true
                                               else Bool.eqb (snd pb) (allows (pc_tree c) (fst pb))) (pc_probe_obs c));
    ("feat.obj_form", match marshal (pc_tree c) with PObj _ => true | _ => false end);
    ("feat.decode_ok", match pc_unmarshal_obs c with Some _ => true | None => false end);
    ("feat.family_ge2", Nat.leb 2 (List.length (pc_family c)))
  ].
