(* Corr/MergeCheck.v — C07/C08: service schemas of a generated federation, what MergeSchemas and the table builders of
   the real code produced, the model's result, and the properties' own oracles on the observed result. *)
From V Require Import Base.Util Gql.Ast Model.Merge.

Record merge_case := {
  mc_services : list service_src;
  mc_conflict : bool;                       (* one conflict was injected: the merge must fail *)
  mc_mono : option sschema;                 (* the monolith the services were split from *)
  obs_merged : option sschema;              (* MergedSchema after UpdateSchema (None: nothing published) *)
  obs_locations : list (string * string);
  obs_is_boundary : list (string * bool);
  obs_lookups : list (string * list bfield)
}.

Definition pair_eqb (a b : string * string) : bool := String.eqb (fst a) (fst b) && String.eqb (snd a) (snd b).
Definition bfield_eqb (a b : bfield) : bool :=
  String.eqb (bf_type a) (bf_type b) && String.eqb (bf_field a) (bf_field b) && String.eqb (bf_arg a) (bf_arg b) && Bool.eqb (bf_array a) (bf_array b).

(* public comparison with the monolith: kinds, fields with signatures, interfaces, members, values; not the federation flags *)
Definition tdef_public_equiv (a b : tdef) : bool :=
  String.eqb (td_name a) (td_name b) && kind_eqb (td_kind a) (td_kind b) &&
  multiset_eqb fdef_eqb (td_fields a) (td_fields b) && multiset_eqb String.eqb (td_ifaces a) (td_ifaces b) &&
  multiset_eqb String.eqb (td_members a) (td_members b) && multiset_eqb String.eqb (td_enum a) (td_enum b).   (* a name listed twice is not the same schema *)

Definition owners_of (svcs : list service_src) (t f : string) : list string :=
  flat_map (fun sv => match find_type t (sv_types sv) with
                      | Some td => if existsb (fun fd => String.eqb (fd_name fd) f && negb (fd_boundary fd)) (mergeable_fields td) then [sv_url sv] else []
                      | None => [] end) svcs.

Definition check_merge_case (c : merge_case) : list (string * bool) :=
  let m := merge_schemas (map sv_types (mc_services c)) in
  let published := match obs_merged c with Some _ => true | None => false end in
  [ ("corr.merge_outcome", Bool.eqb (is_ok m) published);
    ("corr.merged_schema", match m, obs_merged c with
                           | Ok s, Some o => schema_equiv s o
                           | Err _, None => true
                           | _, _ => false end);
    (* the former Node interface is plumbing: it is not part of the public schema, and which of several services its stray
       routing entry names follows the order in which polls completed *)
    ("corr.locations", negb published ||
                       let public := filter (fun p => negb (String.prefix "Node." (fst p))) in
                       multiset_eqb pair_eqb (public (field_url_map (mc_services c))) (public (obs_locations c)));
    ("corr.is_boundary", negb published ||
                         multiset_eqb (fun a b => String.eqb (fst a) (fst b) && Bool.eqb (snd a) (snd b)) (is_boundary_map (mc_services c)) (obs_is_boundary c));
    ("corr.lookups", negb published ||
                     multiset_eqb (fun a b => String.eqb (fst a) (fst b) && multiset_eqb bfield_eqb (snd a) (snd b))
                                  (filter (fun p => negb (match snd p with [] => true | _ => false end)) (boundary_fields_map (mc_services c)))
                                  (obs_lookups c));
    (* ---- C08: an injected conflict is never resolved silently ---- *)
    ("prop.c08.conflict_fails", negb (mc_conflict c) || negb published);
    (* ---- C07 on the observed public schema ---- *)
    ("prop.c07.equals_monolith", match mc_mono c, obs_merged c with
                                 | Some mono, Some o => multiset_eqb tdef_public_equiv mono o
                                 | Some _, None => false
                                 | None, _ => true end);
    ("prop.c07.no_plumbing", match obs_merged c with
        | Some o => negb (existsb (fun t => String.eqb (td_name t) "Service" || String.eqb (td_name t) "Node") o) &&
                    forallb (fun t => forallb (fun f => negb (fd_boundary f) &&
                                                        negb (String.eqb (td_name t) "Query" && (is_service_field f || is_node_field f)))
                                              (td_fields t)) o
        | None => true end);
    ("prop.c07.single_owner_routed", match obs_merged c with
        | Some o =>
            forallb (fun t =>
              if negb (kind_composite (td_kind t)) then true else
              forallb (fun f =>
                let is_ns_link := match find_type (ty_name (fd_ty f)) o with Some ft => td_namespace ft | None => false end in
                (* a namespace link belongs to no service: with a routing entry the whole selection below it would go to one *)
                if is_ns_link then negb (has_key (td_name t +++ "." +++ fd_name f) (obs_locations c)) else
                if td_boundary t && is_id_field f then true else
                match owners_of (mc_services c) (td_name t) (fd_name f) with
                | [u] => option_eqb String.eqb (lookup (td_name t +++ "." +++ fd_name f) (obs_locations c)) (Some u)
                | _ => false
                end) (td_fields t)) o
        | None => true end);
    ("feat.multi_service", Nat.leb 2 (List.length (mc_services c)));
    ("feat.conflict", mc_conflict c) ].
