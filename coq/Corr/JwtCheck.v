(* Corr/JwtCheck.v — C19: the decision of the real JWT middleware in front of the real gateway vs the model,
   and the fail-closed property evaluated on the observed behaviour. *)
From V Require Import Base.Util Model.Jwt.

Record jwt_case := {
  jc_cfg : jcfg; jc_presented : presented;
  obs_status : nat; obs_downstream : nat;
  obs_perms : option string;              (* permission set in force, judged from a probe query (None: nothing allowed) *)
  obs_headers : list (string * string);   (* JWT-Claim-* headers seen on downstream calls *)
  obs_headers_uniform : bool              (* every downstream call of the request carried the same claim headers *)
}.

Definition hdr_eqb (a b : list (string * string)) : bool :=
  multiset_eqb (fun p q => String.eqb (fst p) (fst q) && String.eqb (snd p) (snd q)) a b.
(* the permission text "none" allows nothing: indistinguishable from the zero set *)
Definition norm_perm (p : option string) : option string := match p with Some "none" => None | x => x end.

Definition check_jwt_case (c : jwt_case) : list (string * bool) :=
  let d := decide (jc_cfg c) (jc_presented c) in
  [ ("corr.decision", match d with
                      | Reject401 => Nat.eqb (obs_status c) 401
                      | Proceed perms hdrs => Nat.eqb (obs_status c) 200 && option_eqb String.eqb (norm_perm perms) (obs_perms c) &&
                                              (Nat.eqb (obs_downstream c) 0 || hdr_eqb hdrs (obs_headers c))
                      end);
    (* the property on the observed behaviour *)
    ("prop.c19.reject_means_no_downstream", negb (Nat.eqb (obs_status c) 401) || Nat.eqb (obs_downstream c) 0);
    ("prop.c19.invalid_token_rejected", match jc_presented c with
        | Presented t =>
            let kid := match t_kid t with Some k => k | None => "" end in
            let valid := t_wellformed t && rsa_alg (t_alg t) && mem kid (j_keys (jc_cfg c)) && mem kid (t_verifies_under t) &&
                         t_time_valid t && has_key (t_role t) (j_roles (jc_cfg c)) in
            valid || Nat.eqb (obs_status c) 401
        | NoToken => true end);
    ("prop.c19.no_token_public_role", match jc_presented c with
        | NoToken => Nat.eqb (obs_status c) 200 && option_eqb String.eqb (norm_perm (lookup "public_role" (j_roles (jc_cfg c)))) (obs_perms c) &&
                     match obs_headers c with [] => true | _ => false end
        | _ => true end);
    ("prop.c19.valid_token_role_perms", match jc_presented c with
        | Presented t => if Nat.eqb (obs_status c) 200
                         then option_eqb String.eqb (norm_perm (lookup (t_role t) (j_roles (jc_cfg c)))) (obs_perms c) && obs_headers_uniform c
                         else true
        | NoToken => true end);
    ("feat.presented", match jc_presented c with NoToken => false | _ => true end);
    ("feat.accepted", Nat.eqb (obs_status c) 200) ].
