(* Corr/IntrospectCheck.v — C17: the real gateway's answer to the standard introspection query vs Model/Introspect.v composed
   with Model/View.v, and the property's oracles: what a client reconstructs equals the permitted part of the merged schema,
   nothing outside it is named, the answer is well formed. *)
From V Require Import Base.Util Gql.Ast Model.Perm Model.View Model.Introspect Corr.ViewCheck.

Record introspect_case := {
  ic_schema : isch;              (* the merged schema the gateway serves, types and directives sorted by name *)
  ic_perm : option operm;
  ic_obs : option json;          (* "data" of the response; types, directives and possibleTypes sorted by name *)
  ic_obs_errors : nat
}.

Definition reached (reach : seen_t) (tn : string) : bool := existsb (fun x => String.eqb (fst x) tn) reach.

(* SPECIFICATION: the permitted part of the schema (C18's Selectable), as a schema *)
Definition permitted_part (S : isch) (p : option operm) (fuel : nat) : isch :=
  match p with
  | None => S
  | Some pm =>
      let vs := vsrc_of S in
      let reach := reach_all true fuel vs pm in
      {| is_types := flat_map (fun t =>
           if reached reach (it_name t) then
             [ {| it_kind := it_kind t; it_name := it_name t; it_desc := it_desc t;
                  it_fields := filter (fun f => selectable reach vs (it_name t) (if_name f)) (it_fields t);
                  it_ifaces := filter (reached reach) (it_ifaces t);
                  it_possible := filter (reached reach) (it_possible t); it_enum := it_enum t |} ]
           else []) (is_types S);
         is_dirs := is_dirs S |}
  end.

(* field order is not part of what a client reconstructs: both sides are compared with the fields of every type sorted by name *)
Fixpoint insert_field (f : ifield) (l : list ifield) : list ifield :=
  match l with
  | [] => [f]
  | g :: t => if String.ltb (if_name g) (if_name f) then g :: insert_field f t else f :: l
  end.
Definition sort_fields (S : isch) : isch :=
  {| is_types := map (fun t => {| it_kind := it_kind t; it_name := it_name t; it_desc := it_desc t;
                                  it_fields := fold_right insert_field [] (it_fields t);
                                  it_ifaces := it_ifaces t; it_possible := it_possible t; it_enum := it_enum t |}) (is_types S);
     is_dirs := is_dirs S |}.

Fixpoint has_null_elem (l : list json) : bool := match l with [] => false | JNull :: _ => true | _ :: t => has_null_elem t end.
Definition arr_ok (o : option json) : bool := match o with Some (JArr l) => negb (has_null_elem l) | Some JNull => true | _ => false end.
Definition types_of (j : json) : list json :=
  match jget "__schema" j with Some sc => match jget "types" sc with Some (JArr l) => l | _ => [] end | None => [] end.

(* every object carrying a "kind" is a type or a type reference: collect the names they reveal *)
Fixpoint type_names (fuel : nat) (j : json) : list string :=
  match fuel with O => [] | S fuel =>
  match j with
  | JObj kvs => (match lookup "kind" kvs, lookup "name" kvs with Some _, Some (JStr n) => [n] | _, _ => [] end) ++
                flat_map (fun kv => type_names fuel (snd kv)) kvs
  | JArr l => flat_map (type_names fuel) l
  | _ => []
  end end.

Definition check_introspect_case (c : introspect_case) : list (string * bool) :=
  let S := ic_schema c in
  let vs := vsrc_of S in
  let psize := match ic_perm c with Some p => perm_size p | None => 0 end in
  let fuel_m := total_fields vs + psize + 10 in
  let fuel_r := (List.length (v_types vs) + 2) * (psize + 3) in
  let view := option_map (filter_schema fuel_m vs) (ic_perm c) in
  let model := introspect S view in
  let spec := permitted_part S (ic_perm c) fuel_r in
  let reach := match ic_perm c with Some p => reach_all true fuel_r vs p | None => [] end in
  let obs := match ic_obs c with Some j => j | None => JNull end in
  [ ("corr.answer", option_eqb json_eqb (Some model) (ic_obs c));
    ("prop.c17.reconstructs", match reconstruct obs with
                              | Some R => json_eqb (introspect (sort_fields R) None) (introspect (sort_fields spec) None)
                              | None => false end);
    ("prop.c17.confined", match ic_perm c with
        | None => true
        | Some _ =>
            forallb (reached reach) (type_names 30 obs) &&
            forallb (fun t => match jget "name" t, jget "fields" t with
                              | Some (JStr n), Some (JArr fs) =>
                                  forallb (fun f => match jget "name" f with Some (JStr fnm) => selectable reach vs n fnm | _ => true end) fs
                              | _, _ => true end) (types_of obs)
        end);
    ("prop.c17.wellformed", negb (has_null_elem (types_of obs)) &&
        forallb (fun t => arr_ok (jget "interfaces" t) && arr_ok (jget "possibleTypes" t)) (types_of obs) &&
        match jget "__schema" obs with Some sc => match jget "queryType" sc with Some (JObj _) => true | _ => false end | None => false end);
    (* true = every interface and possible type of a type in the view is itself in the view (trigger of KF-view-drops-types) *)
    ("guard.c17_view_closed", match view with
        | None => true
        | Some v => forallb (fun t => negb (has_key (it_name t) v) ||
                                      (forallb (fun i => has_key i v) (it_ifaces t) &&
                                       (negb (kind_abstract (it_kind t)) || forallb (fun n => has_key n v) (it_possible t)))) (is_types S)
        end);
    (* true = nothing is permitted only through a fragment on a type that is not the type of a permitted field (trigger of
       KF-view-fragment-only-type): the permitted part computed with and without fragment-only reachability is the same *)
    ("guard.c17_no_fragment_only_field", match ic_perm c with
        | None => true
        | Some p => Nat.eqb (List.length (selectable_pairs (reach_all true fuel_r vs p) vs))
                            (List.length (selectable_pairs (reach_all false fuel_r vs p) vs)) &&
                    Nat.eqb (List.length (reach_all true fuel_r vs p)) (List.length (reach_all false fuel_r vs p))
        end);
    (* the hypothesis of C17_reconstruction_roundtrip holds of this schema *)
    ("prop.c17.roundtrip_hypothesis_met", wfb S);
    ("feat.perms", match ic_perm c with Some _ => true | None => false end);
    ("feat.no_errors", Nat.eqb (ic_obs_errors c) 0) ].
