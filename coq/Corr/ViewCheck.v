(* Corr/ViewCheck.v — C18, third clause: FilterSchema of the real code on a schema and a permission set, compared with
   Model/View.v (corr.view) and judged against the specification of what the permission set lets a query select. *)
From V Require Import Base.Util Model.Perm Model.View.

Record view_case := {
  vc_src : vsrc;               (* the merged schema, introspection types included *)
  vc_perm : operm;
  vc_obs : tmap                (* FilterSchema(schema).Types: type name -> field names *)
}.

Fixpoint af_size (a : af) : nat := match a with AF _ subs => S (fold_left (fun n kv => n + af_size (snd kv)) subs 0) end.
Definition perm_size (p : operm) : nat := af_size (p_query p) + af_size (p_mutation p) + af_size (p_subscription p).
Definition total_fields (S : vsrc) : nat := fold_left (fun n t => n + List.length (vt_fields t)) (v_types S) 0.

Definition tmap_eqb (a b : tmap) : bool :=
  seteq_str (keys a) (keys b) && Nat.eqb (List.length a) (List.length b) &&
  forallb (fun kv => match lookup (fst kv) b with Some fs => multiset_eqb String.eqb (snd kv) fs | None => false end) a.

(* the clause is about the schema proper: the introspection meta-fields and meta-types ("__" names) are not part of a
   permission set's alphabet (auth.go:22 answers for them without consulting the tree) and belong to C17 *)
Definition selectable_pairs (reach : seen_t) (S : vsrc) : list (string * string) :=
  flat_map (fun t => if starts_uu (vt_name t) then [] else
     flat_map (fun f => if negb (starts_uu f) && selectable reach S (vt_name t) f then [(vt_name t, f)] else []) (all_fields t)) (v_types S).

Definition check_view_case (c : view_case) : list (string * bool) :=
  let S := vc_src c in
  let fuel_m := total_fields S + perm_size (vc_perm c) + 10 in
  let fuel_r := (List.length (v_types S) + 2) * (perm_size (vc_perm c) + 3) in
  let model := filter_schema fuel_m S (vc_perm c) in
  let wide := reach_all true fuel_r S (vc_perm c) in
  let narrow := reach_all false fuel_r S (vc_perm c) in
  let sel_w := selectable_pairs wide S in
  let sel_n := selectable_pairs narrow S in
  [ ("corr.view", tmap_eqb model (vc_obs c));
    (* the property on the observed view *)
    ("prop.c18.view_sound", forallb (fun kv => starts_uu (fst kv) || forallb (fun f => starts_uu f || selectable wide S (fst kv) f) (snd kv)) (vc_obs c));
    ("prop.c18.view_complete_field_paths", forallb (fun tf => view_visible (vc_obs c) (fst tf) (snd tf)) sel_n);
    ("prop.c18.view_complete", forallb (fun tf => view_visible (vc_obs c) (fst tf) (snd tf)) sel_w);
    (* true = no field is selectable only through a fragment on a type that is not itself the type of a permitted field *)
    ("guard.view_no_fragment_only_type", Nat.eqb (List.length sel_w) (List.length sel_n));
    ("feat.view_nonempty", negb (match vc_obs c with [] => true | _ => false end));
    ("feat.view_partial", Nat.ltb (List.length sel_w) (total_fields S) && Nat.ltb 0 (List.length sel_w));
    ("feat.view_mixed_forms", existsb (fun x => af_all (snd x)) wide && existsb (fun x => negb (af_all (snd x))) wide)
  ].
