From Coq Require Import List String Bool.
Import ListNotations.
Open Scope string_scope.
Open Scope list_scope.

(* ---- reduced AST: enough to exercise the recursion structure of plan.go ---- *)
Inductive ty := TNamed (n : string) (nn : bool) | TList (t : ty) (nn : bool).
Fixpoint ty_name (t : ty) : string := match t with TNamed n _ => n | TList t _ => ty_name t end.

Inductive sel :=
| SField (alias name : string) (fty : ty) (ss : option (list sel))
| SInline (tc : string) (ss : list sel)
| SSpread (fname tc : string) (ss : list sel).

Inductive step := Step (url parent : string) (sel_ : list sel) (ip : list string) (thn : list step).

Fixpoint lookup {A} (k : string) (l : list (string * A)) : option A :=
  match l with [] => None | (k', v) :: t => if String.eqb k k' then Some v else lookup k t end.

Record pctx := { locations : list (string * string); is_boundary : list (string * bool);
                 abstract_impls : list (string * list string) (* abstract type -> boundary impls having an id *);
                 known_types : list string; services : list string }.

Definition url_for (c : pctx) (parent ploc field : string) : option string :=
  if String.eqb field "__typename" then Some ploc else lookup (parent ++ "." ++ field)%string (locations c).
Definition boundary (c : pctx) (t : string) : bool :=
  negb (String.eqb t "Query") && negb (String.eqb t "Mutation") &&
  match lookup t (is_boundary c) with Some b => b | None => false end.

Inductive res (A : Type) := Ok (a : A) | Err (msg : string).
Arguments Ok {A}. Arguments Err {A}.

(* what processing ONE selection at location [loc] yields *)
Inductive outcome :=
| Keep (s : sel) (children : list step)
| Remote (owner : string) (s : sel) (children : list step).

Definition id_field := SField "_bramble_id" "id" (TNamed "ID" true) None.
Definition tn_field := SField "_bramble__typename" "__typename" (TNamed "String" false) None.

Definition plumbing (c : pctx) (parent : string) : res (list sel) :=
  if negb (existsb (String.eqb parent) (known_types c)) then Err ("definition is nil for parentType " ++ parent)%string else
  match lookup parent (abstract_impls c) with
  | Some impls => Ok (map (fun i => SInline i [id_field]) impls ++ [tn_field])
  | None => if boundary c parent then Ok [id_field; tn_field] else Ok []
  end.

Definition step_key (s : step) : string :=
  match s with Step u _ _ ip _ => String.concat "/" (u :: ip) end.

(* plan.go:234-249 : merge steps with equal service/insertion-point key, keeping first occurrence order *)
Fixpoint merge_into (s : step) (acc : list step) : list step :=
  match acc with
  | [] => [s]
  | a :: t => if String.eqb (step_key a) (step_key s)
              then match a, s with Step u p ss ip th, Step _ _ ss' _ th' => Step u p (ss ++ ss') ip (th ++ th') end :: t
              else a :: merge_into s t
  end.
Definition merge_steps (l : list step) : list step :=
  match l with _ :: _ :: _ => fold_left (fun acc s => merge_into s acc) l [] | _ => l end.

(* group Remote outcomes by owner, first-occurrence order (Go: map order, immaterial up to Permutation) *)
Fixpoint add_group (o : string) (s : sel) (ch : list step) (g : list (string * (list sel * list step))) :=
  match g with
  | [] => [(o, ([s], ch))]
  | (o', (ss, cs)) :: t => if String.eqb o o' then (o', (ss ++ [s], cs ++ ch)) :: t else (o', (ss, cs)) :: add_group o s ch t
  end.

Section Extract.
  Variable c : pctx.

  (* all-or-error sequencing over a list of outcomes *)
  Fixpoint seq_res {A} (l : list (res A)) : res (list A) :=
    match l with
    | [] => Ok []
    | Err m :: _ => Err m
    | Ok a :: t => match seq_res t with Ok r => Ok (a :: r) | Err m => Err m end
    end.

  (* assemble one frame of extractSelectionSet from the per-selection outcomes *)
  Definition assemble (ip : list string) (parent loc : string) (outs : list outcome) : res (list sel * list step) :=
    let kept := flat_map (fun o => match o with Keep s _ => [s] | Remote _ _ _ => [] end) outs in
    let ch_local := flat_map (fun o => match o with Keep _ ch => ch | Remote _ _ _ => [] end) outs in
    let groups := fold_left (fun g o => match o with Remote ow s ch => add_group ow s ch g | Keep _ _ => g end) outs [] in
    (* createSteps -> route -> extract for each owner: the fields are local there; plumbing for [parent] *)
    match plumbing c parent with
    | Err m => Err m
    | Ok pl =>
      let new_steps := map (fun '(ow, (ss, ch)) => Step ow parent (ss ++ pl) ip (merge_steps ch)) groups in
      Ok (kept ++ pl, merge_steps (ch_local ++ new_steps))
    end.

  Fixpoint extract_sel (s : sel) (ip : list string) (parent loc : string) {struct s} : res outcome :=
    match s with
    | SField alias name fty oss =>
      if (String.eqb alias "_bramble_id" && negb (String.eqb name "id")) ||
         (String.eqb alias "_bramble__typename" && negb (String.eqb name "__typename"))
      then Err "reserved alias" else
      if boundary c parent && String.eqb name "id" then Ok (Keep s []) else
      let owner := url_for c parent loc name in
      let remote := match owner with Some o => negb (String.eqb o loc) | None => false end in
      let l' := match owner with Some o => if remote then o else loc | None => loc end in
      match oss with
      | None => Ok (if remote then Remote l' s [] else Keep s [])
      | Some ss =>
        match seq_res (map (fun x => extract_sel x (ip ++ [alias]) (ty_name fty) l') ss) with
        | Err m => Err m
        | Ok outs =>
          match assemble (ip ++ [alias]) (ty_name fty) l' outs with
          | Err m => Err m
          | Ok (ss', ch) =>
            let f' := SField alias name fty (Some ss') in
            Ok (if remote then Remote l' f' ch else Keep f' ch)
          end
        end
      end
    | SInline tc ss =>
      match seq_res (map (fun x => extract_sel x ip tc loc) ss) with
      | Err m => Err m
      | Ok outs => match assemble ip tc loc outs with
                   | Err m => Err m
                   | Ok (ss', ch) => Ok (Keep (SInline tc ss') ch)
                   end
      end
    | SSpread _ tc ss =>
      match seq_res (map (fun x => extract_sel x ip tc loc) ss) with
      | Err m => Err m
      | Ok outs => match assemble ip tc loc outs with
                   | Err m => Err m
                   | Ok (ss', ch) => Ok (Keep (SInline tc ss') ch)
                   end
      end
    end.

  Definition extract_list (ss : list sel) ip parent loc : res (list sel * list step) :=
    match seq_res (map (fun x => extract_sel x ip parent loc) ss) with
    | Err m => Err m
    | Ok outs => assemble ip parent loc outs
    end.

  (* filterSelectionSetByLoc: structural, fragments flattened *)
  Fixpoint filter_loc (s : sel) (loc parent : string) {struct s} : list sel :=
    match s with
    | SField alias name fty oss =>
      match url_for c parent "" name with
      | None => match oss with
                | None => []
                | Some ss => match flat_map (fun x => filter_loc x loc (ty_name fty)) ss with
                             | [] => []
                             | sub => [SField alias name fty (Some sub)]
                             end
                end
      | Some fl => if String.eqb fl loc then [s]
                   else if String.eqb loc "__bramble" && String.eqb name "__typename" then [s] else []
      end
    | SInline _ ss => flat_map (fun x => filter_loc x loc parent) ss
    | SSpread _ _ ss => flat_map (fun x => filter_loc x loc parent) ss
    end.

  Definition plan (root : string) (ss : list sel) : res (list step) :=
    seq_res (flat_map (fun loc =>
      match flat_map (fun x => filter_loc x loc root) ss with
      | [] => []
      | fs => [match extract_list fs [] root loc with
               | Ok (sel_, ch) => Ok (Step loc root sel_ [] ch)
               | Err m => Err m end]
      end) (services c ++ ["__bramble"])).
End Extract.

(* ---- the interface example that breaks on the real code (two impls extended by the same service) ---- *)
Definition S := TNamed "String" false.
Definition ctx1 := {| locations := [("Query.animals","A"); ("Animal.name","A"); ("Cat.name","A"); ("Dog.name","A");
                                    ("Cat.lives","B"); ("Dog.bark","B")];
                      is_boundary := [("Cat",true); ("Dog",true)];
                      abstract_impls := [("Animal", ["Cat"; "Dog"])];
                      known_types := ["Query";"Animal";"Cat";"Dog"]; services := ["A";"B"] |}.
Definition q1 := [SField "animals" "animals" (TList (TNamed "Animal" false) false)
                   (Some [SField "name" "name" S None;
                          SInline "Cat" [SField "lives" "lives" S None];
                          SInline "Dog" [SField "bark" "bark" S None]])].
Eval vm_compute in plan ctx1 "Query" q1.

(* nested crossing with a recurring key: { foo { foo { name } } } *)
Definition ctx2 := {| locations := [("Query.foo","A"); ("Foo.name","A"); ("Foo.foo","B")];
                      is_boundary := [("Foo",true)]; abstract_impls := [];
                      known_types := ["Query";"Foo"]; services := ["A";"B"] |}.
Definition q2 := [SField "foo" "foo" (TNamed "Foo" false) (Some [SField "foo" "foo" (TNamed "Foo" false) (Some [SField "name" "name" S None])])].
Eval vm_compute in plan ctx2 "Query" q2.
