(* End-to-end composition spike: plan.go + execution.go (sequential skeleton) + execution_result.go merge
   + Shape.v, over ONE AST, validated against two end-to-end outputs observed on the real code. *)
Require Import Shape.
From Coq Require Import List String Ascii Bool Arith.
Import ListNotations.
Open Scope string_scope. Open Scope list_scope.

Fixpoint ty_name (t : ty) : string := match t with TNamed n _ => n | TList t _ => ty_name t end.

Inductive res (A : Type) := Ok (a : A) | Err (msg : string).
Arguments Ok {A}. Arguments Err {A}.
Fixpoint seq_res {A} (l : list (res A)) : res (list A) :=
  match l with
  | [] => Ok []
  | Err m :: _ => Err m
  | Ok a :: t => match seq_res t with Ok r => Ok (a :: r) | Err m => Err m end
  end.

(* ================= planner (Appendix D.1, on the full sel of Shape.v) ================= *)
Inductive step := Step (url parent : string) (sel_ : list sel) (ip : list string) (thn : list step).
Record pctx := { locations : list (string * string); is_boundary : list (string * bool);
                 abstract_impls : list (string * list string); known_types : list string; services : list string }.
Definition url_for (c : pctx) (parent ploc field : string) : option string :=
  if String.eqb field "__typename" then Some ploc else lookup (parent ++ "." ++ field)%string (locations c).
Definition boundary (c : pctx) (t : string) : bool :=
  negb (String.eqb t "Query") && negb (String.eqb t "Mutation") &&
  match lookup t (is_boundary c) with Some b => b | None => false end.
Inductive outcome := Keep (s : sel) (children : list step) | Remote (owner : string) (s : sel) (children : list step).
Definition id_field := SField "_bramble_id" "id" (TNamed "ID" true) None.
Definition tn_field := SField "_bramble__typename" "__typename" (TNamed "String" false) None.
Definition plumbing (c : pctx) (parent : string) : res (list sel) :=
  if negb (existsb (String.eqb parent) (known_types c)) then Err ("definition is nil for parentType " ++ parent)%string else
  match lookup parent (abstract_impls c) with
  | Some impls => Ok (map (fun i => SInline i parent [id_field]) impls ++ [tn_field])
  | None => if boundary c parent then Ok [id_field; tn_field] else Ok []
  end.
Definition step_key (s : step) : string := match s with Step u _ _ ip _ => String.concat "/" (u :: ip) end.
Fixpoint merge_into (s : step) (acc : list step) : list step :=
  match acc with
  | [] => [s]
  | a :: t => if String.eqb (step_key a) (step_key s)
              then match a, s with Step u p ss ip th, Step _ _ ss' _ th' => Step u p (ss ++ ss') ip (th ++ th') end :: t
              else a :: merge_into s t
  end.
Definition merge_steps (l : list step) : list step :=
  match l with _ :: _ :: _ => fold_left (fun acc s => merge_into s acc) l [] | _ => l end.
Fixpoint add_group (o : string) (s : sel) (ch : list step) (g : list (string * (list sel * list step))) :=
  match g with
  | [] => [(o, ([s], ch))]
  | (o', (ss, cs)) :: t => if String.eqb o o' then (o', (ss ++ [s], cs ++ ch)) :: t else (o', (ss, cs)) :: add_group o s ch t
  end.
Section Extract.
  Variable c : pctx.
  Definition assemble (ip : list string) (parent loc : string) (outs : list outcome) : res (list sel * list step) :=
    let kept := flat_map (fun o => match o with Keep s _ => [s] | Remote _ _ _ => [] end) outs in
    let ch_local := flat_map (fun o => match o with Keep _ ch => ch | Remote _ _ _ => [] end) outs in
    let groups := fold_left (fun g o => match o with Remote ow s ch => add_group ow s ch g | Keep _ _ => g end) outs [] in
    match plumbing c parent with
    | Err m => Err m
    | Ok pl => let new_steps := map (fun '(ow, (ss, ch)) => Step ow parent (ss ++ pl) ip (merge_steps ch)) groups in
               Ok (kept ++ pl, merge_steps (ch_local ++ new_steps))
    end.
  Fixpoint extract_sel (s : sel) (ip : list string) (parent loc : string) {struct s} : res outcome :=
    match s with
    | SField alias name fty oss =>
      if (String.eqb alias "_bramble_id" && negb (String.eqb name "id")) ||
         (String.eqb alias "_bramble__typename" && negb (String.eqb name "__typename"))
      then Err "reserved alias" else
      if boundary c parent && String.eqb name "id" then Ok (Keep s []) else
      let owner := url_for c parent loc name in
      let remote := match owner with Some o => negb (String.eqb o loc) | None => false end in
      let l' := match owner with Some o => if remote then o else loc | None => loc end in
      match oss with
      | None => Ok (if remote then Remote l' s [] else Keep s [])
      | Some ss =>
        match seq_res (map (fun x => extract_sel x (ip ++ [alias]) (ty_name fty) l') ss) with
        | Err m => Err m
        | Ok outs => match assemble (ip ++ [alias]) (ty_name fty) l' outs with
                     | Err m => Err m
                     | Ok (ss', ch) => let f' := SField alias name fty (Some ss') in
                                       Ok (if remote then Remote l' f' ch else Keep f' ch)
                     end
        end
      end
    | SInline tc e ss =>
      match seq_res (map (fun x => extract_sel x ip tc loc) ss) with
      | Err m => Err m
      | Ok outs => match assemble ip tc loc outs with Err m => Err m | Ok (ss', ch) => Ok (Keep (SInline tc e ss') ch) end
      end
    | SSpread _ tc e ss =>
      match seq_res (map (fun x => extract_sel x ip tc loc) ss) with
      | Err m => Err m
      | Ok outs => match assemble ip tc loc outs with Err m => Err m | Ok (ss', ch) => Ok (Keep (SInline tc e ss') ch) end
      end
    end.
  Definition extract_list (ss : list sel) ip parent loc : res (list sel * list step) :=
    match seq_res (map (fun x => extract_sel x ip parent loc) ss) with Err m => Err m | Ok outs => assemble ip parent loc outs end.
  Fixpoint filter_loc (s : sel) (loc parent : string) {struct s} : list sel :=
    match s with
    | SField alias name fty oss =>
      match url_for c parent "" name with
      | None => match oss with
                | None => []
                | Some ss => match flat_map (fun x => filter_loc x loc (ty_name fty)) ss with
                             | [] => [] | sub => [SField alias name fty (Some sub)] end
                end
      | Some fl => if String.eqb fl loc then [s]
                   else if String.eqb loc "__bramble" && String.eqb name "__typename" then [s] else []
      end
    | SInline _ _ ss => flat_map (fun x => filter_loc x loc parent) ss
    | SSpread _ _ _ ss => flat_map (fun x => filter_loc x loc parent) ss
    end.
  Definition plan (root : string) (ss : list sel) : res (list step) :=
    seq_res (flat_map (fun loc => match flat_map (fun x => filter_loc x loc root) ss with
                                  | [] => []
                                  | fs => [match extract_list fs [] root loc with
                                           | Ok (sel_, ch) => Ok (Step loc root sel_ [] ch) | Err m => Err m end]
                                  end) (services c ++ ["__bramble"])).
End Extract.

(* ================= execution_result.go:15-182 : merging step results ================= *)
Definition str_key (k : string) (m : list (string * raw)) : option string :=
  match lookup k m with Some (RStr s) => Some s | _ => None end.

Fixpoint merge_maps (fuel : nat) (dst src : list (string * raw)) : res (list (string * raw)) :=   (* executable_schema.go:663 *)
  match fuel with O => Err "fuel" | S fuel =>
  let step1 := fold_left (fun acc kv =>
                 match acc with Err m => Err m | Ok d =>
                   match lookup (fst kv) src with
                   | None => Ok (d ++ [kv])
                   | Some sv => match snd kv, sv with
                                | RMap a, RMap b => match merge_maps fuel a b with Ok r => Ok (d ++ [(fst kv, RMap r)]) | Err m => Err m end
                                | _, _ => Err "PANIC mergeMaps: value is not a map"
                                end
                   end end) dst (Ok []) in
  match step1 with
  | Err m => Err m
  | Ok d => Ok (d ++ filter (fun kv => match lookup (fst kv) dst with Some _ => false | None => true end) src)
  end end.

(* [f] must be a parameter OUTSIDE the fix (as in List.map) for the guard checker to see through nested recursion *)
Definition all_res {A B} (f : A -> res B) : list A -> res (list B) :=
  fix go (l : list A) : res (list B) :=
    match l with [] => Ok [] | x :: t => match f x with Err m => Err m | Ok y => match go t with Ok r => Ok (y :: r) | Err m => Err m end end end.

Definition boundary_apply (m : list (string * raw)) (items : list raw) : res (list (string * raw)) :=
  match str_key "_bramble__typename" m with
  | None => Err "boundaryTypeFromMap: _bramble__typename not found"
  | Some dt =>
    fold_left (fun acc it =>
      match acc with Err e => Err e | Ok m =>
        match it with
        | RNil => Ok m
        | RMap r =>
          match str_key "_bramble__typename" r with
          | None => Err "boundaryTypeFromMap: _bramble__typename not found"
          | Some st => if negb (String.eqb st dt) then Ok m else
              match str_key "_bramble_id" m, str_key "_bramble_id" r with
              | Some di, Some si => if String.eqb di si
                                    then Ok (fold_left (fun m kv => if String.eqb (fst kv) "_bramble_id" then m else set_key (fst kv) (snd kv) m) r m)
                                    else Ok m
              | _, _ => Err "boundaryIDFromMap: _bramble_id not found"
              end
          end
        | _ => Err "getBoundaryFieldResults: expected a map"
        end end) items (Ok m)
  end.

Fixpoint merge_rec (src : raw) (dst : raw) (ip : list string) {struct dst} : res raw :=
  match ip with
  | [] =>
    match dst with
    | RNil => Ok RNil
    | RMap m => match src with
                | RMap sm => match merge_maps 50 m sm with Ok r => Ok (RMap r) | Err e => Err e end
                | RArr items => match boundary_apply m items with Ok r => Ok (RMap r) | Err e => Err e end
                | _ => Ok dst
                end
    | RArr l => match all_res (fun e => merge_rec src e []) l with Ok r => Ok (RArr r) | Err e => Err e end
    | _ => Err "unexpected type for top-level merge"
    end
  | k :: rest =>
    match dst with
    | RMap m =>
      match (fix go (m : list (string * raw)) : res (list (string * raw)) :=
         match m with
         | [] => Ok []
         | (k', v) :: t =>
           if String.eqb k k' then
             match (match v with
                    | RArr l => match all_res (fun e => merge_rec src e rest) l with Ok r => Ok (RArr r) | Err e => Err e end
                    | _ => merge_rec src v rest
                    end) with
             | Ok v' => Ok ((k', v') :: t)
             | Err e => Err e
             end
           else match go t with Ok r => Ok ((k', v) :: r) | Err e => Err e end
         end) m with Ok m' => Ok (RMap m') | Err e => Err e end
    | RArr l => match all_res (fun e => merge_rec src e ip) l with Ok r => Ok (RArr r) | Err e => Err e end
    | RNil => Ok RNil
    | _ => Err "unexpected type for non top-level merge"
    end
  end.

Record exres := { er_ip : list string; er_data : raw; er_failed : bool }.
Definition merge_results (rs : list exres) : res raw :=
  match rs with
  | [] => Err "mergeExecutionResults: nothing to merge"
  | [r] => Ok (er_data r)
  | r0 :: rest =>
    let base := match er_data r0 with RNil => RMap [] | d => d end in
    fold_left (fun acc r => match acc with Err e => Err e | Ok d => merge_rec (er_data r) d (er_ip r) end) rest (Ok base)
  end.

(* ================= execution.go:416-483, 362-378 ================= *)
Fixpoint extract_ids (fuel : nat) (d : raw) (ip : list string) (parent : string) : res (list string) :=
  match fuel with O => Err "fuel" | S fuel =>
  match d with
  | RNil => Ok []
  | _ =>
    match ip with
    | [] => match d with
            | RMap m => match str_key "_bramble__typename" m with
                        | None => Err "boundaryTypeFromMap: _bramble__typename not found"
                        | Some t => if negb (String.eqb t parent) then Ok [] else
                                    match str_key "_bramble_id" m with Some i => Ok [i] | None => Err "boundaryIDFromMap: _bramble_id not found" end
                        end
            | RArr l => match all_res (fun e => extract_ids fuel e [] parent) l with Ok r => Ok (List.concat r) | Err e => Err e end
            | _ => Err "extractBoundaryIDs: unexpected type"
            end
    | k :: rest => match d with
                   | RMap m => extract_ids fuel (match lookup k m with Some v => v | None => RNil end) rest parent
                   | RArr l => match all_res (fun e => extract_ids fuel e ip parent) l with Ok r => Ok (List.concat r) | Err e => Err e end
                   | _ => Err "extractBoundaryIDs: unexpected type"
                   end
    end
  end end.
Fixpoint dedupe_ids (l : list string) : list string :=
  match l with [] => [] | x :: t => if existsb (String.eqb x) t then dedupe_ids t else x :: dedupe_ids t end.

Definition trim_ip (data : list raw) (ip : list string) : res (list string) :=
  match data with
  | RMap first :: _ =>
      (fix go (ip : list string) : res (list string) :=
         match ip with
         | [] => Err "could not find any insertion points inside boundary data"
         | p :: rest => match lookup p first with Some _ => Ok ip | None => go rest end
         end) ip
  | [] => Err "no boundary results to process"
  | _ => Err "a single boundary result should be a map"
  end.

(* a service: given the step it is asked (and ids for a lookup) it answers data, or fails *)
Inductive reply := RData (d : raw) | RFail.
Definition service := step -> list string -> reply.

(* sequential skeleton of Execute/executeRootStep/executeChildStep in depth-first (a causal) order *)
Fixpoint exec_child (fuel : nat) (svc : string -> service) (st : step) (ids : list string) : res (list exres) :=
  match fuel with O => Err "fuel" | S fuel =>
  match st with Step url parent ss ip thn =>
    match svc url st ids with
    | RFail => Ok [{| er_ip := ip; er_data := RNil; er_failed := true |}]
    | RData d =>
      let me := {| er_ip := ip; er_data := d; er_failed := false |} in
      let nonnil := match d with RArr l => filter (fun x => match x with RNil => false | _ => true end) l | _ => [] end in
      match nonnil with
      | [] => Ok [me]
      | _ =>
        match all_res (fun ch => match ch with Step _ cparent _ cip _ =>
                         match trim_ip nonnil cip with
                         | Err e => Err e
                         | Ok ip' => match extract_ids 50 (RArr nonnil) ip' cparent with
                                     | Err e => Err e
                                     | Ok ids' => match dedupe_ids ids' with [] => Ok [] | ids'' => exec_child fuel svc ch ids'' end
                                     end
                         end end) thn with
        | Err e => Err e
        | Ok rs => Ok (me :: List.concat rs)
        end
      end
    end
  end end.

Definition exec_root (svc : string -> service) (st : step) : res (list exres) :=
  match st with Step url parent ss ip thn =>
    match svc url st [] with
    | RFail => Ok [{| er_ip := ip; er_data := RNil; er_failed := true |}]
    | RData d =>
      match all_res (fun ch => match ch with Step _ cparent _ cip _ =>
                       match extract_ids 50 d cip cparent with
                       | Err e => Err e
                       | Ok ids => match dedupe_ids ids with [] => Ok [] | ids' => exec_child 20 svc ch ids' end
                       end end) thn with
      | Err e => Err e
      | Ok rs => Ok ({| er_ip := ip; er_data := d; er_failed := false |} :: List.concat rs)
      end
    end
  end.

Definition gateway (pc : pctx) (sc : sctx) (svc : string -> service) (root : string) (ss : list sel)
  : res (option json * nat * option string) :=
  match plan pc root ss with
  | Err e => Err e
  | Ok steps =>
    match all_res (exec_root svc) steps with
    | Err e => Err e
    | Ok rss => match merge_results (List.concat rss) with
                | Err e => Err e
                | Ok merged => Ok (shape sc ss merged)
                end
    end
  end.

(* ================= the two end-to-end witnesses ================= *)
Definition Sx := TNamed "String" false.
(* #7: interface Animal (A) with Cat, Dog both extended by B *)
Definition pc7 := {| locations := [("Query.animals","A"); ("Animal.name","A"); ("Cat.name","A"); ("Dog.name","A"); ("Cat.lives","B"); ("Dog.bark","B")];
                     is_boundary := [("Cat",true); ("Dog",true)]; abstract_impls := [("Animal", ["Cat"; "Dog"])];
                     known_types := ["Query";"Animal";"Cat";"Dog"]; services := ["A";"B"] |}.
Definition sc7 := {| abstract := ["Animal"]; implements := [("Cat", ["Animal"]); ("Dog", ["Animal"])] |}.
Definition q7 := [SField "animals" "animals" (TList (TNamed "Animal" false) false)
                   (Some [SField "name" "name" Sx None;
                          SInline "Cat" "Animal" [SField "lives" "lives" (TNamed "Int" false) None];
                          SInline "Dog" "Animal" [SField "bark" "bark" Sx None]])].
Definition svc7 (url : string) : service := fun st ids =>
  if String.eqb url "A" then
    RData (RMap [("animals", RArr [RMap [("name", RStr "c"); ("_bramble_id", RStr "1"); ("_bramble__typename", RStr "Cat")];
                                   RMap [("name", RStr "d"); ("_bramble_id", RStr "2"); ("_bramble__typename", RStr "Dog")]])])
  else match st with Step _ parent _ _ _ =>
         if String.eqb parent "Cat" then RData (RArr [RMap [("_bramble_id", RStr "1"); ("_bramble__typename", RStr "Cat"); ("lives", RNum "9")]])
         else RData (RArr [RMap [("_bramble_id", RStr "2"); ("_bramble__typename", RStr "Dog"); ("bark", RStr "w")]]) end.
Example e2e_7 : gateway pc7 sc7 svc7 "Query" q7
  = Ok (Some (JObj [("animals", JArr [JObj [("name", JStr "c"); ("lives", JNum "9")]; JObj [("name", JStr "d"); ("bark", JNull)]])]), 0, None).
Proof. vm_compute. reflexivity. Qed.

(* #8: { foo { foo { name } } } with Foo.foo owned by B, Foo.name by A *)
Definition pc8 := {| locations := [("Query.foo","A"); ("Foo.name","A"); ("Foo.foo","B")]; is_boundary := [("Foo",true)];
                     abstract_impls := []; known_types := ["Query";"Foo"]; services := ["A";"B"] |}.
Definition sc8 := {| abstract := []; implements := [] |}.
Definition Foo := TNamed "Foo" false.
Definition q8 (inner_alias : string) :=
  [SField "foo" "foo" Foo (Some [SField inner_alias "foo" Foo (Some [SField "name" "name" Sx None])])].
Definition svc8 (inner_alias : string) (url : string) : service := fun st ids =>
  match st with Step _ parent _ ip _ =>
    if String.eqb url "A" then
      match ip with
      | [] => RData (RMap [("foo", RMap [("_bramble_id", RStr "1"); ("_bramble__typename", RStr "Foo")])])
      | _ => RData (RArr [RMap [("_bramble_id", RStr "2"); ("_bramble__typename", RStr "Foo"); ("name", RStr "two")]])
      end
    else RData (RArr [RMap [("_bramble_id", RStr "1"); ("_bramble__typename", RStr "Foo");
                            (inner_alias, RMap [("_bramble_id", RStr "2"); ("_bramble__typename", RStr "Foo")])]])
  end.
(* observed on the real code: name silently null *)
Example e2e_8 : gateway pc8 sc8 (svc8 "foo") "Query" (q8 "foo")
  = Ok (Some (JObj [("foo", JObj [("foo", JObj [("name", JNull)])])]), 0, None).
Proof. vm_compute. reflexivity. Qed.
(* and the model's prediction for the aliased query, which a monolith would answer identically in shape *)
Example e2e_8_aliased : gateway pc8 sc8 (svc8 "bar") "Query" (q8 "bar")
  = Ok (Some (JObj [("foo", JObj [("bar", JObj [("name", JStr "two")])])]), 0, None).
Proof. vm_compute. reflexivity. Qed.
