From Coq Require Import List Arith Bool Lia.
Import ListNotations.

(* ---- plan skeleton: a step has an id and children; the oracle says whether its request succeeds
        and (abstracting data) which children find ids to look up ---- *)
Inductive stp := St (id : nat) (children : list stp).
Record oracle := { succeeds : nat -> bool; has_ids : nat -> bool }.

(* program points of one step goroutine (execution.go:100-146 / 161-213) *)
Inductive gphase :=
| GStart (child : bool)      (* child steps first bump the counter and check the limit *)
| GRequest                   (* downstream call in flight *)
| GSend (ok : bool)          (* blocked on q.results <- result (unbuffered) *)
| GSpawn (ok : bool).        (* after the send: spawn children whose ids exist, then return *)
Record gor := { g_step : stp; g_phase : gphase }.

Inductive collector := CNotStarted | CRunning | CDone.
Inductive mainpc := MSpawnRoots (rest : list stp) | MStartCollector | MWait | MClose | MJoin | MReturned (ok : bool).

Record state := { gs : list gor; coll : collector; main : mainpc;
                  count : nat; group_err : bool; results : list nat; sent : nat (* lookup rounds sent *) }.

(* [fixed] selects the repaired error path (close + join) vs the code as it is at d802d19 *)
Section Sem.
  Variable fixed : bool.
  Variable max : nat.
  Variable o : oracle.

  Inductive label := LMain | LGor (i : nat).

  Definition sid (s : stp) := match s with St i _ => i end.
  Definition kids (s : stp) := match s with St _ c => c end.

  Fixpoint replace_nth {A} (n : nat) (l : list A) (x : list A) : list A :=
    match n, l with
    | _, [] => []
    | 0, _ :: t => x ++ t
    | S k, h :: t => h :: replace_nth k t x
    end.

  Definition fire_main (st : state) : option state :=
    match main st with
    | MSpawnRoots [] => Some {| gs := gs st; coll := coll st; main := MStartCollector; count := count st;
                                group_err := group_err st; results := results st; sent := sent st |}
    | MSpawnRoots (r :: rest) =>
        Some {| gs := gs st ++ [{| g_step := r; g_phase := GStart false |}]; coll := coll st; main := MSpawnRoots rest;
                count := count st; group_err := group_err st; results := results st; sent := sent st |}
    | MStartCollector => Some {| gs := gs st; coll := CRunning; main := MWait; count := count st;
                                 group_err := group_err st; results := results st; sent := sent st |}
    | MWait => (* group.Wait(): enabled only when every step goroutine has returned *)
        match gs st with
        | [] => if group_err st
                then if fixed
                     then Some {| gs := []; coll := coll st; main := MClose; count := count st; group_err := true;
                                  results := results st; sent := sent st |}
                     else Some {| gs := []; coll := coll st; main := MReturned false; count := count st; group_err := true;
                                  results := results st; sent := sent st |}
                else Some {| gs := []; coll := coll st; main := MClose; count := count st; group_err := false;
                             results := results st; sent := sent st |}
        | _ => None
        end
    | MClose => Some {| gs := gs st; coll := CDone; main := MJoin; count := count st; group_err := group_err st;
                        results := results st; sent := sent st |}
    | MJoin => match coll st with
               | CDone => Some {| gs := gs st; coll := CDone; main := MReturned (negb (group_err st)); count := count st;
                                  group_err := group_err st; results := results st; sent := sent st |}
               | _ => None
               end
    | MReturned _ => None
    end.

  Definition fire_gor (st : state) (i : nat) : option state :=
    match nth_error (gs st) i with
    | None => None
    | Some g =>
      let upd (new : list gor) (cnt : nat) (err : bool) (res : list nat) (snt : nat) :=
          Some {| gs := replace_nth i (gs st) new; coll := coll st; main := main st; count := cnt;
                  group_err := err; results := res; sent := snt |} in
      match g_phase g with
      | GStart false => upd [{| g_step := g_step g; g_phase := GRequest |}] (count st) (group_err st) (results st) (sent st)
      | GStart true =>
          if Nat.ltb max (S (count st))
          then upd [] (S (count st)) true (results st) (sent st)                     (* return error: errgroup records it *)
          else upd [{| g_step := g_step g; g_phase := GRequest |}] (S (count st)) (group_err st) (results st) (S (sent st))
      | GRequest => (* a cancelled context makes the call fail; otherwise the oracle decides *)
          let ok := negb (group_err st) && succeeds o (sid (g_step g)) in
          upd [{| g_step := g_step g; g_phase := GSend ok |}] (count st) (group_err st) (results st) (sent st)
      | GSend ok => match coll st with
                    | CRunning => upd [{| g_step := g_step g; g_phase := GSpawn ok |}] (count st) (group_err st)
                                      (results st ++ [sid (g_step g)]) (sent st)
                    | _ => None       (* nobody receives: blocked *)
                    end
      | GSpawn ok =>
          let ch := if ok then filter (fun c => has_ids o (sid c)) (kids (g_step g)) else [] in
          upd (map (fun c => {| g_step := c; g_phase := GStart true |}) ch) (count st) (group_err st) (results st) (sent st)
      end
    end.

  Definition fire (st : state) (l : label) : option state :=
    match l with LMain => fire_main st | LGor i => fire_gor st i end.

  Fixpoint run (ls : list label) (st : state) : option state :=
    match ls with [] => Some st | l :: t => match fire st l with Some st' => run t st' | None => None end end.

  Definition init (roots : list stp) : state :=
    {| gs := []; coll := CNotStarted; main := MSpawnRoots roots; count := 0; group_err := false; results := []; sent := 0 |}.

  Definition enabled_any (st : state) : bool :=
    match fire_main st with Some _ => true | None =>
      existsb (fun i => match fire_gor st i with Some _ => true | None => false end) (seq 0 (length (gs st))) end.

  (* "everything released": main returned, no step goroutine alive, collector exited *)
  Definition released (st : state) : bool :=
    match main st, gs st, coll st with MReturned _, [], CDone => true | _, _, _ => false end.
End Sem.

(* ---- refutation on the code as it is: limit 0, one root with one child ---- *)
Definition o1 := {| succeeds := fun _ => true; has_ids := fun _ => true |}.
Definition plan1 := [St 0 [St 1 []]].
Definition sched1 := [LMain; LMain; LMain; LGor 0; LGor 0; LGor 0; LGor 0; LGor 0; LMain].
Eval vm_compute in option_map (fun st => (main st, coll st, gs st, enabled_any false 0 o1 st, released st)) (run false 0 o1 sched1 (init plan1)).
Eval vm_compute in option_map (fun st => (main st, coll st, gs st, enabled_any true 0 o1 st, released st))
                  (run true 0 o1 (sched1 ++ [LMain; LMain]) (init plan1)).

Theorem C13_released_refuted :
  exists max o roots ls st, run false max o ls (init roots) = Some st /\ enabled_any false max o st = false /\ released st = false.
Proof. exists 0, o1, plan1, sched1. eexists. split; [vm_compute; reflexivity|]. split; vm_compute; reflexivity. Qed.

(* ---- on the repaired error path: every terminal reachable state has released everything ---- *)
Definition inv (st : state) : Prop :=
  (* the collector is running exactly between StartCollector and Close; no goroutine is alive once main passed Wait *)
  match main st with
  | MSpawnRoots _ | MStartCollector => coll st = CNotStarted
  | MWait => coll st = CRunning
  | MClose => coll st = CRunning /\ gs st = []
  | MJoin => coll st = CDone /\ gs st = []
  | MReturned _ => coll st = CDone /\ gs st = []
  end.

Lemma replace_nth_nil {A} i (l : list A) x : l = [] -> replace_nth i l x = [].
Proof. intros ->. destruct i; reflexivity. Qed.

Lemma fire_inv max o st l st' : inv st -> fire true max o st l = Some st' -> inv st'.
Proof.
  unfold inv. intros Hinv Hf. destruct l as [|i]; simpl in Hf.
  - unfold fire_main in Hf. destruct (main st) as [[|r rest]| | | | |b] eqn:Em; simpl in *.
    + inversion Hf; subst; simpl; auto.
    + inversion Hf; subst; simpl; auto.
    + inversion Hf; subst; simpl; auto.
    + destruct (gs st) eqn:Eg; [|discriminate]. destruct (group_err st); inversion Hf; subst; simpl; auto.
    + inversion Hf; subst; simpl. tauto.
    + destruct Hinv as [Hc Hg]. rewrite Hc in Hf. inversion Hf; subst; simpl; auto.
    + discriminate.
  - unfold fire_gor in Hf. destruct (nth_error (gs st) i) as [g|] eqn:En; [|discriminate].
    assert (Hne : gs st <> []) by (intro E; rewrite E in En; destruct i; discriminate).
    assert (Hmain : forall new cnt err res snt,
              inv {| gs := replace_nth i (gs st) new; coll := coll st; main := main st; count := cnt;
                     group_err := err; results := res; sent := snt |}).
    { intros. unfold inv; simpl. destruct (main st); auto; destruct Hinv as [? Hg]; contradiction. }
    destruct (g_phase g) as [[|]| |ok|ok]; simpl in Hf.
    + destruct (Nat.ltb _ _); inversion Hf; subst; apply Hmain.
    + inversion Hf; subst; apply Hmain.
    + inversion Hf; subst; apply Hmain.
    + destruct (coll st); inversion Hf; subst; apply Hmain.
    + inversion Hf; subst; apply Hmain.
Qed.

Lemma init_inv roots : inv (init roots).
Proof. reflexivity. Qed.

Lemma run_inv max o ls : forall st st', inv st -> run true max o ls st = Some st' -> inv st'.
Proof.
  induction ls as [|l t IH]; simpl; intros st st' Hi Hr.
  - inversion Hr; subst; auto.
  - destruct (fire true max o st l) as [st1|] eqn:Ef; [|discriminate]. eapply IH; [eapply fire_inv; eauto|eauto].
Qed.

(* a goroutine that is not blocked on the channel can always move; one blocked on the channel can move iff the collector runs *)
Lemma gor_enabled max o st i g :
  nth_error (gs st) i = Some g -> coll st = CRunning -> exists st', fire_gor max o st i = Some st'.
Proof.
  intros En Hc. unfold fire_gor. rewrite En. destruct (g_phase g) as [[|]| |ok|ok]; simpl; rewrite ?Hc; eauto.
  destruct (Nat.ltb _ _); eauto.
Qed.

Theorem C13_released_fixed max o roots ls st :
  run true max o ls (init roots) = Some st -> enabled_any true max o st = false -> released st = true.
Proof.
  intros Hr Hen. pose proof (run_inv _ _ _ _ _ (init_inv roots) Hr) as Hi.
  unfold enabled_any in Hen. destruct (fire_main true st) as [?|] eqn:Em; [discriminate|].
  assert (Hall : forall i, i < length (gs st) -> fire_gor max o st i = None).
  { intros i Hlt. destruct (fire_gor max o st i) eqn:E'; auto. exfalso.
    enough (existsb (fun i => match fire_gor max o st i with Some _ => true | None => false end)
                    (seq 0 (length (gs st))) = true) by congruence.
    apply existsb_exists. exists i. split; [apply in_seq; lia | rewrite E'; reflexivity]. }
  clear Hen. unfold inv in Hi. unfold released. unfold fire_main in Em.
  destruct (main st) as [[|r rest]| | | | |b] eqn:E; try discriminate.
  - (* MWait with live goroutines: one of them is enabled, contradiction *)
    destruct (gs st) as [|g t] eqn:Eg; [destruct (group_err st); discriminate|].
    exfalso. destruct (gor_enabled max o st 0 g) as [st' Hst']; [rewrite Eg; reflexivity|exact Hi|].
    rewrite Hall in Hst'; [discriminate|simpl; lia].
  - destruct Hi as [Hc Hg]. rewrite Hc in Em. discriminate.
  - destruct Hi as [Hc Hg]. rewrite Hc, Hg. reflexivity.
Qed.
Print Assumptions C13_released_fixed.
Print Assumptions C13_released_refuted.
