(* Faithful model of execution_result.go:187-391 (null pass, response writer) and execution.go:529-663
   (unionAndTrimSelectionSet, selectionSetMerger) AS THEY ARE at d802d19, validated against outputs observed
   on the real code.  Scratch spike, design round. *)
From Coq Require Import List String Ascii Bool Arith.
Import ListNotations.
Open Scope string_scope. Open Scope list_scope.

Inductive ty := TNamed (n : string) (nn : bool) | TList (t : ty) (nn : bool).
Definition ty_nn (t : ty) := match t with TNamed _ b => b | TList _ b => b end.
Definition ty_elem (t : ty) : option ty := match t with TList e _ => Some e | _ => None end.

Inductive sel :=
| SField (alias name : string) (fty : ty) (ss : option (list sel))
| SInline (tc encl : string) (ss : list sel)
| SSpread (fname tc encl : string) (ss : list sel).

Inductive raw := RNil | RBool (b : bool) | RNum (lx : string) | RStr (s : string)
               | RArr (l : list raw) | RMap (m : list (string * raw)).
Inductive json := JNull | JBool (b : bool) | JNum (lx : string) | JStr (s : string)
                | JArr (l : list json) | JObj (kvs : list (string * json)) | JBroken.   (* JBroken: writer emitted nothing *)

Fixpoint lookup {A} (k : string) (l : list (string * A)) : option A :=
  match l with [] => None | (k', v) :: t => if String.eqb k k' then Some v else lookup k t end.
Fixpoint set_key {A} (k : string) (v : A) (l : list (string * A)) : list (string * A) :=
  match l with [] => [(k, v)] | (k', v') :: t => if String.eqb k k' then (k', v) :: t else (k', v') :: set_key k v t end.

Record sctx := { abstract : list string; implements : list (string * list string) }.
Definition is_abstract (c : sctx) (t : string) := existsb (String.eqb t) (abstract c).
Definition impl (c : sctx) (t a : string) :=
  match lookup t (implements c) with Some l => existsb (String.eqb a) l | None => false end.

(* execution.go:563 includeFragment *)
Definition include_fragment (c : sctx) (typename encl tc : string) : bool :=
  negb (is_abstract c encl && impl c tc encl && negb (String.eqb tc typename)).

(* ---- selectionSetMerger ---- seen: alias -> (name, has_selection_set) *)
Definition seen_t := list (string * (string * bool)).

(* append [extra] to the selection set of the first field aliased [a], at top level or inside a top-level fragment *)
Fixpoint append_children (a : string) (extra : list sel) (out : list sel) : list sel * bool :=
  match out with
  | [] => ([], false)
  | SField al n t (Some ss) :: rest =>
      if String.eqb al a then (SField al n t (Some (ss ++ extra)) :: rest, true)
      else let (r, ok) := append_children a extra rest in (SField al n t (Some ss) :: r, ok)
  | SField al n t None :: rest =>
      if String.eqb al a then (SField al n t None :: rest, true)
      else let (r, ok) := append_children a extra rest in (SField al n t None :: r, ok)
  | SInline tc e ss :: rest =>
      let inner := (fix go (l : list sel) : list sel * bool :=
                      match l with
                      | SField al n t (Some s0) :: r' =>
                          if String.eqb al a then (SField al n t (Some (s0 ++ extra)) :: r', true)
                          else let (r2, ok) := go r' in (SField al n t (Some s0) :: r2, ok)
                      | x :: r' => let (r2, ok) := go r' in (x :: r2, ok)
                      | [] => ([], false)
                      end) ss in
      if snd inner then (SInline tc e (fst inner) :: rest, true)
      else let (r, ok) := append_children a extra rest in (SInline tc e ss :: r, ok)
  | SSpread f tc e ss :: rest =>
      let inner := (fix go (l : list sel) : list sel * bool :=
                      match l with
                      | SField al n t (Some s0) :: r' =>
                          if String.eqb al a then (SField al n t (Some (s0 ++ extra)) :: r', true)
                          else let (r2, ok) := go r' in (SField al n t (Some s0) :: r2, ok)
                      | x :: r' => let (r2, ok) := go r' in (x :: r2, ok)
                      | [] => ([], false)
                      end) ss in
      if snd inner then (SSpread f tc e (fst inner) :: rest, true)
      else let (r, ok) := append_children a extra rest in (SSpread f tc e ss :: r, ok)
  end.

(* shouldAppendField: returns (append?, seen', out') *)
Definition should_append (al n : string) (oss : option (list sel)) (seen : seen_t) (out : list sel) : bool * seen_t * list sel :=
  match lookup al seen with
  | Some (n0, has0) =>
      match oss with
      | Some extra => if String.eqb n0 n && has0 then (false, seen, fst (append_children al extra out)) else (false, seen, out)
      | None => (false, seen, out)
      end
  | None => (true, (al, (n, match oss with Some _ => true | None => false end)) :: seen, out)
  end.

(* dedupeFragmentSelectionSet *)
Fixpoint dedupe (ss : list sel) (seen : seen_t) (out : list sel) : list sel * seen_t * list sel :=
  match ss with
  | [] => ([], seen, out)
  | SField al n t oss :: rest =>
      let '(app, seen1, out1) := should_append al n oss seen out in
      let '(r, seen2, out2) := dedupe rest seen1 out1 in
      (if app then SField al n t oss :: r else r, seen2, out2)
  | x :: rest => let '(r, seen2, out2) := dedupe rest seen out in (x :: r, seen2, out2)
  end.

(* unionAndTrimSelectionSet: returns the view to walk AND the original list as rewritten in place
   (a fragment that survives with a non-empty de-duplicated list has that list assigned back into it) *)
Fixpoint union_trim_go (c : sctx) (typename : string) (ss : list sel) (seen : seen_t) (out : list sel)
  : list sel (* view *) * list sel (* rewritten original *) :=
  match ss with
  | [] => (out, [])
  | SField al n t oss :: rest =>
      let '(app, seen1, out1) := should_append al n oss seen out in
      let '(v, o) := union_trim_go c typename rest seen1 (if app then out1 ++ [SField al n t oss] else out1) in
      (v, SField al n t oss :: o)
  | SInline tc e fs :: rest =>
      if include_fragment c typename e tc then
        let '(d, seen1, out1) := dedupe fs seen out in
        match d with
        | [] => let '(v, o) := union_trim_go c typename rest seen1 out1 in (v, SInline tc e fs :: o)
        | _ => let '(v, o) := union_trim_go c typename rest seen1 (out1 ++ [SInline tc e d]) in (v, SInline tc e d :: o)
        end
      else let '(v, o) := union_trim_go c typename rest seen out in (v, SInline tc e fs :: o)
  | SSpread f tc e fs :: rest =>
      if include_fragment c typename e tc then
        let '(d, seen1, out1) := dedupe fs seen out in
        match d with
        | [] => let '(v, o) := union_trim_go c typename rest seen1 out1 in (v, SSpread f tc e fs :: o)
        | _ => let '(v, o) := union_trim_go c typename rest seen1 (out1 ++ [SSpread f tc e d]) in (v, SSpread f tc e d :: o)
        end
      else let '(v, o) := union_trim_go c typename rest seen out in (v, SSpread f tc e fs :: o)
  end.
Definition union_trim c typename ss := union_trim_go c typename ss [] [].

Definition typename_of (m : list (string * raw)) : string :=
  match lookup "_bramble__typename" m with Some (RStr s) => s | _ => "" end.

Inductive pe := PName (s : string) | PIdx (n : nat).
Record berr := { be_alias : string; be_path : list pe }.
Inductive bres := BOk (v : raw) (ss : list sel) (errs : list berr) (up : bool) | BErr (msg : string).

Definition starts_uu (s : string) : bool :=
  match s with String a (String b _) => (Ascii.eqb a "_"%char && Ascii.eqb b "_"%char) | _ => false end.

(* write a rewritten child selection set back into the first view-equal field of the original list *)
Fixpoint write_back (al : string) (ss' : list sel) (orig : list sel) : list sel :=
  match orig with
  | [] => []
  | SField a n t (Some s0) :: r => if String.eqb a al then SField a n t (Some ss') :: r else SField a n t (Some s0) :: write_back al ss' r
  | x :: r => x :: write_back al ss' r
  end.

(* execution_result.go:198 bubbleUpNullValuesInPlaceRec *)
Fixpoint bubble (fuel : nat) (c : sctx) (cur : option ty) (ss : list sel) (v : raw) (path : list pe) {struct fuel} : bres :=
  match fuel with O => BErr "out of fuel" | S fuel =>
  match v with
  | RMap m =>
      let '(view, orig) := union_trim c (typename_of m) ss in
      (fix walk (view : list sel) (m : list (string * raw)) (orig : list sel) (errs : list berr) (up : bool) : bres :=
         match view with
         | [] => BOk (RMap m) orig errs up
         | SField al n t oss :: rest =>
             if starts_uu n then walk rest m orig errs up else
             match lookup al m with
             | None | Some RNil =>
                 if ty_nn t then BOk (RMap m) orig (errs ++ [{| be_alias := al; be_path := path ++ [PName al] |}]) true
                 else BOk (RMap m) orig errs up                                        (* line 221: return, not continue *)
             | Some child =>
                 match oss with
                 | None => walk rest m orig errs up
                 | Some css =>
                     match bubble fuel c (Some t) css child (path ++ [PName al]) with
                     | BErr e => BErr e
                     | BOk child' css' lerrs lup =>
                         let orig' := write_back al css' orig in
                         if lup then
                           if ty_nn t then walk rest (set_key al child' m) orig' (errs ++ lerrs) true
                           else walk rest (set_key al RNil m) orig' (errs ++ lerrs) up
                         else walk rest (set_key al child' m) orig' (errs ++ lerrs) up
                     end
                 end
             end
         | SInline tc e fs :: rest =>
             match bubble fuel c None fs (RMap m) path with
             | BErr e => BErr e
             | BOk (RMap m') _ lerrs lup => walk rest m' orig (errs ++ lerrs) lup      (* line 251: '=' not '||' *)
             | BOk _ _ lerrs lup => walk rest m orig (errs ++ lerrs) lup
             end
         | SSpread f tc e fs :: rest =>
             match bubble fuel c None fs (RMap m) path with
             | BErr e => BErr e
             | BOk (RMap m') _ lerrs lup => walk rest m' orig (errs ++ lerrs) lup      (* line 243 *)
             | BOk _ _ lerrs lup => walk rest m orig (errs ++ lerrs) lup
             end
         end) view m orig [] false
  | RArr l =>
      let elem_nn := match cur with Some t => match ty_elem t with Some e => ty_nn e | None => false end | None => false end in
      (fix each (l : list raw) (i : nat) (ss : list sel) (acc : list raw) (errs : list berr) (up : bool) : bres :=
         match l with
         | [] => BOk (RArr (rev acc)) ss errs up
         | x :: rest =>
             match bubble fuel c cur ss x (path ++ [PIdx i]) with                      (* same currentType: nested lists *)
             | BErr e => BErr e
             | BOk x' ss' lerrs lup =>
                 if lup then if elem_nn then each rest (S i) ss' (x' :: acc) (errs ++ lerrs) true
                             else each rest (S i) ss' (RNil :: acc) (errs ++ lerrs) up
                 else each rest (S i) ss' (x' :: acc) (errs ++ lerrs) up
             end
         end) l 0 ss [] [] false
  | RNil =>
      match cur with
      | Some t => match ty_elem t with
                  | Some e => if ty_nn e then BErr "unexpected result type <nil>" else BOk RNil ss [] false
                  | None => BErr "nil Elem dereference"
                  end
      | None => BErr "nil currentType dereference"
      end
  | _ => BErr "unexpected result type"
  end end.

(* execution_result.go:311 formatResponseDataRec; returns the members to splice when insideFragment *)
Inductive fres := FVal (j : json) | FMembers (kvs : list (string * json)).

Fixpoint raw_json (v : raw) : json :=
  match v with
  | RNil => JNull | RBool b => JBool b | RNum l => JNum l | RStr s => JStr s
  | RArr l => JArr (map raw_json l)
  | RMap m => JObj (map (fun kv => (fst kv, raw_json (snd kv))) m)      (* json.Marshal of the raw service object *)
  end.

Fixpoint respond (fuel : nat) (c : sctx) (ss : list sel) (v : raw) (inside : bool) {struct fuel} : fres * list sel :=
  match fuel with O => (FVal JBroken, ss) | S fuel =>
  match v with
  | RNil => (FVal JNull, ss)
  | RMap [] => (FVal JNull, ss)
  | RMap m =>
      let '(view, orig) := union_trim c (typename_of m) ss in
      let members :=
        (fix walk (view : list sel) : list (string * json) :=
           match view with
           | [] => []
           | SField al n t oss :: rest =>
               (al, match lookup al m with
                    | None => JNull
                    | Some child => match oss with
                                    | Some ((_ :: _) as css) => match fst (respond fuel c css child false) with FVal j => j | FMembers k => JObj k end
                                    | _ => raw_json child
                                    end
                    end) :: walk rest
           | SInline _ _ fs :: rest => match fst (respond fuel c fs (RMap m) true) with FMembers k => k ++ walk rest | FVal _ => walk rest end
           | SSpread _ _ _ fs :: rest => match fst (respond fuel c fs (RMap m) true) with FMembers k => k ++ walk rest | FVal _ => walk rest end
           end) view in
      (if inside then FMembers members else FVal (JObj members), orig)
  | RArr l =>
      let '(js, ss') := fold_left (fun '(acc, s) x => let '(r, s') := respond fuel c s x false in
                                                      (acc ++ [match r with FVal j => j | FMembers k => JObj k end], s')) l ([], ss) in
      (FVal (JArr js), ss')
  | _ => (FVal JBroken, ss)
  end end.

(* ExecuteQuery: null pass over the merged tree, then the writer over the SAME (rewritten) operation *)
Definition shape (c : sctx) (ss : list sel) (merged : raw) : option json * nat (* #null-propagation errors *) * option string :=
  match bubble 50 c None ss merged [] with
  | BErr e => (None, 0, Some e)
  | BOk v ss' errs up =>
      if up then (Some JNull, List.length errs, None)
      else (Some (match fst (respond 50 c ss' v false) with FVal j => j | FMembers k => JObj k end), List.length errs, None)
  end.

(* ======================= validation against outputs observed on the real code ======================= *)
Definition S_ := TNamed "String" false.  Definition Sn := TNamed "String" true.
Definition I_ := TNamed "Int" false.
Definition f (a : string) (t : ty) := SField a a t None.
Definition o (a : string) (t : ty) (ss : list sel) := SField a a t (Some ss).
Definition c0 := {| abstract := []; implements := [] |}.
Definition cA := {| abstract := ["Animal"]; implements := [("Cat", ["Animal"]); ("Dog", ["Animal"])] |}.
Definition cU := {| abstract := ["U"; "Named"]; implements := [("Cat", ["U"; "Named"]); ("Dog", ["U"])] |}.

(* #1  {obj{a b}} a nullable null, b: String! null  ->  {"obj":{"a":null,"b":null}} with no error *)
Example obs1 : shape c0 [o "obj" (TNamed "Obj" false) [f "a" S_; f "b" Sn]] (RMap [("obj", RMap [("a", RNil); ("b", RNil)])])
             = (Some (JObj [("obj", JObj [("a", JNull); ("b", JNull)])]), 0, None).
Proof. vm_compute. reflexivity. Qed.
(* #1' reversed order -> {"obj":null} with one error *)
Example obs1' : shape c0 [o "obj" (TNamed "Obj" false) [f "b" Sn; f "a" S_]] (RMap [("obj", RMap [("a", RNil); ("b", RNil)])])
             = (Some (JObj [("obj", JNull)]), 1, None).
Proof. vm_compute. reflexivity. Qed.

(* #23 { obj { a { x } ... on Obj { ok } } }, a: Inner!, x: String! null -> {"obj":{"a":{"x":null},"ok":"fine"}}, 1 error *)
Definition d23 := RMap [("obj", RMap [("a", RMap [("x", RNil)]); ("ok", RStr "fine")])].
Example obs23 : shape c0 [o "obj" (TNamed "Obj" false) [o "a" (TNamed "Inner" true) [f "x" Sn]; SInline "Obj" "Obj" [f "ok" S_]]] d23
             = (Some (JObj [("obj", JObj [("a", JObj [("x", JNull)]); ("ok", JStr "fine")])]), 1, None).
Proof. vm_compute. reflexivity. Qed.
Example obs23' : shape c0 [o "obj" (TNamed "Obj" false) [SInline "Obj" "Obj" [f "ok" S_]; o "a" (TNamed "Inner" true) [f "x" Sn]]] d23
             = (Some (JObj [("obj", JNull)]), 1, None).
Proof. vm_compute. reflexivity. Qed.

(* #24 nested lists *)
Definition grid (v : raw) := RMap [("obj", RMap [("grid", v)])].
Definition gv := RArr [RArr [RMap [("x", RStr "1")]; RMap [("x", RNil)]]; RArr [RMap [("x", RStr "2")]]].
Example obs24a : shape c0 [o "obj" (TNamed "Obj" false) [o "grid" (TList (TList (TNamed "Inner" true) false) false) [f "x" Sn]]] (grid gv)
  = (Some (JObj [("obj", JObj [("grid", JArr [JArr [JObj [("x", JStr "1")]; JNull]; JArr [JObj [("x", JStr "2")]]])])]), 1, None).
Proof. vm_compute. reflexivity. Qed.
Example obs24b : shape c0 [o "obj" (TNamed "Obj" false) [o "grid" (TList (TList (TNamed "Inner" false) true) false) [f "x" Sn]]] (grid gv)
  = (Some (JObj [("obj", JObj [("grid", JNull)])]), 1, None).
Proof. vm_compute. reflexivity. Qed.

(* #9  animals { ... on Cat { name } ... on Animal { name age } } over [Cat, Dog] -> [{"name":"c","age":1},{"age":2}] *)
Definition d9 := RMap [("animals", RArr [RMap [("name", RStr "c"); ("age", RNum "1"); ("_bramble__typename", RStr "Cat")];
                                          RMap [("name", RStr "d"); ("age", RNum "2"); ("_bramble__typename", RStr "Dog")]])].
Example obs9 : shape cA [o "animals" (TList (TNamed "Animal" false) false)
                           [SInline "Cat" "Animal" [f "name" S_]; SInline "Animal" "Animal" [f "name" S_; f "age" I_]]] d9
  = (Some (JObj [("animals", JArr [JObj [("name", JStr "c"); ("age", JNum "1")]; JObj [("age", JNum "2")]])]), 0, None).
Proof. vm_compute. reflexivity. Qed.
(* #8' the variant that happened to work: ... on Animal { name } *)
Example obs9' : shape cA [o "animals" (TList (TNamed "Animal" false) false)
                           [SInline "Cat" "Animal" [f "name" S_]; SInline "Animal" "Animal" [f "name" S_]]] d9
  = (Some (JObj [("animals", JArr [JObj [("name", JStr "c")]; JObj [("name", JStr "d")]])]), 0, None).
Proof. vm_compute. reflexivity. Qed.

(* #20 us { ... on Named { name } } over [Cat, Dog(not Named)] -> [{"name":"c"},{"name":null}] *)
Definition d20 := RMap [("us", RArr [RMap [("name", RStr "c"); ("_bramble__typename", RStr "Cat")]; RMap [("_bramble__typename", RStr "Dog")]])].
Example obs20 : shape cU [o "us" (TList (TNamed "U" false) false) [SInline "Named" "U" [f "name" S_]]] d20
  = (Some (JObj [("us", JArr [JObj [("name", JStr "c")]; JObj [("name", JNull)]])]), 0, None).
Proof. vm_compute. reflexivity. Qed.

(* #21 cat { name ... on Cat { ... on Cat { name lives } } } -> {"name":"c","name":"c","lives":9} *)
Definition d21 := RMap [("cat", RMap [("name", RStr "c"); ("lives", RNum "9")])].
Example obs21 : shape c0 [o "cat" (TNamed "Cat" false) [f "name" S_; SInline "Cat" "Cat" [SInline "Cat" "Cat" [f "name" S_; f "lives" I_]]]] d21
  = (Some (JObj [("cat", JObj [("name", JStr "c"); ("name", JStr "c"); ("lives", JNum "9")])]), 0, None).
Proof. vm_compute. reflexivity. Qed.
Example obs21' : shape c0 [o "cat" (TNamed "Cat" false) [f "name" S_; SInline "Cat" "Cat" [f "name" S_; f "lives" I_]]] d21
  = (Some (JObj [("cat", JObj [("name", JStr "c"); ("lives", JNum "9")])]), 0, None).
Proof. vm_compute. reflexivity. Qed.

(* #10 movie { } (everything skipped) on a boundary type -> raw service object with helper keys *)
Example obs10 : shape c0 [SField "movie" "movie" (TNamed "Movie" false) (Some [])]
                         (RMap [("movie", RMap [("_bramble__typename", RStr "Movie"); ("_bramble_id", RStr "1")])])
  = (Some (JObj [("movie", JObj [("_bramble__typename", JStr "Movie"); ("_bramble_id", JStr "1")])]), 0, None).
Proof. vm_compute. reflexivity. Qed.

(* #3 leaf with an empty non-nil selection set (permission form "title": []) -> hard error 'unexpected result type' *)
Example obs3 : shape c0 [o "movies" (TList (TNamed "Movie" true) false) [SField "title" "title" Sn (Some [])]]
                        (RMap [("movies", RArr [RMap [("title", RStr "T")]])])
  = (None, 0, Some "unexpected result type").
Proof. vm_compute. reflexivity. Qed.
