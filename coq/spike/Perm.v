From Coq Require Import List String Bool.
Import ListNotations.
Open Scope string_scope. Open Scope list_scope.

(* ---------- assoc-list maps ---------- *)
Fixpoint lookup {A} (k : string) (l : list (string * A)) : option A :=
  match l with [] => None | (k', v) :: t => if String.eqb k k' then Some v else lookup k t end.
Fixpoint upsert {A} (k : string) (f : option A -> A) (l : list (string * A)) : list (string * A) :=
  match l with
  | [] => [(k, f None)]
  | (k', v) :: t => if String.eqb k k' then (k', f (Some v)) :: t else (k', v) :: upsert k f t
  end.
Lemma lookup_upsert {A} k k' f (l : list (string * A)) :
  lookup k (upsert k' f l) = if String.eqb k k' then Some (f (lookup k' l)) else lookup k l.
Proof.
  induction l as [|[k0 v0] t IH]; simpl.
  - destruct (String.eqb k k'); reflexivity.
  - destruct (String.eqb k' k0) eqn:E0; simpl.
    + apply String.eqb_eq in E0; subst k0. destruct (String.eqb k k'); reflexivity.
    + rewrite IH. destruct (String.eqb k k') eqn:E1; [|reflexivity].
      apply String.eqb_eq in E1; subst. rewrite E0. reflexivity.
Qed.

(* ---------- auth.go:15 AllowedFields ---------- *)
Inductive af := AF (all : bool) (subs : list (string * af)).
Definition af_all (a : af) := match a with AF b _ => b end.
Definition af_subs (a : af) := match a with AF _ s => s end.

(* path membership, from docs/access-control.md: "*" allows everything below; a listed field is allowed
   and its own permissions govern what is below it *)
Fixpoint allows (a : af) (p : list string) {struct p} : bool :=
  match p with
  | [] => true
  | f :: p' => match a with AF all subs =>
                 if all then true else match lookup f subs with None => false | Some a' => allows a' p' end end
  end.

(* ---------- the three JSON forms ---------- *)
Inductive pj := PStr (s : string) | PArr (l : list pj) | PObj (kvs : list (string * pj)) | PNull | POther.

(* auth.go:67 MarshalJSON (key order of the list form is sorted in Go; irrelevant to [allows]) *)
Fixpoint marshal (a : af) : pj :=
  match a with
  | AF true _ => PStr "*"
  | AF false subs =>
    if forallb (fun kv => af_all (snd kv)) subs
    then PArr (map (fun kv => PStr (fst kv)) subs)
    else PObj (map (fun kv => (fst kv, marshal (snd kv))) subs)
  end.

Fixpoint all_strs (l : list pj) : option (list string) :=
  match l with
  | [] => Some []
  | PStr s :: t => option_map (cons s) (all_strs t)
  | _ => None
  end.

(* auth.go:84 UnmarshalJSON, decoding OVER an existing value [old] (that is what encoding/json does) *)
Fixpoint unmarshal (j : pj) (old : af) {struct j} : option af :=
  match j with
  | PStr s => if String.eqb s "*" then Some (AF true (af_subs old)) else None
  | PNull => Some (AF false (af_subs old))
  | PArr l => match all_strs l with
              | Some fs => Some (AF false (fold_left (fun m f => upsert f (fun _ => AF true []) m) fs (af_subs old)))
              | None => None
              end
  | PObj kvs =>
      (fix go (kvs : list (string * pj)) (m : list (string * af)) : option af :=
         match kvs with
         | [] => Some (AF false m)
         | (k, v) :: t => match unmarshal v (AF false []) with     (* map values are decoded into a fresh zero value *)
                          | Some a' => go t (upsert k (fun _ => a') m)
                          | None => None
                          end
         end) kvs (af_subs old)
  | POther => None
  end.

(* representation invariant of a Go map: keys are unique, recursively *)
Inductive wf : af -> Prop :=
| wf_af all subs : NoDup (map fst subs) -> Forall (fun kv => wf (snd kv)) subs -> wf (AF all subs).

(* nested induction principle *)
Section AfInd.
  Variable P : af -> Prop.
  Hypothesis H : forall all subs, Forall (fun kv => P (snd kv)) subs -> P (AF all subs).
  Fixpoint af_ind' (a : af) : P a :=
    match a with AF all subs =>
      H all subs ((fix go (l : list (string * af)) : Forall (fun kv => P (snd kv)) l :=
                     match l with [] => Forall_nil _ | kv :: t => Forall_cons _ (af_ind' (snd kv)) (go t) end) subs)
    end.
End AfInd.

(* ---- list form ---- *)
Lemma fold_upsert_lookup (fs : list string) : forall (m : list (string * af)) k,
  lookup k (fold_left (fun m f => upsert f (fun _ => AF true []) m) fs m) =
  if existsb (String.eqb k) fs then Some (AF true []) else lookup k m.
Proof.
  induction fs as [|f t IH]; simpl; intros m k; [reflexivity|].
  rewrite IH, lookup_upsert. destruct (existsb (String.eqb k) t); [destruct (String.eqb k f); reflexivity|].
  destruct (String.eqb k f); reflexivity.
Qed.

Lemma all_strs_map (subs : list (string * af)) : all_strs (map (fun kv => PStr (fst kv)) subs) = Some (map fst subs).
Proof. induction subs as [|[k v] t IH]; simpl; [reflexivity|]. rewrite IH. reflexivity. Qed.

Lemma lookup_in_keys {A} k (l : list (string * A)) : existsb (String.eqb k) (map fst l) = match lookup k l with Some _ => true | None => false end.
Proof. induction l as [|[k0 v] t IH]; simpl; [reflexivity|]. destruct (String.eqb k k0); simpl; auto. Qed.

(* ---- object form: the inner loop, characterised ---- *)
Lemma go_lookup (kvs : list (string * af)) :
  Forall (fun kv => exists a', unmarshal (marshal (snd kv)) (AF false []) = Some a' /\ forall p, allows a' p = allows (snd kv) p) kvs ->
  NoDup (map fst kvs) ->
  forall m, exists m',
    (fix go (kvs : list (string * pj)) (m : list (string * af)) : option af :=
       match kvs with
       | [] => Some (AF false m)
       | (k, v) :: t => match unmarshal v (AF false []) with Some a' => go t (upsert k (fun _ => a') m) | None => None end
       end) (map (fun kv => (fst kv, marshal (snd kv))) kvs) m = Some (AF false m') /\
    forall k, match lookup k kvs with
              | Some v => exists a', lookup k m' = Some a' /\ forall p, allows a' p = allows v p
              | None => lookup k m' = lookup k m
              end.
Proof.
  induction kvs as [|[k0 v0] t IH]; intros HF HN m; simpl.
  - exists m. split; [reflexivity|]. intros k; reflexivity.
  - inversion HF as [|? ? [a0 [Ha0 Hal0]] HF']; subst. inversion HN as [|? ? Hnin HN']; subst. simpl in *.
    rewrite Ha0. destruct (IH HF' HN' (upsert k0 (fun _ => a0) m)) as [m' [Hgo Hm']].
    exists m'. split; [exact Hgo|]. intros k. specialize (Hm' k).
    destruct (String.eqb k k0) eqn:E.
    + apply String.eqb_eq in E; subst k.
      assert (lookup k0 t = None) as Hn.
      { clear -Hnin. induction t as [|[k1 v1] t IH]; simpl; [reflexivity|]. simpl in Hnin.
        destruct (String.eqb k0 k1) eqn:E1; [apply String.eqb_eq in E1; subst; tauto|]. apply IH. tauto. }
      rewrite Hn in Hm'. rewrite Hm', lookup_upsert, String.eqb_refl. eauto.
    + destruct (lookup k t); [exact Hm'|]. rewrite Hm', lookup_upsert, E. reflexivity.
Qed.

Theorem C18_roundtrip a : wf a ->
  exists a', unmarshal (marshal a) (AF false []) = Some a' /\ forall p, allows a' p = allows a p.
Proof.
  induction a as [all subs IH] using af_ind'. intros Hwf. inversion Hwf as [? ? HN HW]; subst.
  destruct all.
  - simpl. eexists; split; [reflexivity|]. intros [|f p]; reflexivity.
  - cbn [marshal]. destruct (forallb (fun kv => af_all (snd kv)) subs) eqn:Eall; cbn [unmarshal af_subs].
    + (* list form *)
      rewrite all_strs_map. eexists; split; [reflexivity|]. intros [|f p]; [reflexivity|]. simpl.
      rewrite fold_upsert_lookup, lookup_in_keys. simpl.
      destruct (lookup f subs) as [v|] eqn:El; [|reflexivity].
      assert (af_all v = true) as Hv.
      { rewrite forallb_forall in Eall. clear -El Eall. induction subs as [|[k0 v0] t IHt]; simpl in *; [discriminate|].
        destruct (String.eqb f k0).
        - inversion El; subst. apply (Eall (k0, v)). left; reflexivity.
        - apply IHt; auto; intros x Hx; apply Eall; right; exact Hx. }
      destruct v as [allv sv]. simpl in Hv. subst allv. destruct p; reflexivity.
    + (* object form *)
      assert (HF : Forall (fun kv => exists a', unmarshal (marshal (snd kv)) (AF false []) = Some a' /\
                                                 forall p, allows a' p = allows (snd kv) p) subs).
      { clear -IH HW. induction subs as [|kv t IHt]; constructor; inversion IH; inversion HW; subst; auto. }
      destruct (go_lookup subs HF HN []) as [m' [Hgo Hm']]. simpl in Hgo. rewrite Hgo.
      eexists; split; [reflexivity|]. intros [|f p]; [reflexivity|]. simpl. specialize (Hm' f).
      destruct (lookup f subs) as [v|].
      * destruct Hm' as [a' [Hl Ha']]. rewrite Hl. apply Ha'.
      * rewrite Hm'. reflexivity.
Qed.

(* ---------- auth.go:327 MergeAllowedFields ---------- *)
Fixpoint merge2 (a b : af) {struct a} : af :=
  match a, b with
  | AF true _, _ => AF true []
  | _, AF true _ => AF true []
  | AF false sa, AF false sb =>
    AF false ((fix go (l : list (string * af)) (acc : list (string * af)) : list (string * af) :=
                 match l with
                 | [] => acc
                 | (k, v) :: t => go t (upsert k (fun o => match o with None => v | Some w => merge2 v w end) acc)
                 end) sa sb)
  end.
Definition merge_list (l : list af) : af := fold_left (fun acc a => merge2 a acc) l (AF false []).

Lemma allows_all subs p : allows (AF true subs) p = true.
Proof. destruct p; reflexivity. Qed.

Theorem merge2_allows a : forall b p, wf a -> allows (merge2 a b) p = allows a p || allows b p.
Proof.
  induction a as [alla sa IH] using af_ind'. intros [allb sb] p Hwf. inversion Hwf as [? ? HN HW]; subst.
  destruct alla; simpl; [rewrite !allows_all; reflexivity|].
  destruct allb; simpl; [rewrite !allows_all, orb_true_r; reflexivity|].
  destruct p as [|f p]; [reflexivity|]. simpl.
  (* characterise the inner loop by lookup *)
  assert (G : forall l acc, Forall (fun kv => forall b p, wf (snd kv) -> allows (merge2 (snd kv) b) p = allows (snd kv) p || allows b p) l ->
                            NoDup (map fst l) -> Forall (fun kv => wf (snd kv)) l ->
            match lookup f ((fix go (l : list (string * af)) (acc : list (string * af)) :=
                       match l with [] => acc
                       | (k, v) :: t => go t (upsert k (fun o => match o with None => v | Some w => merge2 v w end) acc) end) l acc) with
            | Some r => allows r p
            | None => false
            end = (match lookup f l with Some v => allows v p | None => false end) ||
                  (match lookup f acc with Some w => allows w p | None => false end)).
  { induction l as [|[k v] t IHl]; intros acc HF HNl HWl; simpl; [reflexivity|].
    inversion HF as [|? ? Hv HF']; inversion HNl as [|? ? Hnin HNl']; inversion HWl as [|? ? Hwv HWl']; subst; simpl in *.
    rewrite IHl by assumption. rewrite lookup_upsert.
    destruct (String.eqb f k) eqn:E.
    - apply String.eqb_eq in E; subst k.
      assert (lookup f t = None) as Hn.
      { clear -Hnin. induction t as [|[k1 v1] t IH]; simpl; [reflexivity|]. simpl in Hnin.
        destruct (String.eqb f k1) eqn:E1; [apply String.eqb_eq in E1; subst; tauto|]. apply IH. tauto. }
      rewrite Hn. simpl. destruct (lookup f acc) as [w|]; [apply Hv; exact Hwv | rewrite orb_false_r; reflexivity].
    - reflexivity. }
  rewrite G by assumption. reflexivity.
Qed.

Example witness_docs :
  let a := AF false [("movies", AF false [("title", AF false []); ("cast", AF false [("firstName", AF false [])])])] in
  (marshal a, unmarshal (marshal a) (AF false []), allows a ["movies";"cast";"firstName"], allows a ["movies";"cast";"lastName"])
  = (PObj [("movies", PObj [("title", PArr []); ("cast", PObj [("firstName", PArr [])])])],
     Some a, true, false).
Proof. vm_compute. reflexivity. Qed.

Print Assumptions C18_roundtrip.
Print Assumptions merge2_allows.
