Require Import Plan.
From Coq Require Import List String Bool.
Import ListNotations.
Open Scope string_scope. Open Scope list_scope.

(* nested induction principle for sel *)
Section SelInd.
  Variable P : sel -> Prop.
  Hypothesis Hleaf : forall a n t, P (SField a n t None).
  Hypothesis Hfield : forall a n t ss, Forall P ss -> P (SField a n t (Some ss)).
  Hypothesis Hinl : forall tc ss, Forall P ss -> P (SInline tc ss).
  Hypothesis Hspr : forall f tc ss, Forall P ss -> P (SSpread f tc ss).
  Fixpoint sel_ind' (s : sel) : P s :=
    let fix all (l : list sel) : Forall P l :=
        match l with [] => Forall_nil _ | x :: t => Forall_cons _ (sel_ind' x) (all t) end in
    match s with
    | SField a n t None => Hleaf a n t
    | SField a n t (Some ss) => Hfield a n t ss (all ss)
    | SInline tc ss => Hinl tc ss (all ss)
    | SSpread f tc ss => Hspr f tc ss (all ss)
    end.
End SelInd.

(* names of client-visible fields: all field names except those under the two helper aliases *)
Definition helper (a : string) : bool := String.eqb a "_bramble_id" || String.eqb a "_bramble__typename".
Fixpoint unames (s : sel) : list string :=
  match s with
  | SField a n _ oss => (if helper a then [] else [n]) ++ match oss with None => [] | Some ss => flat_map unames ss end
  | SInline _ ss => flat_map unames ss
  | SSpread _ _ ss => flat_map unames ss
  end.
Fixpoint snames (st : step) : list string :=
  match st with Step _ _ ss _ th => flat_map unames ss ++ flat_map snames th end.
Definition onames (o : outcome) : list string :=
  match o with Keep s ch => unames s ++ flat_map snames ch | Remote _ s ch => unames s ++ flat_map snames ch end.

Lemma seq_res_ok {A} (l : list (res A)) r : seq_res l = Ok r -> Forall2 (fun x y => x = Ok y) l r.
Proof.
  revert r; induction l as [|x t IH]; simpl; intros r H.
  - inversion H; constructor.
  - destruct x as [a|m]; [|discriminate]. destruct (seq_res t) eqn:E; [|discriminate].
    inversion H; subst. constructor; auto.
Qed.

Lemma plumbing_unames c p pl : plumbing c p = Ok pl -> flat_map unames pl = [].
Proof.
  unfold plumbing. destruct (negb _); [discriminate|].
  destruct (lookup p (abstract_impls c)) as [impls|].
  - intros H; inversion H; subst. rewrite flat_map_app. simpl.
    induction impls; simpl; auto.
  - destruct (boundary c p); intros H; inversion H; reflexivity.
Qed.

Lemma merge_into_names s acc x :
  In x (flat_map snames (merge_into s acc)) -> In x (snames s) \/ In x (flat_map snames acc).
Proof.
  induction acc as [|a t IH]; simpl.
  - rewrite app_nil_r. auto.
  - destruct (String.eqb (step_key a) (step_key s)).
    + destruct a as [u p ss ip th], s as [u' p' ss' ip' th']. simpl.
      rewrite !flat_map_app, !in_app_iff. tauto.
    + simpl. rewrite !in_app_iff. intros [H|H]; [tauto|]. apply IH in H. tauto.
Qed.

Lemma merge_steps_names l x : In x (flat_map snames (merge_steps l)) -> In x (flat_map snames l).
Proof.
  unfold merge_steps. destruct l as [|a [|b t]]; auto.
  generalize (a :: b :: t) as l0. intros l0.
  assert (G : forall l acc, In x (flat_map snames (fold_left (fun acc s => merge_into s acc) l acc)) ->
                             In x (flat_map snames acc) \/ In x (flat_map snames l)).
  { induction l as [|s l IH]; simpl; intros acc H; auto.
    apply IH in H. rewrite in_app_iff. destruct H as [H|H]; [|tauto].
    apply merge_into_names in H. tauto. }
  intros H. apply G in H. simpl in H. tauto.
Qed.

Lemma add_group_names o s ch g x :
  In x (flat_map (fun '(_, (ss, cs)) => flat_map unames ss ++ flat_map snames cs) (add_group o s ch g)) ->
  In x (unames s) \/ In x (flat_map snames ch) \/
  In x (flat_map (fun '(_, (ss, cs)) => flat_map unames ss ++ flat_map snames cs) g).
Proof.
  induction g as [|[o' [ss cs]] t IH]; simpl.
  - rewrite !app_nil_r, !in_app_iff. tauto.
  - destruct (String.eqb o o'); simpl; rewrite ?flat_map_app, ?in_app_iff; simpl; rewrite ?app_nil_r, ?in_app_iff.
    + tauto.
    + intros [H|H]; [tauto|]. apply IH in H. tauto.
Qed.

Lemma assemble_names c ip parent loc outs ss ch x :
  assemble c ip parent loc outs = Ok (ss, ch) ->
  In x (flat_map unames ss ++ flat_map snames ch) -> In x (flat_map onames outs).
Proof.
  unfold assemble. destruct (plumbing c parent) as [pl|] eqn:Epl; [|discriminate].
  intros H; inversion H; subst; clear H.
  pose proof (plumbing_unames _ _ _ Epl) as Hpl.
  rewrite flat_map_app, Hpl, app_nil_r, in_app_iff.
  set (groups := fold_left _ outs []).
  assert (Gg : forall y, In y (flat_map (fun '(_, (ss, cs)) => flat_map unames ss ++ flat_map snames cs) groups) ->
                         In y (flat_map onames outs)).
  { subst groups. intros y.
    assert (G : forall l g, In y (flat_map (fun '(_, (ss, cs)) => flat_map unames ss ++ flat_map snames cs)
                  (fold_left (fun g o => match o with Remote ow s ch => add_group ow s ch g | Keep _ _ => g end) l g)) ->
                In y (flat_map (fun '(_, (ss, cs)) => flat_map unames ss ++ flat_map snames cs) g) \/ In y (flat_map onames l)).
    { induction l as [|o l IH]; simpl; intros g H; auto.
      apply IH in H. rewrite in_app_iff. destruct H as [H|H]; [|tauto].
      destruct o as [s0 c0|ow s0 c0]; simpl; rewrite in_app_iff; [tauto|].
      apply add_group_names in H. tauto. }
    intros H. apply G in H. simpl in H. tauto. }
  intros [H|H].
  - (* kept *) clear Gg. induction outs as [|o t IH]; simpl in *; auto.
    rewrite flat_map_app, !in_app_iff in *. destruct o; simpl in *; rewrite ?app_nil_r, ?in_app_iff in *; tauto.
  - apply merge_steps_names in H. rewrite flat_map_app, in_app_iff in H. destruct H as [H|H].
    + clear Gg. induction outs as [|o t IH]; simpl in *; auto.
      rewrite flat_map_app, !in_app_iff in *. destruct o; simpl in *; rewrite ?in_app_iff in *; tauto.
    + apply Gg. clear Gg. induction groups as [|[ow [ss0 ch0]] t IH]; simpl in *; auto.
      rewrite !flat_map_app, !in_app_iff in *. rewrite Hpl in H. simpl in H.
      destruct H as [[H|H]|H]; auto.
      * tauto.
      * apply merge_steps_names in H. tauto.
Qed.

(* the list walk shared by the three composite cases *)
Lemma outs_sub c ss : forall ip parent loc outs,
  Forall (fun s => forall ip parent loc o, extract_sel c s ip parent loc = Ok o -> incl (onames o) (unames s)) ss ->
  seq_res (map (fun x => extract_sel c x ip parent loc) ss) = Ok outs ->
  incl (flat_map onames outs) (flat_map unames ss).
Proof.
  induction ss as [|s0 ss0 IHl]; intros ip parent loc outs HF Es; simpl in Es.
  - inversion Es; subst. apply incl_refl.
  - destruct (extract_sel c s0 ip parent loc) as [o0|] eqn:E0; [|discriminate].
    destruct (seq_res _) as [r|] eqn:Er; [|discriminate].
    inversion Es; subst; clear Es. inversion HF as [|? ? Hs0 HF']; subst.
    simpl. apply incl_app; [apply incl_appl; eapply Hs0; eauto | apply incl_appr; eapply IHl; eauto].
Qed.

(* plan_sub, one frame: nothing but the client's fields (and helper-aliased plumbing) comes out *)
Theorem extract_sel_sub c s : forall ip parent loc o,
  extract_sel c s ip parent loc = Ok o -> incl (onames o) (unames s).
Proof.
  induction s as [a n t|a n t ss IH|tc ss IH|f tc ss IH] using sel_ind'; intros ip parent loc o H; simpl in H.
  - destruct (_ || _); [discriminate|]. destruct (_ && _).
    + inversion H; subst. simpl. rewrite app_nil_r. apply incl_refl.
    + destruct (url_for c parent loc n) as [ow|]; [destruct (negb (ow =? loc))|];
        inversion H; subst; simpl; rewrite app_nil_r; apply incl_refl.
  - destruct (_ || _); [discriminate|]. destruct (_ && _).
    + inversion H; subst. simpl. rewrite app_nil_r. apply incl_refl.
    + set (l' := match url_for c parent loc n with Some o0 => _ | None => loc end) in *.
      destruct (seq_res _) as [outs|] eqn:Es; [|discriminate].
      destruct (assemble _ _ _ _ outs) as [[ss' ch]|] eqn:Ea; [|discriminate].
      assert (Hsub : incl (flat_map unames ss' ++ flat_map snames ch) (flat_map unames ss)).
      { intros x Hx. eapply assemble_names in Hx; eauto. eapply outs_sub; eauto. }
      assert (Hgoal : incl ((if helper a then [] else [n]) ++ flat_map unames ss' ++ flat_map snames ch)
                           ((if helper a then [] else [n]) ++ flat_map unames ss)).
      { apply incl_app; [apply incl_appl, incl_refl | apply incl_appr, Hsub]. }
      destruct (match url_for c parent loc n with Some o0 => negb (o0 =? loc) | None => false end);
        inversion H; subst; simpl; rewrite <- app_assoc; exact Hgoal.
  - destruct (seq_res _) as [outs|] eqn:Es; [|discriminate].
    destruct (assemble _ _ _ _ outs) as [[ss' ch]|] eqn:Ea; [|discriminate].
    inversion H; subst; simpl. intros x Hx. eapply assemble_names in Hx; eauto. eapply outs_sub; eauto.
  - destruct (seq_res _) as [outs|] eqn:Es; [|discriminate].
    destruct (assemble _ _ _ _ outs) as [[ss' ch]|] eqn:Ea; [|discriminate].
    inversion H; subst; simpl. intros x Hx. eapply assemble_names in Hx; eauto. eapply outs_sub; eauto.
Qed.
Print Assumptions extract_sel_sub.
