(* Base/Util.v — association lists, result type, list helpers shared by every model file. *)
From Coq Require Export List String Ascii Bool Arith.
From Coq Require Import DecimalString.
Export ListNotations.
#[global] Open Scope string_scope.
#[global] Open Scope list_scope.

(* ---------- strings ---------- *)
Definition chr (n : nat) : string := String (Ascii.ascii_of_nat n) EmptyString.
Notation "a +++ b" := (String.append a b) (at level 60, right associativity).
Fixpoint sconcat (sep : string) (l : list string) : string :=
  match l with
  | [] => ""
  | [x] => x
  | x :: t => x +++ sep +++ sconcat sep t
  end.
Definition nat_str (n : nat) : string := NilEmpty.string_of_uint (Nat.to_uint n).
Definition starts_uu (s : string) : bool :=
  match s with String a (String b _) => (Ascii.eqb a "_"%char && Ascii.eqb b "_"%char) | _ => false end.
Definition mem (k : string) (l : list string) : bool := existsb (String.eqb k) l.

(* ---------- association lists (Go maps; keys unique by invariant) ---------- *)
Fixpoint lookup {A} (k : string) (l : list (string * A)) : option A :=
  match l with [] => None | (k', v) :: t => if String.eqb k k' then Some v else lookup k t end.
Fixpoint upsert {A} (k : string) (f : option A -> A) (l : list (string * A)) : list (string * A) :=
  match l with
  | [] => [(k, f None)]
  | (k', v) :: t => if String.eqb k k' then (k', f (Some v)) :: t else (k', v) :: upsert k f t
  end.
Definition set_key {A} (k : string) (v : A) (l : list (string * A)) : list (string * A) := upsert k (fun _ => v) l.
Fixpoint remove_key {A} (k : string) (l : list (string * A)) : list (string * A) :=
  match l with [] => [] | (k', v) :: t => if String.eqb k k' then remove_key k t else (k', v) :: remove_key k t end.
Definition has_key {A} (k : string) (l : list (string * A)) : bool :=
  match lookup k l with Some _ => true | None => false end.
Definition keys {A} (l : list (string * A)) : list string := map fst l.

(* keys in byte order, as encoding/json writes a Go map *)
Fixpoint insert_sorted {A} (k : string) (v : A) (l : list (string * A)) : list (string * A) :=
  match l with
  | [] => [(k, v)]
  | (k', v') :: t => if String.eqb k k' then (k, v) :: t
                     else if String.ltb k k' then (k, v) :: l else (k', v') :: insert_sorted k v t
  end.
Definition sort_keys {A} (l : list (string * A)) : list (string * A) := fold_left (fun acc kv => insert_sorted (fst kv) (snd kv) acc) l [].


(* ---------- results ---------- *)
Inductive res (A : Type) := Ok (a : A) | Err (msg : string).
Arguments Ok {A}. Arguments Err {A}.
Definition rbind {A B} (r : res A) (f : A -> res B) : res B := match r with Ok a => f a | Err m => Err m end.
Notation "'do' x <- r ;; k" := (rbind r (fun x => k)) (at level 200, x pattern, r at level 100, k at level 200).
(* [f] is a parameter OUTSIDE the fix so that nested recursion through it passes the guard checker *)
Definition all_res {A B} (f : A -> res B) : list A -> res (list B) :=
  fix go (l : list A) : res (list B) :=
    match l with
    | [] => Ok []
    | x :: t => match f x with Err m => Err m | Ok y => match go t with Ok r => Ok (y :: r) | Err m => Err m end end
    end.
Fixpoint seq_res {A} (l : list (res A)) : res (list A) :=
  match l with
  | [] => Ok []
  | Err m :: _ => Err m
  | Ok a :: t => match seq_res t with Ok r => Ok (a :: r) | Err m => Err m end
  end.
Definition is_ok {A} (r : res A) : bool := match r with Ok _ => true | Err _ => false end.

(* ---------- list helpers ---------- *)
Fixpoint dedupe_str (l : list string) : list string :=
  match l with [] => [] | x :: t => if mem x t then dedupe_str t else x :: dedupe_str t end.
Definition subset_str (a b : list string) : bool := forallb (fun x => mem x b) a.
Definition seteq_str (a b : list string) : bool := subset_str a b && subset_str b a.
Fixpoint list_eqb {A} (eqb : A -> A -> bool) (a b : list A) : bool :=
  match a, b with
  | [], [] => true
  | x :: a', y :: b' => eqb x y && list_eqb eqb a' b'
  | _, _ => false
  end.
Definition option_eqb {A} (eqb : A -> A -> bool) (a b : option A) : bool :=
  match a, b with Some x, Some y => eqb x y | None, None => true | _, _ => false end.
(* multiset equality by removal *)
Fixpoint remove_first {A} (eqb : A -> A -> bool) (x : A) (l : list A) : option (list A) :=
  match l with
  | [] => None
  | y :: t => if eqb x y then Some t else option_map (cons y) (remove_first eqb x t)
  end.
Fixpoint multiset_eqb {A} (eqb : A -> A -> bool) (a b : list A) : bool :=
  match a with
  | [] => match b with [] => true | _ => false end
  | x :: a' => match remove_first eqb x b with Some b' => multiset_eqb eqb a' b' | None => false end
  end.

(* ---------- printing of verdict lists from a cases file (one line per case) ---------- *)
Ltac print_verdicts l :=
  match l with
  | nil => idtac
  | cons ?x ?t => idtac "CASE" x; print_verdicts t
  end.
