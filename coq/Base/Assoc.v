(* Base/Assoc.v — characterising lemmas for the association-list maps of Util.v.
   Later proofs use only these, not the definitions. *)
From V Require Import Base.Util.

Lemma lookup_upsert {A} k k' f (l : list (string * A)) :
  lookup k (upsert k' f l) = if String.eqb k k' then Some (f (lookup k' l)) else lookup k l.
Proof.
  induction l as [|[k0 v0] t IH]; simpl.
  - destruct (String.eqb k k'); reflexivity.
  - destruct (String.eqb k' k0) eqn:E0; simpl.
    + apply String.eqb_eq in E0; subst k0. destruct (String.eqb k k'); reflexivity.
    + rewrite IH. destruct (String.eqb k k') eqn:E1; [|reflexivity].
      apply String.eqb_eq in E1; subst. rewrite E0. reflexivity.
Qed.

Lemma lookup_set_key {A} k k' (v : A) l :
  lookup k (set_key k' v l) = if String.eqb k k' then Some v else lookup k l.
Proof. unfold set_key. apply lookup_upsert. Qed.

Lemma lookup_not_in {A} k (l : list (string * A)) : ~ In k (map fst l) -> lookup k l = None.
Proof.
  induction l as [|[k1 v1] t IH]; simpl; [reflexivity|]. intros Hn.
  destruct (String.eqb k k1) eqn:E1; [apply String.eqb_eq in E1; subst; tauto|]. apply IH. tauto.
Qed.

Lemma lookup_in_keys {A} k (l : list (string * A)) :
  existsb (String.eqb k) (map fst l) = match lookup k l with Some _ => true | None => false end.
Proof. induction l as [|[k0 v] t IH]; simpl; [reflexivity|]. destruct (String.eqb k k0); simpl; auto. Qed.

Lemma lookup_some_in {A} k (v : A) l : lookup k l = Some v -> In (k, v) l.
Proof.
  induction l as [|[k0 v0] t IH]; simpl; [discriminate|].
  destruct (String.eqb k k0) eqn:E; intros H.
  - apply String.eqb_eq in E; subst. inversion H; subst. left; reflexivity.
  - right; auto.
Qed.

Lemma keys_upsert_in {A} k f (l : list (string * A)) x :
  In x (map fst (upsert k f l)) <-> x = k \/ In x (map fst l).
Proof.
  induction l as [|[k0 v0] t IH]; simpl.
  - intuition.
  - destruct (String.eqb k k0) eqn:E; simpl.
    + apply String.eqb_eq in E; subst. intuition.
    + rewrite IH. intuition.
Qed.

Lemma nodup_upsert {A} k f (l : list (string * A)) : NoDup (map fst l) -> NoDup (map fst (upsert k f l)).
Proof.
  induction l as [|[k0 v0] t IH]; simpl; intros HN.
  - constructor; [simpl; tauto | constructor].
  - inversion HN as [|? ? Hnin HN']; subst. destruct (String.eqb k k0) eqn:E; simpl.
    + constructor; assumption.
    + constructor; [|apply IH; assumption]. rewrite keys_upsert_in. intros [->|H]; [|tauto].
      rewrite String.eqb_refl in E; discriminate.
Qed.

Lemma mem_in k l : mem k l = true <-> In k l.
Proof.
  unfold mem. rewrite existsb_exists. split.
  - intros [x [Hin He]]. apply String.eqb_eq in He; subst; exact Hin.
  - intros H. exists k. split; [exact H | apply String.eqb_refl].
Qed.
