(* Properties/C04.v — Every downstream request is a valid, owned, minimal sub-query.  Statements only. *)
From V Require Import Base.Util Gql.Ast Gql.RefExec Model.Perm Model.Plan Model.Gateway Corr.E2ECheck.
From V Require Import Proofs.TrickyWorld Proofs.C01Witness Proofs.SharedWorld Proofs.C04Witness Proofs.PlanProofs.

(* minimal: only fields the client selected (after @skip/@include and permission filtering, which produce the [ss] the
   planner is given) plus helper-aliased key/__typename plumbing — for every schema, table and selection *)
Theorem C04_only_client_fields : forall c root ss steps,
  plan c root ss = Ok steps -> incl (flat_map sfields steps) (flat_map ufields ss).
Proof. exact plan_sub. Qed.
Print Assumptions C04_only_client_fields.

Theorem C04_only_client_fields_frame : forall c s ip parent loc o,
  extract_sel c s ip parent loc = Ok o -> incl (ofields o) (ufields s).
Proof. exact extract_sel_sub. Qed.
Print Assumptions C04_only_client_fields_frame.

(* FULL STATEMENT (validity against the receiving service's schema) for one federation, and its refutation:
   two implementations of an interface extended by the same remote service get ONE lookup whose document selects a
   field of the other type (plan.go:240). *)
Definition C04_valid_subqueries_for (G : generation) (W : world) : Prop :=
  forall op vars o, valid_doc (g_schema G) "Query" (o_sel op) = true -> o_kind op = OQuery ->
    gateway G (g_schema G) W op vars None 50 40 = Ok o -> requests_valid W (oc_requests o) = true.
Theorem C04_refuted_shared_remote_abstract : ~ C04_valid_subqueries_for gen_tricky world_t.
Proof.
  intros H. destruct refuted_shared_remote_valid as [o [Ho Hbad]].
  rewrite (H (qop q_shared_remote) [] o ltac:(vm_compute; reflexivity) eq_refl Ho) in Hbad. discriminate.
Qed.
Print Assumptions C04_refuted_shared_remote_abstract.
(* non-vacuity: on the same federation a neighbouring query produces only valid sub-queries *)
Example C04_control : exists o, gw q_recurring_aliased = Ok o /\ requests_valid world_t (oc_requests o) = true.
Proof. exact control_requests_valid. Qed.

(* A second, independent refutation of the full statement (known finding KF-foreign-abstract-condition): a boundary type that
   belongs to abstract types of two services makes a fragment on the OTHER service's abstract type valid in the merged
   schema; the fragment is forwarded verbatim to a service that does not define the type. *)
Theorem C04_refuted_foreign_abstract_condition : ~ C04_valid_subqueries_for gen_shared world_s.
Proof.
  intros H. destruct refuted_foreign_cond_valid as [o [Ho Hbad]].
  rewrite (H (qop q_foreign_cond) [] o foreign_cond_valid_in_merged eq_refl Ho) in Hbad. discriminate.
Qed.
Print Assumptions C04_refuted_foreign_abstract_condition.
Example C04_control_member_condition : exists o, gw_s q_member_cond = Ok o /\ requests_valid world_s (oc_requests o) = true.
Proof. exact control_member_cond_valid. Qed.

(* "never asks for the same id twice within one lookup", and lookups are queries: for EVERY generation, world (data, faults),
   operation, variables, permission set, limit and fuel, every downstream request of the gateway model carries duplicate-free
   ids (batches of a single-entity lookup included; what goes over the wire is the id itself or the document does not lex:
   Proofs/WireIdent.v), and every entity lookup is sent as a query. *)
From V Require Import Proofs.ExecIdsProofs Proofs.ExecReqProofs.
Theorem C04_ids_never_repeated : forall G fschema W op vars P max fuel oc,
  gateway G fschema W op vars P max fuel = Ok oc -> Forall (fun rq => NoDup (rq_ids rq)) (oc_requests oc).
Proof. exact gateway_ids. Qed.
Print Assumptions C04_ids_never_repeated.
