(* Properties/C12.v — Requests are isolated from each other.  Statements only. *)
From V Require Import Base.Util Model.Isolation Proofs.IsolationProofs.

(* If every request works on its own copy (copies pairwise disjoint) and every in-place rewrite it performs lands in that
   copy, then for EVERY interleaving of ALL requests' rewrites, whatever a request reads afterwards - in its own copy, in the
   parsed-query cache, in the merged schema - is what it reads when it runs alone; the shared cells never change.
   This is the argument the code relies on (per-request deep copy at executable_schema.go:204, rewrites confined to it).
   NOT proved: that bramble's rewrites are confined (Go pointer aliasing is outside this model).  That half is decided
   behaviourally on every run: batches of requests sharing documents are served alone, in sequence and concurrently by one
   gateway with and without a parsed-query cache, and each response, each set of downstream calls and their forwarded
   headers must be those of the request alone; the concurrent observations also go through the model correspondence. *)
Theorem C12_isolation_frame_partial : forall o ws, disjoint o -> confined o ws ->
  forall h i cells, (forall c, In c cells -> o i c = true \/ shared o c) ->
  observe (run h ws) cells = observe (run h (only i ws)) cells.
Proof. exact isolation_frame. Qed.
Print Assumptions C12_isolation_frame_partial.

(* the copy is necessary *)
Theorem C12_without_copy_refuted : exists ws h, observe (run h ws) [0] <> observe (run h (only 1 ws)) [0].
Proof. exact no_copy_refuted. Qed.
Print Assumptions C12_without_copy_refuted.
