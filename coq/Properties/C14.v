(* Properties/C14.v — Argument and variable values reach the owning service unchanged.  Statements only. *)
From V Require Import Base.Util Gql.Ast Model.FormatDoc Proofs.FormatDocProofs.

(* The codec theorem: for EVERY byte string without a byte whose Go escape is not a GraphQL escape (bell, vertical tab,
   DEL and the control bytes other than \b \f \n \r \t), what the GraphQL lexer reads from strconv.Quote's output is the
   string itself — any whitespace, quotes, backslashes, newlines, tabs and non-ASCII bytes included. *)
Theorem C14_string_roundtrip_partial : forall s, gql_safe s = true -> wire_string s = Some s.
Proof. exact quote_unquote. Qed.
Print Assumptions C14_string_roundtrip_partial.

(* FULL STATEMENT refuted, byte by byte: each excluded byte alone already fails to arrive (recorded finding KF-go-escapes) *)
Theorem C14_refuted_go_escapes : forall c, gql_safe_char c = false ->
  wire_string (String c EmptyString) <> Some (String c EmptyString).
Proof. exact unsafe_char_breaks. Qed.
Print Assumptions C14_refuted_go_escapes.

(* a string literal arrives unchanged at root fields always, and inside entity lookups iff it has no run of spaces *)
Theorem C14_literal_arrives_partial : forall collapse s,
  gql_safe s = true -> (collapse = true -> has_space_run s = false) -> wire_value collapse (VStr s) = Some (VStr s).
Proof. exact wire_value_str. Qed.
Print Assumptions C14_literal_arrives_partial.

(* ... and the second recorded finding (KF-space-runs): inside a lookup "y  z" arrives as "y z" *)
Example C14_refuted_space_runs : wire_value true (VStr "y  z") = Some (VStr "y z") /\ wire_value false (VStr "y  z") = Some (VStr "y  z").
Proof. vm_compute. split; reflexivity. Qed.

(* numbers, booleans, enums, nulls and variables are printed from their lexemes and are untouched *)
Theorem C14_non_string_scalars_untouched : forall collapse v,
  match v with VInt _ | VFloat _ | VBool _ | VNull | VEnum _ | VVar _ => wire_value collapse v = Some v | _ => True end.
Proof. intros collapse v. destruct v; exact I || reflexivity. Qed.
Print Assumptions C14_non_string_scalars_untouched.

(* The full characterisation of what a service reads for a string the gateway prints: either the document does not lex at all
   (the string contains a byte whose Go escape is not a GraphQL escape: the recorded finding), or it reads EXACTLY the
   client's string.  No string is ever silently altered by the printer/lexer pair (the whitespace collapse of format.go:202
   is the other recorded finding and is a separate function). *)
From V Require Import Proofs.WireIdent.
Theorem C14_string_arrives_exactly_or_not_at_all : forall s s', wire_string s = Some s' -> s' = s /\ gql_safe s = true.
Proof. exact wire_string_identity. Qed.
Print Assumptions C14_string_arrives_exactly_or_not_at_all.
