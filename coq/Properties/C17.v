(* Properties/C17.v — Introspection describes exactly the schema the client may use.  Statements only. *)
From V Require Import Base.Util Gql.Ast Model.Perm Model.View Model.Introspect Proofs.ViewProofs Proofs.IntrospectProofs.

(* The schema a client reconstructs from the answer to the standard introspection query is the schema the resolvers read:
   same types, kinds, descriptions, fields with arguments, defaults and deprecations, type references with their list and
   non-null wrapping, interfaces, possible types of abstract types, enum values, input fields, directives.
   [normalize] is the identity up to what GraphQL itself does not list: "__" meta fields, arguments of input fields,
   possible types of non-abstract types.  [wfb]: every referenced type is defined and no type reference nests more than
   seven wrappers (the depth of the standard query); evaluated on every generated schema by the correspondence check. *)
Theorem C17_reconstruction_roundtrip : forall S, wfb S = true -> reconstruct (introspect S None) = Some (normalize S).
Proof. exact introspection_roundtrip. Qed.
Print Assumptions C17_reconstruction_roundtrip.

(* With permissions the resolvers read the filtered view; every field of every type the answer lists is then a field that
   some query left intact by permission filtering can select (composition with C18_view_sound_partial).
   FULL STATEMENT (not proved, and false of the code in the other direction: KF-view-drops-types): the reconstructed schema
   EQUALS the permitted part.  The converse inclusion and the well-formedness of the answer (no null among interfaces and
   possible types) are checked case by case against the real gateway outside the recorded findings' guards. *)
Theorem C17_fields_confined_partial : forall S p fuel t f,
  In t (seen_types S (Some (filter_schema fuel (vsrc_of S) p))) -> In f (it_fields t) ->
  Selectable (vsrc_of S) p (it_name t) (if_name f).
Proof. exact introspect_fields_confined. Qed.
Print Assumptions C17_fields_confined_partial.

(* non-vacuity *)
Definition c17_example : isch :=
  {| is_types := [ {| it_kind := KObject; it_name := "Query"; it_desc := ""; it_fields :=
                        [ {| if_name := "pets"; if_desc := "all of them";
                             if_args := [ {| iv_name := "first"; iv_desc := ""; iv_type := TNamed "Int" false; iv_default := Some "10" |} ];
                             if_type := TList (TNamed "Pet" true) true; if_dep := Some "use animals"; if_default := None |} ];
                      it_ifaces := []; it_possible := []; it_enum := [] |};
                   {| it_kind := KInterface; it_name := "Pet"; it_desc := ""; it_fields :=
                        [ {| if_name := "name"; if_desc := ""; if_args := []; if_type := TNamed "String" false; if_dep := None; if_default := None |} ];
                      it_ifaces := []; it_possible := ["Cat"]; it_enum := [] |};
                   {| it_kind := KObject; it_name := "Cat"; it_desc := ""; it_fields :=
                        [ {| if_name := "name"; if_desc := ""; if_args := []; if_type := TNamed "String" false; if_dep := None; if_default := None |} ];
                      it_ifaces := ["Pet"]; it_possible := []; it_enum := [] |};
                   {| it_kind := KScalar; it_name := "String"; it_desc := ""; it_fields := []; it_ifaces := []; it_possible := []; it_enum := [] |};
                   {| it_kind := KScalar; it_name := "Int"; it_desc := ""; it_fields := []; it_ifaces := []; it_possible := []; it_enum := [] |} ];
     is_dirs := [] |}.
Example C17_example : wfb c17_example = true /\ reconstruct (introspect c17_example None) = Some c17_example.
Proof. split; vm_compute; reflexivity. Qed.
