(* Properties/C13.v — Every request does bounded work and releases everything it started.  Statements only.
   The transition system Model/ConcExec.v models Execute / executeRootStep / executeChildStep with one rule per program
   point; labels are scheduler choices, so "for all label sequences" is "for all interleavings". *)
From Coq Require Import List Arith Bool Lia.
Import ListNotations.
From V Require Import Model.ConcExec Proofs.ConcExecProofs Proofs.ConcTermination.

(* released: for EVERY plan, oracle of downstream outcomes, limit and schedule, a state in which nothing can move any
   more has main returned, no step goroutine alive and the collector exited (code as it is after fix d3a4cc6) *)
Theorem C13_released : forall max o roots ls st,
  run true max o ls (init roots) = Some st -> enabled_any true max o st = false -> released st = true.
Proof. exact released_fixed. Qed.
Print Assumptions C13_released.

(* the same statement about the error path as it was at d802d19 is false: limit 0, one root with one child *)
Theorem C13_released_refuted_before_fix :
  exists max o roots ls st, run false max o ls (init roots) = Some st /\ enabled_any false max o st = false /\ released st = false.
Proof. exact released_refuted_before_fix. Qed.
Print Assumptions C13_released_refuted_before_fix.

(* at most max-requests-per-query entity-lookup rounds are ever sent, in every reachable state of every schedule *)
Theorem C13_limit : forall fixed max o roots ls st,
  run fixed max o ls (init roots) = Some st -> sent st <= max.
Proof. exact sent_within_limit. Qed.
Print Assumptions C13_limit.

(* "A client request always terminates": every schedule from the start is at most mu(init) steps long (mu: an explicit
   measure, linear in the size of the plan, that every step strictly decreases), and in every reachable state in which main
   has not returned some step is enabled.  So every maximal schedule is finite and ends with main returned - for every plan,
   every oracle of downstream outcomes, every limit. *)
Theorem C13_terminates : forall max o roots ls st,
  run true max o ls (init roots) = Some st ->
  List.length ls <= mu (init roots) /\
  ((forall b, main st <> MReturned b) -> exists l st', fire true max o st l = Some st').
Proof. exact execute_terminates. Qed.
Print Assumptions C13_terminates.

(* non-vacuity: a complete successful run of a two-level plan under limit 5 ends released with one lookup round sent *)
Example C13_example :
  let o := {| succeeds := fun _ => true; has_ids := fun _ => true |} in
  match run true 5 o [LMain; LMain; LMain; LGor 0; LGor 0; LGor 0; LGor 0; LGor 0; LGor 0; LGor 0; LGor 0; LMain; LMain; LMain] (init [St 0 [St 1 []]]) with
  | Some st => released st = true /\ sent st = 1 /\ enabled_any true 5 o st = false
  | None => False
  end.
Proof. vm_compute. repeat split; reflexivity. Qed.
