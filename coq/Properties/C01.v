(* Properties/C01.v — Federation transparency: the gateway's answer equals the one-server answer.
   Statements only; proofs are in Proofs/.  The full statement is FALSE of the faithful model (and of the code: every
   witness below is replayed against /repo by check C01); it is kept visible, refuted by witnesses, and the parts that
   are proved for every input are stated beside it. *)
From V Require Import Base.Util Gql.Ast Gql.RefExec Model.Perm Model.Plan Model.Gateway Corr.E2ECheck.
From V Require Import Proofs.TrickyWorld Proofs.C01Witness Proofs.PlanProofs.

Definition root_name (op : operation) : string := match o_kind op with OMutation => "Mutation" | _ => "Query" end.

(* the gateway over generation G and world W answers [op] exactly as the single server [mono] does, with no error *)
Definition transparent_on (G : generation) (W : world) (mono : server) (op : operation) (vars : env) (max fuel : nat) : Prop :=
  exists o, gateway G (g_schema G) W op vars None max fuel = Ok o /\ r_errors (oc_response o) = [] /\
            r_data (oc_response o) = Some (fst (exec_op mono (w_data W) vars fuel (root_name op) (o_sel op))).

(* FULL STATEMENT, for one published federation: every valid query is answered transparently. *)
Definition C01_transparency_for (G : generation) (W : world) (mono : server) : Prop :=
  forall op vars, o_kind op = OQuery -> valid_doc (g_schema G) "Query" (o_sel op) = true ->
                  transparent_on G W mono op vars 50 40.

(* It is refuted on the "tricky" federation (harness/fixtures.go), whose tables are the ones the real code published,
   with spec-conformant services over a conforming data graph: *)
Theorem C01_refuted_recurring_key : ~ C01_transparency_for gen_tricky world_t (mono_tricky []).
Proof.
  intros H. destruct (H (qop q_recurring) [] eq_refl ltac:(vm_compute; reflexivity)) as [o [Ho [_ Hd]]].
  destruct refuted_recurring_key as [o' [Ho' [_ Hd']]]. unfold gw in Ho'. rewrite Ho in Ho'. inversion Ho'; subst. apply Hd'. exact Hd.
Qed.
Print Assumptions C01_refuted_recurring_key.

Theorem C01_refuted_nested_fragment_dup : ~ C01_transparency_for gen_tricky world_t (mono_tricky []).
Proof.
  intros H. destruct (H (qop q_nested_dup) [] eq_refl ltac:(vm_compute; reflexivity)) as [o [Ho [_ Hd]]].
  destruct refuted_nested_fragment_dup as [o' [Ho' [_ Hd']]]. unfold gw in Ho'. rewrite Ho in Ho'. inversion Ho'; subst. apply Hd'. exact Hd.
Qed.
Print Assumptions C01_refuted_nested_fragment_dup.

Theorem C01_refuted_fragment_shortened : ~ C01_transparency_for gen_tricky world_t (mono_tricky []).
Proof.
  intros H. destruct (H (qop q_shortened) [] eq_refl ltac:(vm_compute; reflexivity)) as [o [Ho [_ Hd]]].
  destruct refuted_fragment_shortened as [o' [Ho' [_ Hd']]]. unfold gw in Ho'. rewrite Ho in Ho'. inversion Ho'; subst. apply Hd'. exact Hd.
Qed.
Print Assumptions C01_refuted_fragment_shortened.

Theorem C01_refuted_abstract_condition : ~ C01_transparency_for gen_tricky world_t (mono_tricky []).
Proof.
  intros H. destruct (H (qop q_abstract_cond) [] eq_refl ltac:(vm_compute; reflexivity)) as [o [Ho [_ Hd]]].
  destruct refuted_abstract_condition as [o' [Ho' [_ Hd']]]. unfold gw in Ho'. rewrite Ho in Ho'. inversion Ho'; subst. apply Hd'. exact Hd.
Qed.
Print Assumptions C01_refuted_abstract_condition.

Theorem C01_refuted_shared_remote_abstract : ~ C01_transparency_for gen_tricky world_t (mono_tricky []).
Proof.
  intros H. destruct (H (qop q_shared_remote) [] eq_refl ltac:(vm_compute; reflexivity)) as [o [Ho [_ Hd]]].
  destruct refuted_shared_remote_abstract as [o' [Ho' [_ Hd']]]. unfold gw in Ho'. rewrite Ho in Ho'. inversion Ho'; subst. apply Hd'. exact Hd.
Qed.
Print Assumptions C01_refuted_shared_remote_abstract.

(* non-vacuity / controls: the same federation answers the neighbouring queries transparently *)
Example C01_control_aliased : transparent_on gen_tricky world_t (mono_tricky []) (qop q_recurring_aliased) [] 50 40.
Proof. exact control_recurring_key. Qed.
Example C01_control_single_fragment : transparent_on gen_tricky world_t (mono_tricky []) (qop q_nested_dup_control) [] 50 40.
Proof. exact control_nested_fragment_dup. Qed.

(* PROVED FOR EVERY INPUT (stage theorem plan_sub): whatever the schema, the ownership tables and the selection,
   every field (alias, name) the planner puts in any step at any depth is a field of the client's selection or is
   plumbing under a reserved helper alias — no field is invented, none is taken from elsewhere. *)
Theorem C01_plan_sub : forall c root ss steps,
  plan c root ss = Ok steps -> incl (flat_map sfields steps) (flat_map ufields ss).
Proof. exact plan_sub. Qed.
Print Assumptions C01_plan_sub.

(* "No field is ... taken from the wrong object, or attached to the wrong list element", for the step that attaches lookup
   results to the objects of the merged tree (execution_result.go:71-109): every value the merge adds to an object comes
   from a result item with that object's type name and that object's id - for every object, every list of result items. *)
From V Require Import Model.MergeRes Proofs.MergeOrder Proofs.MergeAttach.
Theorem C01_lookup_values_attached_by_type_and_id : forall m s m', boundary_apply m s = Ok m' -> forall k v, lookup k m' = Some v ->
  lookup k m = Some v \/
  exists r t i, In (RMap r) s /\ str_key tn r = Some t /\ str_key tn m = Some t /\ str_key idk r = Some i /\ str_key idk m = Some i /\ In (k, v) r.
Proof. exact attached_by_type_and_id. Qed.
Print Assumptions C01_lookup_values_attached_by_type_and_id.
