(* Properties/C11.v — Schema refresh is safe under concurrent queries.  Statements only. *)
From V Require Import Base.Util Model.Refresh Proofs.RefreshProofs Gen.RefreshFacts.

(* The protocol: for EVERY schedule of any number of queries and refreshes that the lock admits, all the generations of the
   published tables that one query reads while it holds the read lock are the same: a query is planned, executed and shaped
   against ONE generation. *)
Theorem C11_tables_from_one_generation : forall ls s, run init ls = Some s ->
  forall q x y, In x (q_tabs (qget s q)) -> In y (q_tabs (qget s q)) -> x = y.
Proof. exact one_generation. Qed.
Print Assumptions C11_tables_from_one_generation.

(* The code follows the protocol: facts REGENERATED from /repo's source on every run (gen/main.go -> Gen/RefreshFacts.v).
   Every write of a published table is inside mutex.Lock, every read of one - by ExecuteQuery or by any other method, such
   as the Schema() accessor gqlgen validates against - is inside mutex.RLock, and there are such writes and reads.  A change that moves one outside the lock makes this theorem fail to check. *)
Theorem C11_source_follows_protocol :
  forallb snd table_writes = true /\ forallb snd table_reads_in_execute = true /\ forallb snd table_reads_elsewhere = true /\
  List.length table_writes = 4 /\ 4 <= List.length table_reads_in_execute /\
  (* no method takes the mutex again while holding it (sync.RWMutex is not reentrant: a reader that re-locks behind a queued
     writer deadlocks the gateway), and no return statement leaves it held *)
  reentrant_lock_sites = [] /\ returns_holding_lock = [] /\
  (* a generation is installed in ONE critical section: the four writes share their Lock call (the model's WUnlock is only
     enabled once all four tables carry the new generation) *)
  match table_write_sections with [] => false | x :: t => forallb (String.eqb x) t end = true.
Proof. vm_compute. repeat split; try reflexivity; repeat constructor. Qed.
Print Assumptions C11_source_follows_protocol.

(* What the lock does NOT cover (the property's "unguarded state"): the service map is replaced outside the lock, and the
   model shows a query that reads tables of generation 0 together with the service map of generation 1.  plan.go:301 routes
   root fields by iterating that map, so during UpdateServiceList's poll a root field of a removed service is silently left
   out (known finding KF-service-list-window). *)
Theorem C11_service_map_outside_lock_refuted :
  existsb (fun w => negb (snd w)) service_map_writes = true /\
  exists ls s, run init ls = Some s /\ q_tabs (qget s 7) = [0; 0] /\ q_svc (qget s 7) = [1].
Proof. split; [vm_compute; reflexivity|]. exact service_map_refuted. Qed.
Print Assumptions C11_service_map_outside_lock_refuted.

Example C11_refresh_example :
  exists s, run init [QLock 1; QRead 1 0; QUnlock 1; WLock; WWrite 0; WWrite 1; WWrite 2; WWrite 3; WUnlock; QLock 2; QRead 2 0; QRead 2 3] = Some s /\
            q_tabs (qget s 1) = [0] /\ q_tabs (qget s 2) = [1; 1].
Proof. exact refresh_example. Qed.
