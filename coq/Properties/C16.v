(* Properties/C16.v — Mutations are delivered exactly once, as mutations, to their owner.  Statements only. *)
From V Require Import Base.Util Gql.Ast Model.Plan Proofs.PlanProofs Model.Perm Model.Gateway Proofs.ExecReqProofs.

(* Root routing: a root field that has an owner is placed in the root selection of exactly one service — its owner —
   whatever the set of (distinct) services; so it is sent once, never to a service that does not own it. *)
Theorem C16_root_field_once : forall c al n args ds t oss parent o (locs : list string),
  url_for c parent "" n = Some o -> String.eqb n "__typename" = false -> NoDup locs -> In o locs ->
  flat_map (fun loc => filter_loc c (SField al n args ds t oss) loc parent) locs = [SField al n args ds t oss].
Proof. exact root_field_once. Qed.
Print Assumptions C16_root_field_once.

(* never duplicated by fragments, aliases or step merging: the planner invents no field *)
Theorem C16_no_invented_field : forall c root ss steps,
  plan c root ss = Ok steps -> incl (flat_map sfields steps) (flat_map ufields ss).
Proof. exact plan_sub. Qed.
Print Assumptions C16_no_invented_field.

(* never sent as a query, and queries never sent as mutations: for EVERY generation, world (data, faults), operation,
   variables, permission set, limit and fuel, every downstream request of the whole gateway model is either an entity lookup
   - and then a query, so everything done to complete a mutation's result is read-only - or a root request whose operation
   type is mutation exactly when the step's parent type is Mutation. *)
Theorem C16_operation_types : forall G fschema W op vars P max fuel oc,
  gateway G fschema W op vars P max fuel = Ok oc ->
  Forall (fun rq => match rq_lookup rq with
                    | Some _ => rq_optype rq = OQuery
                    | None => rq_optype rq = opkind_of_root (rq_parent rq) end) (oc_requests oc).
Proof. exact gateway_reqs. Qed.
Print Assumptions C16_operation_types.
