(* Properties/C19.v — The JWT plugin fails closed.  Statements only. *)
From V Require Import Base.Util Base.Assoc Model.Jwt.

(* Whatever is presented: if the request is let through then either no token was presented and it runs with exactly the
   public role's permissions (the zero set if none is configured) and no claim header, or the token is well formed,
   names an RSA algorithm, its key id is a configured key, the signature verifies under THAT key, its time claims are
   valid, its role is configured, and the request runs with exactly that role's permissions and the standard claims
   and role as headers.  (golang-jwt's parsing and RSA are the oracles t_wellformed / t_verifies_under.) *)
Theorem C19_fails_closed : forall c p perms hdrs,
  decide c p = Proceed perms hdrs ->
  (p = NoToken /\ perms = lookup "public_role" (j_roles c) /\ hdrs = []) \/
  (exists t, p = Presented t /\ t_wellformed t = true /\ rsa_alg (t_alg t) = true /\
             (let kid := match t_kid t with Some k => k | None => "" end in
              In kid (j_keys c) /\ In kid (t_verifies_under t)) /\
             t_time_valid t = true /\
             exists ps, lookup (t_role t) (j_roles c) = Some ps /\ perms = Some ps /\
                        hdrs = map (fun kv => ("JWT-Claim-" +++ fst kv, snd kv)) (t_claims t) ++ [("JWT-Claim-Role", t_role t)]).
Proof.
  intros c p perms hdrs H. destruct p as [|t]; simpl in H.
  - left. inversion H; auto.
  - right. exists t. split; [reflexivity|].
    destruct (t_wellformed t); simpl in H; [|discriminate].
    destruct (rsa_alg (t_alg t)); simpl in H; [|discriminate].
    destruct (t_kid t) as [kid|].
    + destruct (mem kid (j_keys c)) eqn:E1; simpl in H; [|discriminate].
      destruct (mem kid (t_verifies_under t)) eqn:E2; simpl in H; [|discriminate].
      destruct (t_time_valid t); simpl in H; [|discriminate].
      destruct (lookup (t_role t) (j_roles c)) as [ps|] eqn:El; [|discriminate].
      inversion H; subst. apply mem_in in E1. apply mem_in in E2. repeat split; auto. exists ps. auto.
    + destruct (mem "" (j_keys c)) eqn:E1; simpl in H; [|discriminate].
      destruct (mem "" (t_verifies_under t)) eqn:E2; simpl in H; [|discriminate].
      destruct (t_time_valid t); simpl in H; [|discriminate].
      destruct (lookup (t_role t) (j_roles c)) as [ps|] eqn:El; [|discriminate].
      inversion H; subst. apply mem_in in E1. apply mem_in in E2. repeat split; auto. exists ps. auto.
Qed.
Print Assumptions C19_fails_closed.

(* every single defect is enough for a 401 *)
Theorem C19_any_defect_rejects : forall c t,
  (t_wellformed t = false \/ rsa_alg (t_alg t) = false \/
   (forall k, t_kid t = Some k -> mem k (j_keys c) && mem k (t_verifies_under t) = false) /\ (t_kid t = None -> mem "" (j_keys c) && mem "" (t_verifies_under t) = false) \/
   t_time_valid t = false \/ lookup (t_role t) (j_roles c) = None) ->
  decide c (Presented t) = Reject401.
Proof.
  intros c t H. unfold decide.
  destruct (t_wellformed t); [|reflexivity]. destruct (rsa_alg (t_alg t)); [|reflexivity]. simpl.
  destruct H as [H|[H|[H|[H|H]]]]; try discriminate.
  - destruct H as [Hk Hn]. destruct (t_kid t) as [k|].
    + specialize (Hk k eq_refl). apply andb_false_iff in Hk. destruct Hk as [Hk|Hk]; rewrite Hk; simpl; [reflexivity|].
      destruct (mem k (j_keys c)); reflexivity.
    + specialize (Hn eq_refl). apply andb_false_iff in Hn. destruct Hn as [Hn|Hn]; rewrite Hn; simpl; [reflexivity|].
      destruct (mem "" (j_keys c)); reflexivity.
  - rewrite H. destruct (t_kid t) as [k|].
    + destruct (mem k (j_keys c)); simpl; [|reflexivity]. destruct (mem k (t_verifies_under t)); reflexivity.
    + rewrite andb_false_r. reflexivity.
  - rewrite H. destruct (t_kid t) as [k|].
    + destruct (mem k (j_keys c)); simpl; [|reflexivity]. destruct (mem k (t_verifies_under t)); simpl; [|reflexivity].
      destruct (t_time_valid t); reflexivity.
    + destruct (mem "" (j_keys c) && mem "" (t_verifies_under t) && t_time_valid t); reflexivity.
Qed.
Print Assumptions C19_any_defect_rejects.

Example C19_example :
  let c := {| j_keys := ["k1"]; j_roles := [("user", "P")] |} in
  let t := {| t_wellformed := true; t_alg := "RS256"; t_kid := Some "k1"; t_verifies_under := ["k1"]; t_time_valid := true;
              t_role := "user"; t_claims := [("Subject", "bob")] |} in
  decide c (Presented t) = Proceed (Some "P") [("JWT-Claim-Subject", "bob"); ("JWT-Claim-Role", "user")] /\
  decide c NoToken = Proceed None [].
Proof. vm_compute. split; reflexivity. Qed.
