(* Properties/C15.v — @skip and @include are applied by the gateway exactly as the spec says.  Statements only. *)
From V Require Import Base.Util Gql.Ast Model.SkipInclude Model.Plan Proofs.SkipIncludeProofs Proofs.PlanProofs.

(* A field, inline fragment or spread is part of the executed query iff it has no true @skip and no false @include
   (spec_enabled is the specification; literal and variable conditions); a kept node keeps its response key, name,
   arguments, declared type, type condition and leaf/composite status and loses exactly the two directives. *)
Theorem C15_node_kept_iff_enabled : forall vars s l,
  skip_include_sel vars s = Ok l ->
  match spec_enabled vars (sel_dirs s) with
  | Some false => l = []
  | Some true => exists s', l = [s'] /\ sel_dirs s' = strip_dirs (sel_dirs s) /\
                  match s, s' with
                  | SField a n ar _ t oss, SField a' n' ar' _ t' oss' =>
                      a = a' /\ n = n' /\ ar = ar' /\ t = t' /\ (oss = None <-> oss' = None)
                  | SInline tc _ e _, SInline tc' _ e' _ => tc = tc' /\ e = e'
                  | SSpread f _ e tc _, SSpread f' _ e' tc' _ => f = f' /\ e = e' /\ tc = tc'
                  | _, _ => False
                  end
  | None => False
  end.
Proof. exact skip_include_node. Qed.
Print Assumptions C15_node_kept_iff_enabled.

(* at every depth: the rewritten operation contains no @skip/@include at all, so none is forwarded downstream *)
Theorem C15_directives_stripped : forall vars ss l, skip_include vars ss = Ok l -> forallb clean l = true.
Proof. exact skip_include_clean. Qed.
Print Assumptions C15_directives_stripped.

(* skipped selections are never requested: the planner only emits fields of the rewritten selection (plan_sub) *)
Theorem C15_not_requested : forall c root ss steps,
  plan c root ss = Ok steps -> incl (flat_map sfields steps) (flat_map ufields ss).
Proof. exact plan_sub. Qed.
Print Assumptions C15_not_requested.

(* non-vacuity *)
Example C15_example :
  skip_include [("v", JBool true)]
    [SField "a" "a" [] [{| d_name := "skip"; d_args := [("if", VVar "v")] |}] (TNamed "String" false) None;
     SField "b" "b" [] [{| d_name := "include"; d_args := [("if", VBool true)] |}; {| d_name := "x"; d_args := [] |}] (TNamed "String" false) None]
  = Ok [SField "b" "b" [] [{| d_name := "x"; d_args := [] |}] (TNamed "String" false) None].
Proof. vm_compute. reflexivity. Qed.
