(* Properties/C02.v — Responses are well-formed GraphQL results whatever the services do.  Statements only.
   The universally quantified null-propagation theorem (S-bubble) is work in progress; what is stated here is proved. *)
From V Require Import Base.Util Gql.Ast Gql.RefExec Model.Plan Model.MergeRes Model.Gateway Proofs.ExecProofs Proofs.PlanProofs.

(* every failure of a step is turned into an error entry that names the service (never dropped silently) *)
Theorem C02_step_errors_named : forall G W vars fuel st a a',
  exec_root G W vars fuel st a = Ok a' -> Forall named (a_errors a) -> Forall named (a_errors a').
Proof. exact exec_root_named. Qed.
Print Assumptions C02_step_errors_named.

(* no fabricated field: whatever is requested was selected by the client *)
Theorem C02_no_fabricated_field : forall c root ss steps,
  plan c root ss = Ok steps -> incl (flat_map sfields steps) (flat_map ufields ss).
Proof. exact plan_sub. Qed.
Print Assumptions C02_no_fabricated_field.
