(* Properties/C02.v — Responses are well-formed GraphQL results whatever the services do.  Statements only.
   The universally quantified null-propagation theorem (S-bubble) is work in progress; what is stated here is proved. *)
From V Require Import Base.Util Gql.Ast Gql.RefExec Model.Plan Model.MergeRes Model.Gateway Proofs.ExecProofs Proofs.PlanProofs.

(* every failure of a step is turned into an error entry that names the service (never dropped silently) *)
Theorem C02_step_errors_named : forall G W vars fuel st a a',
  exec_root G W vars fuel st a = Ok a' -> Forall named (a_errors a) -> Forall named (a_errors a').
Proof. exact exec_root_named. Qed.
Print Assumptions C02_step_errors_named.

(* no fabricated field: whatever is requested was selected by the client *)
Theorem C02_no_fabricated_field : forall c root ss steps,
  plan c root ss = Ok steps -> incl (flat_map sfields steps) (flat_map ufields ss).
Proof. exact plan_sub. Qed.
Print Assumptions C02_no_fabricated_field.

(* "Whatever the services do": at the level of the whole gateway model, for EVERY generation, world (data, downstream
   behaviour, fault assignment), operation, variables, permission set, limit and fuel, a response is produced (no downstream
   behaviour makes the gateway fail to answer; the only refusal is an invalid @skip/@include condition, which validation
   excludes), and a response that carries no data carries at least one error. *)
From V Require Import Model.Perm Model.SkipInclude Proofs.GatewayTotal.
Theorem C02_always_answers : forall G fschema W op vars P max fuel ss0,
  skip_include vars (o_sel op) = Ok ss0 -> exists oc, gateway G fschema W op vars P max fuel = Ok oc.
Proof. exact gateway_answers. Qed.
Print Assumptions C02_always_answers.
Theorem C02_no_data_means_error : forall G fschema W op vars P max fuel oc,
  gateway G fschema W op vars P max fuel = Ok oc -> r_data (oc_response oc) = None -> r_errors (oc_response oc) <> [].
Proof. exact gateway_no_data_means_error. Qed.
Print Assumptions C02_no_data_means_error.

(* "the null propagates ... and every value that differs is accounted for by an entry in errors", the propagation half, for
   EVERY schema, selection, merged tree, path and fuel: whenever the null-propagation pass tells its caller to null the
   enclosing position it has reported an error; and at the level of the whole gateway model, a response whose data was nulled
   by propagation is `null` and carries a null-propagation error (Proofs/BubbleAccount.v). *)
From V Require Import Model.Shape Proofs.BubbleAccount.
Theorem C02_propagated_null_is_reported : forall fuel c cur ss v path v' ss' errs,
  bubble fuel c cur ss v path = BOk v' ss' errs true -> errs <> [].
Proof. exact bubble_up_reported. Qed.
Print Assumptions C02_propagated_null_is_reported.
Theorem C02_nulled_response_names_the_propagation : forall G fschema W op vars P max fuel oc merged v ss' berrs,
  gateway G fschema W op vars P max fuel = Ok oc -> oc_merged oc = Some merged ->
  bubble fuel fschema None (oc_op oc) merged [] = BOk v ss' berrs true ->
  r_data (oc_response oc) = Some JNull /\ exists e, In e (r_errors (oc_response oc)) /\ ge_kind e = ENullBubble.
Proof. exact gateway_propagated_null_reported. Qed.
Print Assumptions C02_nulled_response_names_the_propagation.
