(* Properties/C03.v — Field-level permissions are enforced on every path to the data.  Statements only. *)
From V Require Import Base.Util Gql.Ast Model.Perm Model.PermFilter Model.PermSpec Model.Plan Proofs.PermFilterProofs Proofs.PlanProofs Proofs.PermSpecProofs.

(* every field that survives filtering lies on a field-name path the permission tree allows (walking the tree as
   filterFields does); with allow-all the selection is untouched and no error is raised *)
Theorem C03_filter_sound : forall path a ss k e,
  filter_fields path a ss = (k, e) ->
  (af_all a = true /\ k = ss /\ e = []) \/
  (af_all a = false /\ Forall (fun p => walk_allowed a p = true) (flat_map rel_paths k)).
Proof. exact filter_fields_sound. Qed.
Print Assumptions C03_filter_sound.

(* ... and walking the tree is path membership by the documented specification (docs/access-control.md) *)
Theorem C03_walk_is_spec : forall a p, existsb starts_uu p = false -> walk_allowed a p = allows a p.
Proof. exact walk_is_allows. Qed.
Print Assumptions C03_walk_is_spec.

(* no field outside the filtered selection is ever requested downstream: the planner adds nothing but helper-aliased
   plumbing (plan_sub), for every schema and ownership table *)
Theorem C03_no_leak_downstream : forall c root ss steps,
  plan c root ss = Ok steps -> incl (flat_map sfields steps) (flat_map ufields ss).
Proof. exact plan_sub. Qed.
Print Assumptions C03_no_leak_downstream.

(* filterFields IS the specification.  Model/PermSpec.v states, from the documentation and [allows] alone, which selection
   survives (a field is kept iff the path of field names from the root to it is allowed; fragments add no segment; meta fields
   are always allowed) and which paths are reported; for EVERY permission tree, every node of it reached through nodes that are
   not allow-all, and every selection without a sub-selection under __typename, the model of auth.go's filterFields returns
   exactly that selection and exactly those paths, rendered "root.a.b access disallowed".  So: nothing outside the allowed set
   survives, everything inside does (the authorized part is what the client would have sent), and every removed field is
   reported once, by its path. *)
Theorem C03_filter_is_the_specification : forall root pre s p a,
  at_path root p a -> af_all a = false -> wf_sel s = true ->
  filter_sel (pre ++ p) a s = (fst (spec_filter root p s), render pre (snd (spec_filter root p s))).
Proof. exact filter_is_spec. Qed.
Print Assumptions C03_filter_is_the_specification.

Example C03_example :
  filter_fields ["query"] (AF false [("movies", AF false [("title", AF false [])])])
    [SField "movies" "movies" [] [] (TNamed "Movie" false)
       (Some [SField "title" "title" [] [] (TNamed "String" false) None; SField "year" "year" [] [] (TNamed "Int" false) None])]
  = ([SField "movies" "movies" [] [] (TNamed "Movie" false) (Some [SField "title" "title" [] [] (TNamed "String" false) None])],
     ["query.movies.year"]).
Proof. vm_compute. reflexivity. Qed.
