(* Properties/C03.v — Field-level permissions are enforced on every path to the data.  Statements only. *)
From V Require Import Base.Util Gql.Ast Model.Perm Model.PermFilter Model.Plan Proofs.PermFilterProofs Proofs.PlanProofs.

(* every field that survives filtering lies on a field-name path the permission tree allows (walking the tree as
   filterFields does); with allow-all the selection is untouched and no error is raised *)
Theorem C03_filter_sound : forall path a ss k e,
  filter_fields path a ss = (k, e) ->
  (af_all a = true /\ k = ss /\ e = []) \/
  (af_all a = false /\ Forall (fun p => walk_allowed a p = true) (flat_map rel_paths k)).
Proof. exact filter_fields_sound. Qed.
Print Assumptions C03_filter_sound.

(* ... and walking the tree is path membership by the documented specification (docs/access-control.md) *)
Theorem C03_walk_is_spec : forall a p, existsb starts_uu p = false -> walk_allowed a p = allows a p.
Proof. exact walk_is_allows. Qed.
Print Assumptions C03_walk_is_spec.

(* no field outside the filtered selection is ever requested downstream: the planner adds nothing but helper-aliased
   plumbing (plan_sub), for every schema and ownership table *)
Theorem C03_no_leak_downstream : forall c root ss steps,
  plan c root ss = Ok steps -> incl (flat_map sfields steps) (flat_map ufields ss).
Proof. exact plan_sub. Qed.
Print Assumptions C03_no_leak_downstream.

Example C03_example :
  filter_fields ["query"] (AF false [("movies", AF false [("title", AF false [])])])
    [SField "movies" "movies" [] [] (TNamed "Movie" false)
       (Some [SField "title" "title" [] [] (TNamed "String" false) None; SField "year" "year" [] [] (TNamed "Int" false) None])]
  = ([SField "movies" "movies" [] [] (TNamed "Movie" false) (Some [SField "title" "title" [] [] (TNamed "String" false) None])],
     ["query.movies.year"]).
Proof. vm_compute. reflexivity. Qed.
