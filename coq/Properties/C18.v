(* Properties/C18.v — Permission sets form a consistent algebra.  ONLY statements, each closed by [exact]. *)
From V Require Import Base.Util Model.Perm Proofs.PermProofs.

(* Serialising and re-reading a permission set never changes which field paths it allows. *)
Theorem C18_roundtrip : forall a, wf a ->
  exists a', unmarshal (marshal a) af_zero = Some a' /\ forall p, allows a' p = allows a p.
Proof. exact roundtrip. Qed.
Print Assumptions C18_roundtrip.

(* The union of permission sets allows exactly the paths allowed by at least one of them. *)
Theorem C18_union : forall (l : list af) f p, Forall wf l ->
  allows (merge_list l) (f :: p) = existsb (fun a => allows a (f :: p)) l.
Proof. exact merge_list_allows. Qed.
Print Assumptions C18_union.

(* ... so adding a role never removes access and never grants a path none of the roles grants. *)
Corollary C18_union_monotone : forall (l : list af) a f p, Forall wf (a :: l) ->
  allows (merge_list l) (f :: p) = true -> allows (merge_list (a :: l)) (f :: p) = true.
Proof.
  intros l a f p HF H. inversion HF as [|? ? Ha HF']; subst.
  rewrite C18_union in H by assumption. rewrite C18_union by assumption.
  cbn [existsb]. rewrite H. apply orb_true_r.
Qed.
Print Assumptions C18_union_monotone.

(* non-vacuity: the nested example of docs/access-control.md satisfies the hypotheses and round-trips *)
Example C18_docs_example :
  let a := AF false [("movies", AF false [("title", AF false []); ("cast", AF false [("firstName", AF false [])])])] in
  wf a /\ unmarshal (marshal a) af_zero = Some a /\
  allows a ["movies";"cast";"firstName"] = true /\ allows a ["movies";"cast";"lastName"] = false.
Proof.
  split; [|vm_compute; repeat split; reflexivity].
  repeat (constructor; simpl; try tauto; try (intros [H|H]; [discriminate|tauto])).
Qed.
