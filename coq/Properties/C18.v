(* Properties/C18.v — Permission sets form a consistent algebra.  ONLY statements, each closed by [exact]. *)
From V Require Import Base.Util Model.Perm Proofs.PermProofs Model.View Proofs.ViewProofs.

(* Serialising and re-reading a permission set never changes which field paths it allows. *)
Theorem C18_roundtrip : forall a, wf a ->
  exists a', unmarshal (marshal a) af_zero = Some a' /\ forall p, allows a' p = allows a p.
Proof. exact roundtrip. Qed.
Print Assumptions C18_roundtrip.

(* The union of permission sets allows exactly the paths allowed by at least one of them. *)
Theorem C18_union : forall (l : list af) f p, Forall wf l ->
  allows (merge_list l) (f :: p) = existsb (fun a => allows a (f :: p)) l.
Proof. exact merge_list_allows. Qed.
Print Assumptions C18_union.

(* ... so adding a role never removes access and never grants a path none of the roles grants. *)
Corollary C18_union_monotone : forall (l : list af) a f p, Forall wf (a :: l) ->
  allows (merge_list l) (f :: p) = true -> allows (merge_list (a :: l)) (f :: p) = true.
Proof.
  intros l a f p HF H. inversion HF as [|? ? Ha HF']; subst.
  rewrite C18_union in H by assumption. rewrite C18_union by assumption.
  cbn [existsb]. rewrite H. apply orb_true_r.
Qed.
Print Assumptions C18_union_monotone.

(* non-vacuity: the nested example of docs/access-control.md satisfies the hypotheses and round-trips *)
Example C18_docs_example :
  let a := AF false [("movies", AF false [("title", AF false []); ("cast", AF false [("firstName", AF false [])])])] in
  wf a /\ unmarshal (marshal a) af_zero = Some a /\
  allows a ["movies";"cast";"firstName"] = true /\ allows a ["movies";"cast";"lastName"] = false.
Proof.
  split; [|vm_compute; repeat split; reflexivity].
  repeat (constructor; simpl; try tauto; try (intros [H|H]; [discriminate|tauto])).
Qed.

(* The schema view derived from a permission set agrees with query filtering.
   FULL STATEMENT (both directions): for every type T and field f of the source schema,
       view_visible (filter_schema fuel S p) T f = true  <->  Selectable S p T f
   where Selectable says that some query selecting T.f is left intact by filtering: T is reached from a root along
   permitted fields (through possible types and through fragments on overlapping types) under a permission node that
   allows f.  The direction "<-" is FALSE of the faithful model and of the code: see C18_view_complete_refuted below
   (known finding KF-view-drops-types).  Proved for every schema, permission set and fuel: the direction "->",
   i.e. the view never shows a field that no intact query can select. *)
Theorem C18_view_sound_partial : forall S p fuel, std_roots S -> forall T f,
  view_visible (filter_schema fuel S p) T f = true -> Selectable S p T f.
Proof. exact view_sound. Qed.
Print Assumptions C18_view_sound_partial.

(* The converse fails: Fish implements Named, Query.pet : Pet (union of Fish), permissions {"query":{"pet":"*"}}.
   pet { ... on Fish { ... on Named { name } } } is left intact by filtering, yet Named is not in the view. *)
Theorem C18_view_complete_refuted :
  std_roots S_refute /\ Selectable S_refute p_refute "Named" "name" /\
  view_visible (filter_schema 20 S_refute p_refute) "Named" "name" = false.   (* 20 exceeds the recursion depth on this input *)
Proof. exact view_complete_refuted. Qed.
Print Assumptions C18_view_complete_refuted.

(* non-vacuity of C18_view_sound_partial: a proper, non-empty view *)
Example C18_view_example :
  std_roots S_refute /\ view_visible (filter_schema 20 S_refute p_refute) "Fish" "name" = true.
Proof. split; [repeat split; intros n E; inversion E; reflexivity | vm_compute; reflexivity]. Qed.
