(* Properties/C08.v — Merging is order-independent and never resolves a conflict silently.  Statements only. *)
From V Require Import Base.Util Gql.Ast Model.Merge Proofs.MergeProofs.

(* No conflict is resolved silently: whatever else the two schemas contain and wherever in the second schema the
   definition sits, if the accumulated schema and the new schema define the same name and the pair is a conflict
   (pair_conflict: different kinds; or, for non-scalars, one side not a boundary/namespace type and the name not
   Query/Mutation; or boundary/namespace flags that disagree; or a federation type that is not an OBJECT),
   the pairwise merge FAILS. *)
Theorem C08_conflict_fails : forall a b vb va,
  NoDup (map td_name b) -> In vb b ->
  starts_uu (td_name vb) || String.eqb (td_name vb) "Node" || String.eqb (td_name vb) "Service" = false ->
  find_type (td_name vb) (map clean (filter (fun t => negb (String.eqb (td_name t) "Node" || String.eqb (td_name t) "Service")) a)) = Some va ->
  pair_conflict (td_name vb) va (clean vb) = true ->
  is_ok (merge_types a b) = false.
Proof. exact merge_types_conflict. Qed.
Print Assumptions C08_conflict_fails.

(* the listed conflicts are instances of pair_conflict *)
Theorem C08_duplicate_definition_is_conflict : forall k va nvb,   (* same object / interface / union / enum / input in two services; boundary vs plain *)
  kind_eqb (td_kind nvb) KScalar = false -> (fed nvb = false \/ fed va = false) ->
  String.eqb k "Query" || String.eqb k "Mutation" = false -> pair_conflict k va nvb = true.
Proof. exact conflict_same_kind_not_shared. Qed.
Theorem C08_kind_collision_is_conflict : forall k va nvb,
  kind_eqb (td_kind nvb) (td_kind va) = false -> pair_conflict k va nvb = true.
Proof. exact conflict_kind_collision. Qed.
Theorem C08_flag_disagreement_is_conflict : forall k va nvb,       (* boundary vs non-boundary, namespace vs boundary *)
  kind_eqb (td_kind nvb) KScalar = false ->
  (Bool.eqb (td_boundary va) (td_boundary nvb) = false \/ Bool.eqb (td_namespace va) (td_namespace nvb) = false) ->
  pair_conflict k va nvb = true.
Proof. exact conflict_flags. Qed.
Print Assumptions C08_flag_disagreement_is_conflict.

(* the same field of a shared type (other than the key) in two services *)
Theorem C08_overlapping_boundary_field_fails : forall a b f,
  In f (mergeable_fields b) -> is_id_field f = false ->
  existsb (fun rf => String.eqb (fd_name rf) (fd_name f)) (own_fields a) = true ->
  is_ok (merge_boundary a b) = false.
Proof. exact merge_boundary_overlap. Qed.
Print Assumptions C08_overlapping_boundary_field_fails.

(* non-vacuity *)
Example C08_example :
  let plain n := {| td_name := n; td_kind := KObject; td_fields := []; td_ifaces := []; td_members := []; td_enum := [];
                    td_boundary := false; td_namespace := false; td_desc := "" |} in
  is_ok (merge_types [plain "Query"; plain "Dup"] [plain "Query"; plain "Dup"]) = false /\
  is_ok (merge_types [plain "Query"; plain "X"] [plain "Query"; plain "Y"]) = true.
Proof. vm_compute. split; reflexivity. Qed.
