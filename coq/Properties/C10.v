(* Properties/C10.v — After any polling history the gateway serves the right schema, atomically.  Statements only. *)
From V Require Import Base.Util Model.Poll Proofs.PollProofs.

(* For EVERY finite history of polls (any outcome per service: unchanged, new valid schema, unreachable, syntax error,
   rule violation, valid-but-conflicting; several failures at once) and service-list replacements, starting from any
   list: the published generation is exactly what the specification recomputes after each event — the merge of the
   latest schemas of the listed services whose most recent poll succeeded, or, when that merge is impossible
   (conflict, nothing healthy), the previously published generation.
   Parameters: which texts parse/validate ([classify]) and which sets merge ([mergeable]) are arbitrary; the only
   hypotheses are that the empty source is not a valid schema and that nothing merges from no schema. *)
Theorem C10_published : forall (classify : string -> skind) (mergeable : generation -> bool),
  classify "" <> KValid -> mergeable [] = false ->
  forall urls es,
    ps_published (fold_left (step classify mergeable) es (init urls)) = run_spec classify mergeable (init urls) None es.
Proof. intros classify mergeable H1 H2 urls es. apply published_is_spec; assumption. Qed.
Print Assumptions C10_published.

(* one step: published = spec, and the invariant that makes "a recovered service is re-admitted at the next poll" and
   "a failed one never blocks the others" consequences of the specification is preserved *)
Theorem C10_step : forall classify mergeable, classify "" <> KValid ->
  forall st e, Inv classify mergeable st ->
    let st' := step classify mergeable st e in
    ps_published st' = spec_published mergeable (ps_published st) st' /\ Inv classify mergeable st'.
Proof. intros classify mergeable H st e Hi. apply step_spec; assumption. Qed.
Print Assumptions C10_step.

(* the health indicator after a refresh is set iff a poll failed or the attempted merge failed (literal reading) *)
Theorem C10_gauge : forall classify mergeable force outs st,
  ps_gauge (refresh classify mergeable force outs st) =
  let pl := polled classify outs (ps_services st) in
  let any_err := existsb (fun p : string * (cache * bool * bool) => snd (snd p)) pl in
  let any_upd := existsb (fun p : string * (cache * bool * bool) => negb (snd (snd p)) && snd (fst (snd p))) pl in
  any_err || ((any_upd || force || any_err) && negb (mergeable (healthy_of (after classify outs (ps_services st))))).
Proof. intros. apply gauge_refresh. Qed.
Print Assumptions C10_gauge.

(* the stronger reading ("set while the published schema is not the merge of the healthy set") is false:
   after a conflicting poll the next quiet poll resets the indicator although the stale schema is still served *)
Example C10_gauge_strong_refuted :
  let classify := fun s => if String.eqb s "" then KSyntax else KValid in
  let mergeable := fun g : generation => match g with [_] => true | _ => false end in
  let outs := [("a", Serve "A1"); ("b", Serve "B1")] in
  let st := fold_left (step classify mergeable) [EPoll [("a", Serve "A1"); ("b", Unreachable)]; EPoll outs; EPoll outs] (init ["a"; "b"]) in
  ps_gauge st = false /\ ps_published st = Some [("a", "A1")] /\ mergeable (healthy st) = false.
Proof. vm_compute. repeat split; reflexivity. Qed.
