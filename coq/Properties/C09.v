(* Properties/C09.v — Accepted service schemas are serviceable; rule-breaking ones are rejected.  Statements only. *)
From V Require Import Base.Util Gql.Ast Model.Merge Model.Validate Proofs.ValidateProofs.

(* "One that breaks a rule the gateway depends on is rejected", as its contrapositive: whatever ValidateSchema accepts
   satisfies every listed rule.  The rules are stated in Proofs/ValidateProofs.v independently of the checks:
   - rule_roots: the root types are named Query / Mutation / Subscription;
   - rule_service_field / rule_service_type: Query.service: Service! without arguments, and Service is an object with exactly
     name, version, schema : String!;
   - rule_boundary_key: every boundary object has id: ID!;
   - rule_lookups (current syntax): every marked Query field is a well-typed lookup in single or array form, and every
     boundary object has exactly one;
   - rule_namespace_parents / rule_namespace_links: a namespace type is only a field type inside a namespace or a root, and
     every namespace link reachable from a root is non-null (any depth, cyclic namespaces included);
   - the schema stays valid once the plumbing is removed (oracle flag: MergeSchemas + print + reload). *)
Theorem C09_accepted_obeys_rules : forall s, validate s = Ok tt ->
  rule_roots s /\ rule_service_field s /\ rule_service_type s /\ rule_boundary_key s /\ rule_namespace_parents s /\
  vs_valid_after_merge s = true /\
  (modern s -> rule_lookups s) /\
  (existsb obj_namespace (vs_types s) = true -> rule_namespace_links s).
Proof.
  intros s H. split; [exact (accepted_roots s H)|]. split; [exact (accepted_service_field s H)|].
  split; [exact (accepted_service_type s H)|]. split; [exact (accepted_boundary_key s H)|].
  split; [exact (accepted_namespace_parents s H)|]. split; [exact (proj2 (proj2 (proj2 (proj2 (proj2 (acc_parts s H))))))|].
  split; [exact (accepted_lookups s H) | exact (accepted_namespace_links s H)].
Qed.
Print Assumptions C09_accepted_obeys_rules.

(* ... and therefore the table the executor consults for entity lookups (merge.go buildBoundaryFieldsMap) has an entry for
   every boundary type of an accepted service: BoundaryFieldsMap.Field cannot fail for a type the service declares. *)
Theorem C09_accepted_has_lookup_entries : forall s url, validate s = Ok tt -> modern s ->
  forall t, In t (vs_types s) -> obj_boundary t = true -> vs_query s = Some "Query" ->
  exists m, boundary_fields_map [{| sv_url := url; sv_types := vs_types s |}] = [(url, m)] /\ has_entry (td_name t) m.
Proof. exact accepted_lookup_entries. Qed.
Print Assumptions C09_accepted_has_lookup_entries.

(* The hypothesis [modern] cannot be dropped: the former Node-interface syntax is still accepted, yet gives the executor no
   lookup at all (known finding KF-legacy-node-accepted). *)
Theorem C09_legacy_syntax_refuted :
  validate legacy_witness = Ok tt /\
  exists t, In t (vs_types legacy_witness) /\ obj_boundary t = true /\
            boundary_fields_map [{| sv_url := "u"; sv_types := vs_types legacy_witness |}] = [("u", [])].
Proof. exact legacy_refuted. Qed.
Print Assumptions C09_legacy_syntax_refuted.

(* non-vacuity: a conforming schema in the current syntax with a boundary type, a lookup and a cyclic namespace is accepted *)
Example C09_conforming_example : validate modern_witness = Ok tt /\ modern modern_witness /\
  existsb obj_namespace (vs_types modern_witness) = true /\ existsb obj_boundary (vs_types modern_witness) = true.
Proof. exact modern_example. Qed.
