(* Properties/C05.v — A failing service only affects what depends on it.  Statements only. *)
From V Require Import Base.Util Gql.Ast Gql.RefExec Model.Plan Model.MergeRes Model.Gateway Proofs.ExecProofs.

(* Each failing service is named in an error: whatever the plan, the services, the fault assignment and the fuel,
   every error the step execution records carries the identity of the step's service (after fix bb4e4d3). *)
Theorem C05_named_root : forall G W vars fuel st a a',
  exec_root G W vars fuel st a = Ok a' -> Forall named (a_errors a) -> Forall named (a_errors a').
Proof. exact exec_root_named. Qed.
Print Assumptions C05_named_root.

Theorem C05_named_lookup : forall G W vars fuel f st ids a a',
  exec_child G W vars fuel f st ids a = Ok a' -> Forall named (a_errors a) -> Forall named (a_errors a').
Proof. exact exec_child_named. Qed.
Print Assumptions C05_named_lookup.

(* ... and so, at the level of the whole gateway model: whatever the generation, world, operation, variables, permission set,
   limit and fuel, every error of a downstream kind (relayed GraphQL error, timeout, other transport or protocol failure) in
   the response names the service that failed; the errors that do not are the gateway's own (permission, null propagation,
   internal). *)
From V Require Import Model.Perm Proofs.ExecGatewayNamed.
Theorem C05_every_downstream_error_names_its_service : forall G fschema W op vars P max fuel oc,
  gateway G fschema W op vars P max fuel = Ok oc ->
  Forall (fun e => downstream_kind (ge_kind e) = true -> ge_service e = true) (r_errors (oc_response oc)).
Proof. exact gateway_errors_named. Qed.
Print Assumptions C05_every_downstream_error_names_its_service.
