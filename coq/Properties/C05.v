(* Properties/C05.v — A failing service only affects what depends on it.  Statements only. *)
From V Require Import Base.Util Gql.Ast Gql.RefExec Model.Plan Model.MergeRes Model.Gateway Proofs.ExecProofs Model.MergeRes Proofs.MergeOrder Proofs.MergeConfine.
From Coq Require Import Permutation.

(* Each failing service is named in an error: whatever the plan, the services, the fault assignment and the fuel,
   every error the step execution records carries the identity of the step's service (after fix bb4e4d3). *)
Theorem C05_named_root : forall G W vars fuel st a a',
  exec_root G W vars fuel st a = Ok a' -> Forall named (a_errors a) -> Forall named (a_errors a').
Proof. exact exec_root_named. Qed.
Print Assumptions C05_named_root.

Theorem C05_named_lookup : forall G W vars fuel f st ids a a',
  exec_child G W vars fuel f st ids a = Ok a' -> Forall named (a_errors a) -> Forall named (a_errors a').
Proof. exact exec_child_named. Qed.
Print Assumptions C05_named_lookup.

(* ... and so, at the level of the whole gateway model: whatever the generation, world, operation, variables, permission set,
   limit and fuel, every error of a downstream kind (relayed GraphQL error, timeout, other transport or protocol failure) in
   the response names the service that failed; the errors that do not are the gateway's own (permission, null propagation,
   internal). *)
From V Require Import Model.Perm Proofs.ExecGatewayNamed.
Theorem C05_every_downstream_error_names_its_service : forall G fschema W op vars P max fuel oc,
  gateway G fschema W op vars P max fuel = Ok oc ->
  Forall (fun e => downstream_kind (ge_kind e) = true -> ge_service e = true) (r_errors (oc_response oc)).
Proof. exact gateway_errors_named. Qed.
Print Assumptions C05_every_downstream_error_names_its_service.

(* "every other value is unchanged", at the merge (execution_result.go:15-182).  [same_but K a b]: the decoded trees are
   equal as Go values except under object keys of K.  One lookup result, merged into ANY destination tree at ANY insertion
   point, changes that tree only under the response keys its items carry. *)
Theorem C05_one_result_writes_only_its_keys : forall s, wf_items s -> forall d ip e,
  M s ip d = Ok e -> same_but (allkeys s) d e.
Proof. exact M_confined. Qed.
Print Assumptions C05_one_result_writes_only_its_keys.

(* The fault-free execution merges the lookup results [rs], in their arrival order, into the root result and obtains T.  In
   an execution in which the results [lost] are missing (their steps failed, or were never run because a step above failed)
   and the others arrive in any order, the merge succeeds as well and its data differs from T only under the response keys
   the lost results carry - provided results whose relative order changes are independent (the planner hypothesis of C06,
   false on finding KF-key-clash-across-types).  PARTIAL: this is the merged data before null propagation and shaping, and
   lookups only (a failed root step is covered by C06_root_results_commute's nil case, not here). *)
Theorem C05_lost_lookups_only_remove_their_fields_partial : forall base rs kept lost T,
  Forall is_child rs -> Forall wf_res lost -> Permutation rs (kept ++ lost) ->
  (forall x y, before x y rs -> before y x (kept ++ lost) -> indep_res x y) ->
  merge_from base rs = Ok T ->
  exists T', merge_from base kept = Ok T' /\ same_but (keys_of lost) T' T.
Proof. exact lost_lookups_confined. Qed.
Print Assumptions C05_lost_lookups_only_remove_their_fields_partial.
