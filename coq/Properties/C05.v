(* Properties/C05.v — A failing service only affects what depends on it.  Statements only. *)
From V Require Import Base.Util Gql.Ast Gql.RefExec Model.Plan Model.MergeRes Model.Gateway Proofs.ExecProofs.

(* Each failing service is named in an error: whatever the plan, the services, the fault assignment and the fuel,
   every error the step execution records carries the identity of the step's service (after fix bb4e4d3). *)
Theorem C05_named_root : forall G W vars fuel st a a',
  exec_root G W vars fuel st a = Ok a' -> Forall named (a_errors a) -> Forall named (a_errors a').
Proof. exact exec_root_named. Qed.
Print Assumptions C05_named_root.

Theorem C05_named_lookup : forall G W vars fuel f st ids a a',
  exec_child G W vars fuel f st ids a = Ok a' -> Forall named (a_errors a) -> Forall named (a_errors a').
Proof. exact exec_child_named. Qed.
Print Assumptions C05_named_lookup.
