(* Properties/C20.v — Configuration hot reload is equivalent to a restart.  Statements only. *)
From V Require Import Base.Util Model.Config Proofs.ConfigProofs.

(* After ANY history (whatever state [st] the earlier edits left behind), a reload that is accepted puts in effect
   exactly what a freshly started gateway computes from the same file and environment — configured services, the
   BRAMBLE_SERVICE_LIST variable and the services contributed by the plugins the file enables, as a set and without
   duplicates; roles and key ids — provided the in-memory poll interval is parseable or the file sets it (guard of the
   recorded finding KF-stale-config-scalar). *)
Theorem C20_reload_equals_restart_partial : forall env st f,
  (cs_poll_ok st = true \/ f_poll f <> None) ->
  snd (load true true env st f) = true ->
  exists fr, fresh true true env f = Some fr /\ same_effect (reload true true env st f) fr /\
             NoDup (cs_eff (reload true true env st f)) /\ NoDup (cs_eff fr).
Proof. exact reload_equals_restart. Qed.
Print Assumptions C20_reload_equals_restart_partial.

(* An edit that cannot be loaded leaves what is in effect untouched, whatever the previous state. *)
Theorem C20_failed_edit_keeps_config : forall fixed pfixed env st f,
  snd (load fixed pfixed env st f) = false -> same_effect (reload fixed pfixed env st f) st.
Proof. exact failed_edit_keeps_config. Qed.
Print Assumptions C20_failed_edit_keeps_config.

(* ... and it does not stop later valid edits from being applied: what an accepted reload puts in effect does not depend
   on the state the history (refused edits included) left behind. *)
Theorem C20_accepted_reload_forgets_history_partial : forall env st1 st2 f,
  (cs_poll_ok st1 = true \/ f_poll f <> None) -> (cs_poll_ok st2 = true \/ f_poll f <> None) ->
  snd (load true true env st1 f) = true ->
  snd (load true true env st2 f) = true /\ same_effect (reload true true env st1 f) (reload true true env st2 f).
Proof. exact accepted_reload_forgets_history. Qed.
Print Assumptions C20_accepted_reload_forgets_history_partial.

(* The property over whole histories: after ANY sequence of edits none of which writes an invalid poll interval (guard of
   KF-stale-config-scalar), the running gateway has in effect what a fresh start computes from the LAST edit that could
   be loaded - whatever came before or after it, refused edits included - and the start configuration when none could. *)
Theorem C20_history_equals_restart_partial : forall env fs st,
  cs_poll_ok st = true -> forallb poll_ok_file fs = true ->
  cs_poll_ok (run env st fs) = true /\
  match last_accepted env fs with
  | Some f => exists fr, fresh true true env f = Some fr /\ same_effect (run env st fs) fr
  | None => same_effect (run env st fs) st
  end.
Proof. exact history_equals_restart. Qed.
Print Assumptions C20_history_equals_restart_partial.

(* FULL STATEMENT refuted on the code as it is: an unloadable edit with an invalid poll interval makes the next valid
   edit unloadable although a restart on that file succeeds (recorded finding KF-stale-config-scalar). *)
Theorem C20_refuted_stale_scalar :
  exists env (f_bad f_good : file) fr,
    let st0 := {| cs_mem := ["s1"]; cs_eff := ["s1"]; cs_roles := []; cs_keys := []; cs_poll_ok := true; cs_plug := [] |} in
    fresh true true env f_good = Some fr /\ cs_eff (reload true true env (reload true true env st0 f_bad) f_good) <> cs_eff fr.
Proof.
  exists [], {| f_loadable := true; f_poll := Some false; f_services := Some ["s2"]; f_roles := None; f_keys := None; f_plug := [] |},
         {| f_loadable := true; f_poll := None; f_services := Some ["s3"]; f_roles := None; f_keys := None; f_plug := [] |}.
  eexists. split; [vm_compute; reflexivity|]. vm_compute. discriminate.
Qed.
Print Assumptions C20_refuted_stale_scalar.

(* the defects repaired by fix commits, as refutations of the model of d802d19 *)
Theorem C20_refuted_before_fix_omitted_services :
  exists env st f fr, fresh false true env f = Some fr /\ snd (load false true env st f) = true /\ cs_eff (reload false true env st f) <> cs_eff fr.
Proof.
  exists ["e1"], {| cs_mem := ["s1"; "e1"]; cs_eff := ["s1"; "e1"]; cs_roles := []; cs_keys := []; cs_poll_ok := true; cs_plug := [] |},
         {| f_loadable := true; f_poll := None; f_services := None; f_roles := None; f_keys := None; f_plug := [] |}.
  eexists. split; [vm_compute; reflexivity|]. split; [vm_compute; reflexivity|]. vm_compute. discriminate.
Qed.
Theorem C20_refuted_before_fix_role_removed :
  exists env st f fr, fresh false true env f = Some fr /\ snd (load false true env st f) = true /\ cs_roles (reload false true env st f) <> cs_roles fr.
Proof.
  exists [], {| cs_mem := ["s1"]; cs_eff := ["s1"]; cs_roles := [("admin", "*")]; cs_keys := []; cs_poll_ok := true; cs_plug := [] |},
         {| f_loadable := true; f_poll := None; f_services := Some ["s1"]; f_roles := Some [("user", "*")]; f_keys := None; f_plug := [] |}.
  eexists. split; [vm_compute; reflexivity|]. split; [vm_compute; reflexivity|]. vm_compute. discriminate.
Qed.
(* Load built the list with the plugins the PREVIOUS load had enabled: a file that no longer enables a plugin kept that
   plugin's service federated (and one that newly enables it did not get it), unlike a restart on the same file. *)
Theorem C20_refuted_before_fix_stale_plugin_service :
  exists env st f fr, fresh true false env f = Some fr /\ snd (load true false env st f) = true /\
                      ~ (forall x, In x (cs_eff (reload true false env st f)) <-> In x (cs_eff fr)).
Proof.
  exists [], {| cs_mem := ["s1"; "p"]; cs_eff := ["s1"; "p"]; cs_roles := []; cs_keys := []; cs_poll_ok := true; cs_plug := ["p"] |},
         {| f_loadable := true; f_poll := None; f_services := Some ["s1"]; f_roles := None; f_keys := None; f_plug := [] |}.
  eexists. split; [vm_compute; reflexivity|]. split; [vm_compute; reflexivity|].
  vm_compute. intros H. destruct (proj1 (H "p")) as [E|[]]; [right; left; reflexivity | discriminate E].
Qed.

(* non-vacuity of the partial theorems' premises *)
Example C20_example :
  let st := {| cs_mem := ["s9"]; cs_eff := ["s9"]; cs_roles := [("old", "*")]; cs_keys := ["k9"]; cs_poll_ok := true; cs_plug := ["p9"] |} in
  let f := {| f_loadable := true; f_poll := None; f_services := Some ["s1"; "s1"]; f_roles := Some [("user", "list")]; f_keys := Some ["k1"]; f_plug := ["p1"] |} in
  snd (load true true ["e1"] st f) = true /\ cs_eff (reload true true ["e1"] st f) = ["s1"; "e1"; "p1"] /\ cs_roles (reload true true ["e1"] st f) = [("user", "list")].
Proof. vm_compute. repeat split; reflexivity. Qed.

(* a history with a refused edit in the middle and one at the end: the second edit is the one in effect *)
Example C20_history_example :
  let st := {| cs_mem := ["s9"]; cs_eff := ["s9"]; cs_roles := []; cs_keys := []; cs_poll_ok := true; cs_plug := ["p9"] |} in
  let f1 := {| f_loadable := true; f_poll := None; f_services := Some ["s1"]; f_roles := Some [("a", "*")]; f_keys := None; f_plug := ["p1"] |} in
  let bad := {| f_loadable := false; f_poll := None; f_services := Some ["s7"]; f_roles := None; f_keys := None; f_plug := [] |} in
  let f2 := {| f_loadable := true; f_poll := Some true; f_services := None; f_roles := Some [("b", "list")]; f_keys := Some ["k"]; f_plug := [] |} in
  let empty := {| f_loadable := true; f_poll := None; f_services := Some []; f_roles := None; f_keys := None; f_plug := ["p2"] |} in
  forallb poll_ok_file [f1; bad; f2; empty] = true /\ last_accepted ["e1"] [f1; bad; f2; empty] = Some empty /\
  last_accepted [] [f1; bad; f2; empty] = Some f1 /\ cs_eff (run [] st [f1; bad; f2; empty]) = ["s1"; "p1"] /\
  cs_roles (run [] st [f1; bad; f2; empty]) = [("a", "*")].
Proof. vm_compute. repeat split; reflexivity. Qed.
