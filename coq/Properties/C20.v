(* Properties/C20.v — Configuration hot reload is equivalent to a restart.  Statements only. *)
From V Require Import Base.Util Model.Config.

Definition same_effect (a b : cstate) : Prop :=
  cs_eff a = cs_eff b /\ cs_roles a = cs_roles b /\ cs_keys a = cs_keys b.

(* After ANY history (whatever state [st] the earlier edits left behind), a reload that is accepted puts in effect
   exactly what a freshly started gateway computes from the same file and environment — provided the in-memory poll
   interval is parseable or the file sets it (guard of the recorded finding KF-stale-config-scalar). *)
Theorem C20_reload_equals_restart_partial : forall env st f,
  (cs_poll_ok st = true \/ f_poll f <> None) ->
  snd (load true env st f) = true ->
  exists fr, fresh true env f = Some fr /\ same_effect (reload true env st f) fr.
Proof.
  intros env st f Hg Hok. unfold fresh, reload, load in *. cbn [cs_poll_ok zero] in *.
  destruct (f_loadable f); cbn [negb orb] in *; [|discriminate].
  assert (Hp : match f_poll f with Some b => b | None => cs_poll_ok st end = match f_poll f with Some b => b | None => true end).
  { destruct (f_poll f) as [b|]; [reflexivity|]. destruct Hg as [Hg|Hg]; [exact Hg | contradiction]. }
  rewrite Hp in *. destruct (match f_poll f with Some b => b | None => true end); cbn [negb] in *; [|discriminate].
  destruct (union_set (match f_services f with Some l => l | None => [] end) env) eqn:Eu; cbn in *; [discriminate|].
  eexists. split; [reflexivity|]. repeat split.
Qed.
Print Assumptions C20_reload_equals_restart_partial.

(* An edit that cannot be loaded leaves what is in effect untouched, whatever the previous state. *)
Theorem C20_failed_edit_keeps_config : forall fixed env st f,
  snd (load fixed env st f) = false -> same_effect (reload fixed env st f) st.
Proof.
  intros fixed env st f H. unfold reload. destruct (load fixed env st f) as [st' ok] eqn:E. simpl in H. subst ok.
  unfold load in E.
  destruct (negb (f_loadable f) || negb (match f_poll f with Some b => b | None => cs_poll_ok st end)).
  - inversion E; subst. repeat split.
  - destruct (union_set _ env); inversion E; subst. repeat split.
Qed.
Print Assumptions C20_failed_edit_keeps_config.

(* FULL STATEMENT refuted on the code as it is: an unloadable edit with an invalid poll interval makes the next valid
   edit unloadable although a restart on that file succeeds (recorded finding KF-stale-config-scalar). *)
Theorem C20_refuted_stale_scalar :
  exists env (f_bad f_good : file) fr,
    let st0 := {| cs_mem := ["s1"]; cs_eff := ["s1"]; cs_roles := []; cs_keys := []; cs_poll_ok := true |} in
    fresh true env f_good = Some fr /\ cs_eff (reload true env (reload true env st0 f_bad) f_good) <> cs_eff fr.
Proof.
  exists [], {| f_loadable := true; f_poll := Some false; f_services := Some ["s2"]; f_roles := None; f_keys := None |},
         {| f_loadable := true; f_poll := None; f_services := Some ["s3"]; f_roles := None; f_keys := None |}.
  eexists. split; [vm_compute; reflexivity|]. vm_compute. discriminate.
Qed.
Print Assumptions C20_refuted_stale_scalar.

(* the two defects repaired by fix commits 90f22df and f91d55c, as refutations of the model of d802d19 *)
Theorem C20_refuted_before_fix_omitted_services :
  exists env st f fr, fresh false env f = Some fr /\ snd (load false env st f) = true /\ cs_eff (reload false env st f) <> cs_eff fr.
Proof.
  exists ["e1"], {| cs_mem := ["s1"; "e1"]; cs_eff := ["s1"; "e1"]; cs_roles := []; cs_keys := []; cs_poll_ok := true |},
         {| f_loadable := true; f_poll := None; f_services := None; f_roles := None; f_keys := None |}.
  eexists. split; [vm_compute; reflexivity|]. split; [vm_compute; reflexivity|]. vm_compute. discriminate.
Qed.
Theorem C20_refuted_before_fix_role_removed :
  exists env st f fr, fresh false env f = Some fr /\ snd (load false env st f) = true /\ cs_roles (reload false env st f) <> cs_roles fr.
Proof.
  exists [], {| cs_mem := ["s1"]; cs_eff := ["s1"]; cs_roles := [("admin", "*")]; cs_keys := []; cs_poll_ok := true |},
         {| f_loadable := true; f_poll := None; f_services := Some ["s1"]; f_roles := Some [("user", "*")]; f_keys := None |}.
  eexists. split; [vm_compute; reflexivity|]. split; [vm_compute; reflexivity|]. vm_compute. discriminate.
Qed.

(* non-vacuity of the partial theorem's premises *)
Example C20_example :
  let st := {| cs_mem := ["s9"]; cs_eff := ["s9"]; cs_roles := [("old", "*")]; cs_keys := ["k9"]; cs_poll_ok := true |} in
  let f := {| f_loadable := true; f_poll := None; f_services := Some ["s1"; "s1"]; f_roles := Some [("user", "list")]; f_keys := Some ["k1"] |} in
  snd (load true ["e1"] st f) = true /\ cs_eff (reload true ["e1"] st f) = ["s1"; "e1"] /\ cs_roles (reload true ["e1"] st f) = [("user", "list")].
Proof. vm_compute. repeat split; reflexivity. Qed.
