(* Properties/C06.v — The answer does not depend on the timing of downstream responses.  Statements only. *)
From Coq Require Import List Arith Bool Lia.
Import ListNotations.
From V Require Import Model.ConcExec Proofs.ConcExecProofs.

(* Mechanism 1 of the property, proved for every plan, every oracle of downstream outcomes, every limit and EVERY
   interleaving of main, collector and step goroutines: the list of results handed to the merge is causally ordered —
   a step's result is collected only after the result of the step that spawned it (so a lookup's ids always come
   from data that is already in the list when it is merged). *)
Theorem C06_results_causally_ordered : forall fixed max o roots ls st,
  run fixed max o ls (init roots) = Some st -> causal (results st) [].
Proof. exact results_causal. Qed.
Print Assumptions C06_results_causally_ordered.

(* the request counter is independent of the schedule as far as the limit is concerned *)
Theorem C06_limit_any_schedule : forall fixed max o roots ls st,
  run fixed max o ls (init roots) = Some st -> sent st <= max.
Proof. exact sent_within_limit. Qed.
Print Assumptions C06_limit_any_schedule.

(* Mechanism 3 of the property — "merge is by insertion point and id, not by position" — for the model of
   mergeExecutionResults (Model/MergeRes.v, tied to execution_result.go by the correspondence check of every run).
   [req] is equality of decoded JSON trees as Go values (maps compared by key, not by position in the association list). *)
From V Require Import Base.Util Gql.Ast Model.MergeRes Proofs.MergeOrder.
From Coq Require Import Permutation.

(* two lookup results that write different response keys into the objects they share, and of which neither descends
   through a key the other writes, can be merged in either order — for every destination tree and all insertion points *)
Theorem C06_independent_lookup_results_commute : forall s1 s2, wf_items s1 -> wf_items s2 -> forall d ip1 ip2 d1 d12,
  indep s1 ip1 s2 ip2 -> M s1 ip1 d = Ok d1 -> M s2 ip2 d1 = Ok d12 ->
  exists d2 d21, M s2 ip2 d = Ok d2 /\ M s1 ip1 d2 = Ok d21 /\ req d12 d21.
Proof. exact cc_commute. Qed.
Print Assumptions C06_independent_lookup_results_commute.

(* merging one result into equal values gives equal values (so a swap early in the list is not undone later) *)
Theorem C06_merge_respects_value_equality : forall s d d', req d d' -> forall ip e, M s ip d = Ok e ->
  exists e', M s ip d' = Ok e' /\ req e e'.
Proof. exact M_congr. Qed.
Print Assumptions C06_merge_respects_value_equality.

(* the whole merge, PARTIAL in one respect: plans with one root step (the first result is the root step's, every other
   result is a lookup's; several root steps would need the same argument for mergeMaps).  For ANY two arrival orders of
   the lookup results in which every inverted pair is independent — in particular any two causal orders of one execution
   (C06_results_causally_ordered) whose causally unrelated results are independent, which the check evaluates on every
   observed execution — both merges succeed together and yield the same Go value. *)
Theorem C06_merge_order_irrelevant_partial : forall r0 rs rs' d, Forall is_child rs -> Permutation rs rs' ->
  (forall x y, before x y rs -> before y x rs' -> indep_res x y) ->
  merge_results (r0 :: rs) = Ok d -> exists d', merge_results (r0 :: rs') = Ok d' /\ req d d'.
Proof. exact merge_results_order_irrelevant. Qed.
Print Assumptions C06_merge_order_irrelevant_partial.
(* non-vacuity and necessity: two services extending the same objects commute (and the two association lists differ);
   a lookup result and the result that brings the objects it extends do not *)
Example C06_orders_example :
  exists d1 d2, merge_results [ex_base; ex_b; ex_c] = Ok d1 /\ merge_results [ex_base; ex_c; ex_b] = Ok d2 /\ d1 <> d2 /\ req d1 d2.
Proof. exact ex_orders. Qed.
Example C06_dependent_results_do_not_commute :
  exists d1 d2, merge_results [ex_base; ex_b2; ex_d] = Ok d1 /\ merge_results [ex_base; ex_d; ex_b2] = Ok d2 /\ ~ req d1 d2.
Proof. exact ex_dependent_results_do_not_commute. Qed.

(* The independence hypothesis is NOT met by every plan of the real planner (known finding KF-key-clash-across-types,
   reproduced against the real gateway: the answer depends on which of two services answers last): two lookups with the
   same insertion point that write the same response key are not independent, and their merges do not commute. *)
Theorem C06_key_clash_across_types_refuted :
  ~ indep_res ex_nick ex_age /\
  exists d1 d2, merge_results [ex_animals; ex_nick; ex_age] = Ok d1 /\ merge_results [ex_animals; ex_age; ex_nick] = Ok d2 /\ ~ req d1 d2.
Proof. split; [exact ex_key_clash_not_independent|exact ex_key_clash_order_dependent]. Qed.
Print Assumptions C06_key_clash_across_types_refuted.

(* From the merged tree to what the client receives (Proofs/ShapeOrder.v): the null-propagation pass and the response writer
   read the tree only through map lookups and json.Marshal writes map keys in byte order, so equal Go values give the same
   null-propagation errors and the SAME RESPONSE (as ordered JSON), for every schema and selection.  [shaped] is what the
   whole-gateway model does with the merged tree: *)
From V Require Import Gql.RefExec Model.Shape Model.Gateway Proofs.ShapeOrder.
Theorem C06_shaped_is_the_gateways_response : forall G fschema W op vars P max fuel oc merged,
  gateway G fschema W op vars P max fuel = Ok oc -> oc_merged oc = Some merged ->
  r_data (oc_response oc) = option_map fst (shaped fuel fschema (oc_op oc) merged).
Proof. exact gateway_shaped. Qed.
Print Assumptions C06_shaped_is_the_gateways_response.

(* C06 for plans with one root step, end to end after the downstream calls: for every arrival order of the lookup results
   whose inverted pairs are independent, the merge fails or succeeds alike, and the response data and the null-propagation
   errors are identical — every schema, selection and fuel.  [wf]: decoded JSON objects have each key once. *)
Theorem C06_response_independent_of_arrival_order_partial : forall r0 rs rs' d, Forall is_child rs -> Permutation rs rs' ->
  (forall x y, before x y rs -> before y x rs' -> indep_res x y) ->
  wf (er_data r0) -> Forall (fun r => wf (er_data r)) rs ->
  merge_results (r0 :: rs) = Ok d ->
  exists d', merge_results (r0 :: rs') = Ok d' /\ forall fuel c ss, shaped fuel c ss d = shaped fuel c ss d'.
Proof. exact response_order_irrelevant. Qed.
Print Assumptions C06_response_independent_of_arrival_order_partial.

(* The same for ANY plan (Proofs/MergeRoots.v): results of root steps (maps merged by mergeMaps; a failed root step's nil)
   and of lookups in one list.  [indep2]: two lookups are independent as above; a root result and a lookup are independent
   when the lookup's insertion point leaves the root result's tree before it ends; two root results always are (a success
   of one order already forces them to be compatible).  For any two arrival orders that begin with a root step's result
   and whose inverted pairs are independent: the merge fails or succeeds alike and the response is the same. *)
From V Require Import Proofs.MergeRoots.
Theorem C06_response_independent_of_arrival_order : forall r0 rs r0' rs' d, is_root r0 -> is_root r0' -> Forall ok_res (r0 :: rs) ->
  Permutation (r0 :: rs) (r0' :: rs') ->
  (forall x y, before x y (r0 :: rs) -> before y x (r0' :: rs') -> indep2 x y) ->
  merge_results (r0 :: rs) = Ok d ->
  exists d', merge_results (r0' :: rs') = Ok d' /\ forall fuel c ss, shaped fuel c ss d = shaped fuel c ss d'.
Proof. exact response_any_plan. Qed.
Print Assumptions C06_response_independent_of_arrival_order.
(* mergeMaps itself: two root results into one tree in either order; both succeed or both fail *)
Theorem C06_root_results_commute : forall n d s1 s2 d1 d12, wf (RMap d) -> wf (RMap s1) -> wf (RMap s2) ->
  merge_maps n d s1 = Ok d1 -> merge_maps n d1 s2 = Ok d12 ->
  exists d2 d21, merge_maps n d s2 = Ok d2 /\ merge_maps n d2 s1 = Ok d21 /\ mrel d12 d21.
Proof. exact rr_commute. Qed.
Print Assumptions C06_root_results_commute.

(* The link between the two halves: which pairs can two arrival orders have in opposite order at all?  For any two schedules
   of the same plan (every interleaving of main, collector and step goroutines) that collect the same results, a pair they
   order differently is causally unrelated: neither step is an ancestor of the other in the spawning relation.  So the
   independence the merge theorems ask for is needed only of causally unrelated results. *)
From V Require Import Proofs.CausalOrders.
Theorem C06_inverted_pairs_are_causally_unrelated : forall fixed max o roots ls ls' st st',
  run fixed max o ls (init roots) = Some st -> run fixed max o ls' (init roots) = Some st' ->
  NoDup (map fst (results st)) -> Permutation (results st) (results st') ->
  forall x y, bef x y (results st) -> bef y x (results st') ->
  ~ anc (results st) (fst x) (fst y) /\ ~ anc (results st) (fst y) (fst x).
Proof. exact any_two_schedules. Qed.
Print Assumptions C06_inverted_pairs_are_causally_unrelated.
