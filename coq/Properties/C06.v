(* Properties/C06.v — The answer does not depend on the timing of downstream responses.  Statements only. *)
From Coq Require Import List Arith Bool Lia.
Import ListNotations.
From V Require Import Model.ConcExec Proofs.ConcExecProofs.

(* Mechanism 1 of the property, proved for every plan, every oracle of downstream outcomes, every limit and EVERY
   interleaving of main, collector and step goroutines: the list of results handed to the merge is causally ordered —
   a step's result is collected only after the result of the step that spawned it (so a lookup's ids always come
   from data that is already in the list when it is merged). *)
Theorem C06_results_causally_ordered : forall fixed max o roots ls st,
  run fixed max o ls (init roots) = Some st -> causal (results st) [].
Proof. exact results_causal. Qed.
Print Assumptions C06_results_causally_ordered.

(* the request counter is independent of the schedule as far as the limit is concerned *)
Theorem C06_limit_any_schedule : forall fixed max o roots ls st,
  run fixed max o ls (init roots) = Some st -> sent st <= max.
Proof. exact sent_within_limit. Qed.
Print Assumptions C06_limit_any_schedule.
