(* Properties/C07.v — The public schema is exactly the union of the service schemas.  Statements only.
   Proved so far: what the merge refuses (so that "nothing else" cannot enter through a silent resolution) and that the
   name of a merged type is the name both sides gave.  Completeness/soundness of the field union and the agreement of the
   three routing tables with it are decided on every run by the oracle of check C07 (merged schema = the monolith the
   services were split from; no plumbing; every field has exactly one owner and Locations routes to it) together with the
   correspondence of Model/Merge.v with the real MergeSchemas / build*Map on the same inputs. *)
From V Require Import Base.Util Gql.Ast Model.Merge Proofs.MergeProofs.

Theorem C07_merged_type_keeps_its_name_ns : forall acc nt a b m, merge_namespace acc nt a b = Ok m -> td_name m = td_name a.
Proof. exact merge_namespace_name. Qed.
Theorem C07_merged_type_keeps_its_name_bnd : forall a b m, merge_boundary a b = Ok m -> td_name m = td_name a.
Proof. exact merge_boundary_name. Qed.
Print Assumptions C07_merged_type_keeps_its_name_bnd.

Theorem C07_nothing_enters_by_silent_resolution : forall a b vb va,
  NoDup (map td_name b) -> In vb b ->
  starts_uu (td_name vb) || String.eqb (td_name vb) "Node" || String.eqb (td_name vb) "Service" = false ->
  find_type (td_name vb) (map clean (filter (fun t => negb (String.eqb (td_name t) "Node" || String.eqb (td_name t) "Service")) a)) = Some va ->
  pair_conflict (td_name vb) va (clean vb) = true ->
  is_ok (merge_types a b) = false.
Proof. exact merge_types_conflict. Qed.
Print Assumptions C07_nothing_enters_by_silent_resolution.

(* the fields of a merged shared (boundary) type are EXACTLY the union: the new service's own fields followed by the
   accumulated type's fields other than the key — nothing is lost, nothing else appears, types and arguments untouched *)
Theorem C07_shared_type_fields_are_the_union : forall a b m,
  merge_boundary a b = Ok m ->
  td_fields m = own_fields a ++ filter (fun f => negb (is_id_field f)) (mergeable_fields b).
Proof. exact merge_boundary_fields. Qed.
Print Assumptions C07_shared_type_fields_are_the_union.

(* The merged schema has EXACTLY the types the services define, minus the federation plumbing: a name is a type of the merge
   of two or more service schemas iff the first service defines it and it is not Node/Service, or a later service defines
   it and it is not Node, Service or a "__" meta type.  Nothing is lost and nothing else appears (for every number of
   services; induction over the fold with an invariant on the accumulator). *)
Theorem C07_merged_types_are_the_union : forall s b1 rest r, merge_schemas (s :: b1 :: rest) = Ok r ->
  forall n, In n (map td_name r) <->
            (In n (map td_name s) /\ dropped_first n = false) \/ exists b, In b (b1 :: rest) /\ contributes b n.
Proof. exact merge_schemas_names. Qed.
Print Assumptions C07_merged_types_are_the_union.
