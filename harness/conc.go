package main

// C06 (independence from downstream timing) and C13 (bounded work, everything released):
// a gating transport holds every downstream response and releases them in a prescribed order.

import (
	"context"
	"encoding/json"
	"fmt"
	"math/rand"
	"runtime"
	"sort"
	"strings"
	"sync"
	"sync/atomic"
	"time"
)

func init() {
	props["c06"] = runC06
	props["c13"] = runC13
}

type gateCtl struct {
	mu       sync.Mutex
	held     []*heldReq
	prio     map[string]int // request key -> priority (lower released first); unknown keys get a hash-based priority
	salt     int
	released []string
	stop     chan struct{}
	cancelAt int // release index at which the client context is cancelled (-1: never)
	cancel   context.CancelFunc
	changed  time.Time
}

type heldReq struct {
	key string
	ch  chan struct{}
}

func (g *gateCtl) gate(fed *federation) func(r *recorded) {
	return func(r *recorded) {
		key := r.Svc + "|" + faultTarget(fed, r)
		h := &heldReq{key: key, ch: make(chan struct{})}
		g.mu.Lock()
		g.held = append(g.held, h)
		g.changed = time.Now()
		g.mu.Unlock()
		select {
		case <-h.ch:
		case <-g.stop:
		}
	}
}

func (g *gateCtl) priority(key string) int {
	if p, ok := g.prio[key]; ok {
		return p
	}
	h := g.salt
	for _, c := range key {
		h = h*31 + int(c)
	}
	if h < 0 {
		h = -h
	}
	return 1000 + h%1000
}

// run releases held requests one at a time, lowest priority value first, each time waiting until the set of held
// requests has been stable for a short settle window (so that the children of the previous release have arrived).
func (g *gateCtl) run(done <-chan struct{}) {
	settle := 1500 * time.Microsecond
	for {
		select {
		case <-done:
			return
		default:
		}
		g.mu.Lock()
		stable := time.Since(g.changed) > settle
		var pick *heldReq
		if stable && len(g.held) > 0 {
			sort.SliceStable(g.held, func(i, j int) bool { return g.priority(g.held[i].key) < g.priority(g.held[j].key) })
			pick = g.held[0]
			g.held = g.held[1:]
			g.released = append(g.released, pick.key)
			g.changed = time.Now()
			if g.cancelAt >= 0 && len(g.released) == g.cancelAt+1 && g.cancel != nil {
				g.cancel()
			}
		}
		g.mu.Unlock()
		if pick != nil {
			close(pick.ch)
		} else {
			time.Sleep(200 * time.Microsecond)
		}
	}
}

// runScheduled runs one client request with downstream responses released in the order induced by prio.
func (e *e2eEnv) runScheduled(q string, vars map[string]interface{}, prio map[string]int, salt int, cancelAt int) (*e2eRun, []string, error) {
	ctx, cancel := context.WithCancel(context.Background())
	defer cancel()
	g := &gateCtl{prio: prio, salt: salt, stop: make(chan struct{}), cancelAt: cancelAt, cancel: cancel, changed: time.Now()}
	e.world.gate = g.gate(e.fed)
	done := make(chan struct{})
	go g.run(done)
	e.world.reset()
	doc, gerr := loadQuery(e.gw.es.MergedSchema, q)
	if gerr != nil {
		return nil, nil, fmt.Errorf("invalid query: %v", gerr)
	}
	type res struct {
		r   *gwResponse
		err error
	}
	rc := make(chan res, 1)
	go func() {
		r, err := e.gw.do(ctx, q, vars, "", nil)
		rc <- res{r, err}
	}()
	var out res
	select {
	case out = <-rc:
	case <-time.After(20 * time.Second):
		close(g.stop)
		close(done)
		e.world.gate = nil
		return nil, nil, fmt.Errorf("request did not terminate within 20s (released so far: %v)", g.released)
	}
	close(done)
	close(g.stop)
	e.world.gate = nil
	if out.err != nil {
		return nil, nil, out.err
	}
	g.mu.Lock()
	rel := append([]string{}, g.released...)
	g.mu.Unlock()
	return &e2eRun{Query: q, Vars: vars, Resp: out.r, Requests: e.world.requests(), Doc: doc, Op: doc.Operations[0]}, rel, nil
}

// errorMultiset: the errors as a multiset of whole error objects (message, path, locations, extensions).
func errorMultiset(errs []gwError) string {
	var s []string
	for _, e := range errs {
		if ss, ok := e.Extensions["selectionSet"].(string); ok {
			// the step's selection set as text: the planner lists the member types of an abstract field in Go map order, anew
			// for every request, whatever the completion order; it is compared as a multiset of tokens
			toks := strings.Fields(ss)
			sort.Strings(toks)
			ext := map[string]interface{}{}
			for k, v := range e.Extensions {
				ext[k] = v
			}
			ext["selectionSet"] = strings.Join(toks, " ")
			e.Extensions = ext
		}
		b, _ := json.Marshal(e)
		s = append(s, string(b))
	}
	sort.Strings(s)
	return strings.Join(s, " | ")
}

func runC06(cfg runCfg) error {
	r := rand.New(rand.NewSource(cfg.seed))
	sum := &summary{Property: "C06", Seed: cfg.seed, Features: map[string]int{}, CaseInputs: map[string]interface{}{},
		Rule: "random federated query (>= 2 downstream requests) x up to 6 release orders of the downstream responses chosen by random priorities over (service, root|lookup type) under a gating transport (a child request can only arrive after its parent's release, so every order is causal), with and without fault assignments and with a small request limit; response bytes and error multisets are compared across orders; one order per case is also emitted for the model correspondence; non-trivial = at least two distinct release sequences observed"}
	w := &caseWriter{dir: cfg.out, shard: 40, check: "check_e2e_case", imports: e2eImports}
	var envs []*e2eEnv
	for _, fx := range fixtures {
		env, err := newEnv(fx, gwOpts{maxRequests: 50})
		if err != nil {
			return err
		}
		envs = append(envs, env)
		w.preamble += env.preamble()
	}
	distinct := 0
	orders := 6
	if cfg.tier == "thorough" {
		orders = 24
	}
	for i := 0; i < cfg.n; i++ {
		name := fmt.Sprintf("c06-%d-%d", cfg.seed, i)
		env := envs[[]int{0, 0, 0, 2, 2, 3, 3}[r.Intn(7)]]
		forceShared := i%7 == 3 // the directed queries on fixture shared are taken in turn, not by odds
		forceAlike := i%7 == 5  // ... and so are two lookups at one insertion point that fail alike
		if forceShared || forceAlike {
			env = envs[3]
		}
		forceLimitLookup := i%7 == 1 // a limit near the number of lookup rounds together with a lookup that fails hard ...
		forceLimitRoot := i%7 == 6   // ... or with a root request of another service that fails hard: taken in turn as well
		limited := (r.Intn(3) == 0 && !forceAlike) || forceLimitLookup || forceLimitRoot
		threeLevels := false
		env.gw.es.MaxRequestsPerQuery = 50
		env.world.data = genData(r, env.fed, dataOpts{nullProb: 0.1, safeStrings: true})
		qo := qOpts{maxDepth: 3 + r.Intn(3), fragments: r.Intn(4) == 0, aliases: true, typename: true, args: true, safeStrings: true}
		var q string
		var vars map[string]interface{}
		var run0 *e2eRun
		for try := 0; try < 30; try++ {
			qq, vv, doc := env.genBoundedQuery(r, qo, 300)
			if env.fx.Name == "shared" && try == 0 && (r.Intn(2) == 0 || forceShared || forceAlike) {
				// two lookups with one insertion point, resolved by two services, under two members of an interface
				// (same response key for different fields in half of them)
				k2 := []string{"z", "y"}[r.Intn(2)]
				qq = "query Op { tools { label ... on Hammer { maker { z: nick } } ... on Gizmo { maker { " + k2 + ": age } } } }"
				if !forceAlike && (r.Intn(2) == 0 || (forceShared && (i/7)%2 == 0)) {
					// three levels: the keepers come from two services (two parent steps), their rank from a third, at one
					// insertion point; fault-free and without a limit, so that the orders differ in nothing but the order
					qq = "query Op { tools { label ... on Gizmo { keeper { rank nick } } ... on Wrench { keeper { rank age } } } }"
					threeLevels = true
				}
				vv = map[string]interface{}{}
				doc, _ = loadQuery(env.gw.es.MergedSchema, qq)
				sum.Features["two_lookups_one_insertion_point"]++
			}
			if doc == nil {
				continue
			}
			env.world.faultFor = nil
			rr, err := env.run(qq, vv, nil)
			if err != nil {
				return err
			}
			if len(rr.Requests) >= 3 {
				q, vars, run0 = qq, vv, rr
				break
			}
		}
		if run0 == nil {
			continue
		}
		var faults []faultSpec
		var lookups []*recorded
		for _, rq := range run0.Requests {
			if faultTarget(env.fed, rq) != "root" {
				lookups = append(lookups, rq)
			}
		}
		if threeLevels {
			limited = false
		}
		if !threeLevels && (r.Intn(2) == 0 || forceAlike || forceLimitLookup || forceLimitRoot || (limited && len(lookups) > 0 && r.Intn(3) > 0)) {
			rq := run0.Requests[r.Intn(len(run0.Requests))]
			if limited && len(lookups) > 0 { // a failing lookup round together with a limit near the number of rounds
				rq = lookups[r.Intn(len(lookups))]
			}
			kind := faultKinds[r.Intn(len(faultKinds))]
			if r.Intn(3) == 0 { // an answer with data AND errors: what it contributes must not depend on when it arrives
				kind = "errors_partial"
			}
			if forceLimitLookup || forceLimitRoot {
				kind = []string{"status", "transport", "errors_null"}[(i/7)%3]
			}
			if forceLimitRoot {
				// a root request whose service is not the one the lookups go to, when there is one
				for _, cand := range run0.Requests {
					if faultTarget(env.fed, cand) == "root" && (len(lookups) == 0 || cand.Svc != lookups[0].Svc) {
						rq = cand
					}
				}
			}
			faults = append(faults, faultSpec{Svc: rq.Svc, Target: faultTarget(env.fed, rq), Kind: kind})
			if len(lookups) >= 2 && !limited && (r.Intn(2) == 0 || forceAlike) {
				// two lookups failing alike (same failure kind, hence the same message; often at one insertion point, hence the
				// same path): each failure is reported, by its own error, whichever is answered first
				a := r.Intn(len(lookups))
				b := (a + 1 + r.Intn(len(lookups)-1)) % len(lookups)
				k2 := []string{"status", "transport", "errors_null"}[r.Intn(3)]
				faults = []faultSpec{{Svc: lookups[a].Svc, Target: faultTarget(env.fed, lookups[a]), Kind: k2}, {Svc: lookups[b].Svc, Target: faultTarget(env.fed, lookups[b]), Kind: k2}}
				sum.Features["two_lookups_failing_alike"]++
			}
		}
		max := int64(50)
		if limited {
			// the limit is drawn around the number of lookup rounds of the fault-free run: one or two below it, exactly it, or 1
			n := int64(len(lookups))
			max = []int64{n - 1, n - 1, n - 2, n, 1}[r.Intn(5)]
			if max < 1 {
				max = 1
			}
			env.gw.es.MaxRequestsPerQuery = max
		}
		env.world.faultFor = makeFaultFor(env.fed, faults)
		keys := map[string]bool{}
		for _, rq := range run0.Requests {
			keys[rq.Svc+"|"+faultTarget(env.fed, rq)] = true
		}
		klist := sortedKeys(keys)
		var first *e2eRun
		firstBytes, firstErrs := "", ""
		seqs := map[string]bool{}
		okBytes, okErrs, detail := true, true, ""
		for o := 0; o < orders; o++ {
			perm := r.Perm(len(klist))
			prio := map[string]int{}
			for j, k := range klist {
				prio[k] = perm[j]
				if o == 0 {
					// the order handed to the model correspondence is the one of the plan (here: services by name), which is the
					// order in which the sequential model merges; the other orders are drawn
					prio[k] = j
				}
			}
			run, rel, err := env.runScheduled(q, vars, prio, r.Intn(1000), -1)
			if err != nil {
				sum.GoOracle = append(sum.GoOracle, oracleResult{Case: name, Component: "prop.c06.terminates", OK: false, Detail: err.Error()})
				break
			}
			seqs[strings.Join(rel, ">")] = true
			b, e := fmt.Sprint(run.Resp.Data), errorMultiset(run.Resp.Errors)
			if limited { // when the limit is hit the response must be error-only, with the same errors whichever step hits it
				if run.Resp.Data != nil && run.Resp.Data.Kind != "null" && len(run.Resp.Errors) > 0 && strings.Contains(run.Resp.Body, "exceeded max requests") {
					okBytes, detail = false, "limit exceeded but data present: "+b
				}
				b = fmt.Sprint(run.Resp.Data)
			}
			if first == nil {
				first, firstBytes, firstErrs = run, b, e
			} else {
				if b != firstBytes {
					okBytes = false
					detail = fmt.Sprintf("order %v gave %s, first order gave %s", rel, b, firstBytes)
				}
				if e != firstErrs {
					okErrs = false
					detail = fmt.Sprintf("order %v gave errors %s, first order gave %s", rel, e, firstErrs)
				}
			}
		}
		env.world.faultFor = nil
		if first == nil {
			continue
		}
		if len(seqs) >= 2 {
			distinct++
		}
		sum.Features[fmt.Sprintf("distinct_orders_%d", len(seqs))]++
		if limited {
			sum.Features["limited"]++
		}
		if len(faults) > 0 {
			sum.Features["with_fault"]++
		}
		// two independent causes that each abort the execution (the request limit, and a lookup answered with errors and
		// partial or null data whose ids cannot be read) race for errgroup's single error slot: recorded finding
		twoAborts := false
		if limited {
			for _, f := range faults {
				if f.Kind == "errors_partial" || f.Kind == "errors_null" {
					twoAborts = true
				}
			}
		}
		sum.GoOracle = append(sum.GoOracle, oracleResult{Case: name, Component: "guard.c06_one_abort_cause", OK: !twoAborts})
		sum.GoOracle = append(sum.GoOracle,
			oracleResult{Case: name, Component: "prop.c06.same_data_bytes", OK: okBytes, Detail: detail},
			oracleResult{Case: name, Component: "prop.c06.same_errors", OK: okErrs, Detail: detail})
		env.gw.es.MaxRequestsPerQuery = 50
		w.add(name, emitE2ECase(env, first, e2eCaseOpts{max: max, conforming: true, faults: faults}))
		in := map[string]interface{}{"fixture": env.fx.Name, "query": q, "variables": vars, "faults": faults, "orders": sortedKeys(seqs), "limited": limited, "max_requests": max}
		sum.CaseInputs[name] = in
		if len(sum.Samples) < 4 {
			sum.Samples = append(sum.Samples, in)
		}
	}
	files, err := w.flush()
	if err != nil {
		return err
	}
	sum.Cases, sum.Files, sum.Nontrivial = len(w.cases), files, distinct
	return writeSummary(cfg.out, sum)
}

// ---------------------------------------------------------------- C13
func brambleGoroutines() (int, string) {
	buf := make([]byte, 1<<22)
	n := runtime.Stack(buf, true)
	stacks := strings.Split(string(buf[:n]), "\n\n")
	count := 0
	var sample string
	for _, s := range stacks {
		if strings.Contains(s, "github.com/movio/bramble.") && !strings.Contains(s, "vh/") && !strings.Contains(s, "main.") {
			count++
			if sample == "" {
				sample = s
			}
		}
	}
	return count, sample
}

func settleGoroutines() (int, string) {
	var n int
	var s string
	for i := 0; i < 200; i++ {
		n, s = brambleGoroutines()
		if n == 0 {
			return 0, ""
		}
		time.Sleep(2 * time.Millisecond)
	}
	return n, s
}

func runC13(cfg runCfg) error {
	r := rand.New(rand.NewSource(cfg.seed))
	sum := &summary{Property: "C13", Seed: cfg.seed, Features: map[string]int{}, CaseInputs: map[string]interface{}{},
		Rule: "random federated query (and, at limit 50, wide plans of 12-20 sibling lookups each with a lookup below it) x request limit drawn from 0..6 and 50 x optional fault x optional client cancellation at a random gate, under the gating transport; per case: the request terminates, at most one root request per service, lookup rounds sent <= limit, a response that reports 'exceeded max requests' carries no data, and after the response no goroutine with a bramble frame remains; one release order per case is emitted for the model correspondence; non-trivial = at least one lookup round"}
	w := &caseWriter{dir: cfg.out, shard: 40, check: "check_e2e_case", imports: e2eImports}
	limits := []int64{0, 1, 2, 3, 4, 6, 50}
	envs := map[int64]*e2eEnv{}
	for _, l := range limits {
		env, err := newEnv(fixtures[0], gwOpts{maxRequests: l})
		if err != nil {
			return err
		}
		envs[l] = env
	}
	w.preamble += envs[50].preamble()
	distinct := 0
	for i := 0; i < cfg.n; i++ {
		name := fmt.Sprintf("c13-%d-%d", cfg.seed, i)
		lim := limits[r.Intn(len(limits))]
		forceBig := i%6 == 4 // batched rounds under limits 1, 2, 3 in turn, every other one without any fault
		if forceBig {
			lim = int64(1 + (i/6)%3)
		}
		forceRoots := i%6 == 2 // root fields of two services with a lookup round below each, under a limit of one round fewer
		if forceRoots {
			lim = 1
		}
		env := envs[lim]
		big := lim >= 1 && lim <= 3 && (r.Intn(3) == 0 || forceBig) && !forceRoots
		do := dataOpts{nullProb: 0.1, safeStrings: true}
		if big { // one lookup round carries more than 50 ids: single-entity lookups go out as several batch documents
			do.bigType = "Movie"
		}
		env.world.data = genData(r, env.fed, do)
		qo := qOpts{maxDepth: 3 + r.Intn(3), fragments: r.Intn(4) == 0, aliases: true, typename: true, args: true, safeStrings: true}
		q, vars, doc := env.genBoundedQuery(r, qo, 300)
		if big {
			q = "query Op { movies { id " + []string{"rating", "score rating", "rating title", "title"}[r.Intn(4)] + " } }"
			vars = map[string]interface{}{}
			doc, _ = loadQuery(env.gw.es.MergedSchema, q)
			sum.Features["batched_round"]++
		}
		if !big && lim == 50 && r.Intn(2) == 0 {
			// a wide plan: 12-20 sibling lookups, each with a lookup of its own below it (A -> B -> A), all within the limit
			env.world.data = genData(r, env.fed, dataOpts{nullProb: 0, safeStrings: true})
			n := 12 + r.Intn(9)
			var sb strings.Builder
			sb.WriteString("query Op {")
			for k := 0; k < n; k++ {
				sb.WriteString(fmt.Sprintf(" m%d: movie(id: \"%d\") { lead { nick } }", k, 1+k%3))
			}
			sb.WriteString(" }")
			q, vars = sb.String(), map[string]interface{}{}
			doc, _ = loadQuery(env.gw.es.MergedSchema, q)
			sum.Features["wide_nested_plan"]++
		}
		if forceRoots {
			env.world.data = genData(r, env.fed, dataOpts{nullProb: 0, safeStrings: true})
			q = []string{"query Op { movies { rating } topReview { helpful } }", "query Op { me { nick } movies { rating title } }", "query Op { topReview { helpful stars } movie(id: \"1\") { lead { name } } }"}[(i/6)%3]
			vars = map[string]interface{}{}
			doc, _ = loadQuery(env.gw.es.MergedSchema, q)
			sum.Features["lookups_below_two_root_steps_at_limit_1"]++
		}
		if doc == nil {
			continue
		}
		var faults []faultSpec
		cancelAt := -1
		switch r.Intn(5)*map[bool]int{true: 0, false: 1}[big] + map[bool]int{true: 4, false: 0}[big] {
		case 0:
			svc := env.fed.Services[r.Intn(len(env.fed.Services))].Name
			faults = append(faults, faultSpec{Svc: svc, Target: "*", Kind: faultKinds[r.Intn(len(faultKinds))]})
		case 1:
			cancelAt = r.Intn(4)
		}
		if forceRoots {
			faults, cancelAt = nil, -1
		}
		if big && ((!forceBig && r.Intn(2) == 0) || (forceBig && (i/18)%2 == 1)) {
			// one document of a batched lookup round fails (or the whole service does): the other documents of the round,
			// and whatever was started for them, must be gone with the response all the same
			target := []string{"Movie#0", "Movie#1", "*"}[r.Intn(3)]
			faults = append(faults, faultSpec{Svc: "C", Target: target, Kind: faultKinds[r.Intn(5)]})
			sum.Features["batched_round_with_a_failing_document"]++
		}
		env.world.faultFor = makeFaultFor(env.fed, faults)
		run, rel, err := env.runScheduled(q, vars, nil, r.Intn(1000), cancelAt)
		env.world.faultFor = nil
		add := func(comp string, ok bool, detail string) {
			sum.GoOracle = append(sum.GoOracle, oracleResult{Case: name, Component: comp, OK: ok, Detail: detail})
		}
		if err != nil {
			add("prop.c13.terminates", false, err.Error())
			continue
		}
		add("prop.c13.terminates", true, "")
		roots := map[string]int{}
		lookups := 0
		for _, rq := range run.Requests {
			if faultTarget(env.fed, rq) == "root" {
				roots[rq.Svc]++
			} else if batchIndex(rq) == 0 { // the further batch documents of a round belong to the same round
				lookups++
			}
		}
		okRoots := true
		for _, n := range roots {
			if n > 1 {
				okRoots = false
			}
		}
		add("prop.c13.root_once_per_service", okRoots, fmt.Sprint(roots))
		add("prop.c13.lookups_within_limit", int64(lookups) <= lim, fmt.Sprintf("%d lookup rounds sent, limit %d", lookups, lim))
		exceeded := strings.Contains(run.Resp.Body, "exceeded max requests")
		noData := run.Resp.Data == nil || run.Resp.Data.Kind == "null"
		add("prop.c13.limit_error_only", !exceeded || noData, run.Resp.Body)
		bodiesOpen := int64(0)
		for w := 0; w < 50; w++ { // a body is closed by the goroutine that read it, which may finish just after the response
			if bodiesOpen = atomic.LoadInt64(&openBodies); bodiesOpen == 0 {
				break
			}
			time.Sleep(2 * time.Millisecond)
		}
		add("prop.c13.response_bodies_closed", bodiesOpen == 0, fmt.Sprintf("%d downstream response bodies were never closed", bodiesOpen))
		atomic.StoreInt64(&openBodies, 0)
		left, stack := settleGoroutines()
		add("prop.c13.released", left == 0, fmt.Sprintf("%d goroutine(s) with bramble frames remain, e.g.\n%s", left, stack))
		if lookups > 0 {
			distinct++
		}
		sum.Features[fmt.Sprintf("limit_%d", lim)]++
		if exceeded {
			sum.Features["limit_exceeded"]++
		}
		if cancelAt >= 0 {
			sum.Features["client_cancel"]++
		}
		for _, f := range faults {
			sum.Features["fault_"+f.Kind]++
		}
		in := map[string]interface{}{"fixture": env.fx.Name, "query": q, "variables": vars, "limit": lim, "faults": faults, "cancel_at": cancelAt, "released": rel, "response": run.Resp.Body}
		sum.CaseInputs[name] = in
		if len(sum.Samples) < 4 {
			sum.Samples = append(sum.Samples, in)
		}
		if cancelAt < 0 {
			// the model has no notion of client cancellation; those cases are judged by the direct oracles only
			w.add(name, emitE2ECase(env, run, e2eCaseOpts{max: lim, conforming: true, faults: faults}))
		}
	}
	files, err := w.flush()
	if err != nil {
		return err
	}
	sum.Cases, sum.Files, sum.Nontrivial = len(w.cases), files, distinct
	return writeSummary(cfg.out, sum)
}
