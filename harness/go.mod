module vh

go 1.23.3

require (
	github.com/99designs/gqlgen v0.17.41
	github.com/golang-jwt/jwt/v4 v4.5.2
	github.com/movio/bramble v0.0.0
	github.com/prometheus/client_golang v1.11.1
	github.com/vektah/gqlparser/v2 v2.5.16
)

require (
	github.com/agnivade/levenshtein v1.1.1 // indirect
	github.com/beorn7/perks v1.0.1 // indirect
	github.com/cenkalti/backoff/v4 v4.3.0 // indirect
	github.com/cespare/xxhash/v2 v2.2.0 // indirect
	github.com/felixge/httpsnoop v1.0.4 // indirect
	github.com/fsnotify/fsnotify v1.5.1 // indirect
	github.com/go-jose/go-jose/v4 v4.0.5 // indirect
	github.com/go-logr/logr v1.4.1 // indirect
	github.com/go-logr/stdr v1.2.2 // indirect
	github.com/gofrs/uuid v4.2.0+incompatible // indirect
	github.com/golang/protobuf v1.5.4 // indirect
	github.com/google/uuid v1.6.0 // indirect
	github.com/gorilla/websocket v1.5.0 // indirect
	github.com/graph-gophers/graphql-go v1.5.0 // indirect
	github.com/grpc-ecosystem/grpc-gateway/v2 v2.20.0 // indirect
	github.com/hashicorp/golang-lru/v2 v2.0.3 // indirect
	github.com/matttproud/golang_protobuf_extensions v1.0.1 // indirect
	github.com/mitchellh/mapstructure v1.5.0 // indirect
	github.com/prometheus/client_model v0.2.0 // indirect
	github.com/prometheus/common v0.31.1 // indirect
	github.com/prometheus/procfs v0.7.3 // indirect
	github.com/rs/cors v1.7.0 // indirect
	github.com/sosodev/duration v1.1.0 // indirect
	go.opentelemetry.io/contrib/instrumentation/net/http/otelhttp v0.52.0 // indirect
	go.opentelemetry.io/otel v1.27.0 // indirect
	go.opentelemetry.io/otel/exporters/otlp/otlpmetric/otlpmetricgrpc v1.27.0 // indirect
	go.opentelemetry.io/otel/exporters/otlp/otlptrace v1.27.0 // indirect
	go.opentelemetry.io/otel/exporters/otlp/otlptrace/otlptracegrpc v1.27.0 // indirect
	go.opentelemetry.io/otel/metric v1.27.0 // indirect
	go.opentelemetry.io/otel/sdk v1.27.0 // indirect
	go.opentelemetry.io/otel/sdk/metric v1.27.0 // indirect
	go.opentelemetry.io/otel/trace v1.27.0 // indirect
	go.opentelemetry.io/proto/otlp v1.2.0 // indirect
	golang.org/x/crypto v0.35.0 // indirect
	golang.org/x/net v0.36.0 // indirect
	golang.org/x/sync v0.11.0 // indirect
	golang.org/x/sys v0.30.0 // indirect
	golang.org/x/text v0.22.0 // indirect
	google.golang.org/genproto/googleapis/api v0.0.0-20240520151616-dc85e6b867a5 // indirect
	google.golang.org/genproto/googleapis/rpc v0.0.0-20240515191416-fc5f0ca64291 // indirect
	google.golang.org/grpc v1.64.1 // indirect
	google.golang.org/protobuf v1.34.1 // indirect
)

replace github.com/movio/bramble => /repo
