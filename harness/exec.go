package main

// A small spec-style GraphQL executor over a data graph. It serves two purposes:
//   * the downstream simulators (one per service, over the service's own schema), and
//   * the single-server reference for C01 (over the merged schema and the same graph).
// It follows the GraphQL spec's CollectFields / ExecuteSelectionSet / CompleteValue, not bramble.

import (
	"encoding/json"
	"fmt"
	"sort"
	"strings"

	"github.com/vektah/gqlparser/v2/ast"
)

// ---------------------------------------------------------------- ordered JSON
type OJ struct {
	Kind string // null bool num str arr obj
	B    bool
	S    string // str value or number lexeme
	Arr  []*OJ
	Keys []string
	Vals []*OJ
}

var ojNull = &OJ{Kind: "null"}

func ojStr(s string) *OJ { return &OJ{Kind: "str", S: s} }

func (o *OJ) get(k string) *OJ {
	for i, x := range o.Keys {
		if x == k {
			return o.Vals[i]
		}
	}
	return nil
}

func (o *OJ) String() string {
	if o == nil {
		return "<absent>"
	}
	switch o.Kind {
	case "null":
		return "null"
	case "bool":
		if o.B {
			return "true"
		}
		return "false"
	case "num":
		return o.S
	case "str":
		b, _ := json.Marshal(o.S)
		return string(b)
	case "arr":
		parts := make([]string, len(o.Arr))
		for i, e := range o.Arr {
			parts[i] = e.String()
		}
		return "[" + strings.Join(parts, ",") + "]"
	default:
		parts := make([]string, len(o.Keys))
		for i, k := range o.Keys {
			kb, _ := json.Marshal(k)
			parts[i] = string(kb) + ":" + o.Vals[i].String()
		}
		return "{" + strings.Join(parts, ",") + "}"
	}
}

func parseOJ(data []byte) (*OJ, error) {
	dec := json.NewDecoder(strings.NewReader(string(data)))
	dec.UseNumber()
	return parseOJTok(dec)
}

func parseOJTok(dec *json.Decoder) (*OJ, error) {
	tok, err := dec.Token()
	if err != nil {
		return nil, err
	}
	switch t := tok.(type) {
	case string:
		return &OJ{Kind: "str", S: t}, nil
	case nil:
		return ojNull, nil
	case bool:
		return &OJ{Kind: "bool", B: t}, nil
	case json.Number:
		return &OJ{Kind: "num", S: string(t)}, nil
	case json.Delim:
		if t == '[' {
			out := &OJ{Kind: "arr", Arr: []*OJ{}}
			for dec.More() {
				e, err := parseOJTok(dec)
				if err != nil {
					return nil, err
				}
				out.Arr = append(out.Arr, e)
			}
			_, err := dec.Token()
			return out, err
		}
		out := &OJ{Kind: "obj"}
		for dec.More() {
			kt, err := dec.Token()
			if err != nil {
				return nil, err
			}
			e, err := parseOJTok(dec)
			if err != nil {
				return nil, err
			}
			out.Keys = append(out.Keys, kt.(string))
			out.Vals = append(out.Vals, e)
		}
		_, err := dec.Token()
		return out, err
	}
	return nil, fmt.Errorf("unexpected token %v", tok)
}

func ojFromGo(v interface{}) *OJ {
	switch t := v.(type) {
	case nil:
		return ojNull
	case bool:
		return &OJ{Kind: "bool", B: t}
	case string:
		return ojStr(t)
	case json.Number:
		return &OJ{Kind: "num", S: string(t)}
	case int:
		return &OJ{Kind: "num", S: fmt.Sprint(t)}
	case int64:
		return &OJ{Kind: "num", S: fmt.Sprint(t)}
	case float64:
		b, _ := json.Marshal(t)
		return &OJ{Kind: "num", S: string(b)}
	case []interface{}:
		out := &OJ{Kind: "arr", Arr: []*OJ{}}
		for _, e := range t {
			out.Arr = append(out.Arr, ojFromGo(e))
		}
		return out
	case map[string]interface{}:
		out := &OJ{Kind: "obj"}
		for _, k := range sortedKeys(t) {
			out.Keys = append(out.Keys, k)
			out.Vals = append(out.Vals, ojFromGo(t[k]))
		}
		return out
	}
	return ojStr(fmt.Sprint(v))
}

// ---------------------------------------------------------------- data graph
type refVal struct{ Type, ID string }
type leafVal struct{ J *OJ }
type errVal struct{} // the resolver raises an error
type listVal []interface{}

type entity struct {
	Type, ID string
	Fields   map[string]interface{} // nil | leafVal | refVal | listVal | errVal
}

type dataGraph struct {
	Ents    map[string]map[string]*entity
	Order   map[string][]string
	Unknown map[string]bool // "svc|Type|id": the service does not know this entity
}

func newDataGraph() *dataGraph {
	return &dataGraph{Ents: map[string]map[string]*entity{}, Order: map[string][]string{}, Unknown: map[string]bool{}}
}

func (d *dataGraph) add(e *entity) {
	if d.Ents[e.Type] == nil {
		d.Ents[e.Type] = map[string]*entity{}
	}
	if _, dup := d.Ents[e.Type][e.ID]; !dup {
		d.Order[e.Type] = append(d.Order[e.Type], e.ID)
	}
	d.Ents[e.Type][e.ID] = e
}

func (d *dataGraph) get(t, id string) *entity {
	if m := d.Ents[t]; m != nil {
		return m[id]
	}
	return nil
}

// ---------------------------------------------------------------- executor
type execErr struct {
	Msg  string
	Path []interface{}
	Ext  string // `,"extensions":{...}` or empty
}

type execCtx struct {
	schema     *ast.Schema
	data       *dataGraph
	vars       map[string]interface{}
	fed        *federation
	svc        *serviceSpec // nil: monolith
	errs       []execErr
	budget     *int      // remaining object visits (nil = unlimited); the run is abandoned when it reaches zero
	effects    *[]string // mutation side effects
	inMutation bool
	failSvc    map[string]bool // monolith only: every field owned by these services raises an error
	laxLists   bool            // a service that breaks its own schema in one way: a null element of a [T!] list stays in the list
}

type collected struct {
	key    string
	fields []*ast.Field
}

func (x *execCtx) directivesAllow(dl ast.DirectiveList) bool {
	if d := dl.ForName("skip"); d != nil {
		if v, err := d.Arguments.ForName("if").Value.Value(x.vars); err == nil {
			if b, _ := v.(bool); b {
				return false
			}
		}
	}
	if d := dl.ForName("include"); d != nil {
		if v, err := d.Arguments.ForName("if").Value.Value(x.vars); err == nil {
			if b, ok := v.(bool); ok && !b {
				return false
			}
		}
	}
	return true
}

func (x *execCtx) typeApplies(objType, cond string) bool {
	if cond == "" || cond == objType {
		return true
	}
	for _, pt := range x.schema.PossibleTypes[cond] {
		if pt.Name == objType {
			return true
		}
	}
	return false
}

func (x *execCtx) collect(objType string, ss ast.SelectionSet, visited map[string]bool, out *[]*collected) {
	for _, s := range ss {
		switch s := s.(type) {
		case *ast.Field:
			if !x.directivesAllow(s.Directives) {
				continue
			}
			found := false
			for _, c := range *out {
				if c.key == s.Alias {
					c.fields = append(c.fields, s)
					found = true
				}
			}
			if !found {
				*out = append(*out, &collected{key: s.Alias, fields: []*ast.Field{s}})
			}
		case *ast.InlineFragment:
			if !x.directivesAllow(s.Directives) || !x.typeApplies(objType, s.TypeCondition) {
				continue
			}
			x.collect(objType, s.SelectionSet, visited, out)
		case *ast.FragmentSpread:
			if !x.directivesAllow(s.Directives) || visited[s.Name] {
				continue
			}
			visited[s.Name] = true
			if !x.typeApplies(objType, s.Definition.TypeCondition) {
				continue
			}
			x.collect(objType, s.Definition.SelectionSet, visited, out)
		}
	}
}

func copyPath(p []interface{}, e interface{}) []interface{} {
	out := make([]interface{}, len(p)+1)
	copy(out, p)
	out[len(p)] = e
	return out
}

// execSelection returns (object, ok); ok=false: a non-null child was null, the object itself must become null.
func (x *execCtx) execSelection(objType string, e *entity, ss ast.SelectionSet, path []interface{}, serial bool) (*OJ, bool) {
	if x.budget != nil {
		*x.budget--
		if *x.budget < 0 {
			return ojNull, true
		}
	}
	var cs []*collected
	x.collect(objType, ss, map[string]bool{}, &cs)
	out := &OJ{Kind: "obj"}
	def := x.schema.Types[objType]
	for _, c := range cs {
		f := c.fields[0]
		p := copyPath(path, c.key)
		if f.Name == "__typename" {
			out.Keys = append(out.Keys, c.key)
			out.Vals = append(out.Vals, ojStr(objType))
			continue
		}
		fd := def.Fields.ForName(f.Name)
		if fd == nil {
			x.errs = append(x.errs, execErr{Msg: "unknown field " + objType + "." + f.Name, Path: p})
			out.Keys = append(out.Keys, c.key)
			out.Vals = append(out.Vals, ojNull)
			continue
		}
		raw, rerr := x.resolve(objType, e, f, fd)
		var v *OJ
		ok := true
		if rerr != "" {
			x.errs = append(x.errs, execErr{Msg: rerr, Path: p})
			v, ok = ojNull, !fd.Type.NonNull
		} else {
			v, ok = x.complete(fd.Type, c.fields, raw, p)
		}
		if !ok {
			return ojNull, false
		}
		out.Keys = append(out.Keys, c.key)
		out.Vals = append(out.Vals, v)
	}
	return out, true
}

func canonArgs(m map[string]interface{}) string {
	b, _ := json.Marshal(m) // encoding/json sorts map keys
	return string(b)
}

func (x *execCtx) resolve(objType string, e *entity, f *ast.Field, fd *ast.FieldDefinition) (interface{}, string) {
	args := f.ArgumentMap(x.vars)
	if x.effects != nil && x.inMutation && (objType == "Mutation" || (x.fed != nil && x.fed.Namespace[objType])) &&
		!(x.fed != nil && x.fed.Namespace[fd.Type.Name()]) {
		*x.effects = append(*x.effects, f.Name+canonArgs(args))
	}
	// entity lookups (service schemas only)
	if x.svc != nil && objType == "Query" {
		for bt, lk := range x.svc.Lookups {
			if lk.Field != f.Name {
				continue
			}
			known := func(id string) interface{} {
				if x.data.get(bt, id) == nil || x.data.Unknown[x.svc.Name+"|"+bt+"|"+id] {
					return nil
				}
				return refVal{bt, id}
			}
			if lk.Array {
				ids, _ := args[lk.Arg].([]interface{})
				out := listVal{}
				for _, id := range ids {
					out = append(out, known(fmt.Sprint(id)))
				}
				return out, ""
			}
			return known(fmt.Sprint(args[lk.Arg])), ""
		}
	}
	if x.svc == nil && x.fed != nil {
		owner := x.fed.Owner[objType+"."+f.Name]
		if owner != "" && x.failSvc[owner] {
			return nil, "service " + owner + " failed"
		}
		// the monolith sees an entity's fields of service s only if s knows the entity
		if owner != "" && e != nil && x.data.Unknown[owner+"|"+e.Type+"|"+e.ID] {
			return nil, ""
		}
	}
	// a service that does not know an entity resolves none of its own fields of it (the key is shared knowledge)
	if x.svc != nil && e != nil && f.Name != "id" && x.data.Unknown[x.svc.Name+"|"+e.Type+"|"+e.ID] {
		return nil, ""
	}
	if strings.HasPrefix(f.Name, "echo") {
		return leafVal{ojFromGo(map[string]interface{}(args))}, ""
	}
	if e == nil {
		return nil, ""
	}
	v, ok := e.Fields[f.Name]
	if !ok {
		return nil, ""
	}
	if _, isErr := v.(errVal); isErr {
		return nil, "resolver error for " + objType + "." + f.Name
	}
	return v, ""
}

func (x *execCtx) complete(t *ast.Type, fields []*ast.Field, raw interface{}, path []interface{}) (*OJ, bool) {
	if t.NonNull {
		inner := *t
		inner.NonNull = false
		before := len(x.errs)
		v, ok := x.complete(&inner, fields, raw, path)
		if !ok {
			return ojNull, false
		}
		if v.Kind == "null" {
			// one error per violation: only if completing the value itself reported nothing
			if len(x.errs) == before {
				x.errs = append(x.errs, execErr{Msg: "null for non-null position", Path: path})
			}
			return ojNull, false
		}
		return v, true
	}
	if raw == nil {
		return ojNull, true
	}
	if _, isErr := raw.(errVal); isErr {
		x.errs = append(x.errs, execErr{Msg: "resolver error", Path: path})
		return ojNull, true
	}
	if t.Elem != nil {
		l, ok := raw.(listVal)
		if !ok {
			x.errs = append(x.errs, execErr{Msg: "expected a list", Path: path})
			return ojNull, true
		}
		out := &OJ{Kind: "arr", Arr: []*OJ{}}
		broken := false
		for i, el := range l {
			v, ok := x.complete(t.Elem, fields, el, copyPath(path, i))
			if !ok && x.laxLists {
				out.Arr = append(out.Arr, ojNull)
				continue
			}
			if !ok {
				broken = true // a non-null element was null: the list becomes null; the other elements are still completed
				continue
			}
			out.Arr = append(out.Arr, v)
		}
		if broken {
			return ojNull, true
		}
		return out, true
	}
	def := x.schema.Types[t.NamedType]
	if def == nil {
		x.errs = append(x.errs, execErr{Msg: "unknown type " + t.NamedType, Path: path})
		return ojNull, true
	}
	switch def.Kind {
	case ast.Scalar, ast.Enum:
		if lv, ok := raw.(leafVal); ok {
			return lv.J, true
		}
		x.errs = append(x.errs, execErr{Msg: "expected a leaf", Path: path})
		return ojNull, true
	default:
		ref, ok := raw.(refVal)
		if !ok {
			x.errs = append(x.errs, execErr{Msg: "expected an object", Path: path})
			return ojNull, true
		}
		runtime := ref.Type
		if def.IsAbstractType() {
			okT := false
			for _, pt := range x.schema.PossibleTypes[def.Name] {
				if pt.Name == runtime {
					okT = true
				}
			}
			if !okT {
				x.errs = append(x.errs, execErr{Msg: "runtime type " + runtime + " is not a possible type of " + def.Name, Path: path})
				return ojNull, true
			}
		}
		var sub ast.SelectionSet
		for _, f := range fields {
			sub = append(sub, f.SelectionSet...)
		}
		v, ok2 := x.execSelection(runtime, x.data.get(ref.Type, ref.ID), sub, path, false)
		if !ok2 {
			return ojNull, true
		}
		return v, true
	}
}

func pathPrefix(p, q []interface{}) bool {
	if len(p) > len(q) {
		return false
	}
	for i := range p {
		if fmt.Sprint(p[i]) != fmt.Sprint(q[i]) {
			return false
		}
	}
	return true
}

// execOperation runs an operation against the root pseudo-entity; data is nil when null propagated to the root.
func (x *execCtx) execOperation(op *ast.OperationDefinition) *OJ {
	root := "Query"
	if op.Operation == ast.Mutation {
		root = "Mutation"
		x.inMutation = true
	}
	v, ok := x.execSelection(root, x.data.get(root, ""), op.SelectionSet, nil, op.Operation == ast.Mutation)
	if !ok {
		return ojNull
	}
	return v
}

func errPaths(errs []execErr) []string {
	var out []string
	for _, e := range errs {
		var parts []string
		for _, p := range e.Path {
			parts = append(parts, fmt.Sprint(p))
		}
		out = append(out, strings.Join(parts, "."))
	}
	sort.Strings(out)
	return out
}
