package main

// One end-to-end case: run the real gateway, observe, and emit the Coq e2e_case record (Corr/E2ECheck.v).

import (
	"encoding/json"
	"fmt"
	"strings"

	"github.com/movio/bramble"
	"github.com/vektah/gqlparser/v2/ast"
)

type faultSpec struct {
	Svc    string `json:"svc"`    // service name
	Target string `json:"target"` // "root" | parent type of a lookup | "*"
	Kind   string `json:"kind"`
}

var faultCtor = map[string]string{"status": "FStatus", "transport": "FTransport", "timeout": "FTimeout", "toolarge": "FTooLarge",
	"badjson": "FBadJSON", "errors_null": "FErrorsNull", "errors_partial": "FErrorsPartial"}

type reqInfo struct {
	IsLookup bool
	Parent   string
	IDs      []string
	Sel      ast.SelectionSet
	Root     string
	Keyword  ast.Operation
}

// analyze derives (parent type, ids, sub-selection) of a recorded downstream request.
func analyze(fed *federation, r *recorded) reqInfo {
	info := reqInfo{Root: "Query", Keyword: ast.Query, Parent: "Query"}
	if r.Doc == nil || len(r.Doc.Operations) == 0 {
		return info
	}
	op := r.Doc.Operations[0]
	info.Keyword = op.Operation
	if op.Operation == ast.Mutation {
		info.Root, info.Parent = "Mutation", "Mutation"
	}
	info.Sel = op.SelectionSet
	svc := fed.svcByURL(r.URL)
	if svc == nil || op.Operation != ast.Query {
		return info
	}
	for _, s := range op.SelectionSet {
		f, ok := s.(*ast.Field)
		if !ok {
			return info
		}
		matched := false
		for bt, lk := range svc.Lookups {
			if lk.Field != f.Name {
				continue
			}
			matched = true
			if !info.IsLookup {
				info.IsLookup = true
				info.Parent = bt
				info.Sel = f.SelectionSet
			}
			if a := f.Arguments.ForName(lk.Arg); a != nil {
				if a.Value.Kind == ast.ListValue {
					for _, c := range a.Value.Children {
						info.IDs = append(info.IDs, c.Value.Raw)
					}
				} else {
					info.IDs = append(info.IDs, a.Value.Raw)
				}
			}
		}
		if !matched {
			return reqInfo{Root: info.Root, Keyword: info.Keyword, Parent: info.Root, Sel: op.SelectionSet}
		}
	}
	return info
}

func faultTarget(fed *federation, r *recorded) string {
	info := analyze(fed, r)
	if info.IsLookup {
		return info.Parent
	}
	return "root"
}

// batchIndex: which document of a batched single-entity lookup this is (from its first alias _N)
func batchIndex(r *recorded) int {
	q := strings.TrimSpace(r.Query)
	i := strings.Index(q, "{ _")
	if i < 0 {
		return 0
	}
	n := 0
	for _, c := range q[i+3:] {
		if c < '0' || c > '9' {
			break
		}
		n = n*10 + int(c-'0')
	}
	return n / 50
}

func makeFaultFor(fed *federation, faults []faultSpec) func(r *recorded) *fault {
	if len(faults) == 0 {
		return nil
	}
	return func(r *recorded) *fault {
		t := faultTarget(fed, r)
		tb := fmt.Sprintf("%s#%d", t, batchIndex(r))
		for _, f := range faults {
			if f.Svc == r.Svc && (f.Target == "*" || f.Target == t || f.Target == tb) {
				return &fault{Kind: f.Kind}
			}
		}
		return nil
	}
}

func cPath(p []interface{}) string {
	var parts []string
	for _, e := range p {
		switch t := e.(type) {
		case string:
			parts = append(parts, "PName "+cstr(t))
		case float64:
			parts = append(parts, fmt.Sprintf("PIdx %d", int(t)))
		case json.Number:
			parts = append(parts, "PIdx "+t.String())
		case int:
			parts = append(parts, fmt.Sprintf("PIdx %d", t))
		default:
			parts = append(parts, "PName "+cstr(fmt.Sprint(t)))
		}
	}
	return clist(parts)
}

func classifyError(e gwError) (string, bool) {
	_, hasURL := e.Extensions["serviceUrl"]
	_, hasName := e.Extensions["serviceName"]
	names := hasURL || hasName
	switch {
	case strings.HasSuffix(e.Message, "access disallowed"):
		return "EPerm", names
	case e.Message == "downstream request timed out":
		return "ETimeout", names
	case strings.HasPrefix(e.Message, "got a null response for non-nullable field"):
		return "ENullBubble", names
	case strings.HasPrefix(e.Message, "unexpected response code"), strings.Contains(e.Message, "connection reset"),
		strings.Contains(e.Message, "connection refused"), strings.HasPrefix(e.Message, "response exceeded maximum size"),
		strings.HasPrefix(e.Message, "error decoding response"), strings.Contains(e.Message, "(simulated)"),
		strings.HasSuffix(e.Message, ": EOF"), strings.Contains(e.Message, "broken pipe"): // a connection dropped before the first response byte
		return "EOther", names
	case names:
		return "EDownstream", names
	}
	return "EInternal", names
}

type e2eCaseOpts struct {
	failing    []string // service names all of whose requests fail
	data0      *OJ      // fault-free answer
	hasData0   bool
	perm       *bramble.OperationPermissions
	faults     []faultSpec
	max        int64
	conforming bool
	fuel       int
}

func emitE2ECase(env *e2eEnv, run *e2eRun, o e2eCaseOpts) string {
	fed := env.fed
	es := env.gw.es
	var unk []string
	for _, k := range sortedKeys(env.world.data.Unknown) {
		unk = append(unk, cstr(k))
	}
	unkTerm := clist(unk)
	var svcs []string
	for _, s := range fed.Services {
		svcs = append(svcs, cpair(cstr(s.URL), "(srv_"+env.fx.Name+"_"+s.Name+" "+unkTerm+")"))
	}
	mono := "(mono_" + env.fx.Name + " " + unkTerm + ")"
	fschema := "None"
	perm := "None"
	if o.perm != nil {
		fschema = "(Some " + cSchema(o.perm.FilterSchema(es.MergedSchema)) + ")"
		perm = "(Some " + afTermFromOperm(*o.perm) + ")"
	}
	var faults []string
	for _, f := range o.faults {
		faults = append(faults, "("+cstr(fed.svc(f.Svc).URL)+", "+cstr(f.Target)+", "+faultCtor[f.Kind]+")")
	}
	var reqs []string
	for _, r := range run.Requests {
		info := analyze(fed, r)
		doc := "[]"
		if r.Doc != nil && len(r.Doc.Operations) > 0 {
			doc = cSelSet(r.Doc.Operations[0].SelectionSet)
		}
		replyData := "None"
		nerrs := 0
		if r.Reply != "" {
			var raw map[string]json.RawMessage
			if err := json.Unmarshal([]byte(r.Reply), &raw); err == nil {
				if d, ok := raw["data"]; ok {
					if oj, err := parseOJ(d); err == nil {
						replyData = "(Some " + cJSON(oj) + ")"
					}
				}
				if e, ok := raw["errors"]; ok {
					var es []interface{}
					_ = json.Unmarshal(e, &es)
					nerrs = len(es)
				}
			}
		}
		flt := "None"
		if r.Fault != "" {
			if c, ok := faultCtor[r.Fault]; ok {
				flt = "(Some " + c + ")"
			} else {
				flt = "(Some FErrorsPartial)"
			}
		}
		var declared []string
		if r.Doc != nil && len(r.Doc.Operations) > 0 {
			for _, vd := range r.Doc.Operations[0].VariableDefinitions {
				declared = append(declared, vd.Variable)
			}
		}
		reqs = append(reqs, "{| or_varnames := "+cstrlist(sortedKeys(r.Variables))+"; or_declared := "+cstrlist(declared)+"; or_batch := "+fmt.Sprint(batchIndex(r))+"; or_url := "+cstr(r.URL)+"; or_optype := "+cstr(r.OpType)+"; or_keyword := "+cOpKind(info.Keyword)+
			"; or_valid := "+cbool(r.Valid)+"; or_root := "+cstr(info.Root)+"; or_doc := "+doc+
			";\n       or_is_lookup := "+cbool(info.IsLookup)+"; or_parent := "+cstr(info.Parent)+"; or_sel := "+cSelSet(info.Sel)+"; or_ids := "+cstrlist(info.IDs)+
			";\n       or_reply_data := "+replyData+"; or_reply_nerrs := "+fmt.Sprint(nerrs)+"; or_fault := "+flt+" |}")
	}
	obsData := "None"
	if run.Resp.Data != nil {
		obsData = "(Some " + cJSON(run.Resp.Data) + ")"
	}
	var errs []string
	for _, e := range run.Resp.Errors {
		k, names := classifyError(e)
		path := cPath(e.Path)
		if k == "EPerm" { // a permission error names the removed field in its message, not in "path"
			path = clist([]string{"PName " + cstr(strings.TrimSuffix(e.Message, " access disallowed"))})
		}
		svcURL, _ := e.Extensions["serviceUrl"].(string)
		errs = append(errs, "{| oe_kind := "+k+"; oe_path := "+path+"; oe_names_service := "+cbool(names)+"; oe_service := "+cstr(svcURL)+" |}")
	}
	fuel := o.fuel
	if fuel == 0 {
		fuel = 40
	}
	vars := coerceVars(run.Doc, run.Vars)
	return "{| ec_gen := gen_" + env.fx.Name + ";\n   ec_fschema := " + fschema + ";\n   ec_services := " + clist(svcs) +
		";\n   ec_mono := " + mono + ";\n   ec_data := " + cData(env.world.data) +
		";\n   ec_op := " + cOperation(run.Op) + ";\n   ec_vars := " + cEnv(vars) + "; ec_perm := " + perm +
		fmt.Sprintf("; ec_max := %d; ec_fuel := %d", o.max, fuel) +
		";\n   ec_faults := " + clist(faults) + "; ec_conforming := " + cbool(o.conforming) +
		"; ec_failing := " + cstrlist(o.failing) + "; obs_data0 := " + copt(o.hasData0, cJSON(o.data0)) +
		";\n   obs_requests := " + clist(reqs) + ";\n   obs_data := " + obsData + ";\n   obs_errors := " + clist(errs) + " |}"
}

// preamble defines, once per cases file, the per-fixture constants the cases refer to.
func (env *e2eEnv) preamble() string {
	var sb strings.Builder
	fed := env.fed
	sb.WriteString("Definition gen_" + env.fx.Name + " : generation := " + cGeneration(env.gw.es, fed) + ".\n")
	for _, s := range fed.Services {
		sb.WriteString("Definition srv_" + env.fx.Name + "_" + s.Name + " (unk : list string) : server := " + cServerUnk(s.Name, s.Schema, s.Lookups, nil) + ".\n")
	}
	sb.WriteString("Definition mono_" + env.fx.Name + " (unk : list string) : server := " + cServerUnk("", env.gw.es.MergedSchema, nil, fed.Owner) + ".\n")
	return sb.String()
}
