package main

// Shared end-to-end machinery: build a gateway over simulated services, run one client operation, and collect
// everything observable (response, downstream requests, reference answer).

import (
	"context"
	"fmt"
	"math/rand"
	"strings"

	"github.com/movio/bramble"
	"github.com/vektah/gqlparser/v2/ast"
)

type e2eEnv struct {
	fx    fixture
	fed   *federation
	world *simWorld
	gw    *gatewayUnderTest
}

func newEnv(fx fixture, o gwOpts) (*e2eEnv, error) {
	fed, err := splitFederation(fx.SDL)
	if err != nil {
		return nil, fmt.Errorf("fixture %s: %w", fx.Name, err)
	}
	world := &simWorld{fed: fed, data: newDataGraph()}
	gw, err := newGateway(world, o)
	if err != nil {
		return nil, fmt.Errorf("fixture %s: %w", fx.Name, err)
	}
	return &e2eEnv{fx: fx, fed: fed, world: world, gw: gw}, nil
}

type e2eRun struct {
	Query    string
	Vars     map[string]interface{}
	Resp     *gwResponse
	Requests []*recorded
	Ref      *OJ      // single-server answer over the merged schema
	RefErrs  []string // error paths of the reference
	Op       *ast.OperationDefinition
	Doc      *ast.QueryDocument
}

// reference computes the single-server answer for the operation over the merged schema and the environment's data.
func (e *e2eEnv) reference(doc *ast.QueryDocument, vars map[string]interface{}, failSvc map[string]bool) (*OJ, []execErr) {
	x := &execCtx{schema: e.gw.es.MergedSchema, data: e.world.data, vars: coerceVars(doc, vars), fed: e.fed, failSvc: failSvc}
	d := x.execOperation(doc.Operations[0])
	return d, x.errs
}

// coerceVars applies variable defaults (gqlgen does this before the gateway sees the operation)
func coerceVars(doc *ast.QueryDocument, vars map[string]interface{}) map[string]interface{} {
	out := map[string]interface{}{}
	for k, v := range vars {
		out[k] = v
	}
	for _, vd := range doc.Operations[0].VariableDefinitions {
		if _, ok := out[vd.Variable]; !ok && vd.DefaultValue != nil {
			if v, err := vd.DefaultValue.Value(nil); err == nil {
				out[vd.Variable] = v
			}
		}
	}
	return out
}

func (e *e2eEnv) run(query string, vars map[string]interface{}, hdr map[string]string) (*e2eRun, error) {
	return e.runNamed(query, vars, hdr, "")
}

// runNamed: a document with several operations; the operation that is run and judged must be the document's first.
func (e *e2eEnv) runNamed(query string, vars map[string]interface{}, hdr map[string]string, opName string) (*e2eRun, error) {
	doc, gerr := loadQuery(e.gw.es.MergedSchema, query)
	if gerr != nil {
		return nil, fmt.Errorf("invalid query: %v", gerr)
	}
	e.world.reset()
	resp, err := e.gw.do(context.Background(), query, vars, opName, hdr)
	if err != nil {
		return nil, err
	}
	out := &e2eRun{Query: query, Vars: vars, Resp: resp, Requests: e.world.requests(), Doc: doc, Op: doc.Operations[0]}
	return out, nil
}

// genValidQuery draws operations until one validates against the merged schema.
func genValidQuery(r *rand.Rand, s *ast.Schema, o qOpts) (string, map[string]interface{}, *ast.QueryDocument) {
	for i := 0; i < 200; i++ {
		q, vars := genOperation(r, s, o)
		doc, err := loadQuery(s, q)
		if err == nil {
			return q, vars, doc
		}
	}
	return "", nil, nil
}

// genBoundedQuery draws a valid operation whose single-server answer visits at most [budget] objects over the
// environment's current data (cyclic graphs with lists make deep queries explode).
func (e *e2eEnv) genBoundedQuery(r *rand.Rand, o qOpts, budget int) (string, map[string]interface{}, *ast.QueryDocument) {
	for i := 0; i < 50; i++ {
		q, vars, doc := genValidQuery(r, e.gw.es.MergedSchema, o)
		if doc == nil {
			return "", nil, nil
		}
		b := budget
		x := &execCtx{schema: e.gw.es.MergedSchema, data: e.world.data, vars: coerceVars(doc, vars), fed: e.fed, budget: &b}
		x.execOperation(doc.Operations[0])
		if b >= 0 {
			return q, vars, doc
		}
		if o.maxDepth > 2 {
			o.maxDepth--
		}
	}
	return "", nil, nil
}

func init() { props["e2e-smoke"] = runSmoke }

// runSmoke: development aid — gateway answer vs single-server reference on every fixture.
func runSmoke(cfg runCfg) error {
	r := rand.New(rand.NewSource(cfg.seed))
	bad := 0
	for _, fx := range fixtures {
		env, err := newEnv(fx, gwOpts{maxRequests: 50})
		if err != nil {
			return err
		}
		for i := 0; i < cfg.n; i++ {
			env.world.data = genData(r, env.fed, dataOpts{nullProb: 0.15, safeStrings: true})
			q, vars, doc := env.genBoundedQuery(r, qOpts{maxDepth: 2 + r.Intn(4), fragments: r.Intn(2) == 0, aliases: true, typename: true, args: true, variables: true, safeStrings: true}, 400)
			if doc == nil {
				return fmt.Errorf("no valid query for %s", fx.Name)
			}
			run, err := env.run(q, vars, nil)
			if err != nil {
				return err
			}
			ref, rerrs := env.reference(doc, vars, nil)
			got := "<absent>"
			if run.Resp.Data != nil {
				got = run.Resp.Data.String()
			}
			if got != ref.String() || len(run.Resp.Errors) != 0 {
				bad++
				if bad <= 8 {
					fmt.Printf("MISMATCH [%s]\n  query: %s\n  vars: %v\n  gateway: %s\n  errors: %v\n  single : %s %v\n", fx.Name, strings.ReplaceAll(q, "\n", " "), vars, got, errorSummary(run.Resp.Errors), ref.String(), errPaths(rerrs))
					for _, rq := range run.Requests {
						fmt.Printf("    -> %s valid=%v %s\n       <- %s\n", rq.Svc, rq.Valid, rq.Query, rq.Reply)
					}
				}
			}
		}
	}
	fmt.Println("mismatches:", bad)
	_ = bramble.Version
	return nil
}
