package main

import (
	"encoding/json"
	"fmt"
	"os"
	"path/filepath"
	"strings"
)

// caseWriter shards Coq case terms over files of at most shard cases each.
type caseWriter struct {
	dir      string
	imports  string // Require lines
	check    string // name of check_case function
	preamble string // shared definitions, repeated in every shard
	shard    int
	cases    []string
	names    []string
}

func (w *caseWriter) add(name, term string) {
	w.cases = append(w.cases, term)
	w.names = append(w.names, name)
}

func (w *caseWriter) flush() ([]string, error) {
	var files []string
	for i := 0; i < len(w.cases); i += w.shard {
		j := i + w.shard
		if j > len(w.cases) {
			j = len(w.cases)
		}
		var sb strings.Builder
		sb.WriteString(w.imports)
		sb.WriteString("\nSet Printing Width 1000000.\nSet Printing Depth 1000000.\n")
		sb.WriteString(w.preamble)
		sb.WriteString("Definition cases := [\n")
		for k := i; k < j; k++ {
			sb.WriteString("  (" + cstr(w.names[k]) + ", " + w.cases[k] + ")")
			if k+1 < j {
				sb.WriteString(";")
			}
			sb.WriteString("\n")
		}
		sb.WriteString("].\n")
		sb.WriteString("Definition verdicts := Eval vm_compute in map (fun c => (fst c, " + w.check + " (snd c))) cases.\n")
		sb.WriteString("Goal True. let v := eval cbv delta [verdicts] in verdicts in print_verdicts v. Abort.\n")
		name := filepath.Join(w.dir, fmt.Sprintf("cases_%03d.v", i/w.shard))
		if err := os.WriteFile(name, []byte(sb.String()), 0o644); err != nil {
			return nil, err
		}
		files = append(files, name)
	}
	return files, nil
}

// summary is what the Go side tells the driver about a run.
type summary struct {
	Property   string                 `json:"property"`
	Seed       int64                  `json:"seed"`
	Cases      int                    `json:"cases"`
	Files      []string               `json:"files"`
	Features   map[string]int         `json:"features"`
	Samples    []interface{}          `json:"samples"`
	GoOracle   []oracleResult         `json:"go_oracle"`
	CaseInputs map[string]interface{} `json:"case_inputs"` // name -> replayable input
	Nontrivial int                    `json:"distinct_nontrivial"`
	Rule       string                 `json:"rule"`
	Extra      map[string]interface{} `json:"extra,omitempty"`
}

type oracleResult struct {
	Case      string `json:"case"`
	Component string `json:"component"`
	OK        bool   `json:"ok"`
	Detail    string `json:"detail,omitempty"`
}

// inflight records the input about to be handed to the code under test, so that a crash of the whole harness process
// (a fatal stack overflow cannot be recovered) still leaves the failing input behind; removed on normal completion.
var inflightDir string

func inflight(v interface{}) {
	if inflightDir == "" {
		return
	}
	if b, err := json.Marshal(v); err == nil {
		_ = os.WriteFile(filepath.Join(inflightDir, "inflight.json"), b, 0o644)
	}
}

func writeSummary(dir string, s *summary) error {
	_ = os.Remove(filepath.Join(dir, "inflight.json"))
	b, err := json.MarshalIndent(s, "", " ")
	if err != nil {
		return err
	}
	return os.WriteFile(filepath.Join(dir, "summary.json"), b, 0o644)
}
