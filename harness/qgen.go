package main

// Schema-directed random operations (text), validated by gqlparser before use.

import (
	"fmt"
	"math/rand"
	"sort"
	"strings"

	"github.com/vektah/gqlparser/v2/ast"
)

type qOpts struct {
	maxDepth     int
	fragments    bool // inline + named fragments
	abstractFrag bool // fragments whose condition is an abstract type inside abstract parents
	aliases      bool
	recurAlias   bool // aliases that repeat a key of the path or of a sibling
	typename     bool
	directives   bool // @skip/@include
	variables    bool
	args         bool
	mutation     bool
	dupFields    bool // the same field selected twice in one selection set (merged by a server)
	safeStrings  bool
	hostile      bool // strings with bytes Go and GraphQL escape differently, and whitespace runs
}

type qgen struct {
	r       *rand.Rand
	s       *ast.Schema
	o       qOpts
	frags   []string
	nfrag   int
	vardefs []string
	vars    map[string]interface{}
	nvar    int
}

func (g *qgen) p(x float64) bool { return g.r.Float64() < x }

func genOperation(r *rand.Rand, s *ast.Schema, o qOpts) (string, map[string]interface{}) {
	g := &qgen{r: r, s: s, o: o, vars: map[string]interface{}{}}
	root := s.Query
	kw := "query"
	if o.mutation && s.Mutation != nil {
		root, kw = s.Mutation, "mutation"
	}
	body := g.selectionSet(root, o.maxDepth, nil, true)
	head := kw + " Op"
	if len(g.vardefs) > 0 {
		head += "(" + strings.Join(g.vardefs, ", ") + ")"
	}
	return head + " " + body + "\n" + strings.Join(g.frags, "\n"), g.vars
}

// usableFields in name order: the merged schema's field order depends on the order in which polls completed
func (g *qgen) usableFields(def *ast.Definition) []*ast.FieldDefinition {
	var out []*ast.FieldDefinition
	for _, f := range def.Fields {
		if strings.HasPrefix(f.Name, "__") {
			continue
		}
		out = append(out, f)
	}
	sort.Slice(out, func(i, j int) bool { return out[i].Name < out[j].Name })
	return out
}

func sortedDefNames(ds []*ast.Definition) []string {
	var out []string
	seen := map[string]bool{}
	for _, d := range ds {
		if d != nil && !seen[d.Name] {
			seen[d.Name] = true
			out = append(out, d.Name)
		}
	}
	sort.Strings(out)
	return out
}

func (g *qgen) directive() string {
	if !g.o.directives || !g.p(0.12) {
		return ""
	}
	name := []string{"skip", "include"}[g.r.Intn(2)]
	val := g.r.Intn(2) == 0
	d := ""
	if g.o.variables && g.p(0.5) {
		v := g.newVar("Boolean!", val, false)
		d = fmt.Sprintf(" @%s(if: $%s)", name, v)
	} else {
		d = fmt.Sprintf(" @%s(if: %v)", name, val)
	}
	if g.p(0.15) { // both on the same node
		other := map[string]string{"skip": "include", "include": "skip"}[name]
		d += fmt.Sprintf(" @%s(if: %v)", other, g.r.Intn(2) == 0)
	}
	return d
}

func (g *qgen) newVar(typ string, val interface{}, withDefault bool) string {
	g.nvar++
	name := fmt.Sprintf("v%d", g.nvar)
	def := "$" + name + ": " + typ
	g.vardefs = append(g.vardefs, def)
	g.vars[name] = val
	return name
}

var hostilePool = []string{"bell\a!", "vt\vx", "del\x7f", "soh\x01", "two  spaces", "three   spaces", "tab\tand  spaces", "q\"uote\\back", "nl\nline", "é  ü", "🙂", "plain",
	"costs $v1 or $v2", "$v1", "col1\tcol2", "\t", "a\tb\tc", "$v2", "($v1)", "$v3 $v1", // text that looks like a variable reference is still text
	"100%", "50% off", "%d of %s", "100%% sure", "%[1]q%v"} // and text that looks like a format verb too

func (g *qgen) str() string {
	if g.o.hostile {
		return hostilePool[g.r.Intn(len(hostilePool))]
	}
	if g.o.safeStrings {
		return []string{"a", "b c", "T"}[g.r.Intn(3)]
	}
	return strPool[g.r.Intn(len(strPool))]
}

func gqlQuote(s string) string {
	var sb strings.Builder
	sb.WriteByte('"')
	for _, c := range s {
		switch c {
		case '"':
			sb.WriteString(`\"`)
		case '\\':
			sb.WriteString(`\\`)
		case '\n':
			sb.WriteString(`\n`)
		case '\t':
			sb.WriteString(`\t`)
		case '\r':
			sb.WriteString(`\r`)
		default:
			if c < 0x20 {
				sb.WriteString(fmt.Sprintf(`\u%04x`, c))
			} else {
				sb.WriteRune(c)
			}
		}
	}
	sb.WriteByte('"')
	return sb.String()
}

// literal returns (graphql literal text, go value as the JSON variable would carry it)
func (g *qgen) literal(t *ast.Type, depth int) (string, interface{}) {
	if !t.NonNull && g.p(0.1) {
		return "null", nil
	}
	if t.Elem != nil {
		n := g.r.Intn(3)
		var parts []string
		vals := []interface{}{}
		for i := 0; i < n; i++ {
			l, v := g.literal(t.Elem, depth+1)
			parts = append(parts, l)
			vals = append(vals, v)
		}
		return "[" + strings.Join(parts, ", ") + "]", vals
	}
	def := g.s.Types[t.NamedType]
	switch t.NamedType {
	case "Int":
		n := g.r.Intn(200) - 100
		return fmt.Sprint(n), n
	case "Float":
		return "1.5", 1.5
	case "Boolean":
		b := g.r.Intn(2) == 0
		return fmt.Sprint(b), b
	case "String":
		s := g.str()
		return gqlQuote(s), s
	case "ID":
		s := idPool[g.r.Intn(len(idPool))]
		if g.o.safeStrings {
			s = fmt.Sprint(1 + g.r.Intn(3))
		}
		return gqlQuote(s), s
	}
	if def == nil {
		return "null", nil
	}
	switch def.Kind {
	case ast.Enum:
		v := def.EnumValues[g.r.Intn(len(def.EnumValues))].Name
		return v, v
	case ast.InputObject:
		var parts []string
		m := map[string]interface{}{}
		for _, f := range def.Fields {
			if depth > 2 || g.p(0.4) {
				if f.Type.NonNull && f.DefaultValue == nil {
					// required
				} else {
					continue
				}
			}
			l, v := g.literal(f.Type, depth+1)
			parts = append(parts, f.Name+": "+l)
			m[f.Name] = v
		}
		return "{" + strings.Join(parts, ", ") + "}", m
	case ast.Scalar:
		return gqlQuote("custom"), "custom"
	}
	return "null", nil
}

func (g *qgen) arguments(f *ast.FieldDefinition) string {
	if len(f.Arguments) == 0 {
		return ""
	}
	var parts []string
	for _, a := range f.Arguments {
		required := a.Type.NonNull && a.DefaultValue == nil
		if !required && (!g.o.args || g.p(0.4)) {
			continue
		}
		lit, val := g.literal(a.Type, 0)
		if g.o.variables && g.p(0.4) {
			if !a.Type.NonNull && g.p(0.25) {
				val = nil // a variable the client sets to null explicitly is not the same as an absent one
			}
			v := g.newVar(a.Type.String(), val, false)
			parts = append(parts, a.Name+": $"+v)
		} else {
			parts = append(parts, a.Name+": "+lit)
		}
	}
	if len(parts) == 0 {
		return ""
	}
	return "(" + strings.Join(parts, ", ") + ")"
}

// compKeys: response keys of composite fields already selected for the SAME object in an enclosing scope or a sibling
// fragment. A second composite selection under such a key makes bramble's response shaper append to the first
// occurrence's selection on every visited object (execution.go:623) — with nested lists the growth is exponential
// (recorded finding KF-selection-growth), so the random stream avoids it; the corpus exercises it on small data.
func (g *qgen) selectionSet(def *ast.Definition, depth int, pathKeys []string, isRoot bool) string {
	return g.selectionSetIn(def, depth, pathKeys, isRoot, map[string]bool{})
}

func (g *qgen) selectionSetIn(def *ast.Definition, depth int, pathKeys []string, isRoot bool, compKeys map[string]bool) string {
	var parts []string
	fields := g.usableFields(def)
	n := 1 + g.r.Intn(4)
	if isRoot {
		n = 1 + g.r.Intn(3)
	}
	used := map[string]string{} // response key -> field signature (to keep the query valid)
	addField := func(f *ast.FieldDefinition) {
		ft := g.s.Types[f.Type.Name()]
		composite := ft != nil && (ft.Kind == ast.Object || ft.Kind == ast.Interface || ft.Kind == ast.Union)
		if composite && depth <= 0 {
			return
		}
		key := f.Name
		alias := ""
		if g.o.aliases && g.p(0.2) {
			alias = []string{"x", "y", "al", "name", "id2", "id"}[g.r.Intn(6)]
			if g.o.recurAlias && len(pathKeys) > 0 && g.p(0.5) {
				alias = pathKeys[g.r.Intn(len(pathKeys))]
			}
			key = alias
		}
		args := g.arguments(f)
		sig := f.Name + args
		if prev, ok := used[key]; ok && (prev != sig || !g.o.dupFields || composite) {
			return
		}
		if composite {
			if compKeys[key] {
				return
			}
			compKeys[key] = true
		}
		used[key] = sig
		s := ""
		if alias != "" {
			s = alias + ": "
		}
		s += f.Name + args + g.directive()
		if composite {
			s += " " + g.selectionSet(ft, depth-1, append(append([]string{}, pathKeys...), key), false)
		}
		parts = append(parts, s)
	}
	for i := 0; i < n && len(fields) > 0; i++ {
		addField(fields[g.r.Intn(len(fields))])
	}
	if g.o.typename && g.p(0.2) {
		parts = append(parts, "__typename")
	}
	// fragments
	abstract := def.Kind == ast.Interface || def.Kind == ast.Union
	if depth > 0 && ((g.o.fragments && g.p(0.45)) || (abstract && g.p(0.8))) {
		conds := []string{}
		if def.Kind == ast.Object {
			conds = append(conds, def.Name)
			if g.o.abstractFrag {
				conds = append(conds, sortedDefNames(g.s.Implements[def.Name])...)
			}
		} else {
			conds = append(conds, sortedDefNames(g.s.PossibleTypes[def.Name])...)
			if g.o.abstractFrag {
				conds = append(conds, def.Name)
				for _, pt := range sortedDefNames(g.s.PossibleTypes[def.Name]) {
					for _, i := range sortedDefNames(g.s.Implements[pt]) {
						if i != def.Name {
							conds = append(conds, i)
						}
					}
				}
			}
		}
		k := 1 + g.r.Intn(2)
		for i := 0; i < k && len(conds) > 0; i++ {
			c := conds[g.r.Intn(len(conds))]
			cd := g.s.Types[c]
			if cd == nil || len(g.usableFields(cd)) == 0 && cd.Kind != ast.Union {
				continue
			}
			var body string
			if cd.Kind == ast.Union {
				body = "{ __typename }"
			} else {
				body = g.selectionSetIn(cd, depth-1, pathKeys, false, compKeys)
			}
			if g.p(0.35) {
				g.nfrag++
				name := fmt.Sprintf("F%d", g.nfrag)
				g.frags = append(g.frags, fmt.Sprintf("fragment %s on %s %s", name, c, body))
				parts = append(parts, "..."+name+g.directive())
				if g.p(0.2) {
					parts = append(parts, "..."+name)
				}
			} else {
				parts = append(parts, "... on "+c+g.directive()+" "+body)
			}
		}
	}
	if len(parts) == 0 {
		if len(fields) > 0 {
			// a leaf if there is one, else __typename
			for _, f := range fields {
				ft := g.s.Types[f.Type.Name()]
				if ft != nil && (ft.Kind == ast.Scalar || ft.Kind == ast.Enum) && len(f.Arguments) == 0 {
					return "{ " + f.Name + " }"
				}
			}
		}
		return "{ __typename }"
	}
	g.r.Shuffle(len(parts), func(i, j int) { parts[i], parts[j] = parts[j], parts[i] })
	return "{ " + strings.Join(parts, " ") + " }"
}
