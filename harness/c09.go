package main

// C09 — ValidateSchema on conforming service schemas (as generated for C07) and on schemas obtained from a conforming one
// by ONE violation of one of the listed rules, at a random position where it can be broken; for accepted schemas, the
// federation is served and valid queries must not meet a planning or lookup error.

import (
	"context"
	"fmt"
	"math/rand"
	"strings"

	"github.com/movio/bramble"
	"github.com/vektah/gqlparser/v2"
	"github.com/vektah/gqlparser/v2/ast"
	"github.com/vektah/gqlparser/v2/formatter"
	"github.com/vektah/gqlparser/v2/parser"
)

func init() { props["c09"] = runC09 }

type schemaMutation struct {
	name       string
	conforming bool // the result still follows the documented syntax and must be accepted
	apply      func(r *rand.Rand, doc *ast.SchemaDocument) bool
}

func docDef(doc *ast.SchemaDocument, name string) *ast.Definition {
	return doc.Definitions.ForName(name)
}

func boundaryDefs(doc *ast.SchemaDocument) []*ast.Definition {
	var out []*ast.Definition
	for _, d := range doc.Definitions {
		if d.Kind == ast.Object && d.Directives.ForName("boundary") != nil {
			out = append(out, d)
		}
	}
	return out
}

func lookupFields(doc *ast.SchemaDocument) []*ast.FieldDefinition {
	q := docDef(doc, "Query")
	var out []*ast.FieldDefinition
	if q != nil {
		for _, f := range q.Fields {
			if f.Directives.ForName("boundary") != nil {
				out = append(out, f)
			}
		}
	}
	return out
}

func removeField(d *ast.Definition, name string) {
	var fs ast.FieldList
	for _, f := range d.Fields {
		if f.Name != name {
			fs = append(fs, f)
		}
	}
	d.Fields = fs
}

func nsDefs(doc *ast.SchemaDocument) []*ast.Definition {
	var out []*ast.Definition
	for _, d := range doc.Definitions {
		if d.Kind == ast.Object && d.Directives.ForName("namespace") != nil {
			out = append(out, d)
		}
	}
	return out
}

func onService(f func(r *rand.Rand, svc *ast.Definition) bool) func(*rand.Rand, *ast.SchemaDocument) bool {
	return func(r *rand.Rand, doc *ast.SchemaDocument) bool {
		s := docDef(doc, "Service")
		return s != nil && f(r, s)
	}
}
func onServiceField(f func(fd *ast.FieldDefinition)) func(*rand.Rand, *ast.SchemaDocument) bool {
	return func(r *rand.Rand, doc *ast.SchemaDocument) bool {
		q := docDef(doc, "Query")
		if q == nil || q.Fields.ForName("service") == nil {
			return false
		}
		f(q.Fields.ForName("service"))
		return true
	}
}
func onLookup(f func(r *rand.Rand, q *ast.Definition, fd *ast.FieldDefinition)) func(*rand.Rand, *ast.SchemaDocument) bool {
	return func(r *rand.Rand, doc *ast.SchemaDocument) bool {
		ls := lookupFields(doc)
		if len(ls) == 0 {
			return false
		}
		f(r, docDef(doc, "Query"), ls[r.Intn(len(ls))])
		return true
	}
}
func onBoundary(f func(r *rand.Rand, d *ast.Definition)) func(*rand.Rand, *ast.SchemaDocument) bool {
	return func(r *rand.Rand, doc *ast.SchemaDocument) bool {
		bs := boundaryDefs(doc)
		if len(bs) == 0 {
			return false
		}
		f(r, bs[r.Intn(len(bs))])
		return true
	}
}
func dirDef(doc *ast.SchemaDocument, name string) *ast.DirectiveDefinition {
	for _, d := range doc.Directives {
		if d.Name == name {
			return d
		}
	}
	return nil
}

var schemaMutations = []schemaMutation{
	{"none", true, func(r *rand.Rand, doc *ast.SchemaDocument) bool { return true }},
	{"none", true, func(r *rand.Rand, doc *ast.SchemaDocument) bool { return true }},
	{"none", true, func(r *rand.Rand, doc *ast.SchemaDocument) bool { return true }},
	// ---- the service-description field
	{"svcfield_missing", false, func(r *rand.Rand, doc *ast.SchemaDocument) bool {
		q := docDef(doc, "Query")
		if q == nil || len(q.Fields) < 2 {
			return false
		}
		removeField(q, "service")
		return true
	}},
	{"svcfield_nullable", false, onServiceField(func(f *ast.FieldDefinition) { f.Type = ast.NamedType("Service", nil) })},
	{"svcfield_list", false, onServiceField(func(f *ast.FieldDefinition) { f.Type = ast.NonNullListType(ast.NonNullNamedType("Service", nil), nil) })},
	{"svcfield_wrongtype", false, onServiceField(func(f *ast.FieldDefinition) { f.Type = ast.NonNullNamedType("String", nil) })},
	{"svcfield_args", false, onServiceField(func(f *ast.FieldDefinition) {
		f.Arguments = ast.ArgumentDefinitionList{{Name: "verbose", Type: ast.NamedType("Boolean", nil)}}
	})},
	// ---- the Service type
	{"svctype_missing_field", false, onService(func(r *rand.Rand, s *ast.Definition) bool {
		removeField(s, []string{"name", "version", "schema"}[r.Intn(3)])
		return true
	})},
	{"svctype_extra_field", false, onService(func(r *rand.Rand, s *ast.Definition) bool {
		s.Fields = append(s.Fields, &ast.FieldDefinition{Name: "extra", Type: ast.NonNullNamedType("String", nil)})
		return true
	})},
	{"svctype_nullable_field", false, onService(func(r *rand.Rand, s *ast.Definition) bool {
		s.Fields[r.Intn(len(s.Fields))].Type = ast.NamedType("String", nil)
		return true
	})},
	{"svctype_wrong_field_type", false, onService(func(r *rand.Rand, s *ast.Definition) bool {
		s.Fields[r.Intn(len(s.Fields))].Type = ast.NonNullNamedType("Int", nil)
		return true
	})},
	{"svctype_renamed_field", false, onService(func(r *rand.Rand, s *ast.Definition) bool {
		s.Fields[r.Intn(len(s.Fields))].Name = "title"
		return true
	})},
	{"svctype_interface", false, onService(func(r *rand.Rand, s *ast.Definition) bool { s.Kind = ast.Interface; return true })},
	// ---- boundary types: the key
	{"bnd_id_nullable", false, onBoundary(func(r *rand.Rand, d *ast.Definition) { d.Fields.ForName("id").Type = ast.NamedType("ID", nil) })},
	{"bnd_id_type", false, onBoundary(func(r *rand.Rand, d *ast.Definition) {
		d.Fields.ForName("id").Type = ast.NonNullNamedType("String", nil)
	})},
	{"bnd_id_list", false, onBoundary(func(r *rand.Rand, d *ast.Definition) {
		d.Fields.ForName("id").Type = ast.NonNullListType(ast.NonNullNamedType("ID", nil), nil)
	})},
	{"bnd_id_missing", false, onBoundary(func(r *rand.Rand, d *ast.Definition) { d.Fields.ForName("id").Name = "ident" })},
	// ---- boundary types: the lookup
	{"lookup_missing", false, onLookup(func(r *rand.Rand, q *ast.Definition, f *ast.FieldDefinition) { removeField(q, f.Name) })},
	{"lookup_unmarked", false, onLookup(func(r *rand.Rand, q *ast.Definition, f *ast.FieldDefinition) { f.Directives = nil })},
	{"lookup_duplicate", false, onLookup(func(r *rand.Rand, q *ast.Definition, f *ast.FieldDefinition) {
		c := *f
		c.Name = f.Name + "Again"
		q.Fields = append(q.Fields, &c)
	})},
	{"lookup_duplicate_array", false, onLookup(func(r *rand.Rand, q *ast.Definition, f *ast.FieldDefinition) {
		c := *f
		c.Name = f.Name + "s"
		c.Arguments = ast.ArgumentDefinitionList{{Name: "ids", Type: ast.NonNullListType(ast.NonNullNamedType("ID", nil), nil)}}
		c.Type = ast.NonNullListType(ast.NamedType(f.Type.Name(), nil), nil)
		q.Fields = append(q.Fields, &c)
	})},
	{"lookup_arg_nullable", false, onLookup(func(r *rand.Rand, q *ast.Definition, f *ast.FieldDefinition) {
		f.Arguments[0].Type = ast.NamedType("ID", nil)
	})},
	{"lookup_arg_type", false, onLookup(func(r *rand.Rand, q *ast.Definition, f *ast.FieldDefinition) {
		f.Arguments[0].Type = ast.NonNullNamedType("String", nil)
	})},
	{"lookup_two_args", false, onLookup(func(r *rand.Rand, q *ast.Definition, f *ast.FieldDefinition) {
		f.Arguments = append(f.Arguments, &ast.ArgumentDefinition{Name: "locale", Type: ast.NamedType("String", nil)})
	})},
	{"lookup_no_args", false, onLookup(func(r *rand.Rand, q *ast.Definition, f *ast.FieldDefinition) { f.Arguments = nil })},
	{"lookup_single_nonnull", false, onLookup(func(r *rand.Rand, q *ast.Definition, f *ast.FieldDefinition) {
		f.Type = ast.NonNullNamedType(f.Type.Name(), nil)
	})},
	{"lookup_array_nullable_result", false, onLookup(func(r *rand.Rand, q *ast.Definition, f *ast.FieldDefinition) {
		f.Arguments = ast.ArgumentDefinitionList{{Name: "ids", Type: ast.NonNullListType(ast.NonNullNamedType("ID", nil), nil)}}
		f.Type = ast.ListType(ast.NamedType(f.Type.Name(), nil), nil)
	})},
	{"lookup_array_single_result", false, onLookup(func(r *rand.Rand, q *ast.Definition, f *ast.FieldDefinition) {
		f.Arguments = ast.ArgumentDefinitionList{{Name: "ids", Type: ast.NonNullListType(ast.NonNullNamedType("ID", nil), nil)}}
		f.Type = ast.NamedType(f.Type.Name(), nil)
	})},
	{"lookup_array_bad_arg", false, onLookup(func(r *rand.Rand, q *ast.Definition, f *ast.FieldDefinition) {
		t := []*ast.Type{ast.NonNullListType(ast.NamedType("ID", nil), nil), ast.ListType(ast.NonNullNamedType("ID", nil), nil),
			ast.NonNullListType(ast.NonNullNamedType("String", nil), nil)}[r.Intn(3)]
		f.Arguments = ast.ArgumentDefinitionList{{Name: "ids", Type: t}}
		f.Type = ast.NonNullListType(ast.NamedType(f.Type.Name(), nil), nil)
	})},
	{"lookup_array_valid", true, onLookup(func(r *rand.Rand, q *ast.Definition, f *ast.FieldDefinition) {
		f.Arguments = ast.ArgumentDefinitionList{{Name: "ids", Type: ast.NonNullListType(ast.NonNullNamedType("ID", nil), nil)}}
		f.Type = ast.NonNullListType(ast.NamedType(f.Type.Name(), nil), nil)
	})},
	{"lookup_nonboundary", false, func(r *rand.Rand, doc *ast.SchemaDocument) bool {
		q := docDef(doc, "Query")
		if q == nil {
			return false
		}
		var cands []*ast.FieldDefinition
		for _, f := range q.Fields {
			ft := docDef(doc, f.Type.Name())
			if f.Name != "service" && f.Directives.ForName("boundary") == nil && (ft == nil || ft.Directives.ForName("boundary") == nil) {
				cands = append(cands, f)
			}
		}
		if len(cands) == 0 || len(boundaryDefs(doc)) == 0 {
			return false
		}
		f := cands[r.Intn(len(cands))]
		f.Directives = append(f.Directives, &ast.Directive{Name: "boundary"})
		f.Arguments = ast.ArgumentDefinitionList{{Name: "id", Type: ast.NonNullNamedType("ID", nil)}}
		f.Type = ast.NamedType(f.Type.Name(), nil)
		return true
	}},
	{"stray_lookup", false, func(r *rand.Rand, doc *ast.SchemaDocument) bool {
		// a marked Query field in a schema that declares no boundary type at all; its arguments stay as they are
		q := docDef(doc, "Query")
		if q == nil || len(boundaryDefs(doc)) > 0 || dirDef(doc, "boundary") == nil {
			return false
		}
		var cands []*ast.FieldDefinition
		for _, f := range q.Fields {
			if ft := docDef(doc, f.Type.Name()); f.Name != "service" && ft != nil && ft.Kind == ast.Object {
				cands = append(cands, f)
			}
		}
		if len(cands) == 0 {
			return false
		}
		f := cands[r.Intn(len(cands))]
		f.Directives = append(f.Directives, &ast.Directive{Name: "boundary"})
		return true
	}},
	{"lookups_without_boundary_objects", false, func(r *rand.Rand, doc *ast.SchemaDocument) bool {
		// the tag removed from EVERY boundary object while the marked lookups stay: each of them now returns a type that is
		// not a boundary type, in a schema without a single boundary object
		bs := boundaryDefs(doc)
		if len(bs) == 0 {
			return false
		}
		for _, d := range bs {
			var keep ast.DirectiveList
			for _, x := range d.Directives {
				if x.Name != "boundary" {
					keep = append(keep, x)
				}
			}
			d.Directives = keep
		}
		return true
	}},
	// ---- the directive definitions
	{"bnddir_args", false, func(r *rand.Rand, doc *ast.SchemaDocument) bool {
		d := dirDef(doc, "boundary")
		if d == nil || len(boundaryDefs(doc)) == 0 {
			return false
		}
		d.Arguments = ast.ArgumentDefinitionList{{Name: "key", Type: ast.NamedType("String", nil)}}
		return true
	}},
	{"bnddir_locations", false, func(r *rand.Rand, doc *ast.SchemaDocument) bool {
		d := dirDef(doc, "boundary")
		if d == nil || len(boundaryDefs(doc)) == 0 {
			return false
		}
		d.Locations = [][]ast.DirectiveLocation{
			{ast.LocationObject, ast.LocationFieldDefinition, ast.LocationInterface},
			{ast.LocationObject, ast.LocationInterface},
			{ast.LocationObject, ast.LocationObject}}[r.Intn(3)]
		return true
	}},
	{"nsdir_args", false, func(r *rand.Rand, doc *ast.SchemaDocument) bool {
		d := dirDef(doc, "namespace")
		if d == nil || len(nsDefs(doc)) == 0 {
			return false
		}
		d.Arguments = ast.ArgumentDefinitionList{{Name: "key", Type: ast.NamedType("String", nil)}}
		return true
	}},
	{"nsdir_locations", false, func(r *rand.Rand, doc *ast.SchemaDocument) bool {
		d := dirDef(doc, "namespace")
		if d == nil || len(nsDefs(doc)) == 0 {
			return false
		}
		d.Locations = []ast.DirectiveLocation{ast.LocationObject, ast.LocationInterface}
		return true
	}},
	// ---- namespaces
	{"ns_nullable_link", false, func(r *rand.Rand, doc *ast.SchemaDocument) bool {
		var links []*ast.FieldDefinition
		for _, d := range doc.Definitions {
			for _, f := range d.Fields {
				if ft := docDef(doc, f.Type.Name()); ft != nil && ft.Directives.ForName("namespace") != nil && f.Type.NonNull {
					links = append(links, f)
				}
			}
		}
		if len(links) == 0 {
			return false
		}
		f := links[r.Intn(len(links))]
		c := *f.Type
		c.NonNull = false
		f.Type = &c
		return true
	}},
	{"ns_in_plain_object", false, func(r *rand.Rand, doc *ast.SchemaDocument) bool {
		ns := nsDefs(doc)
		var plain []*ast.Definition
		for _, d := range doc.Definitions {
			if d.Kind == ast.Object && d.Directives.ForName("namespace") == nil && !isRootName(d.Name) && d.Name != "Service" {
				plain = append(plain, d)
			}
		}
		if len(ns) == 0 || len(plain) == 0 {
			return false
		}
		d := plain[r.Intn(len(plain))]
		d.Fields = append(d.Fields, &ast.FieldDefinition{Name: "viaNamespace", Type: ast.NonNullNamedType(ns[r.Intn(len(ns))].Name, nil)})
		return true
	}},
	{"ns_in_boundary_object", false, func(r *rand.Rand, doc *ast.SchemaDocument) bool {
		// a namespace type behind a field of a @boundary object: boundary objects are not namespaces
		ns := nsDefs(doc)
		var bnd []*ast.Definition
		for _, d := range doc.Definitions {
			if d.Kind == ast.Object && d.Directives.ForName("boundary") != nil && d.Directives.ForName("namespace") == nil {
				bnd = append(bnd, d)
			}
		}
		if len(ns) == 0 || len(bnd) == 0 {
			return false
		}
		d := bnd[r.Intn(len(bnd))]
		d.Fields = append(d.Fields, &ast.FieldDefinition{Name: "viaNamespace", Type: ast.NonNullNamedType(ns[r.Intn(len(ns))].Name, nil)})
		return true
	}},
	{"ns_in_interface", false, func(r *rand.Rand, doc *ast.SchemaDocument) bool {
		// a namespace type behind an interface field (a new interface, or an existing one together with its implementers
		// that are namespaces already): interfaces are "non-namespace objects" for this rule as well
		ns := nsDefs(doc)
		if len(ns) == 0 {
			return false
		}
		doc.Definitions = append(doc.Definitions, &ast.Definition{Kind: ast.Interface, Name: "ZzSection",
			Fields: ast.FieldList{{Name: "viaNamespace", Type: ast.NonNullNamedType(ns[r.Intn(len(ns))].Name, nil)}}})
		return true
	}},
	{"ns_cycle", true, func(r *rand.Rand, doc *ast.SchemaDocument) bool {
		q := docDef(doc, "Query")
		if q == nil || dirDef(doc, "namespace") == nil {
			return false
		}
		nsd := ast.DirectiveList{{Name: "namespace"}}
		doc.Definitions = append(doc.Definitions,
			&ast.Definition{Kind: ast.Object, Name: "LoopA", Directives: nsd, Fields: ast.FieldList{
				{Name: "toB", Type: ast.NonNullNamedType("LoopB", nil)}, {Name: "leafA", Type: ast.NamedType("Int", nil)}}},
			&ast.Definition{Kind: ast.Object, Name: "LoopB", Directives: nsd, Fields: ast.FieldList{
				{Name: "toA", Type: ast.NonNullNamedType("LoopA", nil)}, {Name: "leafB", Type: ast.NamedType("Int", nil)}}})
		q.Fields = append(q.Fields, &ast.FieldDefinition{Name: "loop", Type: ast.NonNullNamedType("LoopA", nil)})
		return true
	}},
	// nullable links to a namespace the walk has already seen: a second link, a back edge, a self link, a diamond
	{"ns_second_link_nullable", false, func(r *rand.Rand, doc *ast.SchemaDocument) bool {
		for _, d := range doc.Definitions {
			for _, f := range d.Fields {
				if ft := docDef(doc, f.Type.Name()); ft != nil && ft.Directives.ForName("namespace") != nil && f.Type.NonNull && f.Type.Elem == nil {
					d.Fields = append(d.Fields, &ast.FieldDefinition{Name: f.Name + "Again", Type: ast.NamedType(ft.Name, nil)})
					return true
				}
			}
		}
		return false
	}},
	{"ns_loop_nullable_edge", false, func(r *rand.Rand, doc *ast.SchemaDocument) bool {
		q := docDef(doc, "Query")
		if q == nil || dirDef(doc, "namespace") == nil {
			return false
		}
		nsd := ast.DirectiveList{{Name: "namespace"}}
		switch r.Intn(3) {
		case 0: // back edge of a cycle
			doc.Definitions = append(doc.Definitions,
				&ast.Definition{Kind: ast.Object, Name: "LoopA", Directives: nsd, Fields: ast.FieldList{
					{Name: "toB", Type: ast.NonNullNamedType("LoopB", nil)}, {Name: "leafA", Type: ast.NamedType("Int", nil)}}},
				&ast.Definition{Kind: ast.Object, Name: "LoopB", Directives: nsd, Fields: ast.FieldList{
					{Name: "toA", Type: ast.NamedType("LoopA", nil)}, {Name: "leafB", Type: ast.NamedType("Int", nil)}}})
		case 1: // self link
			doc.Definitions = append(doc.Definitions,
				&ast.Definition{Kind: ast.Object, Name: "LoopA", Directives: nsd, Fields: ast.FieldList{
					{Name: "parent", Type: ast.NamedType("LoopA", nil)}, {Name: "leafA", Type: ast.NamedType("Int", nil)}}})
		default: // diamond: the second path to the leaf is nullable
			doc.Definitions = append(doc.Definitions,
				&ast.Definition{Kind: ast.Object, Name: "LoopA", Directives: nsd, Fields: ast.FieldList{
					{Name: "left", Type: ast.NonNullNamedType("LoopB", nil)}, {Name: "right", Type: ast.NonNullNamedType("LoopC", nil)}}},
				&ast.Definition{Kind: ast.Object, Name: "LoopB", Directives: nsd, Fields: ast.FieldList{{Name: "leaf", Type: ast.NonNullNamedType("LoopD", nil)}}},
				&ast.Definition{Kind: ast.Object, Name: "LoopC", Directives: nsd, Fields: ast.FieldList{{Name: "leaf", Type: ast.NamedType("LoopD", nil)}}},
				&ast.Definition{Kind: ast.Object, Name: "LoopD", Directives: nsd, Fields: ast.FieldList{{Name: "leafD", Type: ast.NamedType("Int", nil)}}})
		}
		q.Fields = append(q.Fields, &ast.FieldDefinition{Name: "loop", Type: ast.NonNullNamedType("LoopA", nil)})
		return true
	}},
	// ---- roots
	{"root_renamed", false, func(r *rand.Rand, doc *ast.SchemaDocument) bool {
		which := []string{"Query", "Mutation"}[r.Intn(2)]
		d := docDef(doc, which)
		if d == nil {
			return false
		}
		d.Name = "Root" + which
		sd := &ast.SchemaDefinition{}
		if q := docDef(doc, "Query"); q != nil || which == "Query" {
			n := "Query"
			if which == "Query" {
				n = "RootQuery"
			}
			sd.OperationTypes = append(sd.OperationTypes, &ast.OperationTypeDefinition{Operation: ast.Query, Type: n})
		}
		if m := docDef(doc, "Mutation"); m != nil || which == "Mutation" {
			n := "Mutation"
			if which == "Mutation" {
				n = "RootMutation"
			}
			sd.OperationTypes = append(sd.OperationTypes, &ast.OperationTypeDefinition{Operation: ast.Mutation, Type: n})
		}
		doc.Schema = ast.SchemaDefinitionList{sd}
		return true
	}},
	{"no_query_type", false, func(r *rand.Rand, doc *ast.SchemaDocument) bool {
		var ds ast.DefinitionList
		for _, d := range doc.Definitions {
			if d.Name != "Query" {
				ds = append(ds, d)
			}
		}
		doc.Definitions = ds
		return true
	}},
	// ---- validity once the federation plumbing is removed
	{"after_merge_service_used", false, func(r *rand.Rand, doc *ast.SchemaDocument) bool {
		var objs []*ast.Definition
		for _, d := range doc.Definitions {
			if d.Kind == ast.Object && d.Name != "Service" && d.Name != "Query" {
				objs = append(objs, d)
			}
		}
		if len(objs) == 0 {
			return false
		}
		d := objs[r.Intn(len(objs))]
		d.Fields = append(d.Fields, &ast.FieldDefinition{Name: "servedBy", Type: ast.NamedType("Service", nil)})
		return true
	}},
	// ---- the former Node-interface syntax (no longer documented; still accepted by the code)
	{"legacy_node_syntax", true, func(r *rand.Rand, doc *ast.SchemaDocument) bool { return toLegacyNode(doc) }},
	{"legacy_node_bad_interface", false, func(r *rand.Rand, doc *ast.SchemaDocument) bool {
		if !toLegacyNode(doc) {
			return false
		}
		n := docDef(doc, "Node")
		switch r.Intn(3) {
		case 0:
			n.Fields[0].Type = ast.NamedType("ID", nil)
		case 1:
			n.Fields = append(n.Fields, &ast.FieldDefinition{Name: "kind", Type: ast.NamedType("String", nil)})
			for _, b := range boundaryDefs(doc) {
				b.Fields = append(b.Fields, &ast.FieldDefinition{Name: "kind", Type: ast.NamedType("String", nil)})
			}
		default:
			b := boundaryDefs(doc)
			b[r.Intn(len(b))].Interfaces = nil
		}
		return true
	}},
}

// toLegacyNode rewrites a schema to the pre-lookup federation syntax: @boundary on OBJECT only, boundary types implement
// Node, Query.node(id: ID!): Node, no marked lookups.
func toLegacyNode(doc *ast.SchemaDocument) bool {
	bs := boundaryDefs(doc)
	d := dirDef(doc, "boundary")
	q := docDef(doc, "Query")
	if len(bs) == 0 || d == nil || q == nil {
		return false
	}
	d.Locations = []ast.DirectiveLocation{ast.LocationObject}
	for _, f := range lookupFields(doc) {
		removeField(q, f.Name)
	}
	doc.Definitions = append(doc.Definitions, &ast.Definition{Kind: ast.Interface, Name: "Node",
		Fields: ast.FieldList{{Name: "id", Type: ast.NonNullNamedType("ID", nil)}}})
	for _, b := range bs {
		b.Interfaces = append(b.Interfaces, "Node")
	}
	q.Fields = append(q.Fields, &ast.FieldDefinition{Name: "node", Type: ast.NamedType("Node", nil),
		Arguments: ast.ArgumentDefinitionList{{Name: "id", Type: ast.NonNullNamedType("ID", nil)}}})
	return true
}

func formatSchemaDoc(doc *ast.SchemaDocument) string {
	var sb strings.Builder
	formatter.NewFormatter(&sb).FormatSchemaDocument(doc)
	return sb.String()
}

// stage of a ValidateSchema error, from its message (validate.go)
func validateStage(msg string) string {
	switch {
	case strings.Contains(msg, "type can not be renamed"):
		return "roots"
	case msg == "the schema is missing a Query type":
		return "query_missing"
	case strings.HasPrefix(msg, "@boundary directive"), strings.Contains(msg, "in boundary type"), strings.HasPrefix(msg, "invalid boundary query"),
		strings.HasPrefix(msg, "declared boundary query"), strings.HasPrefix(msg, "declared duplicate query"), strings.HasPrefix(msg, "boundary field"),
		strings.HasPrefix(msg, "missing boundary fields"), strings.HasPrefix(msg, "the Node "), strings.Contains(msg, "doesn't implement Node"),
		strings.HasPrefix(msg, "the 'node' field"), msg == "the Query type is missing the 'node' field":
		return "boundary"
	case strings.HasPrefix(msg, "@namespace directive"), strings.HasPrefix(msg, "namespace return type"), strings.Contains(msg, "(namespace type) is used"):
		return "namespace"
	case strings.HasPrefix(msg, "the 'service' field"), msg == "the Query type is missing the 'service' field":
		return "service_query"
	case strings.HasPrefix(msg, "the Service "):
		return "service_object"
	case strings.HasPrefix(msg, "merge schema error"), strings.HasPrefix(msg, "schema will become invalid"):
		return "after_merge"
	}
	return "unknown:" + msg
}

func validateRecover(s *ast.Schema) (verdict, msg string) {
	defer func() {
		if r := recover(); r != nil {
			verdict, msg = "panic", fmt.Sprint(r)
		}
	}()
	if err := bramble.ValidateSchema(s); err != nil {
		return "err", err.Error()
	}
	return "ok", ""
}

// validAfterMerge recomputes, independently of ValidateSchema, whether the schema stays valid GraphQL once merged
// (MergeSchemas removes the plumbing), printed and reloaded.
func validAfterMerge(s *ast.Schema) (ok bool) {
	defer func() {
		if r := recover(); r != nil {
			ok = false
		}
	}()
	m, err := bramble.MergeSchemas(s)
	if err != nil {
		return false
	}
	if m.Query != nil {
		n := 0
		for _, f := range m.Query.Fields {
			if !strings.HasPrefix(f.Name, "__") {
				n++
			}
		}
		if n == 0 {
			delete(m.Types, "Query")
		}
	}
	_, gerr := gqlparser.LoadSchema(&ast.Source{Name: "merged", Input: schemaSDL(m)})
	return gerr == nil
}

func cVSchema(s *ast.Schema, afterMerge bool) string {
	var dirs []string
	for _, n := range sortedKeys(s.Directives) {
		d := s.Directives[n]
		if n != "boundary" && n != "namespace" {
			continue
		}
		var locs []string
		for _, l := range d.Locations {
			locs = append(locs, cstr(string(l)))
		}
		dirs = append(dirs, "{| dd_name := "+cstr(n)+"; dd_nargs := "+fmt.Sprint(len(d.Arguments))+"; dd_locations := "+clist(locs)+" |}")
	}
	root := func(d *ast.Definition) string {
		if d == nil {
			return "None"
		}
		return "(Some " + cstr(d.Name) + ")"
	}
	return "{| vs_types := " + cSSchema(s) + "; vs_dirs := " + clist(dirs) + "; vs_query := " + root(s.Query) + "; vs_mutation := " + root(s.Mutation) +
		"; vs_subscription := " + root(s.Subscription) + "; vs_valid_after_merge := " + cbool(afterMerge) + " |}"
}

var lookupErrorMarks = []string{"could not find BoundaryFieldsMap entry", "could not find boundary", "could not find location", "definition is nil", "no boundary", "missing insertion point"}

func runC09(cfg runCfg) error {
	sum := &summary{Property: "C09", Seed: cfg.seed, Features: map[string]int{}, CaseInputs: map[string]interface{}{},
		Rule: "service schemas of random federations (as generated for C07) x ONE of 50 schema mutations, taken in turn, applied at a random applicable position (service field, Service type, boundary key, lookups in single and array form, directive definitions, namespace links, root names, validity after merge, no Query type; three of them conforming variants: array lookup, cyclic namespaces, and the former Node syntax) or none; the mutated schema must still load as GraphQL; observed: ValidateSchema verdict and stage; for accepted schemas the federation is polled and served and 3 valid queries each must meet no planning or lookup error; non-trivial = a mutation was applied"}
	w := &caseWriter{dir: cfg.out, shard: 40, check: "check_validate_case",
		imports: "From V Require Import Base.Util Gql.Ast Model.Merge Model.Validate Corr.ValidateCheck."}
	distinct := 0
	skippedInvalid, offset, misses := 0, 0, 0
	for ci := 0; len(w.cases) < cfg.n && ci < cfg.n*12; ci++ {
		r := rand.New(rand.NewSource(cfg.seed*1000003 + int64(ci)*7919 + 9))
		name := fmt.Sprintf("c09-%d-%d", cfg.seed, ci)
		gf := genFederationSDL(r)
		fed, err := splitFederation(gf.SDL)
		if err != nil {
			continue
		}
		svc := fed.Services[r.Intn(len(fed.Services))]
		// every mutation in turn (a draw would leave the rarely applicable ones to chance); one that does not apply to
		// a dozen federations in a row is passed over for this round
		mut := schemaMutations[(len(w.cases)+offset)%len(schemaMutations)]
		doc, perr := parser.ParseSchema(&ast.Source{Name: svc.Name, Input: svc.SDL})
		if perr != nil {
			return fmt.Errorf("cannot parse generated service schema: %v", perr)
		}
		if !mut.apply(r, doc) {
			if misses++; misses >= 12 {
				misses, offset = 0, offset+1
				sum.Features["passed_over_"+mut.name]++
			}
			continue
		}
		misses = 0
		sdl := formatSchemaDoc(doc)
		schema, gerr := gqlparser.LoadSchema(&ast.Source{Name: svc.Name, Input: sdl})
		if gerr != nil {
			skippedInvalid++
			sum.Features["not_graphql_"+mut.name]++
			continue
		}
		inflight(map[string]interface{}{"case": name, "service": svc.Name, "mutation": mut.name, "schema_sdl": sdl, "call": "bramble.ValidateSchema"})
		verdict, msg := validateRecover(schema)
		stage := ""
		if verdict == "err" {
			stage = validateStage(msg)
		}
		after := validAfterMerge(schema)
		rule := ""
		if !mut.conforming {
			rule = mut.name
		}
		w.add(name, "{| vc_schema := "+cVSchema(schema, after)+"; vc_rule := "+cstr(rule)+"; vc_obs := "+cstr(verdict)+"; vc_obs_stage := "+cstr(stage)+" |}")
		in := map[string]interface{}{"service": svc.Name, "mutation": mut.name, "schema_sdl": sdl, "verdict": verdict, "message": msg}
		sum.CaseInputs[name] = in
		if len(sum.Samples) < 3 {
			sum.Samples = append(sum.Samples, map[string]interface{}{"mutation": mut.name, "verdict": verdict, "message": msg})
		}
		sum.Features["mutation_"+mut.name]++
		sum.Features["verdict_"+verdict]++
		if mut.name != "none" {
			distinct++
		}
		// accepted => serviceable
		if verdict == "ok" && r.Intn(2) == 0 {
			inflight(map[string]interface{}{"case": name, "service": svc.Name, "mutation": mut.name, "schema_sdl": sdl, "call": "poll, merge and serve the federation with this schema"})
			ok, detail := serveAccepted(r, fed, svc, sdl)
			comp := "prop.c09.accepted_serviceable"
			sum.GoOracle = append(sum.GoOracle, oracleResult{Case: name, Component: comp, OK: ok, Detail: detail})
			sum.GoOracle = append(sum.GoOracle, oracleResult{Case: name, Component: "guard.not_legacy_node", OK: !strings.HasPrefix(mut.name, "legacy_node")})
			sum.Features["served"]++
		}
	}
	if len(w.cases) < cfg.n/2 {
		return fmt.Errorf("only %d of %d cases could be generated", len(w.cases), cfg.n)
	}
	sum.Features["skipped_not_graphql"] = skippedInvalid
	files, err := w.flush()
	if err != nil {
		return err
	}
	sum.Cases, sum.Files, sum.Nontrivial = len(w.cases), files, distinct
	return writeSummary(cfg.out, sum)
}

// serveAccepted polls the federation with the (accepted) schema text standing in for one service and runs valid queries.
func serveAccepted(r *rand.Rand, fed *federation, svc *serviceSpec, sdl string) (ok bool, detail string) {
	defer func() {
		if p := recover(); p != nil {
			ok, detail = false, fmt.Sprintf("accepted by ValidateSchema, then the schema update or a query panicked: %v", p)
		}
	}()
	world := &simWorld{fed: fed, data: genData(r, fed, dataOpts{nullProb: 0.1, safeStrings: true}), pollSDL: map[string]func() (string, *fault){}}
	world.pollSDL[svc.Name] = func() (string, *fault) { return sdl, nil }
	gw, err := newGateway(world, gwOpts{maxRequests: 50})
	if err != nil {
		return true, "" // the set does not merge: outside the property's last clause
	}
	for _, s := range gw.es.Services {
		if s.Status != "OK" {
			return false, fmt.Sprintf("accepted by ValidateSchema but service %s has status %q after the poll", s.Name, s.Status)
		}
	}
	env := &e2eEnv{fx: fixture{Name: "generated"}, fed: fed, world: world, gw: gw}
	nq := 3
	if strings.Contains(sdl, "interface Node") {
		nq = 12
	}
	for k := 0; k < nq; k++ {
		q, vars, doc := env.genBoundedQuery(r, qOpts{maxDepth: 2 + r.Intn(3), fragments: r.Intn(3) == 0, typename: true, args: true, safeStrings: true}, 300)
		if doc == nil {
			continue
		}
		resp, err := gw.do(context.Background(), q, vars, "", nil)
		if err != nil {
			return false, err.Error()
		}
		for _, e := range resp.Errors {
			for _, m := range lookupErrorMarks {
				if strings.Contains(e.Message, m) {
					return false, fmt.Sprintf("query %s: %s", strings.TrimSpace(q), e.Message)
				}
			}
		}
	}
	return true, ""
}
