package main

// The end-to-end streams: one generator, several profiles (C01 fault-free, C02/C05 faults and non-conforming data,
// C03 permissions, C14 hostile strings, C15 directives, C16 mutations).

import (
	"context"
	"encoding/json"
	"fmt"
	"math/rand"
	"os"
	"sort"
	"strings"
	"sync"
	"time"

	"github.com/movio/bramble"
	"github.com/vektah/gqlparser/v2/ast"
)

func init() {
	props["c01"] = func(cfg runCfg) error { return runProfile(cfg, "c01") }
	props["c04"] = func(cfg runCfg) error { return runProfile(cfg, "c04") }
	props["c02"] = func(cfg runCfg) error { return runProfile(cfg, "c02") }
	props["c03"] = func(cfg runCfg) error { return runProfile(cfg, "c03") }
	props["c05"] = func(cfg runCfg) error { return runProfile(cfg, "c05") }
	props["c14"] = func(cfg runCfg) error { return runProfile(cfg, "c14") }
	props["c15"] = func(cfg runCfg) error { return runProfile(cfg, "c15") }
	props["c16"] = func(cfg runCfg) error { return runProfile(cfg, "c16") }
}

const e2eImports = "From V Require Import Base.Util Gql.Ast Gql.RefExec Model.Perm Model.Plan Model.Gateway Corr.E2ECheck."

func featureVector(run *e2eRun) string {
	svcs := map[string]bool{}
	lookups := 0
	for _, r := range run.Requests {
		svcs[r.Svc] = true
		if strings.Contains(r.Query, "_0:") || strings.Contains(r.Query, "_result:") {
			lookups++
		}
	}
	q := run.Query
	return fmt.Sprintf("svcs=%d lookups=%s frag=%v named=%v alias=%v tn=%v dir=%v vars=%v", len(svcs), bucket(lookups),
		strings.Contains(q, "... on"), strings.Contains(q, "fragment "), strings.Contains(q, ": "), strings.Contains(q, "__typename"),
		strings.Contains(q, "@skip") || strings.Contains(q, "@include"), strings.Contains(q, "$"))
}

var faultKinds = []string{"status", "transport", "timeout", "toolarge", "badjson", "errors_null", "errors_partial"}

// genPerm draws a permission tree over the merged schema: allow-all, list form, nested form, empty leaves.
func genPerm(r *rand.Rand, s *ast.Schema, def *ast.Definition, depth int) bramble.AllowedFields {
	if r.Intn(5) == 0 || depth == 0 {
		return bramble.AllowedFields{AllowAll: true}
	}
	m := map[string]bramble.AllowedFields{}
	fields := append(ast.FieldList{}, def.Fields...)
	sort.Slice(fields, func(i, j int) bool { return fields[i].Name < fields[j].Name })
	for _, f := range fields {
		if strings.HasPrefix(f.Name, "__") || r.Intn(3) == 0 {
			continue
		}
		ft := s.Types[f.Type.Name()]
		if ft == nil || ft.Kind == ast.Scalar || ft.Kind == ast.Enum {
			if r.Intn(4) == 0 {
				m[f.Name] = bramble.AllowedFields{AllowedSubfields: map[string]bramble.AllowedFields{}} // documented empty-leaf form
			} else {
				m[f.Name] = bramble.AllowedFields{AllowAll: true}
			}
			continue
		}
		if ft.IsAbstractType() {
			// the same sub-tree governs every possible type: draw it over the union of their fields
			sub := bramble.AllowedFields{AllowAll: r.Intn(2) == 0}
			if !sub.AllowAll {
				sub.AllowedSubfields = map[string]bramble.AllowedFields{}
				for _, ptn := range sortedDefNames(s.PossibleTypes[ft.Name]) {
					pt := s.Types[ptn]
					for k, v := range genPerm(r, s, pt, depth-1).AllowedSubfields {
						sub.AllowedSubfields[k] = v
					}
				}
			}
			m[f.Name] = sub
			continue
		}
		m[f.Name] = genPerm(r, s, ft, depth-1)
	}
	return bramble.AllowedFields{AllowedSubfields: m}
}

// per fixture: an abstract root field, direct root fields to its possible types (with one leaf to allow there), and
// selections through the abstract field that need more than the direct paths allow
var twoPaths = map[string]struct {
	abstract string
	direct   [][2]string
	sel      []string
}{
	"movies": {"things", [][2]string{{"me", "name"}, {"topReview", "stars"}, {"reviews", "stars"}},
		[]string{"zzT: things { ... on Person { nick films { title } } ... on Review { helpful movie { title } } }",
			"zzT: things { ... on Person { id films { id year } } }", "zzT: things { ... on Review { id author { name nick } body } }"}},
	"shared": {"tools", [][2]string{{"gizmo", "label"}},
		[]string{"zzT: tools { ... on Gizmo { price stock twin { label } } label }", "zzT: tools { ... on Gizmo { id twin { id weight } } }",
			"zzT: tools { ... on Gizmo { stock twin { price } } ... on Hammer { heft } }"}},
}

// per fixture: queries over a list of an abstract type with fragments on two member types, where a non-null field of one
// member type comes from another service, and that (service, lookup type)
var mixedLists = map[string]struct {
	q    []string
	fail [2]string
}{
	"movies": {[]string{"query Op { things { __typename ... on Review { body stars } ... on Person { name films { title } } } }",
		"query Op { things { ... on Person { films { id } nick } ... on Review { stars } } }"}, [2]string{"A", "Person"}},
	"shared": {[]string{"query Op { tools { __typename ... on Hammer { heft } ... on Gizmo { stock price } } }",
		"query Op { tools { label ... on Gizmo { stock } ... on Hammer { label heft } } }"}, [2]string{"B", "Gizmo"}},
}

// per fixture: queries over one abstract field whose boundary member types are extended by DIFFERENT services, so that
// several child steps, one per member type and service, share one insertion point
var memberServices = map[string][]string{
	"movies": {"query Op { animals { name ... on Cat { lives } ... on Dog { bark } } }", "query Op { animals { ... on Dog { bark name } ... on Cat { name lives } __typename } }",
		"query Op { things { __typename ... on Person { nick } ... on Review { helpful } } }", "query Op { things { ... on Review { helpful stars } ... on Person { name nick films { id } } } }",
		"query Op { pet { ... on Dog { bark } ... on Cat { lives } } animals { ... on Cat { lives } ... on Dog { bark } } }"},
	"shared": {"query Op { tools { label ... on Gizmo { stock } ... on Wrench { keeper { id } } } }", "query Op { tools { ... on Wrench { keeper { id } label } ... on Gizmo { price stock } } }"},
}

// per fixture: queries selecting non-null fields that a lookup service supplies (for the fault-free runs over data in which
// some entities are unknown to some services)
var silentQueries = map[string][]string{
	"tricky": {"query Op { foos { id must name } foo { must bar { must name } } }", "query Op { foos { items { must } must } }"},
	"movies": {"query Op { movies { id title reviews { stars body author { name } } lead { name films { title } } } }",
		"query Op { me { name films { id title } } reviews { stars movie { title year } } }", "query Op { topReview { body movie { title } author { films { title } name } } }"},
	"shared": {"query Op { tools { label ... on Gizmo { weight stock twin { weight stock } } } }", "query Op { gizmo(id: \"1\") { stock weight twin { stock } } priced { price ... on Gizmo { weight } } }"},
}

func runProfile(cfg runCfg, prof string) error {
	r := rand.New(rand.NewSource(cfg.seed))
	sum := &summary{Property: strings.ToUpper(prof), Seed: cfg.seed, Features: map[string]int{}, CaseInputs: map[string]interface{}{}}
	sum.Rule = "fixtures movies/single/tricky/shared x random data graph (nulls, duplicates, entities unknown to a service) x schema-directed random operation (depth 2-6, aliases incl. recurring keys, inline/named fragments, abstract types, __typename, arguments, variables)"
	switch prof {
	case "c02", "c05":
		sum.Rule += " x fault assignment (7 fault kinds on a root request, a lookup type, or a whole service; several at once) and, for c02, non-conforming data (null at non-null, resolver errors); each case also records the fault-free answer"
	case "c03":
		sum.Rule += " x random permission tree over the merged schema (allow-all, list, nested, empty-leaf forms, abstract types, namespaces)"
	case "c04":
		sum.Rule += " with @skip/@include on ~25% of nodes in half of the cases (literal and variable conditions, both on one node)"
	case "c15":
		sum.Rule += " with @skip/@include on ~25% of nodes (literal and variable conditions, both on one node, on fragments and spreads)"
	case "c16":
		sum.Rule += "; mutations with 1-4 root fields over 1-3 services, namespaced mutations, fragments on Mutation, results extended by other services, faults on the mutation and on follow-up lookups"
	case "c14":
		sum.Rule += " with hostile strings (whitespace runs, quotes, escapes, control and non-BMP characters) as literals, variables and ids"
	}
	sum.Rule += "; non-trivial = crosses >= 2 services or uses the profile's feature; distinct by feature vector + operation text"
	w := &caseWriter{dir: cfg.out, shard: 40, check: "check_e2e_case", imports: e2eImports}
	distinct := map[string]bool{}
	var envs []*e2eEnv
	for _, fx := range fixtures {
		env, err := newEnv(fx, gwOpts{maxRequests: 50})
		if err != nil {
			return err
		}
		envs = append(envs, env)
		w.preamble += env.preamble()
	}
	var envReal *e2eEnv
	if prof == "c16" {
		// the same federation behind a genuine net/http Transport: pooled keep-alive connections and request replay are real
		var err error
		if envReal, err = newEnv(fixtures[0], gwOpts{maxRequests: 50, realHTTP: true}); err != nil {
			return err
		}
	}
	for i := 0; i < cfg.n; i++ {
		// every case has its own PRNG stream: case <prof>-<seed>-<i> is reproducible on its own
		r = rand.New(rand.NewSource(cfg.seed*1000003 + int64(i)*7919 + int64(len(prof))))
		env := envs[[]int{0, 0, 0, 1, 2, 2, 3, 3}[r.Intn(8)]]
		if prof == "c16" {
			env = envs[0]
			if r.Intn(3) == 0 {
				env = envReal
				sum.Features["real_http_transport"]++
			}
		}
		name := fmt.Sprintf("%s-%d-%d", prof, cfg.seed, i)
		if os.Getenv("VH_DEBUG") != "" {
			fmt.Fprintln(os.Stderr, "case", name)
		}
		do := dataOpts{nullProb: 0.15, unknownProb: 0.15, safeStrings: prof != "c14" && r.Intn(3) > 0, hostileIDs: prof == "c14"}
		conforming := true
		if prof == "c02" && r.Intn(2) == 0 {
			do.plantBad = true
			conforming = false
		}
		// nulls that no service reports: entities a lookup service does not know (it answers null for them, without an error),
		// fault-free and with conforming data: non-null fields of such entities must still be found
		silent := prof == "c02" && r.Intn(6) == 0
		if silent {
			do.plantBad, conforming, do.unknownProb, do.unknownAny = false, false, 0.4, true
		}
		big := (prof == "c02" || prof == "c05" || prof == "c01" || prof == "c04") && env.fx.Name == "movies" && r.Intn(8) == 0
		if big {
			// which ids share a batch is up to Go's map order, so only whole-document outcomes may depend on it:
			// conforming data (no per-entity resolver errors), faults per document
			do.bigType, do.unknownProb, do.plantBad = "Movie", 0, false
			conforming = true
		}
		env.world.data = genData(r, env.fed, do)
		qo := qOpts{maxDepth: 2 + r.Intn(5), fragments: r.Intn(3) > 0, abstractFrag: r.Intn(4) == 0, aliases: true, recurAlias: r.Intn(3) == 0,
			typename: true, args: true, variables: r.Intn(2) == 0, safeStrings: prof != "c14", dupFields: r.Intn(3) == 0}
		switch prof {
		case "c14":
			qo.hostile = true
			qo.fragments = r.Intn(4) == 0
			qo.recurAlias = false
		case "c15":
			qo.directives = true
		case "c04":
			qo.directives = r.Intn(2) == 0 // "only fields that survived @skip/@include"
		case "c16":
			qo.mutation = true
			qo.maxDepth = 1 + r.Intn(4)
		case "c02", "c05", "c03":
			qo.fragments = r.Intn(3) == 0 // keep most cases inside the recorded response-shaping guards
			qo.recurAlias = false
		}
		q, vars, doc := env.genBoundedQuery(r, qo, 400)
		if prof == "c05" && i%6 == 1 && i%12 == 1 {
			// two services each contributing scalar fields to the same objects: their lookups hang off one insertion point
			env = envs[0]
			env.world.data = genData(r, env.fed, dataOpts{nullProb: 0.1, safeStrings: true})
			q, vars = []string{"query Op { movies { id rating x: echoArg(s: \"a\") } }", "query Op { movies { rating score title echoArg(k: SHORT) } }"}[(i/12)%2], map[string]interface{}{}
			doc, _ = loadQuery(env.gw.es.MergedSchema, q)
			if doc == nil {
				return fmt.Errorf("directed query does not validate: %s", q)
			}
			big = false
		}
		if prof == "c14" && i >= 2*len(hostilePool) && i < 3*len(hostilePool) && envs[0] != nil {
			// two fragments at one level, each selecting fields of the same other service with its own variable: the planner
			// makes one lookup step per fragment and merges them; the merged request declares and carries both variables
			env = envs[0]
			env.world.data = genData(r, env.fed, dataOpts{nullProb: 0, safeStrings: true})
			h := hostilePool[i%len(hostilePool)]
			if i%2 == 0 {
				q = "query Op($v1: String, $v2: String) { movies { id ... on Movie { a: echoArg(s: $v1) } ... on Movie { b: echoArg(s: $v2) c: echoC(s: $v2) } ... on Movie { d: echoC(s: $v1) } } }"
			} else {
				q = "query Op($v1: String, $v2: String) { movies { ...ZA id ...ZB } }\nfragment ZA on Movie { a: echoArg(l: [\"x\"], s: $v1) }\nfragment ZB on Movie { b: echoArg(s: $v2) }"
			}
			vars = map[string]interface{}{"v1": hostilePool[(i+3)%len(hostilePool)], "v2": h}
			doc, _ = loadQuery(env.gw.es.MergedSchema, q)
			if doc == nil {
				return fmt.Errorf("directed merged-steps query does not validate: %s", q)
			}
			sum.Features["variables_of_merged_lookup_steps"]++
		}
		if prof == "c14" && i < 2*len(hostilePool) && envs[0] != nil {
			// every hostile string once as a literal and once as a variable on a field that an entity lookup resolves, with a
			// second variable that only ANOTHER sub-request uses (and whose name the literals of the pool mention)
			env = envs[0]
			env.world.data = genData(r, env.fed, dataOpts{nullProb: 0, safeStrings: true})
			h := hostilePool[i%len(hostilePool)]
			if i < len(hostilePool) {
				q = "query Op($v1: String, $v2: String) { echoRoot(s: $v1) movies { id echoArg(s: " + gqlQuote(h) + ") x: echoArg(s: $v2) z: echoC(s: " + gqlQuote(h) + ") } }"
			} else {
				q = "query Op($v1: String, $v2: String) { echoRoot(s: $v2) movies { id x: echoArg(s: $v1, l: [" + gqlQuote(h) + ", \"$v2\"]) z: echoC(l: [" + gqlQuote(h) + "]) } }"
			}
			vars = map[string]interface{}{"v1": hostilePool[(i+5)%len(hostilePool)], "v2": h}
			doc, _ = loadQuery(env.gw.es.MergedSchema, q)
			if doc == nil {
				return fmt.Errorf("directed hostile query does not validate: %s", q)
			}
			sum.Features["every_hostile_string_on_a_lookup_field"]++
		}
		if sq, ok := silentQueries[env.fx.Name]; ok && silent && r.Intn(2) == 0 {
			q, vars = sq[r.Intn(len(sq))], map[string]interface{}{}
			doc, _ = loadQuery(env.gw.es.MergedSchema, q)
		}
		if prof == "c16" && doc != nil && r.Intn(3) == 0 && !strings.Contains(q, "...") {
			// the namespace field once more under the same response key, through a fragment on Mutation, selecting another
			// mutation: both selections are one field, and every mutation under it is to be delivered once
			extra := []string{"reset", "tag(name: \"zz\") { id }", "reset tag(name: \"zz\") { id }"}[r.Intn(3)]
			if i := strings.Index(q, "{"); i >= 0 {
				q2 := q[:i+1] + " ...ZZNs" + q[i+1:] + "\nfragment ZZNs on Mutation { ops { " + extra + " } }"
				if r.Intn(2) == 0 {
					q2 = q[:i+1] + " ops { " + extra + " }" + q[i+1:]
				}
				if d2, gerr := loadQuery(env.gw.es.MergedSchema, q2); gerr == nil {
					q, doc = q2, d2
					sum.Features["namespace_selected_twice"]++
				}
			}
		}
		if ms, ok := memberServices[env.fx.Name]; ok && (prof == "c01" || prof == "c04") && !big && r.Intn(10) == 0 {
			q, vars = ms[r.Intn(len(ms))], map[string]interface{}{}
			doc, _ = loadQuery(env.gw.es.MergedSchema, q)
			if doc == nil {
				return fmt.Errorf("directed query does not validate: %s", q)
			}
			sum.Features["member_types_extended_by_different_services"]++
		}
		if big {
			// more than 50 entities behind one lookup: the single-entity lookups of services A and C are sent in batches
			q = "query Op { movies { id " + []string{"rating", "score rating", "rating title", "echoArg(s: \"a\") rating"}[r.Intn(4)] + " } }"
			vars = map[string]interface{}{}
			doc, _ = loadQuery(env.gw.es.MergedSchema, q)
		}
		if doc == nil {
			return fmt.Errorf("no valid operation for %s", env.fx.Name)
		}
		opts := e2eCaseOpts{max: 50, conforming: conforming}
		hdr := map[string]string{}
		in := map[string]interface{}{"fixture": env.fx.Name, "query": q, "variables": vars}
		// permissions
		if prof == "c03" {
			p := bramble.OperationPermissions{AllowedRootQueryFields: genPerm(r, env.gw.es.MergedSchema, env.gw.es.MergedSchema.Query, 1+r.Intn(4))}
			if r.Intn(6) == 0 {
				p = bramble.OperationPermissions{AllowedRootQueryFields: bramble.AllowedFields{AllowAll: true}, AllowedRootMutationFields: bramble.AllowedFields{AllowAll: true}}
			}
			if tp, ok := twoPaths[env.fx.Name]; ok && r.Intn(2) == 0 && !p.AllowedRootQueryFields.AllowAll && !strings.Contains(q, "...") {
				// one concrete type reachable directly (narrow permissions) and through an abstract field (wide permissions):
				// what the abstract path grants must not be lost because the type was already met on the direct path
				// nothing else leads to these types: the rest of the drawn tree is dropped
				sub := map[string]bramble.AllowedFields{}
				p.AllowedRootQueryFields.AllowedSubfields = sub
				for _, d := range tp.direct {
					sub[d[0]] = bramble.AllowedFields{AllowedSubfields: map[string]bramble.AllowedFields{d[1]: {AllowAll: true}}}
				}
				if r.Intn(4) == 0 {
					sub[tp.abstract] = bramble.AllowedFields{AllowAll: true}
				} else { // wide, but spelled out: every field of every possible type
					wide := map[string]bramble.AllowedFields{}
					ms := env.gw.es.MergedSchema
					if af := ms.Query.Fields.ForName(tp.abstract); af != nil {
						for _, pt := range ms.PossibleTypes[af.Type.Name()] {
							for _, f := range pt.Fields {
								wide[f.Name] = bramble.AllowedFields{AllowAll: true}
							}
						}
					}
					sub[tp.abstract] = bramble.AllowedFields{AllowedSubfields: wide}
				}
				if i := strings.Index(q, "{"); i >= 0 {
					q2 := q[:i+1] + " " + tp.sel[r.Intn(len(tp.sel))] + q[i+1:]
					if d2, gerr := loadQuery(env.gw.es.MergedSchema, q2); gerr == nil {
						q, doc = q2, d2
						in["query"] = q
						sum.Features["type_on_direct_and_abstract_path"]++
					}
				}
			}
			env.gw.perm.perms[name] = p
			hdr["X-Perm"] = name
			opts.perm = &p
			pb, _ := json.Marshal(p)
			in["perm"] = string(pb)
		}
		// faults
		env.world.faultFor = nil
		var faults []faultSpec
		var directed *[2]string // (service, lookup type) whose requests are to fail
		if ml, ok := mixedLists[env.fx.Name]; ok && (prof == "c02" || prof == "c05") && !big && !silent && r.Intn(8) == 0 {
			// an interface/union list holding several concrete types, with a non-null field of ONE member type supplied by
			// another service, which fails: the null must be found whichever member comes first in the list
			q, vars = ml.q[r.Intn(len(ml.q))], map[string]interface{}{}
			doc, _ = loadQuery(env.gw.es.MergedSchema, q)
			if doc == nil {
				return fmt.Errorf("directed query does not validate: %s", q)
			}
			in["query"], in["variables"] = q, vars
			directed = &ml.fail
			sum.Features["mixed_abstract_list_with_failing_member_service"]++
		}
		if silent {
			sum.Features["entities_unknown_to_a_service_without_faults"]++
		}
		if prof == "c05" || (prof == "c02" && !silent && r.Intn(3) > 0) || (prof == "c16" && r.Intn(2) == 0) || directed != nil {
			// fault-free run first
			run0, err := env.run(q, vars, hdr)
			if err != nil {
				return err
			}
			opts.data0, opts.hasData0 = run0.Resp.Data, run0.Resp.Data != nil
			in["fault_free_data"] = fmt.Sprint(run0.Resp.Data)
			seen := map[string]bool{}
			var targets [][2]string
			for _, rq := range run0.Requests {
				k := rq.Svc + "|" + faultTarget(env.fed, rq)
				if !seen[k] {
					seen[k] = true
					targets = append(targets, [2]string{rq.Svc, faultTarget(env.fed, rq)})
				}
			}
			sort.Slice(targets, func(a, b int) bool { return targets[a][0]+targets[a][1] < targets[b][0]+targets[b][1] })
			if len(targets) > 0 {
				sel, allKind := r.Intn(4), faultKinds[r.Intn(len(faultKinds))]
				alike := prof == "c05" && i%6 == 1
				if alike {
					// in turn, not by odds: every service reached by a lookup fails in the same hard way (same message; on the
					// directed query the same path too): each of them is still named by an error of its own
					sel, allKind = 4, []string{"status", "badjson", "toolarge"}[(i/6)%3]
					sum.Features["all_lookup_services_fail_alike"]++
				}
				switch sel {
				case 4:
					svcs := map[string]bool{}
					for _, t := range targets {
						if t[1] != "root" && !svcs[t[0]] {
							svcs[t[0]] = true
							faults = append(faults, faultSpec{Svc: t[0], Target: "*", Kind: allKind})
						}
					}
				case 0: // a whole service
					t := targets[r.Intn(len(targets))]
					faults = append(faults, faultSpec{Svc: t[0], Target: "*", Kind: faultKinds[r.Intn(5)]})
					opts.failing = []string{t[0]}
				case 1: // everything at once
					k := allKind
					svcs := map[string]bool{}
					for _, t := range targets {
						if !svcs[t[0]] {
							svcs[t[0]] = true
							faults = append(faults, faultSpec{Svc: t[0], Target: "*", Kind: k})
						}
					}
				case 2:
					if big { // one document of a batched lookup
						for _, t := range targets {
							if t[1] != "root" {
								faults = append(faults, faultSpec{Svc: t[0], Target: fmt.Sprintf("%s#%d", t[1], r.Intn(2)), Kind: faultKinds[r.Intn(len(faultKinds))]})
								break
							}
						}
						break
					}
					fallthrough
				default: // one or two individual requests
					n := 1 + r.Intn(2)
					for j := 0; j < n; j++ {
						t := targets[r.Intn(len(targets))]
						faults = append(faults, faultSpec{Svc: t[0], Target: t[1], Kind: faultKinds[r.Intn(len(faultKinds))]})
					}
				}
			}
			if directed != nil {
				faults, opts.failing = nil, nil
				for _, t := range targets {
					if t[0] == directed[0] && t[1] == directed[1] {
						faults = []faultSpec{{Svc: t[0], Target: t[1], Kind: faultKinds[r.Intn(5)]}}
					}
				}
			}
			if env == envReal && len(targets) > 0 {
				if r.Intn(2) == 0 { // the connection carrying a root request dies after the request was read
					for _, t := range targets {
						if t[1] == "root" {
							faults = []faultSpec{{Svc: t[0], Target: "root", Kind: "transport"}}
							opts.failing = nil
							break
						}
					}
				}
				for j := range faults { // a deadline cannot be injected from the server side of a real connection
					if faults[j].Kind == "timeout" {
						faults[j].Kind = "transport"
					}
				}
			}
			if len(opts.failing) > 0 {
				for _, f := range faults {
					if f.Kind == "errors_partial" || f.Kind == "errors_null" {
						opts.failing = nil // a whole-service claim is only made for hard failures
					}
				}
			}
			env.world.faultFor = makeFaultFor(env.fed, faults)
			opts.faults = faults
			in["faults"] = faults
		}
		env.world.foreignExt = prof == "c05" && r.Intn(2) == 0
		run, err := env.run(q, vars, hdr)
		if err != nil {
			return err
		}
		env.world.faultFor = nil
		if env.world.foreignExt {
			// the failing service answered with GraphQL errors that carry extensions of their own, naming someone else (a
			// downstream that is itself a gateway does): the gateway's error still names the service IT called
			env.world.foreignExt = false
			owners := map[string]bool{}
			for _, f := range faults {
				if f.Kind == "errors_partial" || f.Kind == "errors_null" {
					owners[f.Svc] = true
				}
			}
			if len(owners) == 1 {
				var svc *serviceSpec
				for _, sp := range env.fed.Services {
					if owners[sp.Name] {
						svc = sp
					}
				}
				okNamed, d := true, ""
				for _, e := range run.Resp.Errors {
					if e.Message == "service exploded" || e.Message == "injected partial failure" {
						sum.Features["relayed_error_with_foreign_extensions"]++
						if e.Extensions["serviceName"] != svc.Name || e.Extensions["serviceUrl"] != svc.URL {
							okNamed = false
							d = fmt.Sprintf("service %s (%s) answered %q with extensions naming someone else; the gateway's error names %v at %v", svc.Name, svc.URL, e.Message, e.Extensions["serviceName"], e.Extensions["serviceUrl"])
						}
					}
				}
				sum.GoOracle = append(sum.GoOracle, oracleResult{Case: name, Component: "prop.c05.relayed_errors_name_the_service_called", OK: okNamed, Detail: d})
			}
		}
		in["gateway_data"] = fmt.Sprint(run.Resp.Data)
		in["gateway_errors"] = errorSummary(run.Resp.Errors)
		if len(run.Resp.Body) > 60000 {
			i--
			continue // keep case files small
		}
		w.add(name, emitE2ECase(env, run, opts))
		foreign := foreignAbstractCondition(env.fed, doc)
		sum.GoOracle = append(sum.GoOracle, oracleResult{Case: name, Component: "guard.no_foreign_abstract_condition", OK: !foreign})
		if foreign {
			sum.Features["foreign_abstract_condition"]++
		}
		sum.CaseInputs[name] = in
		if (prof == "c15" || prof == "c04") && len(faults) == 0 {
			// the same document once more on the same gateway with other condition values: what is included is decided per
			// request, nothing may be remembered from the first run
			v2 := map[string]interface{}{}
			flipped := false
			for k, v := range vars {
				v2[k] = v
				if b, ok := v.(bool); ok && r.Intn(2) == 0 {
					v2[k], flipped = !b, true
				}
			}
			if flipped {
				if run2, err := env.run(q, v2, hdr); err == nil && len(run2.Resp.Body) < 60000 {
					n2 := name + "-again"
					w.add(n2, emitE2ECase(env, run2, opts))
					sum.GoOracle = append(sum.GoOracle, oracleResult{Case: n2, Component: "guard.no_foreign_abstract_condition", OK: !foreign})
					in2 := map[string]interface{}{}
					for k, v := range in {
						in2[k] = v
					}
					in2["variables"], in2["history"] = v2, "sent right after "+name+" (same document, other variable values) to the same gateway"
					in2["gateway_data"], in2["gateway_errors"] = fmt.Sprint(run2.Resp.Data), errorSummary(run2.Resp.Errors)
					sum.CaseInputs[n2] = in2
					sum.Features["same_document_other_conditions"]++
				}
			}
		}
		if prof == "c03" && i%3 == 1 && opts.perm != nil {
			// the same request once more under a request limit of 0 lookup rounds: when the execution is abandoned for that,
			// what the permissions removed is still reported (the limit itself is C13's business)
			env.gw.es.MaxRequestsPerQuery = 0
			run3, err3 := env.run(q, vars, hdr)
			env.gw.es.MaxRequestsPerQuery = 50
			if err3 == nil && strings.Contains(run3.Resp.Body, "exceeded max requests") {
				denied := func(rr *e2eRun) string {
					var d []string
					for _, e := range rr.Resp.Errors {
						if strings.HasSuffix(e.Message, "access disallowed") {
							d = append(d, e.Message)
						}
					}
					sort.Strings(d)
					return strings.Join(d, " | ")
				}
				mainAborted := false // an abandoned main run (ids that cannot be read: KF-key-not-permitted) is not a reference
				for _, e := range run.Resp.Errors {
					if strings.Contains(e.Message, "FromMap") || strings.Contains(e.Message, "extractBoundaryIDs") {
						mainAborted = true
					}
				}
				a, b := denied(run), denied(run3)
				sum.GoOracle = append(sum.GoOracle, oracleResult{Case: name, Component: "prop.c03.denied_fields_reported_when_the_limit_is_hit", OK: a == b || mainAborted,
					Detail: fmt.Sprintf("under a request limit of 0 the response reports [%s] (all errors: %v), without the limit [%s]", b, errorSummary(run3.Resp.Errors), a)})
				sum.Features["limit_hit_with_permissions"]++
				if a != "" {
					sum.Features["limit_hit_with_denied_fields"]++
				}
			}
		}
		onlyDenials := true // the healthy run reported nothing but removed fields (a failed execution is another matter: KF-key-not-permitted)
		for _, e := range run.Resp.Errors {
			if !strings.HasSuffix(e.Message, "access disallowed") {
				onlyDenials = false
			}
		}
		if prof == "c03" && i%3 == 0 && onlyDenials {
			// the same request once more over services that break their own schemas in one way: null elements stay inside
			// [T!] lists (null propagation in the gateway then gives up altogether).  Beyond the property's quantifier, which
			// has healthy services; but what the permissions removed does not depend on what the services answer, and it
			// must be reported as in the run above
			saved := env.world.data
			env.world.data, env.world.laxLists = genData(r, env.fed, dataOpts{nullProb: 0.1, safeStrings: true, nullElems: 0.3}), true
			run2, err2 := env.run(q, vars, hdr)
			env.world.data, env.world.laxLists = saved, false
			if err2 == nil {
				denied := func(rr *e2eRun) string {
					var d []string
					for _, e := range rr.Resp.Errors {
						if strings.HasSuffix(e.Message, "access disallowed") {
							d = append(d, e.Message)
						}
					}
					sort.Strings(d)
					return strings.Join(d, " | ")
				}
				a, b := denied(run), denied(run2)
				judged := true // an execution that fails because ids cannot be read (KF-key-not-permitted) is not what this run is about
				for _, e := range run2.Resp.Errors {
					if strings.Contains(e.Message, "FromMap") || strings.Contains(e.Message, "extractBoundaryIDs") || strings.Contains(e.Message, "internal system error") {
						judged = false
					}
				}
				if !judged {
					sum.Features["rule_breaking_run_not_judged"]++
				}
				sum.GoOracle = append(sum.GoOracle, oracleResult{Case: name, Component: "prop.c03.denied_fields_reported_whatever_the_services_answer", OK: a == b || !judged,
					Detail: fmt.Sprintf("over services leaving nulls in [T!] lists the response reports [%s] (all errors: %v), over healthy ones [%s]", b, errorSummary(run2.Resp.Errors), a)})
				if strings.Contains(run2.Resp.Body, "unxpected result type") {
					sum.Features["null_propagation_gave_up"]++
					if a != "" {
						sum.Features["null_propagation_gave_up_with_denied_fields"]++
					}
				}
			}
		}
		if prof == "c16" && len(faults) == 0 {
			// the same document text once more on the same gateway: after a caller who may use only the first root field, and
			// after ANOTHER operation of the same document that shares a fragment with this one.  What an earlier request did
			// to its own copy of the document must not reach this one: every root field is still delivered, once.
			var again *e2eRun
			in2 := map[string]interface{}{}
			for k, v := range in {
				in2[k] = v
			}
			switch i % 3 {
			case 0:
				var first *ast.Field
				for _, s := range doc.Operations[0].SelectionSet {
					if f, ok := s.(*ast.Field); ok && f.Name != "__typename" {
						first = f
						break
					}
				}
				if first != nil {
					p := bramble.OperationPermissions{AllowedRootMutationFields: bramble.AllowedFields{AllowedSubfields: map[string]bramble.AllowedFields{first.Name: {AllowAll: true}}}}
					env.gw.perm.perms[name+"-r"] = p
					if _, err := env.run(q, vars, map[string]string{"X-Perm": name + "-r"}); err == nil {
						again, _ = env.run(q, vars, hdr)
						in2["history"] = "sent right after the same document from a caller who may only use the root mutation field " + first.Name
						sum.Features["same_document_after_a_restricted_caller"]++
					}
				}
			case 1:
				if ob := strings.Index(q, "{"); ob >= 0 && strings.HasPrefix(q, "mutation Op") {
					depth, cb := 0, -1
					for j := ob; j < len(q) && cb < 0; j++ {
						switch q[j] {
						case '{':
							depth++
						case '}':
							if depth--; depth == 0 {
								cb = j
							}
						}
					}
					if cb > 0 {
						decl, sel, rest := q[len("mutation Op"):ob], q[ob+1:cb], q[cb+1:]
						q2 := "mutation Op" + decl + "{ ...ZZBoth }\nmutation ZZFirst" + decl + "{" + sel + " ...ZZBoth }\nfragment ZZBoth on Mutation {" + sel + "}" + rest
						if _, gerr := loadQuery(env.gw.es.MergedSchema, q2); gerr == nil {
							if _, err := env.runNamed(q2, vars, hdr, "ZZFirst"); err == nil {
								again, _ = env.runNamed(q2, vars, hdr, "Op")
								in2["query"], in2["operationName"] = q2, "Op"
								in2["history"] = "sent right after operation ZZFirst of the same document, which selects the same root fields directly and through the shared fragment"
								sum.Features["operation_after_a_sibling_operation_sharing_a_fragment"]++
							}
						}
					}
				}
			}
			if i%3 == 2 && len(run.Requests) > 0 {
				// two clients send the same mutation at the same moment (same text, variables and headers): each of them is
				// delivered - every owner receives its root fields once per client
				want := map[string]int{}
				for _, rq := range run.Requests {
					if analyze(env.fed, rq).Keyword == ast.Mutation {
						want[rq.Svc]++
					}
				}
				env.world.reset()
				var gmu sync.Mutex
				arrived := map[string]int{}
				env.world.gate = func(rec *recorded) { // hold a mutation until its twin has arrived as well (or 100 ms have passed)
					if rec.OpType != "mutation" {
						return
					}
					gmu.Lock()
					arrived[rec.Svc]++
					gmu.Unlock()
					for k := 0; k < 100; k++ {
						gmu.Lock()
						n := arrived[rec.Svc]
						gmu.Unlock()
						if n >= 2*want[rec.Svc] {
							return
						}
						time.Sleep(time.Millisecond)
					}
				}
				var wg sync.WaitGroup
				for k := 0; k < 2; k++ {
					wg.Add(1)
					go func() {
						defer wg.Done()
						_, _ = env.gw.do(context.Background(), q, vars, "", hdr)
					}()
				}
				wg.Wait()
				env.world.gate = nil
				got := map[string]int{}
				for _, rq := range env.world.requests() {
					if analyze(env.fed, rq).Keyword == ast.Mutation {
						got[rq.Svc]++
					}
				}
				okTwice, d := true, ""
				for svc, n := range want {
					if got[svc] != 2*n {
						okTwice = false
						d = fmt.Sprintf("two clients sent this mutation at the same moment; service %s received %d mutation request(s), %d per client were due", svc, got[svc], n)
					}
				}
				sum.GoOracle = append(sum.GoOracle, oracleResult{Case: name, Component: "prop.c16.each_client_delivered", OK: okTwice, Detail: d})
				sum.Features["same_mutation_from_two_clients_at_once"]++
			}
			if again != nil && len(again.Resp.Body) < 60000 {
				n2 := name + "-again"
				w.add(n2, emitE2ECase(env, again, opts))
				sum.GoOracle = append(sum.GoOracle, oracleResult{Case: n2, Component: "guard.no_foreign_abstract_condition", OK: !foreign})
				in2["gateway_data"], in2["gateway_errors"] = fmt.Sprint(again.Resp.Data), errorSummary(again.Resp.Errors)
				sum.CaseInputs[n2] = in2
				sum.GoOracle = append(sum.GoOracle, mutationOracle(env, again, n2, false)...)
			}
		}
		if len(sum.Samples) < 4 {
			sum.Samples = append(sum.Samples, in)
		}
		// Go-side oracles
		if prof == "c16" {
			for _, o := range mutationOracle(env, run, name, len(faults) > 0) {
				sum.GoOracle = append(sum.GoOracle, o)
			}
		}
		fv := featureVector(run)
		sum.Features[env.fx.Name]++
		sum.Features[fv]++
		for _, f := range faults {
			sum.Features["fault_"+f.Kind]++
		}
		if !conforming {
			sum.Features["nonconforming_data"]++
		}
		if strings.Contains(fv, "svcs=1 ") && !strings.Contains(q, "...") && len(faults) == 0 && (prof == "c01" || prof == "c04") {
			continue
		}
		distinct[fv+q+fmt.Sprint(faults)] = true
	}
	files, err := w.flush()
	if err != nil {
		return err
	}
	sum.Cases, sum.Files, sum.Nontrivial = len(w.cases), files, len(distinct)
	return writeSummary(cfg.out, sum)
}

// mutationOracle: every root field of the mutation is delivered exactly once (at most once under faults), in a
// mutation operation, to its owner, same-service fields in the client's order; everything else is a query.
func mutationOracle(env *e2eEnv, run *e2eRun, name string, faulty bool) []oracleResult {
	var out []oracleResult
	add := func(comp string, ok bool, detail string) {
		out = append(out, oracleResult{Case: name, Component: comp, OK: ok, Detail: detail})
	}
	// expected effects per service, in client order, from the operation after @skip/@include (none generated here)
	x := &execCtx{schema: env.gw.es.MergedSchema, data: env.world.data, vars: coerceVars(run.Doc, run.Vars), fed: env.fed}
	var cs []*collected
	x.collect("Mutation", run.Op.SelectionSet, map[string]bool{}, &cs)
	expected := map[string][]string{}
	// CollectFields: the selections of one response key are ONE field (executed at the position of its first occurrence);
	// for a namespace the sub-selections of all its occurrences are merged
	var flatten func(ss ast.SelectionSet, out *[]*ast.Field)
	flatten = func(ss ast.SelectionSet, out *[]*ast.Field) {
		for _, s := range ss {
			switch s := s.(type) {
			case *ast.Field:
				*out = append(*out, s)
			case *ast.InlineFragment:
				flatten(s.SelectionSet, out)
			case *ast.FragmentSpread:
				flatten(s.Definition.SelectionSet, out)
			}
		}
	}
	// a namespace selected several times under one key: what "the client's order" is between its mutations and the other root
	// fields is not fixed by the property (root fields are the namespace itself); then only "each exactly once" is judged
	nsTwice := false
	var walk func(parent string, ss ast.SelectionSet)
	walk = func(parent string, ss ast.SelectionSet) {
		var fields []*ast.Field
		flatten(ss, &fields)
		var keys []string
		groups := map[string][]*ast.Field{}
		for _, f := range fields {
			if _, ok := groups[f.Alias]; !ok {
				keys = append(keys, f.Alias)
			}
			groups[f.Alias] = append(groups[f.Alias], f)
		}
		for _, k := range keys {
			f := groups[k][0]
			if f.Name == "__typename" {
				continue
			}
			if owner := env.fed.Owner[parent+"."+f.Name]; owner != "" {
				expected[owner] = append(expected[owner], f.Name+canonArgs(f.ArgumentMap(x.vars)))
			} else if env.fed.Namespace[f.Definition.Type.Name()] {
				var merged ast.SelectionSet
				for _, g := range groups[k] {
					merged = append(merged, g.SelectionSet...)
				}
				if len(groups[k]) > 1 {
					nsTwice = true
				}
				walk(f.Definition.Type.Name(), merged)
			}
		}
	}
	walk("Mutation", run.Op.SelectionSet)
	got := map[string][]string{}
	okKinds, okOwner := true, true
	mutReqs := map[string]int{}
	for _, rq := range run.Requests {
		info := analyze(env.fed, rq)
		if info.Keyword == ast.Mutation {
			mutReqs[rq.Svc]++
			if rq.OpType != "mutation" {
				okKinds = false
			}
			got[rq.Svc] = append(got[rq.Svc], rq.Effects...)
		} else {
			if rq.OpType != "query" || len(rq.Effects) > 0 {
				okKinds = false
			}
		}
	}
	exact := true
	detail := ""
	for svc, exp := range expected {
		g := got[svc]
		if faulty && len(g) == 0 {
			continue // the mutation request failed before being applied, or was never sent because of a hard error
		}
		// namespaced mutation fields are recorded by the simulator on the namespace object; compare root-level ones
		if nsTwice {
			g, exp = sortedStrings(g), sortedStrings(exp)
		}
		if strings.Join(g, ";") != strings.Join(exp, ";") {
			exact = false
			detail = fmt.Sprintf("service %s: expected effects %v, got %v", svc, exp, g)
		}
	}
	for svc, g := range got {
		if _, ok := expected[svc]; !ok && len(g) > 0 {
			okOwner = false
			detail = fmt.Sprintf("service %s received effects %v it does not own", svc, g)
		}
	}
	for svc, n := range mutReqs {
		if n > 1 {
			exact = false
			detail = fmt.Sprintf("service %s received %d mutation requests", svc, n)
		}
	}
	// whatever fails, every owner is SENT its mutation fields once: the root steps of a mutation do not wait for each other
	// (a faulted request is sent too; only its effects are missing)
	if len(run.Requests) > 0 {
		for svc := range expected {
			if mutReqs[svc] != 1 {
				exact = false
				detail = fmt.Sprintf("service %s received %d mutation requests for the fields it owns (%v)", svc, mutReqs[svc], expected[svc])
			}
		}
	}
	add("prop.c16.exactly_once", exact, detail)
	add("prop.c16.owner_only", okOwner, detail)
	add("prop.c16.operation_kinds", okKinds, "")
	return out
}

// foreignAbstractCondition: the operation has a fragment whose type condition is an interface or union that some service
// declaring the enclosing type does not declare (the recorded finding KF-foreign-abstract-condition: the fragment is
// forwarded to that service verbatim).  A function of the input only.
func foreignAbstractCondition(fed *federation, doc *ast.QueryDocument) bool {
	declares := func(svc, typ string) bool {
		for _, s := range fed.TypeSvcs[typ] {
			if s == svc {
				return true
			}
		}
		return false
	}
	found := false
	seen := map[string]bool{}
	var walk func(parent string, ss ast.SelectionSet)
	cond := func(parent, tc string, ss ast.SelectionSet) {
		if tc == "" {
			tc = parent
		} else if d := fed.Mono.Types[tc]; d != nil && d.IsAbstractType() && !isRootName(parent) && !fed.Namespace[parent] {
			for _, s := range fed.TypeSvcs[parent] {
				if !declares(s, tc) {
					found = true
				}
			}
		}
		walk(tc, ss)
	}
	walk = func(parent string, ss ast.SelectionSet) {
		for _, sel := range ss {
			switch x := sel.(type) {
			case *ast.Field:
				if x.Definition != nil && x.Definition.Type != nil {
					walk(x.Definition.Type.Name(), x.SelectionSet)
				}
			case *ast.InlineFragment:
				cond(parent, x.TypeCondition, x.SelectionSet)
			case *ast.FragmentSpread:
				if x.Definition != nil && !seen[parent+">"+x.Name] {
					seen[parent+">"+x.Name] = true
					cond(parent, x.Definition.TypeCondition, x.Definition.SelectionSet)
				}
			}
		}
	}
	for _, op := range doc.Operations {
		root := "Query"
		if op.Operation == ast.Mutation {
			root = "Mutation"
		}
		walk(root, op.SelectionSet)
	}
	return found
}
