package main

// C01 (and the shared end-to-end stream used by C02/C04/C15/C16): fault-free federated queries over generated data.

import (
	"fmt"
	"math/rand"
	"strings"
)

func init() { props["c01"] = runC01 }

const e2eImports = "From V Require Import Base.Util Gql.Ast Gql.RefExec Model.Perm Model.Plan Model.Gateway Corr.E2ECheck."

func featureVector(run *e2eRun) string {
	svcs := map[string]bool{}
	lookups := 0
	for _, r := range run.Requests {
		svcs[r.Svc] = true
		if strings.Contains(r.Query, "_0:") || strings.Contains(r.Query, "_result:") {
			lookups++
		}
	}
	q := run.Query
	return fmt.Sprintf("svcs=%d lookups=%s frag=%v named=%v alias=%v tn=%v dir=%v vars=%v", len(svcs), bucket(lookups),
		strings.Contains(q, "... on"), strings.Contains(q, "fragment "), strings.Contains(q, ": "), strings.Contains(q, "__typename"),
		strings.Contains(q, "@skip") || strings.Contains(q, "@include"), strings.Contains(q, "$"))
}

func runC01(cfg runCfg) error {
	r := rand.New(rand.NewSource(cfg.seed))
	sum := &summary{Property: "C01", Seed: cfg.seed, Features: map[string]int{}, CaseInputs: map[string]interface{}{},
		Rule: "fixtures movies/single/tricky x random conforming data graph (nulls, duplicates, entities unknown to a service) x schema-directed random query (depth 2-6, aliases incl. recurring keys, inline/named fragments, abstract types, __typename, arguments, variables); non-trivial = crosses >= 2 services or uses a fragment; distinct by feature vector + query text"}
	w := &caseWriter{dir: cfg.out, shard: 40, check: "check_e2e_case", imports: e2eImports}
	distinct := map[string]bool{}
	var envs []*e2eEnv
	for _, fx := range fixtures {
		env, err := newEnv(fx, gwOpts{maxRequests: 50})
		if err != nil {
			return err
		}
		envs = append(envs, env)
		w.preamble += env.preamble()
	}
	for i := 0; i < cfg.n; i++ {
		env := envs[[]int{0, 0, 0, 1, 2, 2}[r.Intn(6)]]
		name := fmt.Sprintf("c01-%d-%d", cfg.seed, i)
		env.world.data = genData(r, env.fed, dataOpts{nullProb: 0.15, unknownProb: 0.15, safeStrings: r.Intn(3) > 0})
		env.world.faultFor = nil
		qo := qOpts{maxDepth: 2 + r.Intn(5), fragments: r.Intn(3) > 0, abstractFrag: r.Intn(4) == 0, aliases: true, recurAlias: r.Intn(3) == 0,
			typename: true, args: true, variables: r.Intn(2) == 0, safeStrings: true, dupFields: r.Intn(3) == 0}
		q, vars, doc := genValidQuery(r, env.gw.es.MergedSchema, qo)
		if doc == nil {
			return fmt.Errorf("no valid query for %s", env.fx.Name)
		}
		run, err := env.run(q, vars, nil)
		if err != nil {
			return err
		}
		w.add(name, emitE2ECase(env, run, e2eCaseOpts{max: 50, conforming: true}))
		in := map[string]interface{}{"fixture": env.fx.Name, "query": q, "variables": vars, "gateway_data": fmt.Sprint(run.Resp.Data), "gateway_errors": errorSummary(run.Resp.Errors)}
		sum.CaseInputs[name] = in
		if len(sum.Samples) < 4 {
			sum.Samples = append(sum.Samples, in)
		}
		fv := featureVector(run)
		sum.Features[env.fx.Name]++
		sum.Features[fv]++
		if strings.Contains(fv, "svcs=1 ") && !strings.Contains(q, "...") {
			continue
		}
		distinct[fv+q] = true
	}
	files, err := w.flush()
	if err != nil {
		return err
	}
	sum.Cases, sum.Files, sum.Nontrivial = len(w.cases), files, len(distinct)
	return writeSummary(cfg.out, sum)
}
