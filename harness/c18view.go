package main

// C18, third clause — the schema view derived from a permission set (OperationPermissions.FilterSchema) on merged
// schemas with cycles, abstract types and input types, for random permission trees.

import (
	"encoding/json"
	"fmt"
	"math/rand"
	"sort"
	"strings"

	"github.com/movio/bramble"
	"github.com/vektah/gqlparser/v2"
	"github.com/vektah/gqlparser/v2/ast"
)

func init() { props["c18view"] = runC18View }

func cVSrc(s *ast.Schema) string {
	var types []string
	for _, tn := range sortedKeys(s.Types) {
		t := s.Types[tn]
		var fields []string
		for _, f := range t.Fields {
			var args []string
			for _, a := range f.Arguments {
				args = append(args, cstr(a.Type.Name()))
			}
			fields = append(fields, "{| vf_name := "+cstr(f.Name)+"; vf_type := "+cstr(f.Type.Name())+"; vf_args := "+clist(args)+" |}")
		}
		var poss []string
		for _, pt := range s.PossibleTypes[tn] {
			poss = append(poss, cstr(pt.Name))
		}
		types = append(types, "{| vt_name := "+cstr(tn)+"; vt_abstract := "+cbool(t.IsAbstractType())+"; vt_fields := "+clist(fields)+"; vt_possible := "+clist(poss)+" |}")
	}
	root := func(d *ast.Definition) string {
		if d == nil {
			return "None"
		}
		return "(Some " + cstr(d.Name) + ")"
	}
	var dirargs []string
	for _, dn := range sortedKeys(s.Directives) {
		for _, a := range s.Directives[dn].Arguments {
			dirargs = append(dirargs, a.Type.Name())
		}
	}
	return "{| v_types := " + clist(types) + "; v_query := " + root(s.Query) + "; v_mutation := " + root(s.Mutation) + "; v_subscription := " + root(s.Subscription) +
		"; v_dirargs := " + cstrlist(dirargs) + " |}"
}

func cTMap(s *ast.Schema) string {
	var items []string
	for _, tn := range sortedKeys(s.Types) {
		var fs []string
		if t := s.Types[tn]; t != nil {
			for _, f := range t.Fields {
				fs = append(fs, cstr(f.Name))
			}
		}
		items = append(items, cpair(cstr(tn), clist(fs)))
	}
	return clist(items)
}

// a permission tree that deliberately mixes the forms along different paths to the same types
func genViewPerm(r *rand.Rand, s *ast.Schema, def *ast.Definition, depth int) bramble.AllowedFields {
	if def == nil {
		return bramble.AllowedFields{}
	}
	if depth == 0 || r.Intn(6) == 0 {
		return bramble.AllowedFields{AllowAll: true}
	}
	m := map[string]bramble.AllowedFields{}
	fields := append(ast.FieldList{}, def.Fields...)
	sort.Slice(fields, func(i, j int) bool { return fields[i].Name < fields[j].Name })
	for _, f := range fields {
		if strings.HasPrefix(f.Name, "__") || r.Intn(3) == 0 {
			continue
		}
		ft := s.Types[f.Type.Name()]
		switch {
		case ft == nil || !ft.IsCompositeType():
			if r.Intn(4) == 0 {
				m[f.Name] = bramble.AllowedFields{AllowedSubfields: map[string]bramble.AllowedFields{}}
			} else {
				m[f.Name] = bramble.AllowedFields{AllowAll: true}
			}
		case ft.IsAbstractType():
			sub := bramble.AllowedFields{AllowAll: r.Intn(3) == 0}
			if !sub.AllowAll {
				sub.AllowedSubfields = map[string]bramble.AllowedFields{}
				for _, ptn := range sortedDefNames(s.PossibleTypes[ft.Name]) {
					for k, v := range genViewPerm(r, s, s.Types[ptn], depth-1).AllowedSubfields {
						sub.AllowedSubfields[k] = v
					}
					if len(sub.AllowedSubfields) == 0 { // members at the depth limit: still a proper part of them
						for _, mf := range s.Types[ptn].Fields {
							if !strings.HasPrefix(mf.Name, "__") && r.Intn(2) == 0 {
								sub.AllowedSubfields[mf.Name] = bramble.AllowedFields{AllowAll: true}
							}
						}
					}
				}
				if ks := sortedKeys(sub.AllowedSubfields); len(ks) > 1 && r.Intn(2) == 0 {
					delete(sub.AllowedSubfields, ks[r.Intn(len(ks))]) // some member loses a field the others may keep
				}
			}
			m[f.Name] = sub
		default:
			m[f.Name] = genViewPerm(r, s, ft, depth-1)
		}
	}
	return bramble.AllowedFields{AllowedSubfields: m}
}

func runC18View(cfg runCfg) error {
	sum := &summary{Property: "C18", Seed: cfg.seed, Features: map[string]int{}, CaseInputs: map[string]interface{}{},
		Rule: "merged schemas of the three fixtures and of random federations (cycles, interface and union with boundary and plain members, enums, input types, namespaces, Mutation) x random permission trees over Query and Mutation that mix allow-all, list, nested and empty forms along different paths to the same types (depth 1-4); observed: the type and field names of OperationPermissions.FilterSchema; non-trivial = the view is a proper, non-empty part of the schema"}
	w := &caseWriter{dir: cfg.out, shard: 60, check: "check_view_case", imports: "From V Require Import Base.Util Model.Perm Model.View Corr.ViewCheck."}
	var schemas []*ast.Schema
	var names []string
	for _, fx := range fixtures {
		fed, err := splitFederation(fx.SDL)
		if err != nil {
			return err
		}
		var ss []*ast.Schema
		for _, s := range fed.Services {
			ss = append(ss, s.Schema)
		}
		m, err := bramble.MergeSchemas(ss...)
		if err != nil {
			return fmt.Errorf("fixture %s: %v", fx.Name, err)
		}
		schemas, names = append(schemas, m), append(names, fx.Name)
	}
	distinct := map[string]bool{}
	for ci := 0; ci < cfg.n; ci++ {
		r := rand.New(rand.NewSource(cfg.seed*1000003 + int64(ci)*7919 + 18))
		name := fmt.Sprintf("c18view-%d-%d", cfg.seed, ci)
		var schema *ast.Schema
		sname := ""
		if r.Intn(2) == 0 {
			k := r.Intn(len(schemas))
			schema, sname = schemas[k], names[k]
		} else {
			for try := 0; try < 20 && schema == nil; try++ {
				gf := genFederationSDL(r)
				fed, err := splitFederation(gf.SDL)
				if err != nil {
					continue
				}
				var ss []*ast.Schema
				ok := true
				for _, s := range fed.Services {
					sch, gerr := gqlparser.LoadSchema(&ast.Source{Name: s.Name, Input: s.SDL})
					if gerr != nil {
						ok = false
						break
					}
					ss = append(ss, sch)
				}
				if !ok {
					continue
				}
				if m, err := bramble.MergeSchemas(ss...); err == nil {
					schema, sname = m, "generated"
				}
			}
			if schema == nil {
				k := r.Intn(len(schemas))
				schema, sname = schemas[k], names[k]
			}
		}
		perms := bramble.OperationPermissions{AllowedRootQueryFields: genViewPerm(r, schema, schema.Query, 1+r.Intn(4))}
		if schema.Mutation != nil && r.Intn(2) == 0 {
			perms.AllowedRootMutationFields = genViewPerm(r, schema, schema.Mutation, 1+r.Intn(3))
		}
		before := cTMap(schema)
		view := perms.FilterSchema(schema)
		if after := cTMap(schema); after != before { // the shared merged schema must not change (C12 relies on it)
			sum.GoOracle = append(sum.GoOracle, oracleResult{Case: name, Component: "prop.c18.source_schema_untouched", OK: false,
				Detail: "FilterSchema changed the field lists of the shared schema"})
		} else {
			sum.GoOracle = append(sum.GoOracle, oracleResult{Case: name, Component: "prop.c18.source_schema_untouched", OK: true})
		}
		w.add(name, "{| vc_src := "+cVSrc(schema)+"; vc_perm := "+afTermFromOperm(perms)+"; vc_obs := "+cTMap(view)+" |}")
		pb, _ := json.Marshal(perms)
		in := map[string]interface{}{"schema": sname, "schema_sdl": schemaSDL(schema), "permissions": string(pb)}
		// the other side of the clause, on the real filter: probe operations along the permission tree, with response keys
		// that are the names of granted siblings, other fields' names or fresh names
		okVisible, okKeys, dVisible, dKeys := true, true, "", ""
		var probes []string
		for k := 0; k < 6; k++ {
			root, af, kind := schema.Query, perms.AllowedRootQueryFields, ast.Query
			if schema.Mutation != nil && len(perms.AllowedRootMutationFields.AllowedSubfields) > 0 && k%3 == 2 {
				root, af, kind = schema.Mutation, perms.AllowedRootMutationFields, ast.Mutation
			}
			pr := rand.New(rand.NewSource(r.Int63()))
			seed := pr.Int63()
			build := func(keys bool) *ast.OperationDefinition {
				return &ast.OperationDefinition{Operation: kind, SelectionSet: genProbe(rand.New(rand.NewSource(seed)), schema, root, af, 1+k%3, keys)}
			}
			op, plain := build(true), build(false)
			text := string(kind) + " " + printProbe(op.SelectionSet)
			probes = append(probes, text)
			before := map[*ast.Field]int{}
			countNodes(op.SelectionSet, before)
			perms.FilterAuthorizedFields(op)
			perms.FilterAuthorizedFields(plain)
			after := map[*ast.Field]int{}
			countNodes(op.SelectionSet, after)
			sum.Features["probe_fields_removed"] += len(before) - len(after)
			for f, n := range after {
				if n != before[f] || strings.HasPrefix(f.Name, "__") {
					continue
				}
				sum.Features["probe_fields_left_intact"]++
				if f.Alias != f.Name {
					sum.Features["probe_fields_left_intact_under_another_key"]++
				}
				vt := view.Types[f.ObjectDefinition.Name]
				if vt == nil || vt.Fields.ForName(f.Name) == nil {
					okVisible = false
					dVisible = fmt.Sprintf("filtering leaves %s.%s (selected as %q) and everything under it in place in %s, but the view does not show that field", f.ObjectDefinition.Name, f.Name, f.Alias, text)
				}
			}
			if a, b := namesOnly(op.SelectionSet), namesOnly(plain.SelectionSet); a != b {
				okKeys = false
				dKeys = fmt.Sprintf("%s is filtered to %s, the same operation without aliases to %s", text, a, b)
			}
		}
		in["probe_operations"] = probes
		sum.GoOracle = append(sum.GoOracle, oracleResult{Case: name, Component: "prop.c18.fields_left_intact_are_visible", OK: okVisible, Detail: dVisible},
			oracleResult{Case: name, Component: "prop.c18.filtering_ignores_response_keys", OK: okKeys, Detail: dKeys})
		sum.CaseInputs[name] = in
		if len(sum.Samples) < 3 {
			sum.Samples = append(sum.Samples, map[string]interface{}{"schema": sname, "permissions": string(pb)})
		}
		sum.Features["schema_"+sname]++
		sum.Features[fmt.Sprintf("view_types_%s", bucket(len(view.Types)))]++
		if len(view.Types) > 1 && len(view.Types) < len(schema.Types) {
			distinct[sname+string(pb)] = true
		}
	}
	files, err := w.flush()
	if err != nil {
		return err
	}
	sum.Cases, sum.Files, sum.Nontrivial = len(w.cases), files, len(distinct)
	return writeSummary(cfg.out, sum)
}

// genProbe draws a fragment-free selection set over def that mostly follows the permission tree af; with keys, response keys
// are drawn from the names the tree grants at that level, the type's other field names, and fresh names.
func genProbe(r *rand.Rand, s *ast.Schema, def *ast.Definition, af bramble.AllowedFields, depth int, keys bool) ast.SelectionSet {
	var fields ast.FieldList
	for _, f := range def.Fields {
		if !strings.HasPrefix(f.Name, "__") {
			fields = append(fields, f)
		}
	}
	tn := &ast.Field{Alias: "__typename", Name: "__typename", ObjectDefinition: def}
	if len(fields) == 0 {
		return ast.SelectionSet{tn}
	}
	granted := sortedKeys(af.AllowedSubfields)
	var out ast.SelectionSet
	for k, n := 0, 1+r.Intn(3); k < n; k++ {
		f := fields[r.Intn(len(fields))]
		if len(granted) > 0 && !af.AllowAll && r.Intn(3) > 0 {
			if g := def.Fields.ForName(granted[r.Intn(len(granted))]); g != nil {
				f = g
			}
		}
		alias := f.Name
		switch r.Intn(5) {
		case 0:
			if len(granted) > 0 {
				alias = granted[r.Intn(len(granted))]
			}
		case 1:
			alias = fields[r.Intn(len(fields))].Name
		case 2:
			alias = fmt.Sprintf("zz%d", r.Intn(3))
		}
		if !keys {
			alias = f.Name
		}
		fld := &ast.Field{Alias: alias, Name: f.Name, ObjectDefinition: def, Definition: f}
		if ft := s.Types[f.Type.Name()]; ft != nil && ft.IsCompositeType() {
			_, sub := af.IsAllowed(f.Name)
			if af.AllowAll {
				sub = af
			}
			if depth > 0 {
				fld.SelectionSet = genProbe(r, s, ft, sub, depth-1, keys)
			} else {
				fld.SelectionSet = ast.SelectionSet{&ast.Field{Alias: "__typename", Name: "__typename", ObjectDefinition: ft}}
			}
		}
		out = append(out, fld)
	}
	return out
}

func printProbe(ss ast.SelectionSet) string {
	var parts []string
	for _, s := range ss {
		f := s.(*ast.Field)
		t := f.Name
		if f.Alias != f.Name {
			t = f.Alias + ": " + f.Name
		}
		if f.SelectionSet != nil {
			t += " " + printProbe(f.SelectionSet)
		}
		parts = append(parts, t)
	}
	return "{ " + strings.Join(parts, " ") + " }"
}

// namesOnly: the selection set with schema names only (what was selected, not under which key).
func namesOnly(ss ast.SelectionSet) string {
	var parts []string
	for _, s := range ss {
		f := s.(*ast.Field)
		t := f.Name
		if f.SelectionSet != nil {
			t += " " + namesOnly(f.SelectionSet)
		}
		parts = append(parts, t)
	}
	return "{ " + strings.Join(parts, " ") + " }"
}

// countNodes records, for every field, the number of fields under it.
func countNodes(ss ast.SelectionSet, m map[*ast.Field]int) int {
	n := 0
	for _, s := range ss {
		f := s.(*ast.Field)
		c := countNodes(f.SelectionSet, m)
		m[f] = c
		n += 1 + c
	}
	return n
}
